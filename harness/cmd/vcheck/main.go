// vcheck is both the parent (judge) and the child (workload executor) of the verification
// harness.  "vcheck run <ID> <tier>" spawns "vcheck child ..." processes of the right build.
package main

import (
	"flag"
	"fmt"
	"os"
	"strconv"

	"github.com/rs/zerolog"

	"verifharness/internal/fw"
	_ "verifharness/internal/props"
)

func main() {
	if len(os.Args) < 2 {
		usage()
	}
	switch os.Args[1] {
	case "run":
		if len(os.Args) < 4 {
			usage()
		}
		os.Exit(fw.ParentMain(os.Args[2], os.Args[3], seed(), ""))
	case "replay":
		if len(os.Args) < 4 {
			usage()
		}
		os.Exit(fw.ParentMain(os.Args[2], "quick", seed(), os.Args[3]))
	case "list":
		for _, id := range fw.IDs() {
			p := fw.Lookup(id)
			fmt.Printf("%s race=%v level=%s\n", id, p.Race, p.Level)
		}
	case "israce":
		p := fw.Lookup(os.Args[2])
		if p != nil && p.Race {
			fmt.Println("yes")
		} else {
			fmt.Println("no")
		}
	case "child":
		child(os.Args[2:])
	default:
		usage()
	}
}

func usage() {
	fmt.Fprintln(os.Stderr, "usage: vcheck run <ID> <quick|thorough> | replay <ID> <path> | list")
	os.Exit(2)
}

func seed() uint64 {
	s := os.Getenv("VERIF_SEED")
	if s == "" {
		return 1
	}
	n, err := strconv.ParseInt(s, 10, 64)
	if err != nil {
		return 1
	}
	return uint64(n)
}

func child(args []string) {
	fs := flag.NewFlagSet("child", flag.ExitOnError)
	prop := fs.String("prop", "", "")
	tier := fs.String("tier", "quick", "")
	sd := fs.Uint64("seed", 1, "")
	batch := fs.Int("batch", 0, "")
	nbatch := fs.Int("nbatch", 1, "")
	only := fs.String("only", "", "")
	after := fs.String("after", "", "")
	scratch := fs.String("scratch", "", "")
	out := fs.String("out", "", "")
	journal := fs.String("journal", "", "")
	_ = fs.Parse(args)
	p := fw.Lookup(*prop)
	if p == nil {
		fmt.Fprintln(os.Stderr, "unknown property", *prop)
		os.Exit(2)
	}
	if os.Getenv("VERIF_SUT_LOG") == "" {
		zerolog.SetGlobalLevel(zerolog.Disabled)
	}
	c, err := fw.NewCtx(*prop, *tier, *sd, *batch, *nbatch, *only, *scratch, *out, *journal)
	if err != nil {
		fmt.Fprintln(os.Stderr, "HARNESS:", err)
		os.Exit(3)
	}
	c.After = *after
	p.Run(c)
	c.Flush(true)
}
