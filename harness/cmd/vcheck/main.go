// vcheck is both the parent (judge) and the child (workload executor) of the verification
// harness.  "vcheck run <ID> <tier>" spawns "vcheck child ..." processes of the right build.
package main

import (
	"flag"
	"fmt"
	"os"
	"runtime"
	"strconv"
	"strings"
	"time"

	"github.com/rs/zerolog"

	"verifharness/internal/fw"
	_ "verifharness/internal/props"
)

func main() {
	if len(os.Args) < 2 {
		usage()
	}
	switch os.Args[1] {
	case "run":
		if len(os.Args) < 4 {
			usage()
		}
		os.Exit(fw.ParentMain(os.Args[2], os.Args[3], seed(), ""))
	case "replay":
		if len(os.Args) < 4 {
			usage()
		}
		os.Exit(fw.ParentMain(os.Args[2], "quick", seed(), os.Args[3]))
	case "list":
		for _, id := range fw.IDs() {
			p := fw.Lookup(id)
			fmt.Printf("%s race=%v level=%s\n", id, p.Race, p.Level)
		}
	case "israce":
		p := fw.Lookup(os.Args[2])
		if p != nil && p.Race {
			fmt.Println("yes")
		} else {
			fmt.Println("no")
		}
	case "child":
		child(os.Args[2:])
	default:
		usage()
	}
}

func usage() {
	fmt.Fprintln(os.Stderr, "usage: vcheck run <ID> <quick|thorough> | replay <ID> <path> | list")
	os.Exit(2)
}

// memoryWatchdog ends a child whose resident set grows beyond a generous bound (default 6 GiB,
// VERIF_CHILD_MAXRSS_MB overrides), so that a runaway case cannot starve the machine.  The parent
// reports the dead child as broken (or as a crash of the open case if inbucket frames are on top).
func memoryWatchdog(c *fw.Ctx) {
	limit := int64(6144)
	if s := os.Getenv("VERIF_CHILD_MAXRSS_MB"); s != "" {
		if n, err := strconv.ParseInt(s, 10, 64); err == nil && n > 0 {
			limit = n
		}
	}
	for {
		time.Sleep(500 * time.Millisecond)
		b, err := os.ReadFile("/proc/self/statm")
		if err != nil {
			return
		}
		f := strings.Fields(string(b))
		if len(f) < 2 {
			return
		}
		pages, _ := strconv.ParseInt(f[1], 10, 64)
		if mb := pages * int64(os.Getpagesize()) >> 20; mb > limit {
			fmt.Fprintf(os.Stderr, "HARNESS: resident set %d MiB exceeds %d MiB in case %q; giving up\n", mb, limit, c.CurCase())
			buf := make([]byte, 1<<16)
			n := runtime.Stack(buf, true)
			os.Stderr.Write(buf[:n])
			os.Exit(4)
		}
	}
}

func seed() uint64 {
	s := os.Getenv("VERIF_SEED")
	if s == "" {
		return 1
	}
	n, err := strconv.ParseInt(s, 10, 64)
	if err != nil {
		return 1
	}
	return uint64(n)
}

func child(args []string) {
	fs := flag.NewFlagSet("child", flag.ExitOnError)
	prop := fs.String("prop", "", "")
	tier := fs.String("tier", "quick", "")
	sd := fs.Uint64("seed", 1, "")
	batch := fs.Int("batch", 0, "")
	nbatch := fs.Int("nbatch", 1, "")
	only := fs.String("only", "", "")
	after := fs.String("after", "", "")
	scratch := fs.String("scratch", "", "")
	out := fs.String("out", "", "")
	journal := fs.String("journal", "", "")
	_ = fs.Parse(args)
	p := fw.Lookup(*prop)
	if p == nil {
		fmt.Fprintln(os.Stderr, "unknown property", *prop)
		os.Exit(2)
	}
	if os.Getenv("VERIF_SUT_LOG") == "" {
		zerolog.SetGlobalLevel(zerolog.Disabled)
	}
	c, err := fw.NewCtx(*prop, *tier, *sd, *batch, *nbatch, *only, *scratch, *out, *journal)
	if err != nil {
		fmt.Fprintln(os.Stderr, "HARNESS:", err)
		os.Exit(3)
	}
	c.After = *after
	go memoryWatchdog(c)
	p.Run(c)
	c.Flush(true)
}
