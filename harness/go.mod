module verifharness

go 1.21

require (
	github.com/anishathalye/porcupine v1.3.0
	github.com/gorilla/mux v1.8.1
	github.com/gorilla/websocket v1.5.3
	github.com/inbucket/inbucket/v3 v3.0.0
	github.com/rs/zerolog v1.33.0
	github.com/yuin/gopher-lua v1.1.1
	golang.org/x/net v0.29.0
)

require (
	github.com/aymerick/douceur v0.2.0 // indirect
	github.com/cention-sany/utf7 v0.0.0-20170124080048-26cad61bd60a // indirect
	github.com/cjoudrey/gluahttp v0.0.0-20201111170219-25003d9adfa9 // indirect
	github.com/cosmotek/loguago v1.0.0 // indirect
	github.com/gogs/chardet v0.0.0-20211120154057-b7413eaefb8f // indirect
	github.com/gorilla/css v1.0.1 // indirect
	github.com/inbucket/gopher-json v0.2.0 // indirect
	github.com/jaytaylor/html2text v0.0.0-20230321000545-74c2419ad056 // indirect
	github.com/jhillyerd/enmime/v2 v2.0.0 // indirect
	github.com/kelseyhightower/envconfig v1.4.0 // indirect
	github.com/mattn/go-colorable v0.1.13 // indirect
	github.com/mattn/go-isatty v0.0.20 // indirect
	github.com/mattn/go-runewidth v0.0.16 // indirect
	github.com/microcosm-cc/bluemonday v1.0.27 // indirect
	github.com/mitchellh/mapstructure v1.5.0 // indirect
	github.com/olekukonko/tablewriter v0.0.5 // indirect
	github.com/pkg/errors v0.9.1 // indirect
	github.com/rivo/uniseg v0.4.7 // indirect
	github.com/ssor/bom v0.0.0-20170718123548-6386211fdfcf // indirect
	github.com/yuin/gluamapper v0.0.0-20150323120927-d836955830e7 // indirect
	golang.org/x/sys v0.25.0 // indirect
	golang.org/x/text v0.18.0 // indirect
)

replace github.com/inbucket/inbucket/v3 => /repo
