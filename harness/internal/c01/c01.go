// Package c01 decides C01: accepted mail is stored exactly once per accepted recipient, and
// only then.  Real SMTP sessions (QConn -> startSession -> StoreManager -> real store) are driven
// with generated multi-transaction dialogues; after every transaction the complete store is
// snapshotted and compared with a reference model computed from the observed replies.
package c01

import (
	"fmt"
	"runtime"
	"sort"
	"strings"
	"time"

	"github.com/inbucket/inbucket/v3/pkg/config"

	"verifharness/internal/fw"
	"verifharness/internal/gen"
	"verifharness/internal/sut"
)

func init() {
	fw.Register(&fw.Prop{
		ID:    "C01",
		Level: "exploration",
		Rule: "SMTP sessions of 1-5 transactions generated from (seed, case index) over naming{local,full,domain} x " +
			"default-store{t,f} x backend{mem,file} (all 12 combinations occur) with generated store/discard/accept/reject lists (empty, all domains, " +
			"a domain on both the store and the discard list, on the reject and the store list, mixed-case entries; written to INBUCKET_SMTP_* and loaded by config.Process(); " +
			"expected storage = the documented rule on the lists as written) and recipient limit; " +
			"recipients built from parts (plain, +ext, mixed case, specials, quoted, source routes, IP literals, invalid, duplicates, " +
			"aliases of one mailbox); endings DATA/RSET/EHLO/second MAIL/QUIT/abrupt close/oversized DATA refused under a small size limit; plus rounds of 2-6 concurrent sessions delivering to 1-3 shared mailboxes; plus multi-recipient transactions while the mailbox of one or two recipients (any position in the list) cannot be written " +
			"(file store: index.gob unreadable in six ways, a regular file where a hash directory must be created, index.gob.tmp blocked; memory store with maxkb: only the short-named recipient's copy fits), " +
			"where a reply of 250 is judged strictly (every accepted storable recipient holds exactly one copy) and the copies left behind by a refused transaction are counted, not judged; plus sequential rounds in which another interface works on OTHER messages of the mailbox while deliveries to it are acknowledged " +
			"(a POP3 session: login, UIDL, DELE of all/some/one/none of the messages it was shown, then QUIT, RSET+QUIT or a dropped connection; or a by-id removal through the message manager of ids listed earlier): every acknowledged message that party never named is in the mailbox exactly once afterwards. Oracle: full store snapshot delta after " +
			"every transaction vs reference model over observed replies. A case is non-trivial and distinct by (config combo, sorted " +
			"multiset of recipient classes with accept/store outcome, ending) when >=1 message was stored or >=1 accepted recipient was deliberately not stored.",
		Assumptions: []string{
			"sessions are served through VerifServeConn (the real startSession) on an in-memory net.Conn; TCP/TLS transport is not part of the property",
			"which RCPTs are accepted is observed, not predicted (C05 decides that)",
			"for k byte-identical duplicate RCPTs any stored count in 1..k is accepted",
			"no extension is installed (redirects are C17)",
			"policy lists are loaded through config.Process() from the process environment, one configuration after another in one child process",
			"fault stream: storage faults are injected by tampering with the file store's directory between transactions (never during one), or arise from the memory store's size limit; under such a fault only the implication from a 250 reply is judged - what a refused (451) transaction leaves in the other recipients' mailboxes is outside the statement's quantifier and only counted",
			"xiface stream: whether a message the POP3 session / the manager call NAMED is really gone afterwards is not judged here (C13), only counted; a POP3 dialogue that cannot be used (no greeting, login refused, UIDL unusable) is counted and the round is not judged",
			"fault stream, memory store: exactly one recipient's copy fits the size limit (checked by observation, else the round is not judged), so eviction by the size limit - which C01 does not quantify over - cannot explain a missing copy",
		},
		MinObs: func(tier string) map[string]int64 {
			m := map[string]int64{"messages_stored": 100, "accepted_not_stored": 10, "transactions_aborted": 50,
				// policy corners (after C01-7): accepted recipients of a domain on both lists, verified stored
				// (default-store false) and verified not stored (default-store true)
				"policy_overlap_rcpt_stored": 100, "policy_overlap_rcpt_not_stored": 100,
				"policy_sessions_with_empty_list": 50, "policy_sessions_with_mixed_case_entry": 100,
				// storage faults (after C01-8)
				"fault_rounds": 150, "fault_partial_rounds": 100, "fault_victim_before_healthy_rcpt": 50}
			for _, k := range faultKinds {
				m["fault_kind:"+k] = 10
			}
			// another interface removing OTHER messages of the mailbox (after C01-13, xiface.go)
			xifaceMinObs(m)
			for _, n := range namings {
				for _, st := range []string{"true", "false"} {
					for _, b := range []string{"mem", "file"} {
						m["combo:"+n+"/"+st+"/"+b] = 1
					}
				}
			}
			return m
		},
		Run: run,
	})
}

type txMsg struct {
	headerFrom, headerTo, subject string
	body                          string
	raw                           []byte
}

type expMsg struct {
	from, subject string
	to            []string // bare addresses
	rawSuffix     string
}

func run(c *fw.Ctx) {
	n := c.N(4000, 120000)
	c.Cases("session", n, func(i int, r *fw.Rand) {
		runSession(c, i, r)
	})
	c.Cases("concurrent", c.N(240, 6000), func(i int, r *fw.Rand) {
		runConcurrent(c, i, r)
	})
	// Multi-recipient transactions with an unwritable mailbox (fault.go, added after seeded
	// change C01-8).
	c.Cases("fault", c.N(300, 6000), func(i int, r *fw.Rand) {
		runFault(c, i, r)
	})
	// A POP3 session / a by-id removal through the manager working on OTHER messages of the mailbox
	// while deliveries to it are acknowledged (xiface.go, added after seeded change C01-13).
	c.Cases("xiface", c.N(400, 8000), func(i int, r *fw.Rand) {
		runXIface(c, i, r)
	})
}

// runConcurrent lets several SMTP sessions deliver at the same time, mostly to the same few
// mailboxes; afterwards every mailbox must hold exactly one message per acknowledged,
// storable recipient, each carrying the subject of its own transaction.
func runConcurrent(c *fw.Ctx, idx int, r *fw.Rand) {
	conf := sut.DefaultConf()
	backend := []string{"mem", "file"}[idx%2]
	if backend == "file" {
		conf.Storage.Type = "file"
		conf.Storage.Params = map[string]string{"path": c.TempDir("c01cc")}
	}
	env, err := sut.NewEnv(conf, backend)
	if err != nil {
		panic(err)
	}
	nsess := r.Range(2, 6)
	boxes := []string{"shared", "other", "third"}[:r.Range(1, 3)]
	// In two rounds of three another party empties the mailboxes while the sessions deliver
	// (added after seeded change C01-9): it lists, removes every message it saw by id and keeps
	// the subjects of those it removed.  An acknowledged copy is then either in the mailbox at the
	// end or among the removed ones - "gains exactly one new message" does not become "unless
	// somebody was deleting at that moment".
	withRemover := idx%3 != 0
	maxTx := 3
	if withRemover {
		// many short transactions into few, mostly empty mailboxes: the interesting moment is a
		// delivery arriving while the other party takes the mailbox's last message out
		maxTx = 30
		nsess = r.Range(3, 8)
		if r.Bool() {
			boxes = boxes[:1]
		}
	}
	type tx struct {
		subject string
		rcpts   []string
	}
	plans := make([][]tx, nsess)
	for si := range plans {
		for t, nt := 0, r.Range(1, maxTx); t < nt; t++ {
			x := tx{subject: fmt.Sprintf("cc-%d-%d-%d", idx, si, t)}
			for k := 0; k < r.Range(1, 3); k++ {
				x.rcpts = append(x.rcpts, r.Pick(boxes)+"@alpha.test")
			}
			plans[si] = append(plans[si], x)
		}
	}
	type result struct {
		acked []tx
		err   string
	}
	results := make([]result, nsess)
	done := make(chan int, nsess)
	start := make(chan struct{})
	for si := 0; si < nsess; si++ {
		go func(si int) {
			defer func() { done <- si }()
			ss := env.StartSMTP()
			defer ss.Close()
			<-start
			if _, err := ss.Greet(); err != nil {
				results[si].err = err.Error()
				return
			}
			if _, err := ss.Cmd("EHLO cc.test"); err != nil {
				results[si].err = err.Error()
				return
			}
			for _, x := range plans[si] {
				if rep, err := ss.Cmd("MAIL FROM:<s@sender.test>"); err != nil {
					results[si].err = err.Error()
					return
				} else if rep.Code != 250 {
					results[si].err = fmt.Sprintf("MAIL refused: %v", rep)
					return
				}
				var ok []string
				for _, a := range x.rcpts {
					rep, err := ss.Cmd("RCPT TO:<" + a + ">")
					if err != nil {
						results[si].err = err.Error()
						return
					}
					if rep.Code == 250 {
						ok = append(ok, a)
					}
				}
				if rep, err := ss.Cmd("DATA"); err != nil {
					results[si].err = err.Error()
					return
				} else if rep.Code != 354 {
					results[si].err = fmt.Sprintf("DATA refused: %v", rep)
					return
				}
				body := sut.DotStuff([]byte("Subject: " + x.subject + "\r\n\r\nbody\r\n"))
				rep, err := ss.Cmd(string(body[:len(body)-2]))
				if err != nil {
					results[si].err = err.Error()
					return
				}
				if rep.Code == 250 {
					results[si].acked = append(results[si].acked, tx{x.subject, ok})
				}
			}
		}(si)
	}
	removed := map[string]map[string]int{} // mailbox -> subject -> copies the remover took out
	stopRemover := make(chan struct{})
	removerDone := make(chan struct{})
	removerErr := ""
	if withRemover {
		go func() {
			defer close(removerDone)
			sweep := func() {
				for _, mb := range boxes {
					ms, err := env.Store.GetMessages(mb)
					if err != nil {
						removerErr = fmt.Sprintf("GetMessages(%q): %v", mb, err)
						return
					}
					for _, m := range ms {
						subj := m.Subject()
						if err := env.Store.RemoveMessage(mb, m.ID()); err == nil {
							if removed[mb] == nil {
								removed[mb] = map[string]int{}
							}
							removed[mb][subj]++
						}
					}
				}
			}
			for {
				select {
				case <-stopRemover:
					return
				default:
				}
				sweep()
				runtime.Gosched()
			}
		}()
	} else {
		close(removerDone)
	}
	okAll, dump := c.Within(90*time.Second, func() {
		close(start)
		for i := 0; i < nsess; i++ {
			<-done
		}
		close(stopRemover)
		<-removerDone
	})
	if !okAll {
		c.Hang("concurrent-sessions", "concurrent SMTP sessions did not finish", dump)
		return
	}
	want := map[string]map[string]int{} // mailbox -> subject -> copies owed (distinct recipient strings)
	total := 0
	for si, res := range results {
		if strings.HasPrefix(res.err, "watchdog:") {
			c.Hang("smtp-session-idle", res.err, "")
			return
		}
		if res.err != "" {
			c.Violation("C01:concurrent-session-failed", fmt.Sprintf("session %d: %s", si, res.err), nil)
			return
		}
		for _, x := range res.acked {
			seen := map[string]bool{}
			for _, a := range x.rcpts {
				if seen[a] {
					continue // duplicates may be stored once or twice; only demand one
				}
				seen[a] = true
				mb := strings.SplitN(a, "@", 2)[0]
				if want[mb] == nil {
					want[mb] = map[string]int{}
				}
				want[mb][x.subject]++
				total++
			}
		}
	}
	if removerErr != "" {
		c.Violation("C01:store-unreadable", "the removing party: "+removerErr, nil)
		return
	}
	snap, err := sut.Snapshot(env.Store, boxes, false)
	if err != nil {
		c.Violation("C01:store-unreadable", err.Error(), nil)
		return
	}
	for _, mb := range boxes {
		have := map[string]int{}
		for _, m := range snap[mb] {
			have[m.Subject]++
		}
		for subj, n := range want[mb] {
			if have[subj]+removed[mb][subj] < n {
				c.Violation("C01:concurrent-delivery-lost", fmt.Sprintf("%s backend, %d sessions: mailbox %q holds %d copies of %q and %d were removed by the other party, at least %d acknowledged (mailbox has %d messages)",
					backend, nsess, mb, have[subj], subj, removed[mb][subj], n, len(snap[mb])), map[string]any{"plans": fmt.Sprint(plans), "with_remover": withRemover})
				return
			}
			c.Count("concurrent_copies_removed_by_other_party", int64(removed[mb][subj]))
		}
		for subj := range have {
			if want[mb][subj] == 0 {
				c.Violation("C01:concurrent-unexpected-message", fmt.Sprintf("mailbox %q holds a message %q nobody was acknowledged for", mb, subj), nil)
				return
			}
		}
	}
	c.Count("concurrent_rounds", 1)
	c.Count("messages_stored", int64(total))
	if total > 0 {
		c.NonTrivial(fmt.Sprintf("concurrent|%s|%d|%d", backend, nsess, len(boxes)))
	}
}

var namings = []string{"local", "full", "domain"}

func runSession(c *fw.Ctx, idx int, r *fw.Rand) {
	conf := sut.DefaultConf()
	naming := namings[idx%3]
	defStore := (idx/3)%2 == 0
	backend := []string{"mem", "file"}[(idx/6)%2]
	switch naming {
	case "local":
		conf.MailboxNaming = config.LocalNaming
	case "full":
		conf.MailboxNaming = config.FullNaming
	case "domain":
		conf.MailboxNaming = config.DomainNaming
	}
	// Store/discard and accept/reject lists: generated per session from a random stream of their
	// own and loaded through config.Process() (policy.go, added after seeded change C01-7).
	pr := c.Rand("session-policy", idx)
	pol := genPolicy(pr, defStore, r.Chance(3, 4))
	pol.load(pr, conf)
	conf.SMTP.MaxRecipients = []int{2, 5, 50}[r.Intn(3)]
	if r.Chance(1, 3) {
		conf.SMTP.MaxMessageBytes = 3000 // makes the "oversize" ending a refused transaction
	}
	if backend == "file" {
		conf.Storage.Type = "file"
		conf.Storage.Params = map[string]string{"path": c.TempDir("c01fs")}
	}
	combo := fmt.Sprintf("%s/%v/%s", naming, defStore, backend)
	c.Count("combo:"+combo, 1)
	c.Count("policy_sessions:"+pol.shape, 1)
	if pol.emptyList {
		c.Count("policy_sessions_with_empty_list", 1)
	}
	if pol.mixedCase {
		c.Count("policy_sessions_with_mixed_case_entry", 1)
	}
	if pol.overlap {
		c.Count("policy_sessions_with_store_discard_overlap", 1)
	}
	env, err := sut.NewEnv(conf, backend)
	if err != nil {
		panic(err)
	}
	ss := env.StartSMTP()
	defer func() {
		if !ss.Ended() {
			if !ss.Close() {
				c.Hang("smtp-session-end", "SMTP session did not end after the client closed", "")
			}
		}
	}()
	fail := func(key, what string) {
		if strings.HasPrefix(what, "watchdog:") {
			// A fired watchdog is never a verdict by itself: bounded-progress rule.
			c.Hang("smtp-session-idle", what, "")
			return
		}
		c.Violation(key, what, map[string]any{"config": combo, "accept_default": conf.SMTP.DefaultAccept,
			"store_domains": pol.store, "discard_domains": pol.discard, "accept_domains": pol.accept, "reject_domains": pol.reject,
			"max_rcpt": conf.SMTP.MaxRecipients, "trace": ss.Trace})
	}
	if _, err := ss.Greet(); err != nil {
		fail("C01:no-greeting", err.Error())
		return
	}
	if rep, err := ss.Cmd("EHLO client.test"); err != nil {
		fail("C01:reply-shape", err.Error())
		return
	} else if rep.Code != 250 {
		fail("C01:ehlo", fmt.Sprintf("EHLO not acknowledged: %v", rep))
		return
	}
	model := map[string][]sut.MsgSnap{} // the store as the harness last saw it
	known := map[string]bool{}          // names the model ever expected
	ntx := r.Range(1, 5)
	sig := ""
	for t := 0; t < ntx; t++ {
		if ss.Ended() || ss.Q.ServerClosed() {
			break
		}
		if !runTx(c, r, env, pol, ss, naming, combo, model, known, &sig, fail) {
			break
		}
	}
	if sig != "" {
		c.NonTrivial(sig)
	}
	c.Sample(map[string]any{"config": combo, "trace_head": head(ss.Trace, 12)})
}

func head(t []sut.Exchange, n int) []sut.Exchange {
	if len(t) > n {
		return t[:n]
	}
	return t
}

// runTx plays one transaction; returns false when the session should stop (violation or end).
func runTx(c *fw.Ctx, r *fw.Rand, env *sut.Env, pol *policy, ss *sut.SMTPSession, naming, combo string,
	model map[string][]sut.MsgSnap, known map[string]bool, sig *string, fail func(key, what string)) bool {

	sender := gen.SimpleAddr(r, []string{"sender.test", "origin.example"})
	rep, err := ss.Cmd("MAIL FROM:<" + sender.Text + ">")
	if err != nil {
		fail("C01:reply-shape", err.Error())
		return false
	}
	if rep.Code != 250 {
		fail("C01:mail-refused", "plain MAIL FROM refused: "+rep.String())
		return false
	}
	// Recipients.
	nr := r.Range(1, 7)
	var accepted []gen.Addr
	var classes []string
	var pool []gen.Addr
	rejectListed := 0 // accepted although the domain is on the reject list (DefaultAccept=false: the list is inert)
	for k := 0; k < nr; k++ {
		var a gen.Addr
		switch {
		case len(pool) > 0 && r.Chance(1, 6):
			a = pool[r.Intn(len(pool))] // byte-identical duplicate
			a.Class = "dup"
		case len(pool) > 0 && r.Chance(1, 6):
			b := pool[r.Intn(len(pool))]
			if b.Simple && !strings.HasPrefix(b.Text, "@") {
				// alias of the same mailbox: other case and another extension
				a = b
				a.Local = gen.RandCase(r, b.Local)
				a.Ext = "alias" + r.Letters(2, "xyz")
				a.Text = a.Local + "+" + a.Ext + "@" + a.Domain
				a.Class = "alias"
			} else {
				a = gen.SimpleAddr(r, gen.Domains)
			}
		case r.Chance(1, 5):
			a = gen.ExoticAddr(r, gen.Domains)
		default:
			a = gen.SimpleAddr(r, gen.Domains)
		}
		pool = append(pool, a)
		rep, err := ss.Cmd("RCPT TO:<" + a.Text + ">")
		if err != nil {
			fail("C01:reply-shape", err.Error())
			return false
		}
		out := "refused"
		if rep.Code == 250 {
			accepted = append(accepted, a)
			out = "accepted"
		}
		// The store/discard corner of the domain (S, D, SD = on both lists, -) is part of the
		// recipient's class: a case is distinct by it.
		classes = append(classes, a.Class+":"+out+":"+pol.corner(a.Domain))
		if out == "accepted" && contains(pol.reject, a.Domain) {
			rejectListed++
		}
	}
	sort.Strings(classes)

	// Ending.
	ending := r.Weighted([]int{60, 8, 8, 6, 6, 6, 6, 10, 6})
	endName := []string{"data", "rset", "ehlo", "second-mail", "quit", "close", "data-no-rcpt-check", "oversize", "close-mid-data"}[ending]
	msg := genMessage(r)
	if ending == 7 {
		// Larger than the small limit some sessions run with: refused there (no RSET follows, the
		// next transaction must start clean on its own), an ordinary delivery elsewhere.
		msg.raw = append(msg.raw, []byte(strings.Repeat("0123456789abcdef0123456789abcde\r\n", 120))...)
	}
	expectStore := false
	switch ending {
	case 0, 6, 7:
		rep, err := ss.Cmd("DATA")
		if err != nil {
			fail("C01:reply-shape", err.Error())
			return false
		}
		if rep.Code == 354 {
			if len(accepted) == 0 {
				fail("C01:data-without-recipient", "DATA answered 354 with no accepted recipient")
				return false
			}
			rep, err = ss.Cmd(string(sut.DotStuff(msg.raw)[:len(sut.DotStuff(msg.raw))-2]))
			if err != nil {
				fail("C01:reply-shape", err.Error())
				return false
			}
			expectStore = rep.Code == 250
		} else {
			if len(accepted) > 0 {
				fail("C01:data-refused", "DATA refused with accepted recipients: "+rep.String())
				return false
			}
			// The transaction is still open; abandon it explicitly.
			if _, err := ss.Cmd("RSET"); err != nil {
				fail("C01:reply-shape", err.Error())
				return false
			}
		}
	case 8:
		// The client vanishes in the middle of the data block: never completed, nothing stored.
		rep, err := ss.Cmd("DATA")
		if err != nil {
			fail("C01:reply-shape", err.Error())
			return false
		}
		if rep.Code == 354 {
			stuffed := sut.DotStuff(msg.raw)
			cut := r.Intn(len(stuffed) - 3)
			ss.Q.Send(stuffed[:cut])
		}
		if !ss.Close() {
			c.Hang("smtp-session-end", "SMTP session did not end after the client closed mid-DATA", "")
			return false
		}
	case 1:
		if _, err := ss.Cmd("RSET"); err != nil {
			fail("C01:reply-shape", err.Error())
			return false
		}
	case 2:
		if _, err := ss.Cmd("EHLO again.test"); err != nil {
			fail("C01:reply-shape", err.Error())
			return false
		}
	case 3:
		// A second MAIL inside an open transaction is out of sequence; whatever the reply, the
		// transaction must then be abandoned explicitly so the next one starts clean.
		if _, err := ss.Cmd("MAIL FROM:<other@sender.test>"); err != nil {
			fail("C01:reply-shape", err.Error())
			return false
		}
		if _, err := ss.Cmd("RSET"); err != nil {
			fail("C01:reply-shape", err.Error())
			return false
		}
	case 4:
		if _, err := ss.Cmd("QUIT"); err != nil {
			fail("C01:reply-shape", err.Error())
			return false
		}
		if !ss.WaitEnd() {
			c.Hang("smtp-session-end", "SMTP session did not end after QUIT", "")
			return false
		}
	case 5:
		if !ss.Close() {
			c.Hang("smtp-session-end", "SMTP session did not end after the client closed", "")
			return false
		}
	}

	// Expected delta.
	type want struct{ min, max int }
	wants := map[string]*want{}
	var exp expMsg
	nonStored := 0
	overlapStored, overlapDiscarded := 0, 0 // accepted recipients whose domain is on both lists
	if expectStore {
		exp = expected(msg, sender, accepted)
		seen := map[string]bool{}
		for _, a := range accepted {
			if !pol.eligible(a.Domain) {
				nonStored++
				if pol.corner(a.Domain) == "SD" {
					overlapDiscarded++
				}
				continue
			}
			if pol.corner(a.Domain) == "SD" {
				overlapStored++
			}
			name := ""
			if a.Simple {
				name = gen.ModelName(naming, a.Local, a.Domain)
			} else {
				// exotic syntax: the name is taken from the server's own naming function (C04 decides naming)
				n2, err := env.Policy.ExtractMailbox(a.Text)
				if err != nil {
					fail("C01:accepted-unnameable", fmt.Sprintf("RCPT %q accepted but the naming function fails: %v", a.Text, err))
					return false
				}
				name = n2
			}
			w := wants[name]
			if w == nil {
				w = &want{}
				wants[name] = w
			}
			w.max++
			if !seen[a.Text] {
				seen[a.Text] = true
				w.min++
			}
		}
	} else {
		c.Count("transactions_aborted", 1)
	}
	for n := range wants {
		known[n] = true
	}
	var extra []string
	for n := range known {
		extra = append(extra, n)
	}
	sort.Strings(extra)
	snap, err := sut.Snapshot(env.Store, extra, true)
	if err != nil {
		fail("C01:store-unreadable", err.Error())
		return false
	}
	// Compare: every old message unchanged and in place; new ones only where wanted.
	names := map[string]bool{}
	for n := range snap {
		names[n] = true
	}
	for n := range model {
		names[n] = true
	}
	for n := range wants {
		names[n] = true
	}
	for n := range names {
		old, cur := model[n], snap[n]
		if len(cur) < len(old) {
			fail("C01:message-lost", fmt.Sprintf("mailbox %q had %d messages, now %d (ending %s)", n, len(old), len(cur), endName))
			return false
		}
		for i := range old {
			if !sameMsg(old[i], cur[i]) {
				fail("C01:existing-message-changed", fmt.Sprintf("mailbox %q message %d changed: %+v -> %+v", n, i, brief(old[i]), brief(cur[i])))
				return false
			}
		}
		added := cur[len(old):]
		w := wants[n]
		if w == nil {
			if len(added) > 0 {
				key := "C01:unexpected-message"
				if !expectStore {
					key = "C01:stored-without-acceptance"
				}
				fail(key, fmt.Sprintf("mailbox %q gained %d message(s) not owed to it (ending %s, accepted %v); first: %+v", n, len(added), endName, texts(accepted), brief(added[0])))
				return false
			}
			continue
		}
		if len(added) < w.min || len(added) > w.max {
			key := "C01:wrong-copy-count"
			if len(added) == 0 {
				key = "C01:accepted-recipient-not-stored"
			}
			fail(key, fmt.Sprintf("mailbox %q gained %d message(s), expected %d..%d (accepted %v)", n, len(added), w.min, w.max, texts(accepted)))
			return false
		}
		for _, m := range added {
			if what := checkNew(m, n, exp); what != "" {
				fail("C01:wrong-metadata", fmt.Sprintf("mailbox %q new message: %s", n, what))
				return false
			}
		}
		c.Count("messages_stored", int64(len(added)))
	}
	for n := range model {
		delete(model, n)
	}
	for n, l := range snap {
		model[n] = l
	}
	c.Count("accepted_not_stored", int64(nonStored))
	// Only counted here, after the delta comparison above has passed for this transaction.
	c.Count("policy_overlap_rcpt_stored", int64(overlapStored))
	c.Count("policy_overlap_rcpt_not_stored", int64(overlapDiscarded))
	c.Count("policy_reject_listed_rcpt_accepted", int64(rejectListed))
	c.Count("transactions", 1)
	if (expectStore && len(wants) > 0) || nonStored > 0 {
		*sig += combo + "|" + strings.Join(classes, ",") + "|" + endName + ";"
	}
	return ending != 4 && ending != 5 && ending != 8
}

func texts(as []gen.Addr) []string {
	var s []string
	for _, a := range as {
		s = append(s, a.Text)
	}
	return s
}

func brief(m sut.MsgSnap) map[string]any {
	return map[string]any{"id": m.ID, "from": m.From, "to": m.To, "subject": m.Subject, "size": m.Size, "srclen": len(m.Source)}
}

func sameMsg(a, b sut.MsgSnap) bool {
	return a.ID == b.ID && a.From == b.From && strings.Join(a.To, ",") == strings.Join(b.To, ",") &&
		a.Subject == b.Subject && a.Size == b.Size && a.Seen == b.Seen && a.Source == b.Source && a.Date.Equal(b.Date)
}

func genMessage(r *fw.Rand) txMsg {
	var m txMsg
	var b strings.Builder
	if r.Chance(2, 3) {
		m.headerFrom = r.Pick([]string{"hdr.from@hdr.test", "Someone Else <someone@else.test>"})
		b.WriteString("From: " + m.headerFrom + "\r\n")
	}
	if r.Chance(1, 2) {
		m.headerTo = r.Pick([]string{"listed@hdr.test", "A <a@hdr.test>, b@hdr.test"})
		b.WriteString("To: " + m.headerTo + "\r\n")
	}
	if r.Chance(3, 4) {
		m.subject = "subj " + r.Letters(r.Range(1, 20), "abcdefghij XYZ0123")
		m.subject = strings.TrimSpace(m.subject)
		b.WriteString("Subject: " + m.subject + "\r\n")
	}
	b.WriteString("X-Case: " + r.Letters(8, "0123456789abcdef") + "\r\n")
	b.WriteString("\r\n")
	lines := r.Range(0, 6)
	for i := 0; i < lines; i++ {
		b.WriteString(r.Letters(r.Range(0, 60), "abcdefghijklmnopqrstuvwxyz .,") + "\r\n")
	}
	m.raw = []byte(b.String())
	return m
}

func bareAddrs(list string) []string {
	var out []string
	for _, p := range strings.Split(list, ",") {
		p = strings.TrimSpace(p)
		if i := strings.IndexByte(p, '<'); i >= 0 {
			p = strings.TrimSuffix(p[i+1:], ">")
		}
		out = append(out, p)
	}
	return out
}

func expected(m txMsg, sender gen.Addr, accepted []gen.Addr) expMsg {
	e := expMsg{subject: m.subject, rawSuffix: string(m.raw)}
	if m.headerFrom != "" {
		e.from = bareAddrs(m.headerFrom)[0]
	} else {
		e.from = sender.Text
	}
	if m.headerTo != "" {
		e.to = bareAddrs(m.headerTo)
	} else {
		for _, a := range accepted {
			e.to = append(e.to, a.Text)
		}
	}
	return e
}

// normEOL applies the CRLF/LF normalisation the property allows.
func normEOL(s string) string { return strings.ReplaceAll(s, "\r\n", "\n") }

func bareOf(s string) string {
	// sut.AddrString renders "name"<addr>
	if i := strings.LastIndexByte(s, '<'); i >= 0 {
		return strings.TrimSuffix(s[i+1:], ">")
	}
	return s
}

func checkNew(m sut.MsgSnap, name string, e expMsg) string {
	if m.Mailbox != name {
		return fmt.Sprintf("Mailbox()=%q, listed under %q", m.Mailbox, name)
	}
	if bareOf(m.From) != e.from {
		return fmt.Sprintf("From=%q, expected %q", m.From, e.from)
	}
	var to []string
	for _, t := range m.To {
		to = append(to, bareOf(t))
	}
	if strings.Join(to, ",") != strings.Join(e.to, ",") {
		return fmt.Sprintf("To=%v, expected %v", to, e.to)
	}
	if m.Subject != e.subject {
		return fmt.Sprintf("Subject=%q, expected %q", m.Subject, e.subject)
	}
	if m.SrcErr != "" {
		return "source unreadable: " + m.SrcErr
	}
	if m.Size != int64(len(m.Source)) {
		return fmt.Sprintf("Size()=%d but source has %d bytes", m.Size, len(m.Source))
	}
	if !strings.HasSuffix(normEOL(m.Source), normEOL(e.rawSuffix)) {
		return "stored source does not end with the transmitted message"
	}
	if m.Seen {
		return "new message already marked seen"
	}
	return ""
}
