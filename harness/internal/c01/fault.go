package c01

// Stream `fault`: multi-recipient transactions while ONE OR TWO of the recipients' mailboxes
// cannot be written.
//
// Added after seeded change C01-8 (StoreManager.Deliver carries on past a mailbox whose
// AddMessage failed and returns the LAST AddMessage result, so a later success turns the reply
// into 250).  The statement's core is an implication from the reply: "acknowledged with 250 after
// the data => every accepted, storable recipient gained exactly one new message".  The check
// only ever ran against stores in which AddMessage cannot fail, so the one situation in which the
// server must NOT say 250 - some recipient's copy was not made - never arose.  This stream makes
// it arise, in the ways a real installation meets it:
//
//	file store   index.gob of a mailbox unreadable (text, random bytes, NULs, zero length, cut
//	             short, replaced by a directory); a regular file where one of the three hash
//	             directories of a not yet existing mailbox must be created; a directory squatting
//	             on index.gob.tmp (the copy is written, the index update fails);
//	memory store maxkb: the stored copy contains "Received: ... for <mailbox>", so one message is
//	             within the store's size limit for the recipient with the short mailbox name and
//	             over it for those with long names (the store refuses a message larger than its
//	             whole limit).
//
// The faulted recipients sit at any position of the recipient list (first, middle, last).  The
// reply is OBSERVED, never predicted (a cut-short index may happen to be readable; then 250 is
// right and is judged like any other 250).
//
// Oracle.
//   - reply 250: every accepted storable recipient's mailbox is readable and holds exactly one
//     message carrying this transaction's subject (full metadata check for the mailboxes the
//     harness did not tamper with).  Judged strictly, fault or no fault.
//   - any reply: an accepted recipient of a discard domain, and a bystander mailbox that was not
//     named in the transaction, hold no copy.
//   - reply not 250: NOT JUDGED what became of the other recipients' copies.  The statement's
//     "a refused transaction adds nothing" is quantified over SMTP inputs, configurations and
//     back-ends, not over injected storage faults; the unchanged tree stops at the first failing
//     mailbox with 451 and leaves the copies already made.  They are counted
//     (fault_copies_left_after_refusal), never turned into a verdict.
//   - a follow-up transaction in the same session, without RSET, to recipients whose mailboxes are
//     intact: if acknowledged with 250, each of them gains exactly one copy of it and no mailbox
//     of the refused transaction's other recipients gains one (the refused envelope is gone).
//
// Memory store and eviction: with maxkb the store legitimately evicts old messages, and C01 does
// not quantify over size limits (C08/C06 do).  The generator therefore never lets eviction
// explain a missing copy: every calibration message is read back before the next one is sent,
// and in the judged transaction exactly one recipient's copy fits the limit, so no copy of that
// transaction can be pushed out by another copy of it.  Old messages are not judged there.

import (
	"fmt"
	"os"
	"path/filepath"
	"strings"

	"github.com/inbucket/inbucket/v3/pkg/config"
	"github.com/inbucket/inbucket/v3/pkg/stringutil"

	"verifharness/internal/fw"
	"verifharness/internal/gen"
	"verifharness/internal/sut"
)

var faultKinds = []string{"file/index-garbage", "file/index-cut", "file/file-at-dir", "file/index-tmp-blocked", "mem/one-over-limit"}

type faultRcpt struct {
	addr     string
	name     string // mailbox name (M-naming)
	storable bool
	victim   bool // the harness made this mailbox unwritable
	readable bool // GetMessages is expected to work (not judged; decides how the mailbox is read)
	accepted bool
}

func mailboxDir(root, name string) string {
	h := stringutil.HashMailboxName(name)
	return filepath.Join(root, "mail", h[0:3], h[0:6], h)
}

// countSubject returns how many messages of the mailbox carry the subject, and the last of them.
func countSubject(env *sut.Env, name, subject string) (n int, last sut.MsgSnap, err error) {
	ms, err := env.Store.GetMessages(name)
	if err != nil {
		return 0, last, err
	}
	for _, m := range ms {
		if m.Subject() == subject {
			n++
			last = sut.SnapMsg(m, true)
		}
	}
	return n, last, nil
}

func runFault(c *fw.Ctx, idx int, r *fw.Rand) {
	kind := faultKinds[idx%len(faultKinds)]
	naming := namings[(idx/len(faultKinds))%3]
	backend := "file"
	conf := sut.DefaultConf()
	switch naming {
	case "local":
		conf.MailboxNaming = config.LocalNaming
	case "full":
		conf.MailboxNaming = config.FullNaming
	case "domain":
		conf.MailboxNaming = config.DomainNaming
	}
	conf.SMTP.DefaultStore = true
	conf.SMTP.DiscardDomains = []string{"discard.test"}
	root := ""
	limit := 0
	if kind == "mem/one-over-limit" {
		backend = "mem"
		kb := r.Range(2, 4)
		limit = kb * 1024
		conf.Storage.Params = map[string]string{"maxkb": fmt.Sprint(kb)}
	} else {
		root = c.TempDir("c01flt")
		conf.Storage.Type = "file"
		conf.Storage.Params = map[string]string{"path": root}
	}
	env, err := sut.NewEnv(conf, backend)
	if err != nil {
		panic(err)
	}
	ss := env.StartSMTP()
	defer func() {
		if !ss.Ended() && !ss.Close() {
			c.Hang("smtp-session-end", "SMTP session did not end after the client closed", "")
		}
	}()
	var rcpts []*faultRcpt
	detail := func() map[string]any {
		var l []string
		for _, x := range rcpts {
			l = append(l, fmt.Sprintf("%s victim=%v accepted=%v", x.addr, x.victim, x.accepted))
		}
		return map[string]any{"kind": kind, "naming": naming, "recipients": l, "trace": ss.Trace}
	}
	fail := func(key, what string) {
		if strings.HasPrefix(what, "watchdog:") {
			c.Hang("smtp-session-idle", what, "")
			return
		}
		c.Violation(key, what, detail())
	}
	if _, err := ss.Greet(); err != nil {
		fail("C01:no-greeting", err.Error())
		return
	}
	if rep, err := ss.Cmd("EHLO fault.test"); err != nil || rep.Code != 250 {
		fail("C01:ehlo", fmt.Sprintf("EHLO not acknowledged: %v %v", rep, err))
		return
	}

	// Recipients: distinct local parts AND distinct domains, so the mailboxes differ in every
	// naming mode.  In the memory variant the first is the only one with a short name.
	locals := []string{"ann", "bob", "cy", "dee", "eve", "fay"}
	domains := []string{"alpha.test", "beta.test", "sub.alpha.test", "x-y.z9.test", "accept.test", "store.test"}
	lp, dp := r.Perm(len(locals)), r.Perm(len(domains))
	n := r.Range(2, 5)
	if backend == "mem" {
		n = r.Range(2, 4)
	}
	for k := 0; k < n; k++ {
		l, d := locals[lp[k]], domains[dp[k]]
		if backend == "mem" {
			if k == 0 {
				l, d = "a", "b.test"
			} else {
				l = fmt.Sprintf("a-rather-long-local-part-%s-%d", r.Letters(r.Range(8, 24), "abcdefghijklmnopqrstuvwxyz"), k)
				d = fmt.Sprintf("quite.a.long.domain.name.%s%d.example", r.Letters(r.Range(4, 20), "abcdefghijklmnopqrstuvwxyz"), k)
			}
		}
		rcpts = append(rcpts, &faultRcpt{addr: l + "@" + d, name: gen.ModelName(naming, l, d), storable: true, readable: true})
	}
	// Victims: one, sometimes two, never all; any position.
	if backend == "mem" {
		for _, x := range rcpts[1:] {
			x.victim = true
		}
	} else {
		nv := 1
		if n >= 3 && r.Chance(1, 3) {
			nv = 2
		}
		for _, k := range r.Perm(n)[:nv] {
			rcpts[k].victim = true
		}
	}
	// Order of the RCPT commands.
	order := r.Perm(n)
	shuffled := make([]*faultRcpt, n)
	for i, k := range order {
		shuffled[i] = rcpts[k]
	}
	rcpts = shuffled
	short := (*faultRcpt)(nil) // memory variant: the one recipient whose copy fits
	for _, x := range rcpts {
		if backend == "mem" && !x.victim {
			short = x
		}
	}
	bystander := &faultRcpt{addr: "zed@gamma.example", name: gen.ModelName(naming, "zed", "gamma.example"), storable: true, readable: true}
	discarded := &faultRcpt{addr: "nobody@discard.test", name: gen.ModelName(naming, "nobody", "discard.test"), readable: true}

	// transaction plays MAIL, RCPTs, DATA, message; returns the reply after the data (0 when the
	// transaction did not get that far) and the raw message.
	sender := "s@sender.test"
	transaction := func(to []*faultRcpt, subject string, size int) (int, []byte, bool) {
		rep, err := ss.Cmd("MAIL FROM:<" + sender + ">")
		if err != nil {
			fail("C01:reply-shape", err.Error())
			return 0, nil, false
		}
		if rep.Code != 250 {
			fail("C01:mail-refused", "plain MAIL FROM refused: "+rep.String())
			return 0, nil, false
		}
		some := false
		for _, x := range to {
			rep, err := ss.Cmd("RCPT TO:<" + x.addr + ">")
			if err != nil {
				fail("C01:reply-shape", err.Error())
				return 0, nil, false
			}
			x.accepted = rep.Code == 250
			some = some || x.accepted
		}
		rep, err = ss.Cmd("DATA")
		if err != nil {
			fail("C01:reply-shape", err.Error())
			return 0, nil, false
		}
		if rep.Code != 354 {
			if some {
				fail("C01:data-refused", "DATA refused with accepted recipients: "+rep.String())
				return 0, nil, false
			}
			return 0, nil, true
		}
		raw := faultMessage(subject, size)
		stuffed := sut.DotStuff(raw)
		rep, err = ss.Cmd(string(stuffed[:len(stuffed)-2]))
		if err != nil {
			fail("C01:reply-shape", err.Error())
			return 0, nil, false
		}
		return rep.Code, raw, true
	}
	// judgeStored: after a 250, every accepted storable recipient of `to` holds exactly one copy.
	judgeStored := func(to []*faultRcpt, subject string, raw []byte, what string) bool {
		var accepted []gen.Addr
		for _, x := range to {
			if x.accepted {
				accepted = append(accepted, gen.Addr{Text: x.addr})
			}
		}
		exp := expected(txMsg{subject: subject, raw: raw}, gen.Addr{Text: sender}, accepted)
		for _, x := range to {
			if !x.accepted || !x.storable {
				continue
			}
			cnt, last, err := countSubject(env, x.name, subject)
			switch {
			case err != nil:
				fail("C01:fault:acknowledged-but-not-stored", fmt.Sprintf("%s: %s acknowledged with 250, but the mailbox %q of accepted recipient %s cannot be read: %v", kind, what, x.name, x.addr, err))
				return false
			case cnt == 0:
				fail("C01:fault:acknowledged-but-not-stored", fmt.Sprintf("%s: %s acknowledged with 250, but accepted recipient %s (mailbox %q, tampered=%v) gained no message", kind, what, x.addr, x.name, x.victim))
				return false
			case cnt > 1:
				fail("C01:fault:wrong-copy-count", fmt.Sprintf("%s: %s acknowledged with 250, mailbox %q of %s gained %d copies", kind, what, x.name, x.addr, cnt))
				return false
			}
			if !x.victim {
				// Metadata only where the harness did not touch the mailbox's files.
				if bad := checkNew(last, x.name, exp); bad != "" {
					fail("C01:wrong-metadata", fmt.Sprintf("%s: mailbox %q new message: %s", kind, x.name, bad))
					return false
				}
			}
			c.Count("messages_stored", 1)
		}
		return true
	}

	// --- warm-up: clean deliveries (no fault yet), judged like any other -------------------------
	overhead := map[*faultRcpt]int{} // memory variant: stored size minus transmitted size
	switch {
	case backend == "mem":
		// One recipient per transaction, read back at once: calibrates the size of the trace
		// headers per mailbox and cannot be disturbed by the store's evictions.
		for i, x := range rcpts {
			subj := fmt.Sprintf("probe-%d-%d", idx, i)
			code, raw, ok := transaction([]*faultRcpt{x}, subj, 0)
			if !ok {
				return
			}
			if code != 250 || !x.accepted {
				c.Count("fault_warmup_not_acknowledged", 1)
				return
			}
			if !judgeStored([]*faultRcpt{x}, subj, raw, "calibration message") {
				return
			}
			_, last, _ := countSubject(env, x.name, subj)
			overhead[x] = int(last.Size) - len(raw)
		}
	default:
		// Mailboxes whose index is to be damaged must exist; "file-at-dir" victims must not.
		var to []*faultRcpt
		for _, x := range rcpts {
			if (x.victim && kind != "file/file-at-dir") || (!x.victim && r.Chance(1, 2)) {
				to = append(to, x)
			}
		}
		to = append(to, bystander)
		for k := r.Range(1, 3); k > 0; k-- { // several messages: a longer index to damage
			subj := fmt.Sprintf("warm-%d-%d", idx, k)
			code, raw, ok := transaction(to, subj, 0)
			if !ok {
				return
			}
			if code != 250 {
				c.Count("fault_warmup_not_acknowledged", 1)
				return
			}
			if !judgeStored(to, subj, raw, "clean transaction") {
				return
			}
		}
	}

	// --- the fault ------------------------------------------------------------------------------
	variant := ""
	size := 0
	switch kind {
	case "file/index-garbage":
		for _, x := range rcpts {
			if !x.victim {
				continue
			}
			p := filepath.Join(mailboxDir(root, x.name), "index.gob")
			v := r.Intn(4)
			variant = []string{"text", "random", "nul", "directory"}[v]
			var err error
			switch v {
			case 0:
				err = os.WriteFile(p, []byte("this is not a gob stream\n"), 0660)
			case 1:
				err = os.WriteFile(p, r.Bytes(64), 0660)
			case 2:
				err = os.WriteFile(p, make([]byte, 32), 0660)
			case 3:
				if err = os.Remove(p); err == nil {
					err = os.Mkdir(p, 0770)
				}
			}
			if err != nil {
				panic(err)
			}
			x.readable = false
		}
	case "file/index-cut":
		for _, x := range rcpts {
			if !x.victim {
				continue
			}
			p := filepath.Join(mailboxDir(root, x.name), "index.gob")
			st, err := os.Stat(p)
			if err != nil {
				panic(err)
			}
			cut := int64(0)
			variant = "empty"
			if r.Chance(2, 3) {
				cut = int64(r.Intn(int(st.Size())))
				variant = "cut"
			}
			if err := os.Truncate(p, cut); err != nil {
				panic(err)
			}
			x.readable = false
		}
	case "file/file-at-dir":
		for _, x := range rcpts {
			if !x.victim {
				continue
			}
			// A regular file at the first of the (randomly chosen or deeper) levels that does not
			// exist yet.
			dir := mailboxDir(root, x.name)
			levels := []string{filepath.Dir(filepath.Dir(dir)), filepath.Dir(dir), dir}
			blocked := false // already below a file planted for another victim
			for _, l := range levels {
				if st, err := os.Lstat(l); err == nil && !st.IsDir() {
					blocked = true
				}
			}
			if blocked {
				continue
			}
			lv := r.Intn(3)
			for lv < 2 {
				if _, err := os.Lstat(levels[lv]); err != nil {
					break
				}
				lv++
			}
			variant = []string{"level1", "level2", "mailbox"}[lv]
			if err := os.MkdirAll(filepath.Dir(levels[lv]), 0770); err != nil {
				panic(err)
			}
			if err := os.WriteFile(levels[lv], []byte("not a directory\n"), 0660); err != nil {
				panic(err)
			}
			// Every mailbox below the planted file is unwritable, whoever it belongs to.
			for _, y := range append(append([]*faultRcpt(nil), rcpts...), bystander) {
				if strings.HasPrefix(mailboxDir(root, y.name)+"/", levels[lv]+"/") {
					y.victim = true
				}
			}
		}
	case "file/index-tmp-blocked":
		for _, x := range rcpts {
			if !x.victim {
				continue
			}
			variant = "directory"
			if err := os.Mkdir(filepath.Join(mailboxDir(root, x.name), "index.gob.tmp"), 0770); err != nil {
				panic(err)
			}
		}
	case "mem/one-over-limit":
		// Transmitted size L with  overhead(short)+L <= limit < overhead(long)+L  for every long.
		lo, hi := 0, limit-overhead[short] // L in (lo, hi]
		for _, x := range rcpts {
			if x.victim {
				if l := limit - overhead[x]; l > lo {
					lo = l
				}
			}
		}
		if short == nil || hi-lo < 1 {
			c.Count("fault_calibration_unusable", 1)
			return
		}
		size = lo + 1 + r.Intn(hi-lo)
		variant = "received-line"
	}

	// --- the judged transaction -----------------------------------------------------------------
	to := append([]*faultRcpt(nil), rcpts...)
	if r.Chance(1, 3) {
		at := r.Intn(len(to) + 1)
		to = append(to[:at], append([]*faultRcpt{discarded}, to[at:]...)...)
	}
	subj := fmt.Sprintf("fault-%d", idx)
	code, raw, ok := transaction(to, subj, size)
	if !ok {
		return
	}
	if code == 0 {
		c.Count("fault_no_recipient_accepted", 1)
		return
	}
	// Shape of the round: is there an accepted healthy recipient AFTER an accepted victim?
	victimSeen, victimNotLast, victims, healthy := false, false, 0, 0
	for _, x := range to {
		if !x.accepted || !x.storable {
			continue
		}
		if x.victim {
			victimSeen = true
			victims++
		} else {
			healthy++
			if victimSeen {
				victimNotLast = true
			}
		}
	}
	if code == 250 && backend == "mem" {
		// Guard of the memory variant's premise (exactly one copy fits the limit), by observation:
		// a copy of this transaction sitting in a long-named mailbox means the calibration was off
		// and several copies fitted, so the store's eviction may explain a missing copy.  Then the
		// round is outside what C01 quantifies over and is not judged.
		for _, x := range to {
			if x.victim {
				if cnt, _, err := countSubject(env, x.name, subj); err == nil && cnt > 0 {
					c.Count("fault_calibration_unusable", 1)
					return
				}
			}
		}
	}
	if code == 250 {
		if !judgeStored(to, subj, raw, "transaction") {
			return
		}
		c.Count("fault_acknowledged_and_all_stored", 1)
	} else {
		c.Count("fault_refused", 1)
		c.Count(fmt.Sprintf("fault_refused_code:%d", code), 1)
		// Not judged (see the head of this file): copies the server had already made.
		for _, x := range to {
			if x.readable && x.storable {
				if cnt, _, err := countSubject(env, x.name, subj); err == nil && cnt > 0 {
					c.Count("fault_copies_left_after_refusal", int64(cnt))
				}
			}
		}
	}
	// Whatever the reply: nothing for the discard domain, nothing for a mailbox nobody named.
	for _, x := range []*faultRcpt{discarded, bystander} {
		if x.victim {
			continue // below a planted file: reads as empty anyway
		}
		if cnt, _, err := countSubject(env, x.name, subj); err == nil && cnt > 0 {
			fail("C01:fault:unexpected-message", fmt.Sprintf("%s: mailbox %q (%s, not owed a copy) holds %d message(s) of the transaction answered %d", kind, x.name, x.addr, cnt, code))
			return
		}
	}

	// --- follow-up in the same session, no RSET: intact mailboxes only ---------------------------
	var next []*faultRcpt
	for _, x := range rcpts {
		if !x.victim && (len(next) == 0 || r.Chance(1, 2)) {
			next = append(next, x)
		}
	}
	if !bystander.victim && r.Chance(1, 2) {
		next = append(next, bystander)
	}
	if len(next) > 0 {
		for _, x := range rcpts {
			x.accepted = false
		}
		subj2 := fmt.Sprintf("after-%d", idx)
		code2, raw2, ok := transaction(next, subj2, 0)
		if !ok {
			return
		}
		if code2 == 250 {
			if !judgeStored(next, subj2, raw2, "follow-up transaction") {
				return
			}
			c.Count("fault_followup_acknowledged", 1)
		} else {
			c.Count("fault_followup_not_acknowledged", 1)
		}
		inNext := map[*faultRcpt]bool{}
		for _, x := range next {
			inNext[x] = true
		}
		for _, x := range append(append([]*faultRcpt(nil), rcpts...), bystander, discarded) {
			if inNext[x] || !x.readable {
				continue
			}
			if cnt, _, err := countSubject(env, x.name, subj2); err == nil && cnt > 0 {
				fail("C01:fault:unexpected-message", fmt.Sprintf("%s: mailbox %q (%s) was not named in the follow-up transaction (answered %d) but holds %d copy(ies) of it; the preceding transaction was answered %d",
					kind, x.name, x.addr, code2, cnt, code))
				return
			}
		}
	}

	c.Count("fault_rounds", 1)
	c.Count("fault_kind:"+kind, 1)
	c.Count("transactions", 1)
	if victims > 0 && healthy > 0 {
		c.Count("fault_partial_rounds", 1) // some accepted recipients writable, some not
	}
	if victimNotLast {
		c.Count("fault_victim_before_healthy_rcpt", 1)
	}
	if victims > 0 {
		c.NonTrivial(fmt.Sprintf("fault|%s|%s|%s|n=%d|victims=%d|notlast=%v|reply=%d", kind, variant, naming, len(to), victims, victimNotLast, code))
	}
}

// faultMessage builds a message with the subject; size > 0 pads the body so that the message is
// exactly size bytes long as transmitted.  Every message has the same number of lines (the server
// may store line ends in another form than they were sent in, which changes the stored size per
// line: with a constant line count the calibration of the memory variant carries over).
func faultMessage(subject string, size int) []byte {
	const lines = 40
	var b strings.Builder
	b.WriteString("Subject: " + subject + "\r\n\r\n")
	pad := size - b.Len() - 2*lines
	if pad < lines {
		pad = lines
	}
	for i := 0; i < lines; i++ {
		n := pad / lines
		if i < pad%lines {
			n++
		}
		b.WriteString(strings.Repeat("x", n) + "\r\n")
	}
	return []byte(b.String())
}
