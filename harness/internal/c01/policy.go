package c01

// Store/discard (and accept/reject) policies of the `session` stream.
//
// Added after seeded change C01-7 (ShouldStoreDomain rewritten as "discard list, then store
// list, then default"): the statement quantifies over "every store/discard policy", but the
// check ran every session with ONE pair of disjoint lists, so every form of the decision that
// agrees on "domain on at most one list" was indistinguishable.  The lists are now generated per
// session: empty lists, lists holding every domain, a domain on BOTH the store and the discard
// list (the stale list an operator leaves behind after flipping DEFAULTSTORE), a domain on the
// reject list and the store list, entries written in mixed case.  The lists are written to the
// INBUCKET_SMTP_* variables and loaded by config.Process(), so the documented lower-casing on
// load is on the path and the server sees exactly what an operator's environment would give it.
//
// The oracle stays the documented rule (doc/config.md), evaluated on the lists AS WRITTEN:
// DEFAULTSTORE=true  -> stored unless the domain is on DISCARDDOMAINS (STOREDOMAINS "has no
// effect when true"); DEFAULTSTORE=false -> stored iff the domain is on STOREDOMAINS
// (DISCARDDOMAINS "only has an effect when DEFAULTSTORE is true").

import (
	"os"
	"strconv"
	"strings"

	"github.com/inbucket/inbucket/v3/pkg/config"

	"verifharness/internal/fw"
	"verifharness/internal/gen"
)

// policy is one generated configuration of the four recipient-domain lists, as the operator
// wrote it (entries may be in mixed case).
type policy struct {
	defStore, defAccept            bool
	store, discard, accept, reject []string
	shape                          string // coverage tag: classic | generated
	emptyList, mixedCase, overlap  bool
}

func contains(list []string, domain string) bool {
	d := strings.ToLower(domain)
	for _, x := range list {
		if strings.ToLower(x) == d {
			return true
		}
	}
	return false
}

// eligible is the documented store rule, independent of pkg/policy.
func (p *policy) eligible(domain string) bool {
	if p.defStore {
		return !contains(p.discard, domain)
	}
	return contains(p.store, domain)
}

// corner names the store/discard corner a recipient domain sits in: S = on the store list,
// D = on the discard list, SD = on both, - = on neither.
func (p *policy) corner(domain string) string {
	s, d := contains(p.store, domain), contains(p.discard, domain)
	switch {
	case s && d:
		return "SD"
	case s:
		return "S"
	case d:
		return "D"
	}
	return "-"
}

func subset(r *fw.Rand, pool []string, num, den int) []string {
	var out []string
	for _, d := range pool {
		if r.Chance(num, den) {
			out = append(out, d)
		}
	}
	return out
}

func addMissing(list []string, d string) []string {
	if contains(list, d) {
		return list
	}
	return append(list, d)
}

// genPolicy draws the lists from its own random stream (so the recipients and endings of a
// session do not depend on it).  A quarter of the sessions keep the lists the check always used.
func genPolicy(r *fw.Rand, defStore, defAccept bool) *policy {
	p := &policy{defStore: defStore, defAccept: defAccept}
	if r.Chance(1, 4) {
		p.shape = "classic"
		p.store = []string{"store.test", "alpha.test", "[192.168.1.5]"}
		p.discard = []string{"discard.test", "gamma.example"}
		p.accept = []string{"accept.test", "alpha.test", "store.test", "discard.test", "beta.test", "[192.168.1.5]"}
		p.reject = []string{"reject.test"}
		return p
	}
	p.shape = "generated"
	pool := gen.Domains
	list := func() []string {
		switch r.Weighted([]int{2, 1, 9}) {
		case 0:
			return nil
		case 1:
			return append([]string(nil), pool...)
		}
		return subset(r, pool, 2, 5)
	}
	p.store, p.discard = list(), list()
	if r.Chance(1, 2) {
		// A domain deliberately on both lists (independent subsets overlap only now and then).
		for k := r.Range(1, 2); k > 0; k-- {
			d := r.Pick(pool)
			p.store, p.discard = addMissing(p.store, d), addMissing(p.discard, d)
		}
	}
	// Accept side: generous, so that most recipients get as far as the store decision.
	if r.Chance(1, 10) {
		p.accept = nil
	} else {
		p.accept = subset(r, pool, 3, 4)
	}
	p.reject = subset(r, pool, 1, 8)
	if len(p.store) > 0 && r.Chance(1, 3) {
		p.reject = addMissing(p.reject, r.Pick(p.store)) // on the reject list AND the store list
	}
	if len(p.accept) > 0 && len(p.reject) > 0 && r.Chance(1, 3) {
		p.accept = addMissing(p.accept, r.Pick(p.reject)) // on the accept list AND the reject list
	}
	// Entries as an operator may have typed them.
	for _, l := range [][]string{p.store, p.discard, p.accept, p.reject} {
		for i := range l {
			if r.Chance(1, 4) {
				l[i] = gen.RandCase(r, l[i])
				if l[i] != strings.ToLower(l[i]) {
					p.mixedCase = true
				}
			}
		}
	}
	p.emptyList = len(p.store) == 0 || len(p.discard) == 0
	for _, d := range p.store {
		if contains(p.discard, d) {
			p.overlap = true
		}
	}
	return p
}

var policyEnv = []string{"INBUCKET_SMTP_DEFAULTACCEPT", "INBUCKET_SMTP_ACCEPTDOMAINS", "INBUCKET_SMTP_REJECTDOMAINS",
	"INBUCKET_SMTP_DEFAULTSTORE", "INBUCKET_SMTP_STOREDOMAINS", "INBUCKET_SMTP_DISCARDDOMAINS"}

// load writes the policy to the process environment, lets inbucket's own config.Process() read
// it, and copies the loaded policy fields into conf.  Cases of one child run one after another,
// so the environment is not shared with anything else.
func (p *policy) load(r *fw.Rand, conf *config.Root) {
	for _, n := range policyEnv {
		_ = os.Unsetenv(n)
	}
	set := func(name string, l []string) {
		switch {
		case len(l) > 0:
			_ = os.Setenv(name, strings.Join(l, ","))
		case r.Chance(1, 3):
			_ = os.Setenv(name, "") // present but empty
		}
	}
	_ = os.Setenv("INBUCKET_SMTP_DEFAULTACCEPT", strconv.FormatBool(p.defAccept))
	_ = os.Setenv("INBUCKET_SMTP_DEFAULTSTORE", strconv.FormatBool(p.defStore))
	set("INBUCKET_SMTP_ACCEPTDOMAINS", p.accept)
	set("INBUCKET_SMTP_REJECTDOMAINS", p.reject)
	set("INBUCKET_SMTP_STOREDOMAINS", p.store)
	set("INBUCKET_SMTP_DISCARDDOMAINS", p.discard)
	loaded, err := config.Process()
	for _, n := range policyEnv {
		_ = os.Unsetenv(n)
	}
	if err != nil {
		panic("config.Process: " + err.Error())
	}
	conf.SMTP.DefaultAccept = loaded.SMTP.DefaultAccept
	conf.SMTP.DefaultStore = loaded.SMTP.DefaultStore
	conf.SMTP.AcceptDomains = loaded.SMTP.AcceptDomains
	conf.SMTP.RejectDomains = loaded.SMTP.RejectDomains
	conf.SMTP.StoreDomains = loaded.SMTP.StoreDomains
	conf.SMTP.DiscardDomains = loaded.SMTP.DiscardDomains
}
