package c01

// Stream "xiface" (added after seeded change C01-13).
//
// The statement says an accepted recipient GAINS a message; the other streams look at the store
// right after the 250 (or, in the concurrent stream, let a party remove by id what it had listed
// through the Store API).  What was never exercised: the server's OTHER interfaces doing their
// legitimate work on OTHER messages of the same mailbox while the delivery happens - a POP3
// session that logs in, marks some or all of the messages it was shown and QUITs (its UPDATE
// state runs long after the 250 was given), or a by-id removal through the message manager (the
// call behind REST DELETE) of ids listed before the delivery.  A removing party may remove only
// what it named; a message it was never shown and never named, acknowledged with 250 while that
// party was at work, must still be in the mailbox, exactly once, after the party is done - otherwise
// "gains exactly one new message" would hold for a moment only.
//
// The round is sequential and deterministic (every command waits for the session to go idle):
//   1. k = 2..5 messages are delivered by SMTP to mailbox "box" (and some to "side");
//   2. the removing party looks at the mailbox: POP3 login (USER/PASS or APOP) + UIDL, or
//      Manager.GetMetadata;
//   3. it names a subset (all / some / one / none) of what it saw: POP3 DELE n, or a list of ids;
//      between its steps 1..3 further SMTP transactions to "box" are acknowledged with 250;
//   4. it finishes: POP3 QUIT (or RSET+QUIT, or a dropped connection), or Manager.RemoveMessage of
//      the chosen ids;
//   5. one more delivery after the party is gone.
// Oracle (full snapshot at the end, and a snapshot of "box" after every acknowledged delivery):
// every acknowledged message the party did not name is in its mailbox exactly once; nothing nobody
// was acknowledged for is there; "side" holds exactly what it is owed.  Whether a NAMED message is
// really gone afterwards is not C01's matter (C13 decides POP3 deletion) - counted, not judged.

import (
	"fmt"
	"sort"
	"strconv"
	"strings"

	"verifharness/internal/fw"
	"verifharness/internal/sut"
)

var xifaceParties = []string{"pop3-quit", "pop3-rset-quit", "pop3-drop", "manager-remove"}
var xifaceShapes = []string{"all", "some", "one", "none"}

func xifaceMinObs(m map[string]int64) {
	m["xiface_rounds"] = 150
	m["xiface_pop3_quit_after_deleting_all_shown"] = 20
	m["xiface_pop3_quit_after_deleting_some_shown"] = 20
	m["xiface_manager_remove_rounds"] = 10
	m["xiface_acked_while_party_at_work"] = 200
	m["xiface_unnamed_verified_present_once"] = 500
	m["xiface_named_found_removed"] = 100
}

type xiRound struct {
	c       *fw.Ctx
	env     *sut.Env
	ss      *sut.SMTPSession
	idx     int
	backend string
	party   string
	shape   string
	seq     int
	owed    map[string][]string // mailbox -> subjects acknowledged, in order
	named   map[string]bool     // subjects of "box" the removing party named
	steps   []string            // what happened, for the report
	failed  bool
}

func (x *xiRound) violation(key, what string) {
	x.failed = true
	x.c.Violation(key, fmt.Sprintf("%s backend, party %s naming %s: %s", x.backend, x.party, x.shape, what),
		map[string]any{"steps": x.steps, "smtp_trace": head(x.ss.Trace, 60)})
}

func (x *xiRound) smtpErr(err error) {
	x.failed = true
	if sut.IsWatchdog(err) {
		x.c.Hang("smtp-session-idle", err.Error(), "")
		return
	}
	x.c.Violation("C01:reply-shape", err.Error(), map[string]any{"steps": x.steps})
}

// deliver plays one SMTP transaction to the given mailboxes on the round's open SMTP session and,
// when it is acknowledged, checks at once that each mailbox now holds exactly one copy.
func (x *xiRound) deliver(phase string, boxes ...string) bool {
	x.seq++
	subj := fmt.Sprintf("xi-%d-%d-%s", x.idx, x.seq, phase)
	rep, err := x.ss.Cmd("MAIL FROM:<s@sender.test>")
	if err != nil {
		x.smtpErr(err)
		return false
	}
	if rep.Code != 250 {
		x.violation("C01:mail-refused", "plain MAIL FROM refused: "+rep.String())
		return false
	}
	var ok []string
	for _, b := range boxes {
		rep, err := x.ss.Cmd("RCPT TO:<" + b + "@alpha.test>")
		if err != nil {
			x.smtpErr(err)
			return false
		}
		if rep.Code == 250 {
			ok = append(ok, b)
		}
	}
	if len(ok) == 0 {
		// which recipients are accepted is C05's matter; nothing to observe in this transaction
		if _, err := x.ss.Cmd("RSET"); err != nil {
			x.smtpErr(err)
			return false
		}
		x.steps = append(x.steps, "smtp "+subj+": no recipient accepted")
		return true
	}
	rep, err = x.ss.Cmd("DATA")
	if err != nil {
		x.smtpErr(err)
		return false
	}
	if rep.Code != 354 {
		x.violation("C01:data-refused", "DATA refused with accepted recipients: "+rep.String())
		return false
	}
	body := sut.DotStuff([]byte("Subject: " + subj + "\r\n\r\nbody of " + subj + "\r\n"))
	rep, err = x.ss.Cmd(string(body[:len(body)-2]))
	if err != nil {
		x.smtpErr(err)
		return false
	}
	if rep.Code != 250 {
		x.steps = append(x.steps, fmt.Sprintf("smtp %s -> %v: not acknowledged (%d)", subj, ok, rep.Code))
		x.c.Count("transactions_aborted", 1)
		return true
	}
	x.steps = append(x.steps, fmt.Sprintf("smtp %s -> %v: 250", subj, ok))
	for _, b := range ok {
		x.owed[b] = append(x.owed[b], subj)
	}
	if phase == "during" {
		x.c.Count("xiface_acked_while_party_at_work", 1)
	}
	// the plain C01 observation, right after the acknowledgement
	snap, err := sut.Snapshot(x.env.Store, []string{"box", "side"}, false)
	if err != nil {
		x.violation("C01:store-unreadable", err.Error())
		return false
	}
	for _, b := range ok {
		n := 0
		for _, m := range snap[b] {
			if m.Subject == subj {
				n++
			}
		}
		if n != 1 {
			key := "C01:wrong-copy-count"
			if n == 0 {
				key = "C01:accepted-recipient-not-stored"
			}
			x.violation(key, fmt.Sprintf("mailbox %q holds %d copies of %q right after the 250", b, n, subj))
			return false
		}
	}
	return true
}

func runXIface(c *fw.Ctx, idx int, r *fw.Rand) {
	conf := sut.DefaultConf()
	backend := []string{"mem", "file"}[idx%2]
	if backend == "file" {
		conf.Storage.Type = "file"
		conf.Storage.Params = map[string]string{"path": c.TempDir("c01xi")}
	}
	env, err := sut.NewEnv(conf, backend)
	if err != nil {
		panic(err)
	}
	x := &xiRound{c: c, env: env, idx: idx, backend: backend, owed: map[string][]string{}, named: map[string]bool{}}
	x.party = xifaceParties[r.Weighted([]int{10, 1, 1, 3})]
	x.shape = xifaceShapes[r.Weighted([]int{5, 3, 2, 1})]
	x.ss = env.StartSMTP()
	defer func() {
		if !x.ss.Ended() {
			if !x.ss.Close() {
				c.Hang("smtp-session-end", "SMTP session did not end after the client closed", "")
			}
		}
	}()
	if _, err := x.ss.Greet(); err != nil {
		x.smtpErr(err)
		return
	}
	if rep, err := x.ss.Cmd("EHLO xi.test"); err != nil {
		x.smtpErr(err)
		return
	} else if rep.Code != 250 {
		x.violation("C01:ehlo", fmt.Sprintf("EHLO not acknowledged: %v", rep))
		return
	}

	// 1. the mailbox before the party arrives
	k := r.Range(2, 5)
	for i := 0; i < k; i++ {
		boxes := []string{"box"}
		if r.Chance(1, 4) {
			boxes = append(boxes, "side")
		}
		if !x.deliver("before", boxes...) {
			return
		}
	}
	before, err := sut.Snapshot(env.Store, []string{"box", "side"}, false)
	if err != nil {
		x.violation("C01:store-unreadable", err.Error())
		return
	}
	subjOf := map[string]string{} // id -> subject, mailbox "box" as it is when the party looks
	for _, m := range before["box"] {
		subjOf[m.ID] = m.Subject
	}

	// during: a delivery to "box" (sometimes also to "side") between two steps of the party
	during := func(p int) bool {
		for n := r.Weighted([]int{p, 3, 1}); n > 0; n-- {
			boxes := []string{"box"}
			if r.Chance(1, 4) {
				boxes = append(boxes, "side")
			}
			if r.Chance(1, 6) {
				boxes = []string{"side", "box"}
			}
			if !x.deliver("during", boxes...) {
				return false
			}
		}
		return true
	}
	// pick: which of the n things the party saw it names (1-based positions)
	pick := func(n int) []int {
		var out []int
		switch x.shape {
		case "all":
			for i := 1; i <= n; i++ {
				out = append(out, i)
			}
		case "some":
			for i := 1; i <= n; i++ {
				if r.Bool() {
					out = append(out, i)
				}
			}
			if len(out) == n && n > 0 {
				out = out[:n-1]
			}
		case "one":
			if n > 0 {
				out = []int{1 + r.Intn(n)}
			}
		}
		if r.Chance(1, 3) {
			p := r.Perm(len(out))
			sh := make([]int, len(out))
			for i, j := range p {
				sh[i] = out[j]
			}
			out = sh
		}
		return out
	}

	finished := false // the party did its removal (QUIT acknowledged / RemoveMessage calls made)
	nShown := 0
	if x.party == "manager-remove" {
		// 2. list through the manager (what REST GET /mailbox does)
		metas, err := env.Manager.GetMetadata("box")
		if err != nil {
			x.violation("C01:store-unreadable", "Manager.GetMetadata(box): "+err.Error())
			return
		}
		nShown = len(metas)
		var ids []string
		for _, p := range pick(len(metas)) {
			id := metas[p-1].ID
			s, known := subjOf[id]
			if !known {
				c.Count("xiface_listing_unusable", 1)
				return
			}
			ids = append(ids, id)
			x.named[s] = true
		}
		x.steps = append(x.steps, fmt.Sprintf("manager: listed %d, will remove %v", len(metas), ids))
		// 3./4. deliveries before and between the removals (what REST DELETE /mailbox/box/id does)
		if !during(0) {
			return
		}
		for _, id := range ids {
			err := env.Manager.RemoveMessage("box", id)
			x.steps = append(x.steps, fmt.Sprintf("manager: RemoveMessage(box,%s) = %v", id, err))
			if r.Chance(1, 3) && !during(1) {
				return
			}
		}
		finished = true
		c.Count("xiface_manager_remove_rounds", 1)
	} else {
		ps := env.StartPOP3()
		defer func() {
			if !ps.Ended() {
				if !ps.Close() {
					c.Hang("pop3-session-end", "POP3 session did not end after the client closed", "")
				}
			}
		}()
		pop := func(line string) (sut.POP3Reply, bool) {
			rep, err := ps.Cmd(line)
			if err != nil {
				x.failed = true
				c.Hang("pop3-session-idle", err.Error(), "")
				return rep, false
			}
			x.steps = append(x.steps, "pop3 "+line+" -> "+rep.First)
			return rep, true
		}
		if _, ok := ps.Greeting(); !ok {
			// the POP3 dialogue itself is C13's matter; without a session nothing is observed here
			c.Count("xiface_pop3_unusable", 1)
			return
		}
		// 2. login and look
		loggedIn := false
		if r.Chance(1, 3) {
			rep, ok := pop("APOP box c4c9334bac560ecc979e58001b3e22fb")
			if !ok {
				return
			}
			loggedIn = rep.OK
		} else {
			if _, ok := pop("USER box"); !ok {
				return
			}
			rep, ok := pop("PASS secret")
			if !ok {
				return
			}
			loggedIn = rep.OK
		}
		if !loggedIn {
			c.Count("xiface_pop3_unusable", 1)
			return
		}
		if r.Chance(1, 2) && !during(1) { // accepted after login, before the session even lists
			return
		}
		rep, ok := pop("UIDL")
		if !ok {
			return
		}
		var shown []string // subject of message number n (index n-1)
		usable := rep.OK && rep.Terminated && len(rep.Extra) == 0
		for i, l := range rep.Body {
			f := strings.Fields(string(l))
			if len(f) != 2 || f[0] != strconv.Itoa(i+1) {
				usable = false
				break
			}
			s, known := subjOf[f[1]]
			if !known {
				usable = false // the session claims a message that was not there at login
				break
			}
			shown = append(shown, s)
		}
		if !usable {
			c.Count("xiface_pop3_unusable", 1)
			return
		}
		nShown = len(shown)
		// 3. name, with deliveries in between
		if !during(1) {
			return
		}
		for _, n := range pick(len(shown)) {
			rep, ok := pop("DELE " + strconv.Itoa(n))
			if !ok {
				return
			}
			// named as soon as the client asked for it, whatever the reply
			_ = rep
			x.named[shown[n-1]] = true
			if r.Chance(1, 4) {
				if _, ok := pop(r.Pick([]string{"STAT", "LIST", "NOOP", "UIDL"})); !ok {
					return
				}
			}
			if r.Chance(1, 4) && !during(1) {
				return
			}
		}
		if !during(0) { // at least one delivery is acknowledged before the session ends
			return
		}
		// 4. finish
		switch x.party {
		case "pop3-quit", "pop3-rset-quit":
			if x.party == "pop3-rset-quit" {
				if _, ok := pop("RSET"); !ok {
					return
				}
			}
			rep, ok := pop("QUIT")
			if !ok {
				return
			}
			if !ps.WaitEnd() {
				c.Hang("pop3-session-end", "POP3 session did not end after QUIT", "")
				return
			}
			finished = rep.OK
			if finished && x.party == "pop3-quit" && nShown >= 2 {
				switch {
				case len(x.named) == nShown:
					c.Count("xiface_pop3_quit_after_deleting_all_shown", 1)
				case len(x.named) > 0:
					c.Count("xiface_pop3_quit_after_deleting_some_shown", 1)
				}
			}
		case "pop3-drop":
			if !ps.Close() {
				c.Hang("pop3-session-end", "POP3 session did not end after the client closed", "")
				return
			}
			x.steps = append(x.steps, "pop3 connection dropped")
			finished = true
		}
	}

	// 5. the party is gone; one more delivery
	if r.Chance(2, 3) && !x.deliver("after", "box") {
		return
	}

	// ---- oracle ----
	snap, err := sut.Snapshot(env.Store, []string{"box", "side"}, false)
	if err != nil {
		x.violation("C01:store-unreadable", err.Error())
		return
	}
	var names []string
	for n := range snap {
		names = append(names, n)
	}
	sort.Strings(names)
	verified, namedGone, namedKept := 0, 0, 0
	for _, mb := range names {
		have := map[string]int{}
		for _, m := range snap[mb] {
			have[m.Subject]++
		}
		owed := map[string]bool{}
		for _, s := range x.owed[mb] {
			owed[s] = true
		}
		for s := range have {
			if !owed[s] {
				x.violation("C01:unexpected-message", fmt.Sprintf("mailbox %q holds a message %q nobody was acknowledged for", mb, s))
				return
			}
		}
		for _, s := range x.owed[mb] {
			if mb == "box" && x.named[s] {
				// named by the removing party: gone or not is C13's matter; never more than once
				if have[s] > 1 {
					x.violation("C01:wrong-copy-count", fmt.Sprintf("mailbox %q holds %d copies of %q", mb, have[s], s))
					return
				}
				if have[s] == 0 {
					namedGone++
				} else {
					namedKept++
				}
				continue
			}
			if have[s] != 1 {
				key := "C01:wrong-copy-count"
				what := fmt.Sprintf("mailbox %q holds %d copies of %q, acknowledged with 250 and never named by the other party", mb, have[s], s)
				if have[s] == 0 {
					key = "C01:removed-by-other-interface"
					what = fmt.Sprintf("mailbox %q lost %q, acknowledged with 250: the other party (%s) was shown %d message(s), named %d of them and never this one; mailbox now holds %d",
						mb, s, x.party, nShown, len(x.named), len(snap[mb]))
				}
				x.violation(key, what)
				return
			}
			verified++
		}
	}
	c.Count("xiface_rounds", 1)
	c.Count("xiface_party:"+x.party, 1)
	c.Count("xiface_unnamed_verified_present_once", int64(verified))
	c.Count("xiface_named_found_removed", int64(namedGone))
	c.Count("xiface_named_found_still_there", int64(namedKept))
	c.Count("messages_stored", int64(verified+namedGone+namedKept))
	if finished {
		c.NonTrivial(fmt.Sprintf("xiface|%s|%s|%s|shown%d|named%d", backend, x.party, x.shape, nShown, len(x.named)))
	}
}
