// Package c02 will hold the check for property C02.
package c02
