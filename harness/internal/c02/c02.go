// Package c02 decides C02: the source of a stored message, read through the store, the REST
// source endpoint, the web UI source endpoint and POP3 RETR, is the server's trace headers
// followed by exactly the bytes transmitted in DATA (after dot-unstuffing) up to CRLF/LF
// normalisation; all interfaces agree and every reported size equals the stored length.
package c02

import (
	"bytes"
	"encoding/json"
	"errors"
	"fmt"
	"io"
	"net"
	"net/http"
	"regexp"
	"strconv"
	"strings"
	"time"

	"verifharness/internal/fw"
	"verifharness/internal/sut"
)

func init() {
	fw.Register(&fw.Prop{
		ID:    "C02",
		Level: "exploration",
		Rule: "message bodies generated from (seed, case index) by a segment grammar (printable runs, all 256 byte values, " +
			"8-bit runs, NUL runs, lines starting with 1-3 dots, lone dot line, dot+CR, bare CR, bare LF, CR CR LF, empty lines, " +
			"lines of 998/1000 B, 65535/65536/65537 B, 70 KiB, 200 KiB, 1 MiB, multi-MiB bodies, missing final newline, final bare LF, " +
			"0-byte body, header-less data); case i always contains kind i mod 30, so every kind occurs n/30 times per back end. " +
			"Each body is sent by an RFC 5321 sender over a real SMTP session to 1-2 recipients (mailbox optionally pre-filled with one " +
			"message) on the mem and the file store, and every stored copy is read back through Store.Source/Size, REST source, web UI " +
			"source, POP3 RETR and the sizes of REST list/show, POP3 STAT/LIST/RETR. The POP3 read-back of a copy is ONE session running a " +
			"script drawn per copy: single RETR, TOP n 0 then RETR, RETR twice, TOP twice then RETR, RETR - RETR of the other message - RETR, or " +
			"2-6 free steps over RETR / TOP n 0 / TOP n 1..20 / TOP n 2^31-1 of either message, STAT, LIST n, NOOP; every RETR must be the stored " +
			"bytes under C with the stored size announced, every TOP their leading part (whole message for 2^31-1 lines). " +
			"A case is non-trivial when >=1 copy was stored and " +
			"read back through all four interfaces; distinct by (back end, header present, set of segment kinds, recipients, pre-fill, " +
			"script shape and kinds of repetition observed). Streams smallcap-<mem|file>-cap<1|2> run the same read-back under a mailbox " +
			"message cap of 1 and 2: 2-6 deliveries to one mailbox, after every accepted delivery the newest message through all interfaces " +
			"and every older message still listed through Store.Source/Size, REST and web UI source against the bytes it was stored with.",
		Assumptions: []string{
			"comparison under C(x) = every run of CRs directly before an LF removed (CRLF/LF normalisation; CR CR LF also equals LF)",
			"inputs in which a bare LF is immediately followed by '.' are generated and counted, but only their interface agreement and sizes decide, not the transmitted-vs-stored comparison",
			"a message the server refuses (451 for unparseable headers) is a trivial case; acceptance itself is not part of C02",
			"TOP n k is judged as RFC 1939 defines it, with a lower bound only: under C a leading part of the stored source, cut after a line, that holds at least the header up to the first empty line (empty under C, the earliest reading) and k further lines; k = 2^31-1 demands the whole message",
			"sessions run through VerifServeConn on an in-memory net.Conn; HTTP goes through a real loopback httptest server",
		},
		MinObs: func(tier string) map[string]int64 {
			// n/30 cases per kind and back end are generated (150 quick, 500 thorough); minima are set well below.
			f := int64(1)
			if tier == "thorough" {
				f = 5
			}
			m := map[string]int64{"copies_checked": 3000 * f, "pop3_retr_ok": 3000 * f, "rest_source_ok": 3000 * f,
				"webui_source_ok": 3000 * f, "store_source_ok": 3000 * f, "sizes_rest_list": 3000 * f, "sizes_rest_show": 2000 * f,
				"sizes_pop3_stat": 3000 * f, "sizes_pop3_list": 3000 * f, "sizes_pop3_retr": 3000 * f,
				"long_line_copies_over_64k": 600 * f, "lfdot_cases": 100 * f, "backend:mem": 3000 * f, "backend:file": 3000 * f,
				"distinct_nontrivial": 2000 * f}
			// retrieval scripts (about 9 700 copies in quick; 7 of 8 scripts repeat a retrieval)
			for k, v := range map[string]int64{"pop3_retrievals_judged": 6000, "pop3_top_ok": 1500, "pop3_top_partial_ok": 500,
				"pop3_repeated_retrieval_ok": 2500, "pop3_repeated_retrieval_ok:mem": 1000, "pop3_repeated_retrieval_ok:file": 1000,
				"pop3_retr_after_top_ok": 800, "pop3_retr_after_retr_ok": 800, "pop3_top_after_retr_ok": 500,
				"pop3_other_message_retr_ok": 100, "pop3_retr_again_after_other_message_ok": 100} {
				m[k] = v * f
			}
			for _, k := range kinds {
				m["kind:"+k] = 150 * f
			}
			return m
		},
		Run: run,
	})
}

func run(c *fw.Ctx) {
	n := c.N(4500, 15000)
	for _, backend := range []string{"mem", "file"} {
		conf := sut.DefaultConf()
		conf.SMTP.MaxMessageBytes = 64 << 20
		if backend == "file" {
			conf.Storage.Type = "file"
			conf.Storage.Params = map[string]string{"path": c.TempDir("c02fs")}
		}
		we, err := sut.NewWebEnv(conf, backend)
		if err != nil {
			panic(err)
		}
		hc := &http.Client{Timeout: 5 * time.Minute}
		c.Cases("body-"+backend, n, func(i int, r *fw.Rand) {
			runCase(c, we, hc, backend, i, r)
		})
		c.Cases("concurrent-"+backend, c.N(40, 600), func(i int, r *fw.Rand) {
			runConcurrent(c, we.Env, backend, i, r)
		})
		hc.CloseIdleConnections()
		we.Close()
	}
	runSmallCaps(c) // smallcap.go: mailbox caps 1 and 2, several deliveries to one mailbox (after seeded change C02-13)
	c.Cases("maxkb", c.N(60, 900), func(i int, r *fw.Rand) { runMaxKB(c, i, r) })
}

type caseCtx struct {
	c        *fw.Ctx
	we       *sut.WebEnv
	hc       *http.Client
	backend  string
	idx      int
	msg      *message
	info     map[string]any
	hung     bool     // a watchdog fired: nothing further in this case is judged
	r        *fw.Rand // the case's PRNG (retrieval scripts)
	popFlags []string // per copy: script shape and the repetitions observed in its POP3 session
}

func (k *caseCtx) hang(name, what string) {
	if !k.hung {
		k.hung = true
		k.c.Hang(name, fmt.Sprintf("[%s case %d] %s", k.backend, k.idx, what), "")
	}
}

func (k *caseCtx) fail(key, what string, extra map[string]any) {
	if k.hung {
		return
	}
	d := map[string]any{}
	for a, b := range k.info {
		d[a] = b
	}
	for a, b := range extra {
		d[a] = b
	}
	k.c.Violation(key, fmt.Sprintf("[%s case %d kinds=%v len=%d] %s", k.backend, k.idx, k.msg.kindSet, len(k.msg.data), what), d)
}

var helos = []string{"client.test", "mx1.sender.example", "[192.0.2.7]", "localhost"}

func runCase(c *fw.Ctx, we *sut.WebEnv, hc *http.Client, backend string, idx int, r *fw.Rand) {
	forced := kinds[idx%len(kinds)]
	msg := genMessage(r, forced, c.Quick())
	k := &caseCtx{c: c, we: we, hc: hc, backend: backend, idx: idx, msg: msg, r: r}
	helo := r.Pick(helos)
	sender := "sender" + strconv.Itoa(r.Intn(1000)) + "@origin.test"
	if r.Chance(1, 20) {
		sender = ""
	}
	nrcpt := 1
	if r.Chance(1, 4) {
		nrcpt = 2
	}
	prefill := r.Chance(1, 4)
	var boxes []string
	for j := 0; j < nrcpt; j++ {
		boxes = append(boxes, fmt.Sprintf("c%d%c%s", idx, 'a'+j, backend[:1]))
	}
	k.info = map[string]any{"backend": backend, "kinds": msg.kindSet, "helo": helo, "sender": sender, "mailboxes": boxes,
		"prefill": prefill, "data_len": len(msg.data), "data_head": fw.Trunc(string(msg.data), 600), "lfdot": msg.lfdot}
	for _, kd := range msg.kindSet {
		c.Count("kind:"+kd, 1)
	}
	c.Count("backend:"+backend, 1)
	c.Max("max_data_bytes", int64(len(msg.data)))
	c.Max("max_line_bytes", int64(msg.maxLine))
	if msg.lfdot {
		c.Count("lfdot_cases", 1)
	}
	defer func() {
		for _, b := range boxes {
			_ = we.Store.PurgeMessages(b)
		}
	}()

	// The sender: append CRLF if missing, dot-stuff, terminate.  The receiver-side inverse of
	// the harness must give back exactly the data (plus the appended CRLF): a harness self-check.
	wire := sut.DotStuff(msg.data)
	sent := msg.data
	if !bytes.HasSuffix(sent, []byte("\r\n")) {
		sent = append(append([]byte{}, sent...), '\r', '\n')
	}
	if back, ok := unstuff(wire); !ok || !bytes.Equal(back, sent) {
		panic(fmt.Sprintf("harness: DotStuff/unstuff disagree on case %d", idx))
	}

	ss := we.StartSMTP()
	ss.Watchdog = 120 * time.Second * time.Duration(c.Slow)
	defer func() {
		if !ss.Ended() && !ss.Close() {
			c.Hang("smtp-session-end", "SMTP session did not end after the client closed", "")
		}
	}()
	if rs, mal, _, ok := ss.Step(nil); !ok {
		k.hang("smtp-greeting", "no output and no idle point after connecting")
		return
	} else if mal != "" || len(rs) != 1 || rs[0].Code != 220 {
		k.fail("C02:smtp-dialogue", "no single 220 greeting", map[string]any{"trace": ss.Trace})
		return
	}
	cmd := func(line string, want int) bool {
		rep, err := ss.Cmd(line)
		if err != nil && strings.HasPrefix(err.Error(), "watchdog:") {
			k.hang("smtp-command", err.Error())
			return false
		}
		if err != nil || rep.Code != want {
			k.fail("C02:smtp-dialogue", fmt.Sprintf("%q answered %v %v, expected %d", line, rep, err, want), map[string]any{"trace": ss.Trace})
			return false
		}
		return true
	}
	if !cmd("EHLO "+helo, 250) {
		return
	}
	pre := 0
	if prefill {
		// one earlier message in every target mailbox, so that the copy under test is number 2
		if !cmd("MAIL FROM:<filler@origin.test>", 250) {
			return
		}
		for _, b := range boxes {
			if !cmd("RCPT TO:<"+b+"@inbucket.test>", 250) {
				return
			}
		}
		if !cmd("DATA", 354) {
			return
		}
		if !cmd("Subject: filler\r\n\r\nfiller "+r.Letters(r.Range(0, 50), textual)+"\r\n.", 250) {
			return
		}
		pre = 1
		// The newest message is also reachable under the id "latest"; whoever reads it now must
		// not change what "latest" yields after the next delivery (after seeded change C02-10).
		for _, b := range boxes {
			for _, u := range []string{"/api/v1/mailbox/" + b + "/latest/source", "/serve/mailbox/" + b + "/latest/source"} {
				if status, _, err := k.get(we.Base + u); err == nil && status == 200 {
					c.Count("latest_source_read_before_the_delivery", 1)
				}
			}
		}
	}
	// A declared SIZE is advisory: whatever the client declares (nothing, the truth, too little,
	// too much - all far below the configured maximum), the stored bytes are the transmitted ones.
	mailLine := "MAIL FROM:<" + sender + ">"
	switch r.Intn(6) {
	case 0:
		mailLine += fmt.Sprintf(" SIZE=%d", len(sent))
		c.Count("size_param:exact", 1)
	case 1:
		mailLine += fmt.Sprintf(" SIZE=%d", len(sent)/2)
		c.Count("size_param:understated", 1)
	case 2:
		mailLine += fmt.Sprintf(" BODY=8BITMIME SIZE=%d", len(sent)*2+100)
		c.Count("size_param:overstated", 1)
	case 3:
		mailLine += " SIZE=1"
		c.Count("size_param:understated", 1)
	}
	if !cmd(mailLine, 250) {
		return
	}
	for _, b := range boxes {
		if !cmd("RCPT TO:<"+b+"@inbucket.test>", 250) {
			return
		}
	}
	// How the data block reaches the server is the client's business: after the 354 (usual), in
	// the same write as the DATA line, or with the DATA line and a first part, the rest later
	// (added after seeded change C02-7: the content must not depend on where the server's reads
	// happen to cut the stream).
	var replies []sut.Reply
	var mal string
	var ok bool
	switch style := r.Intn(8); {
	case style >= 3 || msg.lfdot:
		if !cmd("DATA", 354) {
			return
		}
		replies, mal, _, ok = ss.Step(wire)
	default:
		first := wire
		if style == 2 && len(wire) > 2 {
			first = wire[:r.Range(1, len(wire)-1)]
		}
		c.Count("data_sent_without_waiting_for_354", 1)
		replies, mal, _, ok = ss.Step(append([]byte("DATA\r\n"), first...))
		if ok && len(first) < len(wire) {
			var more []sut.Reply
			var mal2 string
			more, mal2, _, ok = ss.Step(wire[len(first):])
			replies = append(replies, more...)
			mal += mal2
		}
		if ok && mal == "" {
			if len(replies) == 0 || replies[0].Code != 354 {
				k.fail("C02:smtp-dialogue", fmt.Sprintf("DATA sent together with the message was not answered 354 first: %v", replies), map[string]any{"trace": ss.Trace})
				return
			}
			replies = replies[1:]
		}
	}
	if !ok {
		k.hang("smtp-data", "session neither idle nor closed after the data block")
		return
	}
	if msg.lfdot {
		k.lfdotCase(replies, boxes, pre, helo, sender, sent)
		return
	}
	if mal != "" || len(replies) != 1 {
		var rs []string
		for _, rp := range replies {
			rs = append(rs, rp.String())
		}
		k.fail("C02:data-block-desync", fmt.Sprintf("%d replies (malformed=%q) to one RFC 5321 data block: %v", len(replies), mal, rs), nil)
		return
	}
	if replies[0].Code != 250 {
		c.Count("refused:"+strconv.Itoa(replies[0].Code), 1)
		if msg.header {
			c.Count("refused_with_header", 1)
		}
		// Nothing may be stored for a refused message (checked by C01/C03); trivial here.
		return
	}
	c.Count("accepted", 1)
	all := true
	for _, b := range boxes {
		if !k.checkCopy(b, pre, helo, sender, sent, true) {
			all = false
		}
	}
	if all {
		c.NonTrivial(fmt.Sprintf("%s|h=%v|%s|r=%d|p=%v|pop3=%s", backend, msg.header, strings.Join(msg.kindSet, ","), len(boxes), prefill,
			strings.Join(k.popFlags, ",")))
		c.Sample(map[string]any{"backend": backend, "kinds": msg.kindSet, "data_len": len(msg.data), "max_line": msg.maxLine,
			"recipients": len(boxes), "prefill": prefill})
	}
}

// lfdotCase handles inputs containing a bare LF directly followed by '.'.  What the server
// should store is reading-dependent (see DESIGN, Not demanded), so the transmitted-vs-stored
// comparison is only counted.  Whatever was stored must still read back identically through
// every interface, which does not depend on the reading.
func (k *caseCtx) lfdotCase(replies []sut.Reply, boxes []string, pre int, helo, sender string, sent []byte) {
	c := k.c
	if len(replies) != 1 {
		c.Count("lfdot_outcome:desync", 1)
	} else {
		c.Count("lfdot_outcome:reply-"+strconv.Itoa(replies[0].Code), 1)
	}
	if len(replies) == 0 || replies[0].Code != 250 {
		return
	}
	for _, b := range boxes {
		ms, err := k.we.Store.GetMessages(b)
		if err != nil || len(ms) != pre+1 {
			c.Count("lfdot_outcome:not-stored-as-one", 1)
			continue
		}
		k.checkCopy(b, pre, helo, sender, sent, false)
	}
}

var dateRE = `[^\n]*`

// checkCopy reads the newest message of mailbox through every interface.  decide=false skips
// the transmitted-vs-stored comparison (counted instead).
func (k *caseCtx) checkCopy(box string, pre int, helo, sender string, sent []byte, decide bool) bool {
	c, we := k.c, k.we
	ms, err := we.Store.GetMessages(box)
	if err != nil {
		k.fail("C02:store-unreadable", fmt.Sprintf("GetMessages(%q): %v", box, err), nil)
		return false
	}
	if len(ms) != pre+1 {
		k.fail("C02:accepted-but-not-stored", fmt.Sprintf("mailbox %q holds %d messages after a 250, expected %d", box, len(ms), pre+1), nil)
		return false
	}
	m := ms[pre]
	id := m.ID()
	rd, err := m.Source()
	if err != nil {
		k.fail("C02:store-source", fmt.Sprintf("Source() of %s/%s: %v", box, id, err), nil)
		return false
	}
	src, err := io.ReadAll(rd)
	_ = rd.Close()
	if err != nil {
		k.fail("C02:store-source", fmt.Sprintf("reading Source() of %s/%s: %v", box, id, err), nil)
		return false
	}
	good := true
	bad := func(key, what string, extra map[string]any) {
		good = false
		k.fail(key, what, extra)
	}
	if m.Size() != int64(len(src)) {
		bad("C02:store-size", fmt.Sprintf("Size()=%d but Source() has %d bytes (%s/%s)", m.Size(), len(src), box, id), nil)
	}
	csrc := normC(src)
	// (1) stored source = trace headers + transmitted data, under C.
	re := regexp.MustCompile(`^Return-Path: <` + regexp.QuoteMeta(sender) + `>\nReceived: from ` + regexp.QuoteMeta(helo) +
		` \(\[127\.0\.0\.1\]\) by inbucket\.test\n  for <` + regexp.QuoteMeta(box) + `>; ` + dateRE + `\n`)
	loc := re.FindIndex(csrc)
	if loc == nil {
		bad("C02:trace-headers", fmt.Sprintf("stored source of %s/%s does not start with the expected Return-Path/Received lines: %s",
			box, id, fw.Q(string(src))), nil)
	} else {
		rest := csrc[loc[1]:]
		want := normC(sent)
		eq := bytes.Equal(rest, want)
		if decide {
			if !eq {
				at, a, b := firstDiff(rest, want)
				bad("C02:store-content", fmt.Sprintf("stored source of %s/%s differs from the transmitted data at normalised offset %d (stored %d bytes, transmitted %d): stored %q, transmitted %q",
					box, id, at, len(rest), len(want), a, b), nil)
			} else {
				c.Count("store_source_ok", 1)
				c.Count("bytes_compared", int64(len(want)))
			}
		} else if eq {
			c.Count("lfdot_outcome:stored-equal", 1)
		} else {
			c.Count("lfdot_outcome:stored-differs", 1)
		}
	}
	over64k := k.msg.maxLine > 65536

	// (2) REST source and web UI source.
	for _, ep := range []struct{ name, url string }{
		{"rest", we.Base + "/api/v1/mailbox/" + box + "/" + id + "/source"},
		{"webui", we.Base + "/serve/mailbox/" + box + "/" + id + "/source"},
		{"rest-latest", we.Base + "/api/v1/mailbox/" + box + "/latest/source"},
		{"webui-latest", we.Base + "/serve/mailbox/" + box + "/latest/source"},
	} {
		status, body, err := k.get(ep.url)
		if err != nil || status != 200 {
			bad("C02:"+ep.name+"-source", fmt.Sprintf("GET %s: status %d err %v", ep.url, status, err), nil)
			continue
		}
		if !bytes.Equal(normC(body), csrc) {
			at, a, b := firstDiff(normC(body), csrc)
			bad("C02:"+ep.name+"-source", fmt.Sprintf("GET %s returns %d bytes, store has %d; first difference at normalised offset %d: http %q, store %q",
				ep.url, len(body), len(src), at, a, b), nil)
			continue
		}
		c.Count(ep.name+"_source_ok", 1)
	}

	// (3) sizes in REST list and show.
	if status, body, err := k.get(we.Base + "/api/v1/mailbox/" + box); err != nil || status != 200 {
		bad("C02:rest-list", fmt.Sprintf("GET mailbox list %s: status %d err %v", box, status, err), nil)
	} else {
		var l []struct {
			ID   string `json:"id"`
			Size int64  `json:"size"`
		}
		if err := json.Unmarshal(body, &l); err != nil {
			bad("C02:rest-list", fmt.Sprintf("mailbox list %s is not the documented JSON: %v", box, err), nil)
		} else {
			found := false
			for _, e := range l {
				if e.ID == id {
					found = true
					if e.Size != int64(len(src)) {
						bad("C02:rest-list-size", fmt.Sprintf("REST list reports size %d for %s/%s, stored source has %d bytes", e.Size, box, id, len(src)), nil)
					} else {
						c.Count("sizes_rest_list", 1)
					}
				}
			}
			if !found {
				bad("C02:rest-list", fmt.Sprintf("REST list of %s does not contain stored message %s", box, id), nil)
			}
		}
	}
	if status, body, err := k.get(we.Base + "/api/v1/mailbox/" + box + "/" + id); err != nil {
		bad("C02:rest-show", fmt.Sprintf("GET message %s/%s: %v", box, id, err), nil)
	} else if status != 200 {
		// MIME parsing of arbitrary bytes may fail; that is not part of this property.
		c.Count("rest_show_unavailable:"+strconv.Itoa(status), 1)
	} else {
		var e struct {
			Size *int64 `json:"size"`
		}
		if err := json.Unmarshal(body, &e); err != nil || e.Size == nil {
			c.Count("rest_show_unparseable", 1)
		} else if *e.Size != int64(len(src)) {
			bad("C02:rest-show-size", fmt.Sprintf("REST show reports size %d for %s/%s, stored source has %d bytes", *e.Size, box, id, len(src)), nil)
		} else {
			c.Count("sizes_rest_show", 1)
		}
	}

	// (4) POP3.
	if !k.pop3(box, pre, src, csrc, bad) {
		good = false
	}
	if good {
		c.Count("copies_checked", 1)
		if over64k {
			c.Count("long_line_copies_over_64k", 1)
		}
	}
	return good
}

func (k *caseCtx) get(url string) (int, []byte, error) {
	resp, err := k.hc.Get(url)
	if err == nil {
		defer resp.Body.Close()
		var b []byte
		b, err = io.ReadAll(resp.Body)
		if err == nil {
			return resp.StatusCode, b, nil
		}
	}
	var ne net.Error
	if errors.As(err, &ne) && ne.Timeout() {
		// the generous client timeout is a watchdog, not an observation
		k.hang("http-get", "GET "+url+": "+err.Error())
	}
	return 0, nil, err
}

var (
	statRE = regexp.MustCompile(`^\+OK (\d+) (\d+)$`)
	listRE = regexp.MustCompile(`^\+OK (\d+) (\d+)$`)
	retrRE = regexp.MustCompile(`^\+OK (\d+) `)
)

func (k *caseCtx) pop3(box string, pre int, src, csrc []byte, bad func(key, what string, extra map[string]any)) bool {
	c := k.c
	ps := k.we.StartPOP3()
	ps.Watchdog = 120 * time.Second * time.Duration(c.Slow)
	defer func() {
		if !ps.Ended() && !ps.Close() {
			c.Hang("pop3-session-end", "POP3 session did not end after the client closed", "")
		}
	}()
	okAll := true
	fail := func(key, what string) {
		okAll = false
		bad(key, what, map[string]any{"pop3_trace": ps.Trace})
	}
	if rep, _, ok := ps.Step(nil); !ok {
		k.hang("pop3-greeting", "no output and no idle point after connecting")
		return false
	} else if !rep.OK || rep.Multi {
		fail("C02:pop3-dialogue", "no +OK greeting")
		return false
	}
	single := func(line string) (sut.POP3Reply, bool) {
		rep, err := ps.Cmd(line)
		if err != nil {
			k.hang("pop3-command", err.Error())
			return rep, false
		}
		if rep.Malformed != "" || !rep.OK || rep.Multi {
			fail("C02:pop3-dialogue", fmt.Sprintf("%q answered %s", line, fw.Q(string(rep.Raw))))
			return rep, false
		}
		return rep, true
	}
	if _, ok := single("USER " + box); !ok {
		return false
	}
	if _, ok := single("PASS x"); !ok {
		return false
	}
	n := pre + 1
	// Sizes of all messages in the mailbox as the store reports them.
	var total int64
	var sizes []int64
	cur, err := k.we.Store.GetMessages(box)
	if err != nil || len(cur) != n {
		fail("C02:store-unreadable", fmt.Sprintf("GetMessages(%q) changed under the check: %d messages, err %v", box, len(cur), err))
		return false
	}
	for _, m := range cur {
		sizes = append(sizes, m.Size())
		total += m.Size()
	}
	if rep, ok := single("STAT"); ok {
		mm := statRE.FindStringSubmatch(rep.First)
		if mm == nil {
			fail("C02:pop3-dialogue", "STAT answered "+fw.Q(rep.First))
		} else if mm[1] != strconv.Itoa(n) || mm[2] != strconv.FormatInt(total, 10) {
			fail("C02:pop3-stat-size", fmt.Sprintf("STAT answered %q, the store holds %d messages of %d bytes in %s", rep.First, n, total, box))
		} else {
			c.Count("sizes_pop3_stat", 1)
		}
	} else {
		return false
	}
	if rep, ok := single("LIST " + strconv.Itoa(n)); ok {
		mm := listRE.FindStringSubmatch(rep.First)
		if mm == nil || mm[1] != strconv.Itoa(n) || mm[2] != strconv.Itoa(len(src)) {
			fail("C02:pop3-list-size", fmt.Sprintf("LIST %d answered %q, stored source has %d bytes", n, rep.First, len(src)))
		} else {
			c.Count("sizes_pop3_list", 1)
		}
	} else {
		return false
	}
	// Multi-line LIST.
	rep, err := ps.Cmd("LIST")
	if err != nil {
		k.hang("pop3-command", err.Error())
		return false
	}
	if rep.Malformed != "" || !rep.OK || !rep.Terminated || len(rep.Extra) > 0 || len(rep.Body) != n {
		fail("C02:pop3-dialogue", "LIST answered "+fw.Q(string(rep.Raw)))
	} else {
		for j, l := range rep.Body {
			if string(l) != fmt.Sprintf("%d %d", j+1, sizes[j]) {
				fail("C02:pop3-list-size", fmt.Sprintf("LIST line %d is %q, store reports size %d", j+1, l, sizes[j]))
			}
		}
		if okAll {
			c.Count("sizes_pop3_listing", 1)
		}
	}
	// Retrievals: a script of RETR / TOP / STAT / LIST / NOOP in one session (pop3multi.go; added
	// after seeded change C02-12), every step judged against the store.
	v := &popView{box: box, n: n, sizes: sizes, total: total, srcs: make([][]byte, n), csrcs: make([][]byte, n)}
	v.srcs[n-1], v.csrcs[n-1] = src, csrc
	if pre == 1 {
		other, err := readSource(cur[0])
		if err != nil {
			fail("C02:store-source", fmt.Sprintf("reading Source() of the earlier message of %s: %v", box, err))
			return false
		}
		v.srcs[0], v.csrcs[0] = other, normC(other)
	}
	shape, ops := popScript(k.r, n, pre, len(src) > 128<<10)
	sok, flags := k.runPopScript(ps, v, shape, ops, fail)
	if !sok {
		return false
	}
	k.popFlags = append(k.popFlags, flags)
	if okAll {
		c.Count("pop3_retr_ok", 1)
	}
	// The session must still be usable and in step after the retrieval.
	if rep, err := ps.Cmd("NOOP"); err != nil {
		k.hang("pop3-command", err.Error())
		return false
	} else if !rep.OK || rep.Multi {
		fail("C02:pop3-stray-output", fmt.Sprintf("NOOP after the retrievals answered %s (%v)", fw.Q(string(rep.Raw)), err))
	}
	// Leave without QUIT: no deletions are committed.
	return okAll
}
