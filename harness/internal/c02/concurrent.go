package c02

import (
	"bytes"
	"fmt"
	"strings"
	"time"

	"verifharness/internal/fw"
	"verifharness/internal/sut"
)

// Concurrent slice: several SMTP sessions transmit distinct large bodies at the same time.  The
// byte-for-byte claim must hold for each of them: a buffer shared between sessions (pooling,
// aliasing) shows up as one session's stored source carrying another session's bytes.
func runConcurrent(c *fw.Ctx, env *sut.Env, backend string, idx int, r *fw.Rand) {
	nsess := r.Range(3, 8)
	per := r.Range(2, 4)
	type msg struct {
		box  string
		data []byte
	}
	plans := make([][]msg, nsess)
	for si := range plans {
		for k := 0; k < per; k++ {
			tag := fmt.Sprintf("c%d-s%d-m%d", idx, si, k)
			var b bytes.Buffer
			b.WriteString("Subject: " + tag + "\r\nFrom: a@b.test\r\n\r\n")
			line := strings.Repeat(tag+"|", 8) + "\r\n"
			for b.Len() < r.Range(20<<10, 400<<10) {
				b.WriteString(line)
			}
			plans[si] = append(plans[si], msg{box: "cc" + tag, data: b.Bytes()})
		}
	}
	errs := make([]string, nsess)
	acked := make([][]bool, nsess)
	done := make(chan struct{}, nsess)
	start := make(chan struct{})
	for si := 0; si < nsess; si++ {
		acked[si] = make([]bool, per)
		go func(si int) {
			defer func() { done <- struct{}{} }()
			ss := env.StartSMTP()
			defer ss.Close()
			<-start
			if _, err := ss.Greet(); err != nil {
				errs[si] = err.Error()
				return
			}
			if _, err := ss.Cmd("EHLO cc.test"); err != nil {
				errs[si] = err.Error()
				return
			}
			for k, m := range plans[si] {
				for _, line := range []string{"MAIL FROM:<s@sender.test>", "RCPT TO:<" + m.box + "@alpha.test>", "DATA"} {
					if _, err := ss.Cmd(line); err != nil {
						errs[si] = err.Error()
						return
					}
				}
				st := sut.DotStuff(m.data)
				rep, err := ss.Cmd(string(st[:len(st)-2]))
				if err != nil {
					errs[si] = err.Error()
					return
				}
				acked[si][k] = rep.Code == 250
			}
		}(si)
	}
	ok, dump := c.Within(3*time.Minute, func() {
		close(start)
		for i := 0; i < nsess; i++ {
			<-done
		}
	})
	if !ok {
		c.Hang("concurrent-sessions", "concurrent SMTP sessions did not finish", dump)
		return
	}
	checked := 0
	for si := range plans {
		if sut.IsWatchdog(fmt.Errorf("%s", errs[si])) {
			c.Hang("smtp-session-idle", errs[si], "")
			return
		}
		if errs[si] != "" {
			c.Violation("C02:concurrent-session-failed", fmt.Sprintf("%s session %d: %s", backend, si, errs[si]), nil)
			return
		}
		for k, m := range plans[si] {
			if !acked[si][k] {
				continue
			}
			ms, err := env.Store.GetMessages(m.box)
			if err != nil || len(ms) != 1 {
				c.Violation("C02:concurrent-accepted-but-not-stored", fmt.Sprintf("%s: mailbox %q holds %d messages (err %v) after its delivery was acknowledged", backend, m.box, len(ms), err), nil)
				return
			}
			snap := sut.SnapMsg(ms[0], true)
			want := normC(m.data)
			got := normC([]byte(snap.Source))
			if !bytes.HasSuffix(got, want) {
				at := firstDiffFromEnd(got, want)
				c.Violation("C02:concurrent-content-mixed", fmt.Sprintf("%s, %d sessions: stored source of %q (%d bytes) does not end with the %d bytes its session transmitted; first difference %d bytes from the end: stored %q",
					backend, nsess, m.box, len(got), len(want), at, excerpt(got, len(got)-at)), nil)
				return
			}
			if snap.Size != int64(len(snap.Source)) {
				c.Violation("C02:store-size", fmt.Sprintf("%s: Size()=%d, source has %d bytes", backend, snap.Size, len(snap.Source)), nil)
				return
			}
			checked++
			_ = env.Store.PurgeMessages(m.box)
		}
	}
	c.Count("concurrent_rounds", 1)
	c.Count("concurrent_copies_checked", int64(checked))
	c.NonTrivial(fmt.Sprintf("concurrent|%s|%d|%d", backend, nsess, per))
}

func firstDiffFromEnd(got, want []byte) int {
	i := 0
	for i < len(got) && i < len(want) && got[len(got)-1-i] == want[len(want)-1-i] {
		i++
	}
	return i
}

func excerpt(b []byte, at int) string {
	lo := at - 30
	if lo < 0 {
		lo = 0
	}
	hi := at + 30
	if hi > len(b) {
		hi = len(b)
	}
	return string(b[lo:hi])
}

// Size-limited memory store slice: with a total size limit configured, a message is either
// refused or stored complete - never silently cut down to what fits.
func runMaxKB(c *fw.Ctx, idx int, r *fw.Rand) {
	maxkb := []int{8, 64, 256}[idx%3]
	conf := sut.DefaultConf()
	conf.SMTP.MaxMessageBytes = 64 << 20
	conf.Storage.Params = map[string]string{"maxkb": fmt.Sprint(maxkb)}
	env, err := sut.NewEnv(conf, "mem")
	if err != nil {
		panic(err)
	}
	ss := env.StartSMTP()
	defer ss.Close()
	if _, err := ss.Greet(); err != nil {
		if sut.IsWatchdog(err) {
			c.Hang("smtp-session-idle", err.Error(), "")
		}
		return
	}
	if _, err := ss.Cmd("EHLO maxkb.test"); err != nil {
		return
	}
	limit := maxkb * 1024
	// Exact DATA lengths around the limit: the stored form is about 130 bytes longer (trace
	// headers), so limit-140...limit-1 fit as transmitted but not as stored.
	for k, size := range []int{limit / 2, limit - 400, limit - 200, limit - 140, limit - 100, limit - 60, limit - 20, limit - 1, limit + 1, limit + 200, 2 * limit, limit / 3} {
		box := fmt.Sprintf("mk%d-%d", idx, k)
		var b bytes.Buffer
		b.WriteString("Subject: " + box + "\r\nFrom: a@b.test\r\n\r\n")
		line := strings.Repeat(box+"~", 6) + "\r\n"
		for b.Len()+len(line) <= size {
			b.WriteString(line)
		}
		if pad := size - b.Len() - 2; pad >= 0 {
			b.WriteString(strings.Repeat("p", pad) + "\r\n")
		}
		data := b.Bytes()
		for _, l := range []string{"MAIL FROM:<s@sender.test>", "RCPT TO:<" + box + "@alpha.test>", "DATA"} {
			if _, err := ss.Cmd(l); err != nil {
				if sut.IsWatchdog(err) {
					c.Hang("smtp-session-idle", err.Error(), "")
				}
				return
			}
		}
		st := sut.DotStuff(data)
		rep, err := ss.Cmd(string(st[:len(st)-2]))
		if err != nil {
			if sut.IsWatchdog(err) {
				c.Hang("smtp-session-idle", err.Error(), "")
			}
			return
		}
		ms, gerr := env.Store.GetMessages(box)
		if gerr != nil {
			c.Violation("C02:store-unreadable", gerr.Error(), nil)
			return
		}
		if rep.Code != 250 {
			c.Count("maxkb_refused", 1)
			if len(ms) != 0 {
				c.Violation("C02:refused-but-stored", fmt.Sprintf("maxkb=%d: %d-byte message answered %s but mailbox %q holds %d messages", maxkb, len(data), rep.String(), box, len(ms)), nil)
				return
			}
			if _, err := ss.Cmd("RSET"); err != nil {
				return
			}
			continue
		}
		c.Count("maxkb_accepted", 1)
		if len(ms) == 0 {
			// accepted, then legitimately evicted again by later traffic? Not here: it is the newest message.
			c.Violation("C02:accepted-but-not-stored", fmt.Sprintf("maxkb=%d: %d-byte message acknowledged 250, mailbox %q is empty", maxkb, len(data), box), nil)
			return
		}
		sn := sut.SnapMsg(ms[len(ms)-1], true)
		if !bytes.HasSuffix(normC([]byte(sn.Source)), normC(data)) || sn.Size != int64(len(sn.Source)) {
			c.Violation("C02:store-content", fmt.Sprintf("maxkb=%d: acknowledged %d-byte message is stored as %d bytes (Size() %d) and does not end with the transmitted data", maxkb, len(data), len(sn.Source), sn.Size), nil)
			return
		}
	}
	c.Count("maxkb_sessions", 1)
	c.NonTrivial(fmt.Sprintf("maxkb|%d", maxkb))
}
