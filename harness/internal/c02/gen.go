package c02

import (
	"bytes"
	"sort"

	"verifharness/internal/fw"
)

// A message is generated as an optional header block followed by segments.  Every segment has
// a kind (for coverage accounting) and raw bytes; between segments a line terminator is chosen
// (CRLF mostly, bare LF, bare CR or nothing).  The whole byte string is what the client hands
// to its RFC 5321 sender (sut.DotStuff).

const (
	printable = "abcdefghijklmnopqrstuvwxyzABCDEFGHIJKLMNOPQRSTUVWXYZ0123456789 .,:;-_=+/()<>@!?'\"#$%&*[]{}|~^`\\\t"
	textual   = "abcdefghijklmnopqrstuvwxyz ABCDEFXYZ0123456789"
)

// kinds is the list of segment kinds; case i always contains kinds[i % len(kinds)], so every
// kind occurs at least n/len(kinds) times per back end.
var kinds = []string{
	"printable", "bytes256-asc", "bytes256-perm", "highbit", "nulrun",
	"dots1", "dots2", "dots3", "lonedot", "dot-cr",
	"barecr", "barelf", "lfdot", "emptylines", "crcrlf",
	"wsline", "headerlike", "line998", "line1000",
	"long64k-1", "long64k", "long64k+1", "long70k", "long200k", "long1m",
	"zero-body", "no-final-newline", "final-bare-lf", "big", "headerless",
}

// longKinds are the segments with a line beyond the 64 KiB scanner limit (or right at it).
var longKinds = map[string]int{
	"long64k-1": 65535, "long64k": 65536, "long64k+1": 65537, "long70k": 70 * 1024,
	"long200k": 200 * 1024, "long1m": 1 << 20,
}

type segment struct {
	kind string
	data []byte
}

type message struct {
	header     bool
	headerText []byte
	segs       []segment
	terms      []string // terminator after each segment: "crlf", "lf", "cr", ""
	data       []byte   // what the client is asked to transmit
	kindSet    []string // sorted distinct kinds (including message-level kinds)
	maxLine    int
	lfdot      bool // contains a bare LF immediately followed by '.'
}

func fill(r *fw.Rand, n int, alphabet string) []byte {
	b := make([]byte, n)
	// Long runs: draw 8 bytes per PRNG step for speed.
	for i := 0; i < n; i += 8 {
		v := r.Uint64()
		for j := 0; j < 8 && i+j < n; j++ {
			b[i+j] = alphabet[int(v>>(8*j)&0xff)%len(alphabet)]
		}
	}
	return b
}

// longLine makes a line of exactly n bytes that contains no LF (and no CR, so that the line is
// one line under every reading).
func longLine(r *fw.Rand, n int) []byte {
	var b []byte
	switch r.Intn(3) {
	case 0:
		b = fill(r, n, printable)
	case 1:
		b = r.Bytes(n)
		for i, c := range b {
			if c == '\n' || c == '\r' {
				b[i] = 'x'
			}
		}
	default:
		b = fill(r, n, textual)
	}
	if r.Chance(1, 4) {
		b[0] = '.'
		if r.Bool() && n > 1 {
			b[1] = '.'
		}
	}
	return b
}

func genSegment(r *fw.Rand, kind string, quick bool) segment {
	text := func(lo, hi int) []byte { return []byte(r.Letters(r.Range(lo, hi), textual)) }
	var d []byte
	switch kind {
	case "printable":
		d = []byte(r.Letters(r.Range(1, 200), printable))
		if d[0] == '.' {
			d[0] = 'p'
		}
	case "bytes256-asc":
		d = make([]byte, 256)
		for i := range d {
			d[i] = byte(i)
		}
	case "bytes256-perm":
		d = make([]byte, 256)
		for i, p := range r.Perm(256) {
			d[i] = byte(p)
		}
	case "highbit":
		d = r.Bytes(r.Range(1, 300))
		for i := range d {
			d[i] |= 0x80
		}
	case "nulrun":
		d = make([]byte, r.Range(1, 400))
	case "dots1":
		d = append([]byte("."), text(0, 30)...)
	case "dots2":
		d = append([]byte(".."), text(0, 30)...)
	case "dots3":
		d = append([]byte("..."), text(0, 30)...)
	case "lonedot":
		d = []byte(".")
	case "dot-cr":
		d = append([]byte(".\r"), text(0, 10)...)
	case "barecr":
		switch r.Intn(4) {
		case 0:
			d = append(append(text(0, 20), '\r'), text(1, 20)...)
		case 1:
			d = append([]byte("\r"), text(1, 20)...)
		case 2:
			d = append(append(text(1, 20), '\r', '\r'), text(1, 20)...)
		default:
			d = append(append(text(1, 10), '\r', '.'), text(0, 10)...)
		}
	case "barelf":
		d = append(append(text(0, 20), '\n'), text(1, 20)...)
		if r.Chance(1, 3) {
			d = append(append(d, '\n', '\n'), text(1, 10)...)
		}
	case "lfdot":
		// bare LF immediately followed by a dot: generated and counted, does not decide
		switch r.Intn(4) {
		case 0:
			d = append(append(text(1, 10), '\n', '.'), text(1, 10)...)
		case 1:
			d = append(append(text(1, 10), '\n', '.', '.'), text(0, 10)...)
		case 2:
			d = append(append(text(1, 10), '\n', '\n', '.', '.'), text(1, 10)...)
		default:
			d = append(append(text(1, 10), '\n', '.', '\r', '\n'), text(1, 10)...)
		}
	case "emptylines":
		d = bytes.Repeat([]byte("\r\n"), r.Range(0, 4))
	case "crcrlf":
		d = append(append(text(0, 10), '\r', '\r', '\n'), text(0, 10)...)
		if r.Chance(1, 3) {
			d = append(append(d, '\r', '\r', '\n', '.'), text(0, 5)...)
		}
	case "wsline":
		d = []byte(r.Letters(r.Range(1, 20), " \t"))
		if r.Bool() {
			d = append(text(1, 10), d...)
		}
	case "headerlike":
		d = []byte("X-Body-" + r.Letters(4, "abcdef") + ": " + r.Letters(r.Range(0, 30), textual))
	case "line998":
		d = fill(r, 998, printable)
	case "line1000":
		d = fill(r, 1000+r.Intn(3), printable)
	case "big":
		lo, hi := 2<<20, 8<<20
		if quick {
			lo, hi = 256<<10, 1<<20
		}
		total := r.Range(lo, hi)
		var b bytes.Buffer
		b.Grow(total + 4096)
		for b.Len() < total {
			n := r.Range(0, 2000)
			if r.Chance(1, 50) {
				n = r.Range(60000, 80000)
			}
			l := longLine(r, n+1)
			b.Write(l)
			b.WriteString("\r\n")
		}
		d = b.Bytes()
		d = d[:len(d)-2]
	default:
		if n, ok := longKinds[kind]; ok {
			d = longLine(r, n)
		} else {
			d = text(1, 40)
		}
	}
	return segment{kind: kind, data: d}
}

var fillerKinds = []string{"printable", "printable", "printable", "highbit", "nulrun", "dots1", "dots2", "dots3",
	"lonedot", "dot-cr", "barecr", "barelf", "emptylines", "crcrlf", "wsline", "headerlike", "bytes256-asc",
	"bytes256-perm", "line998"}

func genHeader(r *fw.Rand) []byte {
	var b bytes.Buffer
	if r.Chance(3, 4) {
		b.WriteString("From: " + r.Pick([]string{"hdr.from@hdr.test", "Someone <someone@else.test>"}) + "\r\n")
	}
	if r.Chance(1, 2) {
		b.WriteString("To: listed@hdr.test\r\n")
	}
	if r.Chance(3, 4) {
		b.WriteString("Subject: c02 " + r.Letters(r.Range(1, 16), "abcdefghij0123") + "\r\n")
	}
	if r.Chance(1, 3) {
		// The declared charset is a statement about the bytes, not an instruction to change them
		// (legacy charsets added after seeded change C02-8).
		ct := r.Pick([]string{"text/plain; charset=utf-8", "text/plain; charset=utf-8", "text/plain; charset=iso-8859-1", "text/plain; charset=\"windows-1252\"",
			"text/html; charset=windows-1251", "text/plain; charset=KOI8-R", "text/plain; charset=Shift_JIS", "text/plain; charset=us-ascii", "text/plain; charset=ISO-8859-15",
			"text/plain; charset=utf-16", "text/plain; charset=unknown-8bit", "text/plain; charset=gb2312", "TEXT/PLAIN; CHARSET=ISO-8859-2", "text/plain"})
		b.WriteString("MIME-Version: 1.0\r\nContent-Type: " + ct + "\r\nContent-Transfer-Encoding: 8bit\r\n")
	}
	if r.Chance(1, 4) {
		// folded header
		b.WriteString("X-Folded: first\r\n\tsecond " + r.Letters(5, "abc") + "\r\n")
	}
	b.WriteString("X-Case: " + r.Letters(8, "0123456789abcdef") + "\r\n")
	b.WriteString("\r\n")
	return b.Bytes()
}

// genMessage builds the message of case i; forced is the kind that must occur.
func genMessage(r *fw.Rand, forced string, quick bool) *message {
	m := &message{header: true}
	seen := map[string]bool{}
	switch forced {
	case "headerless":
		m.header = false
	default:
		m.header = r.Chance(5, 6)
	}
	nseg := r.Range(1, 10)
	if forced == "zero-body" {
		nseg = 0
	}
	pos := r.Intn(nseg + 1)
	finalTerm := "crlf"
	for k := 0; k <= nseg; k++ {
		if k == pos {
			switch forced {
			case "zero-body", "headerless":
			case "no-final-newline":
				finalTerm = ""
			case "final-bare-lf":
				finalTerm = "lf"
			default:
				m.segs = append(m.segs, genSegment(r, forced, quick))
			}
		}
		if k < nseg {
			m.segs = append(m.segs, genSegment(r, fillerKinds[r.Intn(len(fillerKinds))], quick))
		}
	}
	seen[forced] = true
	if finalTerm == "crlf" {
		switch r.Intn(12) {
		case 0:
			finalTerm = ""
			seen["no-final-newline"] = true
		case 1:
			finalTerm = "lf"
			seen["final-bare-lf"] = true
		}
	}
	// Terminators.  A bare LF is not placed in front of a segment that starts with '.', so that
	// the non-deciding LF-dot class only arises where it was generated on purpose.
	for k := range m.segs {
		t := "crlf"
		if k == len(m.segs)-1 {
			t = finalTerm
		} else {
			switch v := r.Intn(25); {
			case v < 2:
				t = "lf"
			case v == 2:
				t = "cr"
			case v < 5:
				t = ""
			}
			next := m.segs[k+1].data
			if t == "lf" && len(next) > 0 && next[0] == '.' {
				t = "crlf"
			}
		}
		m.terms = append(m.terms, t)
	}
	var b bytes.Buffer
	if m.header {
		m.headerText = genHeader(r)
		b.Write(m.headerText)
	} else {
		seen["headerless"] = true
	}
	if len(m.segs) == 0 {
		seen["zero-body"] = true
	}
	for k, s := range m.segs {
		seen[s.kind] = true
		b.Write(s.data)
		switch m.terms[k] {
		case "crlf":
			b.WriteString("\r\n")
		case "lf":
			b.WriteString("\n")
		case "cr":
			b.WriteString("\r")
		}
	}
	m.data = b.Bytes()
	m.lfdot = hasLFDot(m.data)
	if !m.lfdot {
		delete(seen, "lfdot")
	} else {
		seen["lfdot"] = true
	}
	for k := range seen {
		m.kindSet = append(m.kindSet, k)
	}
	sort.Strings(m.kindSet)
	m.maxLine = maxLineLen(m.data)
	return m
}

// hasLFDot reports whether a bare LF (not preceded by CR) is immediately followed by '.'.
func hasLFDot(d []byte) bool {
	for i := 0; i+1 < len(d); i++ {
		if d[i] == '\n' && d[i+1] == '.' && (i == 0 || d[i-1] != '\r') {
			return true
		}
	}
	return false
}

func maxLineLen(d []byte) int {
	best, cur := 0, 0
	for _, c := range d {
		if c == '\n' {
			if cur > best {
				best = cur
			}
			cur = 0
			continue
		}
		cur++
	}
	if cur > best {
		best = cur
	}
	return best
}

// normC is the normalisation the property allows: every run of CRs directly in front of an LF
// disappears (CRLF -> LF, and also CR CR LF -> LF, see DESIGN "Not demanded").
func normC(b []byte) []byte {
	out := make([]byte, 0, len(b))
	for i := 0; i < len(b); i++ {
		c := b[i]
		if c == '\r' {
			j := i
			for j < len(b) && b[j] == '\r' {
				j++
			}
			if j < len(b) && b[j] == '\n' {
				i = j - 1 // drop the CR run; the LF is copied by the next iteration
				continue
			}
			out = append(out, b[i:j]...)
			i = j - 1
			continue
		}
		out = append(out, c)
	}
	return out
}

// unstuff is the harness' own receiver-side inverse of RFC 5321 dot-stuffing (CRLF line
// starts only); used to cross-check the sender helper, never applied to server output.
func unstuff(wire []byte) (data []byte, ok bool) {
	if !bytes.HasSuffix(wire, []byte("\r\n.\r\n")) && !bytes.Equal(wire, []byte(".\r\n")) {
		return nil, false
	}
	body := wire[:len(wire)-3]
	out := make([]byte, 0, len(body))
	atStart := true
	for i := 0; i < len(body); i++ {
		c := body[i]
		if atStart && c == '.' {
			atStart = false
			if i+1 >= len(body) || body[i+1] != '.' {
				// a single dot at a CRLF line start can only be stuffing residue; the sender
				// always doubles, so this never happens for sender output
				return nil, false
			}
			continue // drop the stuffed dot; the next one is data
		}
		out = append(out, c)
		atStart = c == '\n' && i > 0 && body[i-1] == '\r'
	}
	return out, true
}

// firstDiff describes where two byte strings first differ.
func firstDiff(a, b []byte) (int, string, string) {
	n := len(a)
	if len(b) < n {
		n = len(b)
	}
	i := 0
	for i < n && a[i] == b[i] {
		i++
	}
	ctx := func(x []byte) string {
		lo := i - 12
		if lo < 0 {
			lo = 0
		}
		hi := i + 20
		if hi > len(x) {
			hi = len(x)
		}
		return string(x[lo:hi])
	}
	return i, ctx(a), ctx(b)
}
