package c02

import (
	"bytes"
	"fmt"
	"io"
	"strconv"
	"strings"

	"verifharness/internal/fw"
	"verifharness/internal/sut"
)

// Retrieval scripts (added after seeded change C02-12).  The property speaks about what POP3
// returns for a stored message, not about the first retrieval of a session: whatever a client
// asked for earlier in the same session - TOP of the message (the usual "TOP n 0, then RETR n" of
// mail clients), the message itself, the other message of the mailbox, STAT/LIST in between - a
// RETR is the stored bytes with the stored size announced, and a TOP is their leading part.  The
// read-back used to be "connect, RETR once, leave", which a server that keeps per-session state
// about a message it has already served (an open reader it does not rewind, a cached cursor, a
// buffer it reuses) passes on every input.  Each POP3 read-back now runs a script drawn from the
// case's PRNG: the classic single RETR, TOP-then-RETR, RETR twice, TOP twice then RETR, RETR of the
// other message in between, and free sequences over RETR / TOP n 0 / TOP n k / TOP n <all> of
// either message, STAT, LIST and NOOP.  Every single retrieval is judged; on both back-ends.

// maxTop is the largest line count the TOP parser accepts (32-bit); more lines than any generated
// message has, so by RFC 1939 the whole message is due.
const maxTop = 1<<31 - 1

type popOp struct {
	verb  string // RETR, TOP, STAT, LIST, NOOP
	msg   int    // message number (RETR, TOP, LIST)
	lines int    // TOP
}

func (o popOp) String() string {
	switch o.verb {
	case "RETR", "LIST":
		return o.verb + " " + strconv.Itoa(o.msg)
	case "TOP":
		return fmt.Sprintf("TOP %d %d", o.msg, o.lines)
	}
	return o.verb
}

// popScript draws the retrieval script for a mailbox whose message under test is number n and
// which holds an earlier filler message as number 1 when pre == 1.  big limits the number of
// transfers of a large message (wall time only).
func popScript(r *fw.Rand, n, pre int, big bool) (string, []popOp) {
	retr := popOp{verb: "RETR", msg: n}
	top := func(lines int) popOp { return popOp{verb: "TOP", msg: n, lines: lines} }
	someTop := func() popOp {
		switch r.Intn(4) {
		case 0:
			return top(0)
		case 1:
			return top(maxTop)
		}
		return top(r.Range(1, 20))
	}
	switch shape := r.Intn(8); shape {
	case 0:
		return "single-retr", []popOp{retr}
	case 1:
		return "top0-retr", []popOp{top(0), retr}
	case 2:
		return "retr-retr", []popOp{retr, retr}
	case 3:
		if big {
			return "top-retr", []popOp{someTop(), retr}
		}
		return "top-top-retr", []popOp{someTop(), someTop(), retr}
	case 4:
		if pre == 1 {
			return "retr-other-retr", []popOp{retr, {verb: "RETR", msg: 1}, retr}
		}
		return "retr-stat-retr", []popOp{retr, {verb: "STAT"}, retr}
	}
	l := r.Range(2, 6)
	if big {
		l = r.Range(2, 3)
	}
	var ops []popOp
	has := false
	for len(ops) < l {
		switch r.Weighted([]int{4, 2, 2, 1, 2, 1, 1, 1, 1}) {
		case 0:
			ops = append(ops, retr)
			has = true
		case 1:
			ops = append(ops, top(0))
		case 2:
			ops = append(ops, top(r.Range(1, 20)))
		case 3:
			ops = append(ops, top(maxTop))
		case 4:
			if pre == 1 {
				ops = append(ops, popOp{verb: "RETR", msg: 1})
			}
		case 5:
			if pre == 1 {
				ops = append(ops, popOp{verb: "TOP", msg: 1, lines: r.Intn(3)})
			}
		case 6:
			ops = append(ops, popOp{verb: "STAT"})
		case 7:
			ops = append(ops, popOp{verb: "LIST", msg: n})
		case 8:
			ops = append(ops, popOp{verb: "NOOP"})
		}
	}
	if !has {
		ops = append(ops, retr)
	}
	return "free", ops
}

// topMin is the length of the shortest leading part of csrc (a source under C) that a TOP with the
// given line count may return: the header up to and including the first empty line, then that many
// further lines, or everything if the message ends earlier.  An empty line under C ("\n\n") is the
// earliest place any reading of "blank line" can put the end of the header (a server that takes
// only CRLF CRLF or LF LF for it ends the header there or later), so this is a lower bound only.
func topMin(csrc []byte, lines int) int {
	h := bytes.Index(csrc, []byte("\n\n"))
	if h < 0 {
		return len(csrc)
	}
	pos := h + 2
	for j := 0; j < lines && pos < len(csrc); j++ {
		nl := bytes.IndexByte(csrc[pos:], '\n')
		if nl < 0 {
			return len(csrc)
		}
		pos += nl + 1
	}
	return pos
}

// popView is what the script is judged against: the store's view of the mailbox, taken after the
// session logged in (nothing else touches the mailbox meanwhile).
type popView struct {
	box   string
	n     int      // number of the message under test
	srcs  [][]byte // stored source per message number-1 (nil: not needed by the script)
	csrcs [][]byte // the same under C
	sizes []int64
	total int64
}

// readSource reads one message's source from the store.
func readSource(m interface {
	Source() (io.ReadCloser, error)
}) ([]byte, error) {
	rd, err := m.Source()
	if err != nil {
		return nil, err
	}
	b, err := io.ReadAll(rd)
	_ = rd.Close()
	return b, err
}

// runPopScript executes the script in the logged-in session ps and judges every reply.  It
// returns false after the first failing retrieval (later ones would only repeat it), and the
// flags that describe which repetitions were really observed.
func (k *caseCtx) runPopScript(ps *sut.POP3Session, v *popView, shape string, ops []popOp,
	fail func(key, what string)) (ok bool, flags string) {
	c := k.c
	seen := map[int]string{} // message number -> verbs already served for it in this session ("T", "R")
	var retrAfterTop, retrAfterRetr, topAfterRetr, otherBetween, repeats int
	otherSince := false
	var script []string
	for _, o := range ops {
		script = append(script, o.String())
	}
	desc := fmt.Sprintf("script [%s]", strings.Join(script, "; "))
	retrTargetOK := 0
	for step, o := range ops {
		rep, err := ps.Cmd(o.String())
		if err != nil {
			k.hang("pop3-command", err.Error())
			return false, ""
		}
		at := fmt.Sprintf("%s, step %d (%s)", desc, step+1, o)
		switch o.verb {
		case "NOOP":
			if rep.Malformed != "" || !rep.OK || rep.Multi {
				fail("C02:pop3-stray-output", fmt.Sprintf("%s answered %s", at, fw.Q(string(rep.Raw))))
				return false, ""
			}
			continue
		case "STAT":
			if want := fmt.Sprintf("+OK %d %d", len(v.sizes), v.total); rep.Malformed != "" || rep.Multi || rep.First != want {
				fail("C02:pop3-stat-size", fmt.Sprintf("%s answered %s, the store holds %d messages of %d bytes in %s",
					at, fw.Q(string(rep.Raw)), len(v.sizes), v.total, v.box))
				return false, ""
			}
			c.Count("sizes_pop3_stat_in_script", 1)
			continue
		case "LIST":
			if want := fmt.Sprintf("+OK %d %d", o.msg, v.sizes[o.msg-1]); rep.Malformed != "" || rep.Multi || rep.First != want {
				fail("C02:pop3-list-size", fmt.Sprintf("%s answered %s, the store reports size %d", at, fw.Q(string(rep.Raw)), v.sizes[o.msg-1]))
				return false, ""
			}
			c.Count("sizes_pop3_list_in_script", 1)
			continue
		}
		// RETR / TOP: a multi-line response.
		src, csrc := v.srcs[o.msg-1], v.csrcs[o.msg-1]
		before := seen[o.msg]
		lower := strings.ToLower(o.verb)
		key := "C02:pop3-" + lower
		if before != "" {
			// "-repeated" = the failing retrieval was not the first one of its message in this
			// session.  The same request as the first of a session is judged by other cases (under
			// the plain key), so a defect of the content alone shows under both keys and a defect
			// of the repetition under this one only.
			key += "-repeated"
		} else if o.verb == "RETR" && o.msg == v.n && k.msg.maxLine > 65535 {
			key = "C02:pop3-retr-long-line"
		}
		if before != "" {
			at += fmt.Sprintf(" after %s of the same message in this session", before)
		}
		switch {
		case rep.Malformed != "" || !rep.OK:
			fail(key, fmt.Sprintf("%s answered %s", at, fw.Q(fw.Trunc(string(rep.Raw), 300))))
			return false, ""
		case !rep.Terminated:
			fail(key, fmt.Sprintf("%s: multi-line response not terminated by a lone dot (%d bytes of output)", at, len(rep.Raw)))
			return false, ""
		}
		good := true
		got := normC(rep.BodyBytes())
		if o.verb == "RETR" || o.lines == maxTop {
			// the whole message (RFC 1939: TOP with more lines than the body has sends all of it)
			if !bytes.Equal(got, csrc) {
				d, a, b := firstDiff(got, csrc)
				fail(key, fmt.Sprintf("%s of %s returns %d normalised bytes, the store has %d; first difference at offset %d: pop3 %q, store %q",
					at, v.box, len(got), len(csrc), d, a, b))
				good = false
			}
		} else {
			// a leading part of the stored bytes, cut after a line, holding the header and the lines asked for
			min := topMin(csrc, o.lines)
			if !bytes.HasPrefix(csrc, got) {
				d, a, b := firstDiff(got, csrc)
				fail(key, fmt.Sprintf("%s of %s returns %d normalised bytes that are not the beginning of the stored source (%d bytes); first difference at offset %d: pop3 %q, store %q",
					at, v.box, len(got), len(csrc), d, a, b))
				good = false
			} else if len(got) < min {
				fail(key, fmt.Sprintf("%s of %s returns only the first %d normalised bytes of the stored source; header and %d lines end at offset %d of %d",
					at, v.box, len(got), o.lines, min, len(csrc)))
				good = false
			}
		}
		if len(rep.Extra) > 0 {
			fail("C02:pop3-stray-output", fmt.Sprintf("%s: output after the terminating dot: %s", at, fw.Q(string(rep.Extra))))
			good = false
		}
		if o.verb == "RETR" {
			if mm := retrRE.FindStringSubmatch(rep.First); mm == nil || mm[1] != strconv.Itoa(len(src)) {
				fail("C02:pop3-retr-size", fmt.Sprintf("%s announced %q, stored source has %d bytes", at, rep.First, len(src)))
				good = false
			}
		}
		if !good {
			return false, ""
		}
		// evidence
		c.Count("pop3_retrievals_judged", 1)
		if o.verb == "TOP" {
			c.Count("pop3_top_ok", 1)
			if o.lines == maxTop {
				c.Count("pop3_top_all_lines_ok", 1)
			}
			if len(got) < len(csrc) {
				c.Count("pop3_top_partial_ok", 1)
			}
		} else if o.msg == v.n {
			retrTargetOK++
		} else {
			c.Count("pop3_other_message_retr_ok", 1)
		}
		if before != "" {
			repeats++
			switch {
			case o.verb == "RETR" && strings.Contains(before, "TOP"):
				retrAfterTop++
			case o.verb == "RETR":
				retrAfterRetr++
			case strings.Contains(before, "RETR"):
				topAfterRetr++
			}
		}
		if o.msg != v.n {
			otherSince = len(seen[v.n]) > 0
		} else {
			if before != "" && otherSince {
				// another message was served between two retrievals of the one under test
				otherBetween++
			}
			otherSince = false
		}
		if before == "" {
			seen[o.msg] = o.verb
		} else if !strings.Contains(before, o.verb) {
			seen[o.msg] = before + "+" + o.verb
		}
	}
	c.Count("pop3_script:"+shape, 1)
	c.Max("max_pop3_script_steps", int64(len(ops)))
	c.Count("sizes_pop3_retr", int64(retrTargetOK))
	if repeats > 0 {
		c.Count("pop3_repeated_retrieval_ok", int64(repeats))
		c.Count("pop3_repeated_retrieval_ok:"+k.backend, int64(repeats))
		c.Count("pop3_sessions_with_repeated_retrieval", 1)
	}
	c.Count("pop3_retr_after_top_ok", int64(retrAfterTop))
	c.Count("pop3_retr_after_retr_ok", int64(retrAfterRetr))
	c.Count("pop3_top_after_retr_ok", int64(topAfterRetr))
	c.Count("pop3_retr_again_after_other_message_ok", int64(otherBetween))
	var fl []string
	for _, f := range []struct {
		name string
		n    int
	}{{"rt", retrAfterTop}, {"rr", retrAfterRetr}, {"tr", topAfterRetr}, {"ob", otherBetween}} {
		if f.n > 0 {
			fl = append(fl, f.name)
		}
	}
	return true, shape + ":" + strings.Join(fl, "+")
}
