package c02

import (
	"bytes"
	"fmt"
	"net/http"
	"strconv"
	"strings"
	"time"

	"verifharness/internal/fw"
	"verifharness/internal/sut"
)

// Small mailbox caps (added after seeded change C02-13).  The property speaks about "a stored
// message", whatever else happened to its mailbox: in particular a message that is still listed
// after a later delivery made the store evict older mail must read back byte for byte through
// every interface, with the listed size.  All other streams run without a message cap
// (MailboxMsgCap 0) and deliver at most twice to a mailbox, so the code that makes room for a
// new message - which on the file store unlinks .raw files, rewrites the index and removes the
// mailbox directory when the index runs empty - never ran between a delivery and its read-back.
// A store that makes room at the wrong moment (after the new content was written, say) lists the
// new message with its size and has no content for it; with cap 1 every delivery but the first
// empties the index, with cap 2 every delivery from the third on evicts one of two.
//
// Stream smallcap-<backend>-cap<1|2>: one mailbox, 2-6 deliveries of generated bodies over real
// SMTP sessions (one session for all or a fresh one per delivery).  After EVERY accepted delivery
// the whole listing of the mailbox is read back: the newest message through checkCopy (store,
// REST/web UI source by id and as "latest", REST list/show sizes, the POP3 script), and every
// older message that is still listed through Store.Source/Size, REST source and web UI source
// against the bytes recorded when it was the newest.  How many messages the store keeps is not
// judged here (that is the cap property); only: the acknowledged message is listed, and what is
// listed has its content.

func runSmallCaps(c *fw.Ctx) {
	for _, backend := range []string{"file", "mem"} {
		for _, mcap := range []int{1, 2} {
			conf := sut.DefaultConf()
			conf.SMTP.MaxMessageBytes = 64 << 20
			conf.Storage.MailboxMsgCap = mcap
			if backend == "file" {
				conf.Storage.Type = "file"
				conf.Storage.Params = map[string]string{"path": c.TempDir("c02cap")}
			}
			we, err := sut.NewWebEnv(conf, backend)
			if err != nil {
				panic(err)
			}
			hc := &http.Client{Timeout: 5 * time.Minute}
			mc := mcap
			c.Cases(fmt.Sprintf("smallcap-%s-cap%d", backend, mc), c.N(48, 400), func(i int, r *fw.Rand) {
				runSmallCap(c, we, hc, backend, mc, i, r)
			})
			hc.CloseIdleConnections()
			we.Close()
		}
	}
}

// smallCapKinds: the bodies of this stream; mostly small, some with a line beyond 64 KiB.
var smallCapKinds = append(append([]string{}, fillerKinds...), "zero-body", "no-final-newline", "headerless", "long64k+1", "long70k")

type heldMsg struct {
	src  []byte
	size int64
}

func runSmallCap(c *fw.Ctx, we *sut.WebEnv, hc *http.Client, backend string, mcap, idx int, r *fw.Rand) {
	tag := fmt.Sprintf("%s:cap%d", backend, mcap)
	box := fmt.Sprintf("sc%d%s%d", idx, backend[:1], mcap)
	helo := r.Pick(helos)
	nd := r.Range(2, 6)
	freshSessions := r.Bool()
	k := &caseCtx{c: c, we: we, hc: hc, backend: backend, idx: idx, r: r, msg: &message{}}
	k.info = map[string]any{"backend": backend, "mailbox_msg_cap": mcap, "mailbox": box, "deliveries": nd, "helo": helo,
		"fresh_session_per_delivery": freshSessions}
	defer func() { _ = we.Store.PurgeMessages(box) }()

	var ss *sut.SMTPSession
	endSession := func() {
		if ss != nil && !ss.Ended() && !ss.Close() {
			c.Hang("smtp-session-end", "SMTP session did not end after the client closed", "")
		}
		ss = nil
	}
	defer endSession()
	cmd := func(line string, want int) bool {
		rep, err := ss.Cmd(line)
		if err != nil && strings.HasPrefix(err.Error(), "watchdog:") {
			k.hang("smtp-command", err.Error())
			return false
		}
		if err != nil || rep.Code != want {
			k.fail("C02:smtp-dialogue", fmt.Sprintf("%q answered %v %v, expected %d", line, rep, err, want), map[string]any{"trace": ss.Trace})
			return false
		}
		return true
	}
	open := func() bool {
		ss = we.StartSMTP()
		ss.Watchdog = 120 * time.Second * time.Duration(c.Slow)
		if rs, mal, _, ok := ss.Step(nil); !ok {
			k.hang("smtp-greeting", "no output and no idle point after connecting")
			return false
		} else if mal != "" || len(rs) != 1 || rs[0].Code != 220 {
			k.fail("C02:smtp-dialogue", "no single 220 greeting", map[string]any{"trace": ss.Trace})
			return false
		}
		return cmd("EHLO "+helo, 250)
	}

	held := map[string]heldMsg{} // id -> what the store held for it when it was the newest
	accepted, checked, evicting := 0, 0, 0
	var kindsSeen []string
	allGood := true
	for d := 0; d < nd; d++ {
		var msg *message
		for {
			msg = genMessage(r, r.Pick(smallCapKinds), true)
			if !msg.lfdot { // the reading-dependent inputs are the business of the body streams
				break
			}
		}
		k.msg = msg
		k.info["delivery"] = d + 1
		k.info["kinds"] = msg.kindSet
		k.info["data_len"] = len(msg.data)
		k.info["data_head"] = fw.Trunc(string(msg.data), 600)
		sender := "sender" + strconv.Itoa(r.Intn(1000)) + "@origin.test"
		wire := sut.DotStuff(msg.data)
		sent := msg.data
		if !bytes.HasSuffix(sent, []byte("\r\n")) {
			sent = append(append([]byte{}, sent...), '\r', '\n')
		}
		if ss == nil || freshSessions {
			endSession()
			if !open() {
				return
			}
		}
		if !cmd("MAIL FROM:<"+sender+">", 250) || !cmd("RCPT TO:<"+box+"@inbucket.test>", 250) || !cmd("DATA", 354) {
			return
		}
		replies, mal, _, ok := ss.Step(wire)
		if !ok {
			k.hang("smtp-data", "session neither idle nor closed after the data block")
			return
		}
		if mal != "" || len(replies) != 1 {
			k.fail("C02:data-block-desync", fmt.Sprintf("%d replies (malformed=%q) to one RFC 5321 data block", len(replies), mal), map[string]any{"trace": ss.Trace})
			return
		}
		if replies[0].Code != 250 {
			c.Count("smallcap_refused:"+strconv.Itoa(replies[0].Code), 1)
			continue // nothing was acknowledged; the mailbox is judged again after the next delivery
		}
		accepted++
		c.Count("smallcap_deliveries_accepted", 1)

		ms, err := we.Store.GetMessages(box)
		if err != nil {
			k.fail("C02:store-unreadable", fmt.Sprintf("GetMessages(%q): %v", box, err), nil)
			return
		}
		if len(ms) == 0 {
			k.fail("C02:accepted-but-not-stored", fmt.Sprintf("mailbox %q (cap %d) is empty after the 250 of delivery %d", box, mcap, d+1), nil)
			return
		}
		if len(ms) > 2 {
			// more than the POP3 script knows how to address, and more than either cap allows:
			// the cap is another property; counted, and MinObs notices if this is the rule
			c.Count("smallcap_listing_longer_than_2", 1)
			allGood = false
			continue
		}
		pre := len(ms) - 1
		// Did this delivery make the store drop something that was listed before it?
		listed := map[string]bool{}
		for _, m := range ms {
			listed[m.ID()] = true
		}
		dropped := 0
		for id := range held {
			if !listed[id] {
				dropped++
				delete(held, id)
			}
		}
		// (a) the newest message: every interface (this also demands that it IS the last listed one)
		if !k.checkCopy(box, pre, helo, sender, sent, true) {
			allGood = false
			if k.hung {
				return
			}
			continue
		}
		if k.hung {
			return
		}
		newest := ms[pre]
		nsrc, err := readSource(newest)
		if err != nil {
			k.fail("C02:store-source", fmt.Sprintf("second reading of Source() of %s/%s: %v", box, newest.ID(), err), nil)
			return
		}
		// (b) every older message that is still listed has the content it had
		for _, m := range ms[:pre] {
			id := m.ID()
			h, known := held[id]
			if !known {
				c.Count("smallcap_older_listed_unknown_id", 1) // not ours to judge (an earlier step of this case failed)
				continue
			}
			src, err := readSource(m)
			if err != nil {
				allGood = false
				k.fail("C02:listed-older-source", fmt.Sprintf("after delivery %d to %s (cap %d) the older message %s is still listed but Source() fails: %v", d+1, box, mcap, id, err), nil)
				continue
			}
			if !bytes.Equal(src, h.src) || m.Size() != int64(len(src)) {
				allGood = false
				at, a, b := firstDiff(src, h.src)
				k.fail("C02:listed-older-source", fmt.Sprintf("after delivery %d to %s (cap %d) the older message %s reads %d bytes with Size()=%d, it was stored as %d bytes; first difference at %d: now %q, before %q",
					d+1, box, mcap, id, len(src), m.Size(), len(h.src), at, a, b), nil)
				continue
			}
			okHTTP := true
			for _, u := range []string{"/api/v1/mailbox/" + box + "/" + id + "/source", "/serve/mailbox/" + box + "/" + id + "/source"} {
				status, body, err := k.get(we.Base + u)
				if k.hung {
					return
				}
				if err != nil || status != 200 || !bytes.Equal(normC(body), normC(src)) {
					okHTTP, allGood = false, false
					k.fail("C02:listed-older-source", fmt.Sprintf("after delivery %d to %s (cap %d): GET %s status %d err %v, %d bytes, the store has %d bytes for this listed message",
						d+1, box, mcap, u, status, err, len(body), len(src)), nil)
				}
			}
			if okHTTP {
				c.Count("smallcap_older_listed_ok", 1)
				c.Count("smallcap_older_listed_ok:"+tag, 1)
			}
		}
		held[newest.ID()] = heldMsg{src: nsrc, size: newest.Size()}
		checked++
		c.Count("smallcap_deliveries_checked", 1)
		c.Count("smallcap_deliveries_checked:"+tag, 1)
		if accepted >= 2 {
			c.Count("smallcap_later_deliveries_checked:"+tag, 1)
		}
		if dropped > 0 {
			evicting++
			c.Count("smallcap_evicting_deliveries_checked", 1)
			c.Count("smallcap_evicting_deliveries_checked:"+tag, 1)
		}
		kindsSeen = append(kindsSeen, strings.Join(msg.kindSet, "+"))
	}
	c.Max("max_smallcap_deliveries_checked_in_one_mailbox", int64(checked))
	if allGood && checked >= 2 {
		c.NonTrivial(fmt.Sprintf("smallcap|%s|n=%d|evicting=%d|fresh=%v|%s|pop3=%s", tag, checked, evicting, freshSessions,
			strings.Join(kindsSeen, ";"), strings.Join(k.popFlags, ",")))
		c.Sample(map[string]any{"stream": "smallcap", "backend": backend, "cap": mcap, "deliveries_checked": checked, "evicting": evicting})
	}
}
