package c03

import (
	"bufio"
	"context"
	"errors"
	"fmt"
	"io"
	"net"
	"os"
	"runtime"
	"sort"
	"strings"
	"sync"
	"sync/atomic"
	"time"

	"verifharness/internal/fw"
	"verifharness/internal/sut"
)

// Stream "burst" (added after seeded change C03-10).
//
// The statement's anchors name the listener as well as the handler, and "every command line
// receives exactly one reply ... transactions are isolated from each other" holds for the
// connections a server really has, i.e. those its accept loop hands to the session code.  All other
// streams of this check give their connections to the session code directly (VerifServeConn on an
// in-memory connection) and so never run the accept loop: which connection a session is given,
// whether every accepted connection gets a session, and whether two sessions are ever given the
// same connection was never observed.  Here the REAL listener is started (Server.Start on a
// loopback address) and takes bursts of 4-16 TCP clients that are released together by a barrier,
// so that connections are waiting in the listen backlog while earlier ones are being handed over;
// between bursts some connections stay open (the accept loop also runs next to live sessions).
// Half of the cases run on a single P: there every client of a burst has issued its connect before
// the accept loop is scheduled again, and the loop accepts the whole backlog before any session
// goroutine has started - the burst is then (all but) a fact of the schedule, not luck.
//
// Every client runs a strict lock-step dialogue to a mailbox of its own (1-2 transactions with a
// token of their own, sometimes a discarded one in between).  Obligations, from the statement:
//   - the server's output on a connection is exactly: one 220 greeting, then one reply per line
//     sent, each with the code a valid dialogue gets; no byte arrives that was not asked for (a
//     second greeting, the reply of somebody else's session), and after QUIT's 221 the server
//     closes and nothing more arrives;
//   - after shutdown (cancel, Start returns, Drain returns) every client's mailbox holds exactly the
//     messages acknowledged to that client, complete, and nothing else is stored anywhere.
// Verdicts use replies and store contents only.  Read deadlines are watchdogs: an expired one is
// reported through the bounded-progress rule (c.Hang), never judged by itself.  The first hard
// deviation of a burst closes the burst's connections, so that clients that were left without a
// session do not sit out their watchdog.

type burstStep struct {
	send string // without CRLF
	code int
	tok  string // set on the data block: the message acknowledged by this step's 250
}

type burstClient struct {
	n      int
	box    string
	steps  []burstStep
	linger bool // keeps the connection open (before QUIT) until the next burst is over

	conn    net.Conn
	rd      *bufio.Reader
	log     []string
	acked   []string // tokens acknowledged
	fail    string   // key|what
	timeout string   // watchdog fired
	dialErr string
	aborted bool
	done    bool // dialogue complete, connection closed by the server
}

type burstRound struct {
	abort   atomic.Bool
	mu      sync.Mutex
	clients []*burstClient
}

// stop is called at the first hard deviation: the burst's verdict is in, nobody needs to wait.
func (b *burstRound) stop() {
	if b.abort.Swap(true) {
		return
	}
	b.mu.Lock()
	defer b.mu.Unlock()
	for _, cl := range b.clients {
		if cl.conn != nil {
			_ = cl.conn.Close()
		}
	}
}

func (cl *burstClient) note(s string) {
	if len(cl.log) < 60 {
		cl.log = append(cl.log, s)
	}
}

// reply reads one complete SMTP reply.
func (cl *burstClient) reply(wd time.Duration) (code int, text string, err error) {
	var lines []string
	for {
		_ = cl.conn.SetReadDeadline(time.Now().Add(wd))
		l, err := cl.rd.ReadString('\n')
		if l != "" {
			cl.note("S: " + fw.Trunc(strings.TrimRight(l, "\r\n"), 100))
		}
		if err != nil {
			return 0, strings.Join(lines, "\\n"), err
		}
		if !strings.HasSuffix(l, "\r\n") {
			return 0, l, fmt.Errorf("reply line %q does not end in CRLF", fw.Trunc(l, 80))
		}
		l = l[:len(l)-2]
		lines = append(lines, l)
		if len(l) < 4 || l[0] < '2' || l[0] > '5' || l[1] < '0' || l[1] > '9' || l[2] < '0' || l[2] > '9' || (l[3] != ' ' && l[3] != '-') {
			return 0, strings.Join(lines, "\\n"), fmt.Errorf("malformed reply line %q", fw.Trunc(l, 80))
		}
		n := int(l[0]-'0')*100 + int(l[1]-'0')*10 + int(l[2]-'0')
		if code != 0 && n != code {
			return 0, strings.Join(lines, "\\n"), fmt.Errorf("continuation line changes the code %d -> %d", code, n)
		}
		code = n
		if l[3] == ' ' {
			return code, strings.Join(lines, "\\n"), nil
		}
	}
}

func isNetTimeout(err error) bool {
	var ne net.Error
	return errors.As(err, &ne) && ne.Timeout()
}

// classify files a read/write error: after an abort nothing is judged; an expired deadline is a
// watchdog; everything else (EOF, reset, malformed) is a deviation of the server's.
func (cl *burstClient) classify(b *burstRound, at string, err error) {
	switch {
	case b.abort.Load():
		cl.aborted = true
	case isNetTimeout(err):
		cl.timeout = fmt.Sprintf("client %d (mailbox %s): nothing arrives %s", cl.n, cl.box, at)
	default:
		cl.fail = "C03:burst:connection|" + fmt.Sprintf("client %d (mailbox %s) %s: %v", cl.n, cl.box, at, err)
		b.stop()
	}
}

// upTo plays the dialogue from the greeting up to (not including) QUIT.
func (cl *burstClient) upTo(b *burstRound, addr string, wd time.Duration) bool {
	conn, err := sut.DialTCP(addr, wd)
	if err != nil {
		if !b.abort.Load() {
			cl.dialErr = err.Error()
		} else {
			cl.aborted = true
		}
		return false
	}
	b.mu.Lock()
	cl.conn, cl.rd = conn, bufio.NewReader(conn)
	late := b.abort.Load()
	b.mu.Unlock()
	if late {
		_ = conn.Close()
		cl.aborted = true
		return false
	}
	code, text, err := cl.reply(wd)
	if err != nil {
		cl.classify(b, "after connecting (no greeting)", err)
		return false
	}
	if code != 220 {
		cl.fail = "C03:burst:reply|" + fmt.Sprintf("client %d (mailbox %s): the greeting is %q, not a 220", cl.n, cl.box, text)
		b.stop()
		return false
	}
	for _, st := range cl.steps[:len(cl.steps)-1] {
		if !cl.play(b, st, wd) {
			return false
		}
	}
	return true
}

// play sends one line (or data block) and demands exactly one reply with the expected code.
func (cl *burstClient) play(b *burstRound, st burstStep, wd time.Duration) bool {
	shown := fw.Trunc(st.send, 40)
	if n := cl.rd.Buffered(); n > 0 {
		// Everything asked for so far has been answered and read: these bytes answer nothing.
		p, _ := cl.rd.Peek(n)
		cl.fail = "C03:burst:unsolicited-output|" + fmt.Sprintf("client %d (mailbox %s): before %q is sent the server has written %q, which answers no line of this client", cl.n, cl.box, shown, fw.Trunc(string(p), 120))
		b.stop()
		return false
	}
	cl.note("C: " + shown)
	_ = cl.conn.SetWriteDeadline(time.Now().Add(wd))
	if _, err := cl.conn.Write([]byte(st.send + "\r\n")); err != nil {
		cl.classify(b, fmt.Sprintf("writing %q", shown), err)
		return false
	}
	code, text, err := cl.reply(wd)
	if err != nil {
		cl.classify(b, fmt.Sprintf("after %q", shown), err)
		return false
	}
	if code != st.code {
		cl.fail = "C03:burst:reply|" + fmt.Sprintf("client %d (mailbox %s): %q is answered %q; this valid lock-step dialogue gets %d", cl.n, cl.box, shown, fw.Trunc(text, 120), st.code)
		b.stop()
		return false
	}
	if st.tok != "" {
		cl.acked = append(cl.acked, st.tok)
	}
	return true
}

// quit plays QUIT and then reads to the end of the connection: nothing more may arrive.
func (cl *burstClient) quit(b *burstRound, wd time.Duration) {
	if !cl.play(b, cl.steps[len(cl.steps)-1], wd) {
		return
	}
	_ = cl.conn.SetReadDeadline(time.Now().Add(wd))
	rest, err := io.ReadAll(io.LimitReader(cl.rd, 4096))
	if len(rest) > 0 {
		cl.fail = "C03:burst:unsolicited-output|" + fmt.Sprintf("client %d (mailbox %s): after the 221 the server has written %q", cl.n, cl.box, fw.Trunc(string(rest), 120))
		b.stop()
		return
	}
	if err != nil && isNetTimeout(err) {
		if b.abort.Load() {
			cl.aborted = true
			return
		}
		cl.timeout = fmt.Sprintf("client %d (mailbox %s): the server does not close the connection after QUIT's 221", cl.n, cl.box)
		return
	}
	// EOF, or a reset because the server closed first: the session has ended.
	cl.done = true
	_ = cl.conn.Close()
}

func burstMessage(tok string, size int) string {
	var b strings.Builder
	b.WriteString("Subject: " + tok + "\r\nFrom: sender-of-" + tok + "@origin.test\r\n\r\n")
	for n := 0; b.Len() < size || n == 0; n++ {
		fmt.Fprintf(&b, "%s line %d of the body of %s\r\n", tok, n, tok)
	}
	return b.String()
}

func runBurst(c *fw.Ctx, idx int, r *fw.Rand) {
	procs := []int{1, 0}[idx%2] // 0: leave the child's setting (4)
	backend := "mem"
	if idx%4 >= 2 && idx%8 >= 4 {
		backend = "file"
	}
	if procs > 0 {
		old := runtime.GOMAXPROCS(procs)
		defer runtime.GOMAXPROCS(old)
	}
	conf := sut.DefaultConf()
	if backend == "file" {
		dir := c.TempDir("c03bu")
		defer os.RemoveAll(dir)
		conf.Storage.Type = "file"
		conf.Storage.Params = map[string]string{"path": dir}
	}
	// Added after seeded change C03-12: every third server is configured for STARTTLS (the replies
	// then differ, the framing rule does not).  No draw from r.
	if (idx/8)%3 == 1 && withTLS(c, conf) {
		c.Count("burst_servers_tls_configured", 1)
	}
	env, err := sut.NewEnv(conf, backend)
	if err != nil {
		panic(err)
	}
	wd := 30 * time.Second * time.Duration(c.Slow)
	tag := fmt.Sprintf("[burst %s procs %d case %d]", backend, procs, idx)
	ctx, cancel := context.WithCancel(context.Background())
	defer cancel()
	ready := make(chan struct{})
	returned := make(chan struct{})
	go func() {
		env.SMTP.Start(ctx, func() { close(ready) })
		close(returned)
	}()
	select {
	case <-ready:
	case err := <-env.SMTP.Notify():
		// the machine's business (no address, no port), not the property's
		c.Inconclusive(fmt.Sprintf("%s the SMTP listener could not be started on %s: %v", tag, conf.SMTP.Addr, err))
		return
	case <-time.After(wd):
		c.Inconclusive(tag + " the SMTP listener did not become ready")
		return
	}
	addr := env.SMTP.VerifAddr().String()

	// shutdown ends the server; it reports whether Start and Drain returned in time.
	shutdown := func() (string, string) {
		cancel()
		select {
		case <-returned:
		case <-time.After(wd):
			return "smtp-burst-start-return", ""
		}
		if ok, dump := c.Within(wd, env.SMTP.Drain); !ok {
			return "smtp-burst-drain", dump
		}
		return "", ""
	}

	rounds := r.Range(2, 4)
	var all []*burstClient
	var lingering []*burstClient
	var lingerRound *burstRound
	var sizes []string
	nconn, nlinger := 0, 0
	var failed []*burstClient
	var timeouts []*burstClient
	var dialErrs []string
	judge := func(cls []*burstClient) {
		for _, cl := range cls {
			switch {
			case cl.fail != "":
				failed = append(failed, cl)
			case cl.timeout != "":
				timeouts = append(timeouts, cl)
			case cl.dialErr != "":
				dialErrs = append(dialErrs, cl.dialErr)
			}
		}
	}
	for round := 0; round < rounds && len(failed) == 0 && len(timeouts) == 0 && len(dialErrs) == 0; round++ {
		n := r.Range(4, 16)
		sizes = append(sizes, fmt.Sprint(n/4))
		b := &burstRound{}
		for k := 0; k < n; k++ {
			cl := &burstClient{n: len(all), box: fmt.Sprintf("bu%dr%dc%d", idx, round, k)}
			greet := "EHLO burst.test"
			if r.Chance(1, 4) {
				greet = "HELO burst.test"
			}
			cl.steps = append(cl.steps, burstStep{send: greet, code: 250})
			for t, nt := 0, r.Range(1, 2); t < nt; t++ {
				tok := fmt.Sprintf("butx%dx%dx%dx%dq", idx, round, k, t)
				if t > 0 && r.Bool() {
					cl.steps = append(cl.steps, burstStep{send: "MAIL FROM:<dropped-" + tok + "@origin.test>", code: 250},
						burstStep{send: "RCPT TO:<" + cl.box + "@inbucket.test>", code: 250}, burstStep{send: "RSET", code: 250})
				}
				data := sut.DotStuff([]byte(burstMessage(tok, []int{0, 200, 2000, 20000}[r.Intn(4)])))
				cl.steps = append(cl.steps, burstStep{send: "MAIL FROM:<from-" + tok + "@origin.test>", code: 250},
					burstStep{send: "RCPT TO:<" + cl.box + "@inbucket.test>", code: 250}, burstStep{send: "DATA", code: 354},
					burstStep{send: string(data[:len(data)-2]), code: 250, tok: tok})
			}
			cl.steps = append(cl.steps, burstStep{send: "QUIT", code: 221})
			cl.linger = round+1 < rounds && r.Chance(1, 4)
			b.clients = append(b.clients, cl)
			all = append(all, cl)
		}
		nconn += n
		// The barrier: every client goroutine is parked on it before it is lifted.
		var atBarrier, finished sync.WaitGroup
		start := make(chan struct{})
		for _, cl := range b.clients {
			atBarrier.Add(1)
			finished.Add(1)
			go func(cl *burstClient) {
				defer finished.Done()
				atBarrier.Done()
				<-start
				if cl.upTo(b, addr, wd) && !cl.linger {
					cl.quit(b, wd)
				}
			}(cl)
		}
		atBarrier.Wait()
		ok, dump := c.Within(4*wd, func() {
			close(start)
			finished.Wait()
		})
		if !ok {
			b.stop()
			c.Hang("smtp-burst-clients", tag+" the clients of a burst did not finish (every read carries a deadline)", dump)
			_, _ = shutdown()
			return
		}
		// The connections kept open over this burst now say goodbye.
		prev, prevRound := lingering, lingerRound
		lingering, lingerRound = nil, b
		for _, cl := range b.clients {
			if cl.linger && cl.fail == "" && cl.timeout == "" && cl.dialErr == "" && !cl.aborted {
				lingering = append(lingering, cl)
				nlinger++
			}
		}
		for _, cl := range prev {
			cl.quit(prevRound, wd)
		}
		judge(b.clients)
		judge(prev)
	}
	if lingerRound != nil && len(failed) == 0 && len(timeouts) == 0 {
		for _, cl := range lingering {
			cl.quit(lingerRound, wd)
		}
		judge(lingering)
	}
	for _, cl := range all {
		if cl.conn != nil && !cl.done {
			_ = cl.conn.Close()
		}
	}
	hangName, hangDump := shutdown()

	// ---- verdicts ----
	detail := func(cls ...*burstClient) map[string]any {
		d := map[string]any{"backend": backend, "procs": procs, "listener": addr, "connections": nconn}
		for _, cl := range cls {
			d[fmt.Sprintf("client_%d_%s", cl.n, cl.box)] = cl.log
		}
		return d
	}
	if len(failed) > 0 {
		for _, cl := range failed {
			kv := strings.SplitN(cl.fail, "|", 2)
			c.Violation(kv[0], fmt.Sprintf("%s burst of simultaneous connects on the real listener: %s", tag, kv[1]), detail(cl))
		}
		return
	}
	if len(timeouts) > 0 {
		c.Hang("smtp-burst-client", fmt.Sprintf("%s %d client(s) of a burst wait in vain, first: %s", tag, len(timeouts), timeouts[0].timeout), "")
		return
	}
	if len(dialErrs) > 0 {
		c.Inconclusive(fmt.Sprintf("%s %d connect(s) to %s failed, first: %s", tag, len(dialErrs), addr, dialErrs[0]))
		return
	}
	if hangName != "" {
		c.Hang(hangName, tag+" after every client had finished and the context was cancelled, the server did not shut down (Start returns, Drain returns)", hangDump)
		return
	}
	var boxes []string
	byBox := map[string]*burstClient{}
	for _, cl := range all {
		boxes = append(boxes, cl.box)
		byBox[cl.box] = cl
	}
	sort.Strings(boxes)
	snap, err := sut.Snapshot(env.Store, boxes, true)
	if err != nil {
		c.Violation("C03:burst:store-unreadable", tag+" after shutdown: "+err.Error(), detail())
		return
	}
	bad := false
	stored := 0
	for _, name := range sut.SnapNames(snap) {
		cl := byBox[name]
		if cl == nil {
			bad = true
			c.Violation("C03:burst:phantom-message", fmt.Sprintf("%s mailbox %q, which no client addressed, holds %v", tag, name, brief(snap[name][0])), detail())
			continue
		}
		want := map[string]bool{}
		for _, t := range cl.acked {
			want[t] = true
		}
		for _, sm := range snap[name] {
			body := burstBody(cl, sm.Subject)
			switch {
			case sm.SrcErr != "":
				bad = true
				c.Violation("C03:burst:store-unreadable", fmt.Sprintf("%s source of %s/%s: %s", tag, name, sm.ID, sm.SrcErr), detail(cl))
			case !want[sm.Subject]:
				bad = true
				c.Violation("C03:burst:unowed-message", fmt.Sprintf("%s mailbox %q of client %d holds %v; acknowledged to that client (once each): %v", tag, name, cl.n, brief(sm), cl.acked), detail(cl))
			case body == "" || !strings.HasSuffix(normEOL(sm.Source), normEOL(body)) || strings.Count(sm.Source, "butx") != strings.Count(sm.Source, sm.Subject):
				bad = true
				c.Violation("C03:burst:foreign-content", fmt.Sprintf("%s mailbox %q of client %d: the stored message %q is not what that client transmitted: %v", tag, name, cl.n, sm.Subject, brief(sm)), detail(cl))
			default:
				delete(want, sm.Subject)
				stored++
			}
		}
		for t := range want {
			bad = true
			c.Violation("C03:burst:owed-message-missing", fmt.Sprintf("%s mailbox %q of client %d holds no message %s, which was acknowledged with 250", tag, name, cl.n, t), detail(cl))
		}
	}
	for _, cl := range all {
		if len(cl.acked) > 0 && len(snap[cl.box]) == 0 {
			bad = true
			c.Violation("C03:burst:owed-message-missing", fmt.Sprintf("%s mailbox %q of client %d is empty; acknowledged with 250: %v", tag, cl.box, cl.n, cl.acked), detail(cl))
		}
	}
	if bad {
		return
	}
	var replies, ended int
	for _, cl := range all {
		replies += len(cl.steps)
		if cl.done {
			ended++
		}
	}
	c.Count("burst_servers", 1)
	c.Count(fmt.Sprintf("burst_config:%s/procs=%d", backend, procs), 1)
	c.Count("burst_rounds", int64(len(sizes)))
	c.Count("burst_connections", int64(nconn))
	c.Max("max_burst_connections_released_together", int64(maxBurst(all)))
	c.Count("burst_connections_kept_open_over_the_next_burst", int64(nlinger))
	c.Count("burst_greetings_220", int64(nconn))
	c.Count("burst_replies_judged", int64(replies))
	c.Count("burst_connections_closed_by_server_after_quit", int64(ended))
	c.Count("burst_messages_stored_identical", int64(stored))
	c.Count("burst_servers_shut_down", 1)
	c.NonTrivial(fmt.Sprintf("burst|%s|p%d|%s|l%d", backend, procs, strings.Join(sizes, ","), minInt(nlinger, 3)))
}

// burstBody returns what client cl transmitted under the token tok ("" if it did not).
func burstBody(cl *burstClient, tok string) string {
	for _, st := range cl.steps {
		if st.tok == tok && tok != "" {
			// undo the dot-stuffing framing: no line of these bodies starts with a dot
			return strings.TrimSuffix(st.send, ".")
		}
	}
	return ""
}

// maxBurst is the size of the largest burst of the case.
func maxBurst(all []*burstClient) int {
	per := map[string]int{}
	m := 0
	for _, cl := range all {
		r := cl.box[:strings.LastIndexByte(cl.box, 'c')]
		per[r]++
		if per[r] > m {
			m = per[r]
		}
	}
	return m
}
