// Package c03 decides C03: SMTP transactions are well-sequenced, isolated from each other and
// atomic.  Part (a) drives real SMTP sessions (QConn -> startSession -> StoreManager -> real
// store) with command-line sequences from a weighted grammar, one line at a time, and judges the
// observed (line, reply) trace with an automaton plus a full store snapshot at every transaction
// end.  Part (b) replays four canonical multi-transaction dialogues with the client side closed
// after every byte offset of the client stream and compares the store with what the client had
// seen acknowledged.
package c03

import (
	"time"

	"verifharness/internal/fw"
)

func init() {
	fw.Register(&fw.Prop{
		ID:         "C03",
		Level:      "exploration",
		Exhaustive: false,
		Rule: "(a) stream 'seq': sessions of 6-45 client lines from a weighted, progress-biased grammar (valid flows, out-of-order commands, " +
			"mixed-case verbs, unknown verbs, empty lines, 10 KiB and 1 MiB lines, binary garbage, AUTH PLAIN, AUTH LOGIN followed by arbitrary " +
			"credential lines incl. command look-alikes, STARTTLS with TLS off, odd MAIL/RCPT/DATA syntax, several transactions with different " +
			"recipient sets per connection, RSET/EHLO/out-of-order probes after every transaction end, data blocks sent in 1-3 byte-arbitrary " +
			"chunks or cut by a disconnect), both back ends; one line per Step, replies counted at QConn quiescence; oracle = trace automaton over " +
			"observed replies + complete store snapshot after every transaction end and after the session. A session is non-trivial when >=1 " +
			"automaton or store judgement was made; distinct by back end and the set of (automaton state, line kind, reply code) triples it produced. " +
			"(b) stream 'cut': 4 fixed dialogues x 2 back ends x every byte offset k of the client stream (first k bytes transmitted, complete " +
			"lines before the last one answered and read, the rest sent and the client closed at once) plus the read-reply-then-close variant at " +
			"every line boundary; exhaustive in both tiers; oracle acked <= stored <= acked + {message whose final .CRLF was completely " +
			"transmitted}, every stored message equal in full to a dialogue message in a mailbox it was addressed to. " +
			"(c) stream 'wear': one server, 20-70 connections lost at assorted points, then a plain transaction that must be served as on a fresh server. " +
			"(d) stream 'overlap': 3-7 sessions open on ONE server; per round 1-2 complete deliveries are held inside Deliver by a BeforeMessageStored " +
			"listener while the other sessions play delivered and discarded (RSET/EHLO) transactions, 1-3 recipients from a shared pool of mailboxes, lines " +
			"interleaved one by one in a drawn order or sessions in parallel goroutines, mem/file, GOMAXPROCS 1 or 4; oracle = every line answered as for a " +
			"session alone on the server, and afterwards every mailbox holds exactly one complete message (Subject token, body bytes, no foreign token) per " +
			"transaction acknowledged for it and nothing else. " +
			"(e) stream 'burst': the real listener (Server.Start on a loopback address), 2-4 bursts of 4-16 TCP clients released together by a barrier, some " +
			"connections kept open over the next burst, GOMAXPROCS 1 or 4; each client a strict lock-step dialogue to a mailbox of its own; oracle = the " +
			"server's output per connection is exactly one 220 and one expected reply per line, nothing unsolicited, closed after 221; after cancel, Start " +
			"and Drain return and every mailbox holds exactly the messages acknowledged to its client. " +
			"(f) TLS configured (after seeded change C03-12): a third of the seq sessions and of the wear and burst servers run with TLSEnabled, a throw-away " +
			"key pair and ForceTLS off; replies are framed exactly as strictly (zero or more 'ddd-' lines, one 'ddd ' line of the same code, nothing else " +
			"before the next line is sent). In seq about half of those sessions send STARTTLS at a drawn transaction boundary, and whenever STARTTLS is " +
			"answered 220 the client performs the real crypto/tls handshake over the same in-memory connection; nothing but handshake records may " +
			"follow until the next command, then the same grammar, automaton (greeting required again), chunked data blocks, disconnects, idle " +
			"timeouts and store oracle continue inside TLS.",
		Assumptions: []string{
			"seq, cut, wear, overlap: sessions are served through VerifServeConn (the real startSession) on an in-memory net.Conn; burst: the real accept loop on loopback TCP",
			"TLS: the statement does not depend on the transport; a client that got 220 for STARTTLS must start the handshake (the harness always does), and afterwards the session is judged as a new one on the same connection: a greeting is required again before MAIL (RFC 3207 4.2), an envelope open at that moment is not judged; what EHLO offers is counted, not judged; inside TLS the quiescent point is the same logical one and the server's records up to it are decrypted by crypto/tls",
			"overlap: the listener that holds a delivery returns nil (no opinion), so the address policy decides exactly as without it",
			"overlap, burst: a valid lock-step dialogue under default accept/store gets 220/250/354/250/221 (what a session alone on a fresh server gets); a failed connect or listen in burst is the machine's business (inconclusive)",
			"naming 'local', default accept/store, recipient limit 200 or 3, message size limit 10 MB or 400 B: which commands are accepted is observed, not predicted",
			"a line counts as a credential when it follows a 334 reply and is itself answered 334, 235 or 5xx; otherwise it is judged as a command",
			"an over-long (>= 10 KiB) or binary line may legitimately end the session with at most one reply; every other line must get exactly one",
			"a HELO (not EHLO) acknowledged inside an open transaction, or an acknowledged RCPT whose address the harness cannot name, makes the envelope of that transaction undetermined: it is not judged until the next transaction boundary",
			"for k byte-identical duplicate RCPTs any stored count in 1..k is accepted (as in C01)",
			"(b) for the one message whose final .CRLF was transmitted but not acknowledged, any subset of its recipients may hold it (each copy complete)",
		},
		MinObs: func(tier string) map[string]int64 {
			n := int64(len(cutCases()))
			return map[string]int64{
				"cut_sessions":                    n,
				"cut_sessions_ended":              n,
				"cut_acknowledged_copies_present": 2000,
				"cut_inside_data_block":           1000,
				"cut_inside_a_line":               3000,
				"transactions_stored":             300,
				"messages_stored":                 500,
				"transactions_discarded:rset":     50,
				"transactions_discarded:ehlo":     20,
				"consecutive_transactions_with_different_recipient_sets": 50,
				"mail_before_greeting_refused":                           10,
				"rset_before_greeting":                                   5,
				"rcpt_outside_transaction_refused":                       50,
				"data_without_recipient_refused":                         50,
				"credential_lines_looking_like_commands":                 20,
				"closed_inside_data":                                     10,
				"data_blocks_refused":                                    20,
				"closed_inside_transaction":                              20,
				"kind:long-10k":                                          10,
				"kind:long-1m":                                           3,
				"kind:binary":                                            30,
				"kind:NOOP":                                              30,
				"kind:STARTTLS":                                          10,
				"kind:AUTH-PLAIN":                                        10,
				"quit_221":                                               50,
				"seq_sessions:mem":                                       100,
				"seq_sessions:file":                                      100,
				"wear_servers":                                           40,
				"overlap_cases":                                          100,
				"overlap_config:mem/procs=1":                             20,
				"overlap_config:file/procs=1":                            20,
				"overlap_held_deliveries":                                150,
				"overlap_acknowledged_while_a_delivery_was_held":         300,
				"overlap_discarded_while_a_delivery_was_held":            40,
				"overlap_stored_copies_identical":                        600,
				"overlap_stored_copies_of_held_deliveries_identical":     150,
				"overlap_parallel_rounds":                                20,
				"burst_servers":                                          40,
				"burst_config:mem/procs=1":                               10,
				"burst_connections":                                      800,
				"max_burst_connections_released_together":                14,
				"burst_replies_judged":                                   5000,
				"burst_messages_stored_identical":                        800,
				"burst_connections_kept_open_over_the_next_burst":        40,
				"burst_servers_shut_down":                                40,
				// TLS configured (after C03-12)
				"seq_sessions_tls_configured":           1000,
				"multi_line_replies_tls_configured":     800,
				"replies_observed_tls_configured_clear": 8000,
				"starttls_upgrades":                     300,
				"starttls_upgrades_after_a_transaction": 80,
				"replies_observed_inside_tls":           3000,
				"transactions_stored_inside_tls":        200,
				"wear_servers_tls_configured":           10,
				"burst_servers_tls_configured":          8,
			}
		},
		// Generous: file-store sessions stall for minutes when other runs saturate the disk.
		ChildTimeout: func(tier string) time.Duration {
			if tier == "thorough" {
				return 90 * time.Minute
			}
			return 20 * time.Minute
		},
		Run: run,
	})
}

func run(c *fw.Ctx) {
	c.Cases("seq", c.N(12000, 150000), func(i int, r *fw.Rand) {
		runSeq(c, i, r)
	})
	c.Cases("wear", c.N(60, 900), func(i int, r *fw.Rand) {
		runWear(c, i, r)
	})
	c.Cases("overlap", c.N(120, 1600), func(i int, r *fw.Rand) {
		runOverlap(c, i, r)
	})
	c.Cases("burst", c.N(48, 640), func(i int, r *fw.Rand) {
		runBurst(c, i, r)
	})
	cs := cutCases()
	c.Cases("cut", len(cs), func(i int, r *fw.Rand) {
		runCut(c, cs[i])
	})
}
