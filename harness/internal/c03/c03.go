// Package c03 will hold the check for property C03.
package c03
