package c03

import (
	"fmt"
	"os"
	"sort"
	"strings"

	"verifharness/internal/fw"
	"verifharness/internal/sut"
)

// ---------------------------------------------------------------------------------------------
// Part (b): exhaustive disconnect enumeration over four canonical multi-transaction dialogues.
// ---------------------------------------------------------------------------------------------

const (
	itCmd  = iota // command line: exactly one reply
	itData        // line of a data block: no reply
	itDot         // terminating ".CRLF": exactly one reply, acknowledges message msg
	itCred        // AUTH LOGIN credential line: exactly one reply
)

type item struct {
	b    []byte
	kind int
	msg  int // index into dialogue.msgs for itData/itDot
}

type cutMsg struct {
	rcpts []string // mailbox names (naming "local")
	raw   string   // message as the client means it (before dot-stuffing)
}

type dialogue struct {
	name   string
	items  []item
	msgs   []cutMsg
	stream []byte
	ends   []int // end offset of every item in stream
}

type dlgBuilder struct{ d *dialogue }

func (b dlgBuilder) cmd(s string) {
	b.d.items = append(b.d.items, item{b: []byte(s + "\r\n"), kind: itCmd, msg: -1})
}
func (b dlgBuilder) cred(s string) {
	b.d.items = append(b.d.items, item{b: []byte(s + "\r\n"), kind: itCred, msg: -1})
}

// tx adds MAIL, RCPTs, DATA and the data block of one message.
func (b dlgBuilder) tx(sender string, rcpts []string, body string) {
	b.cmd("MAIL FROM:<" + sender + ">")
	var names []string
	for _, r := range rcpts {
		b.cmd("RCPT TO:<" + r + ">")
		names = append(names, strings.ToLower(r[:strings.IndexAny(r, "+@")]))
	}
	b.cmd("DATA")
	idx := len(b.d.msgs)
	b.d.msgs = append(b.d.msgs, cutMsg{rcpts: names, raw: body})
	block := sut.DotStuff([]byte(body))
	lines := strings.SplitAfter(string(block), "\r\n")
	for _, l := range lines {
		if l == "" {
			continue
		}
		k := itData
		if l == ".\r\n" {
			k = itDot
		}
		b.d.items = append(b.d.items, item{b: []byte(l), kind: k, msg: idx})
	}
}

func (d *dialogue) finish() *dialogue {
	for _, it := range d.items {
		d.stream = append(d.stream, it.b...)
		d.ends = append(d.ends, len(d.stream))
	}
	return d
}

func body(uniq string, lines ...string) string {
	return "From: author@hdr.test\r\nSubject: " + uniq + "\r\nX-Case: " + uniq + "\r\n\r\n" + strings.Join(lines, "\r\n") + "\r\nend of " + uniq + "\r\n"
}

// dialogues returns the four canonical dialogues (fixed, no randomness).
func dialogues() []*dialogue {
	var out []*dialogue

	a := &dialogue{name: "two-transactions"}
	ba := dlgBuilder{a}
	ba.cmd("EHLO client.test")
	ba.tx("one@sender.test", []string{"anna@alpha.test"}, body("A1", "first message", "second line"))
	ba.tx("two@sender.test", []string{"bert@beta.test", "carl+tag@alpha.test"}, body("A2", "another message", ".leading dot", "..two dots", "tail"))
	ba.cmd("QUIT")
	out = append(out, a.finish())

	b := &dialogue{name: "rset-then-deliveries"}
	bb := dlgBuilder{b}
	bb.cmd("HELO client.test")
	bb.cmd("MAIL FROM:<zero@sender.test>")
	bb.cmd("RCPT TO:<anna@alpha.test>")
	bb.cmd("RCPT TO:<bert@beta.test>")
	bb.cmd("RSET")
	bb.tx("one@sender.test", []string{"carl@alpha.test"}, body("B1", "after a reset", "QUIT", "RSET", "."))
	bb.tx("two@sender.test", []string{"anna@alpha.test"}, body("B2", "MAIL FROM:<intruder@sender.test>", "RCPT TO:<dora@alpha.test>", "DATA", "text"))
	bb.cmd("QUIT")
	out = append(out, b.finish())

	c := &dialogue{name: "ehlo-reset-and-noop"}
	bc := dlgBuilder{c}
	bc.cmd("EHLO client.test")
	bc.tx("one@sender.test", []string{"anna@alpha.test"}, body("C1", "", "line after an empty line", strings.Repeat("x", 120)))
	bc.cmd("MAIL FROM:<dropped@sender.test>")
	bc.cmd("RCPT TO:<dora@alpha.test>")
	bc.cmd("EHLO client.test")
	bc.tx("two@sender.test", []string{"bert@beta.test", "anna@alpha.test"}, body("C2", "to two mailboxes"))
	bc.cmd("NOOP")
	bc.cmd("QUIT")
	out = append(out, c.finish())

	d := &dialogue{name: "auth-three-recipients-no-quit"}
	bd := dlgBuilder{d}
	bd.cmd("EHLO client.test")
	bd.cmd("AUTH LOGIN")
	bd.cred("dXNlcg==")
	bd.cred("cGFzcw==")
	bd.tx("one@sender.test", []string{"anna@alpha.test"}, body("D1", "authenticated"))
	bd.cmd("MAIL FROM:<dropped@sender.test>")
	bd.cmd("RCPT TO:<bert@beta.test>")
	bd.cmd("RSET")
	bd.tx("two@sender.test", []string{"carl@alpha.test", "dora@alpha.test", "emil@beta.test"}, body("D2", "three recipients", "..", "bye"))
	out = append(out, d.finish())
	return out
}

type cutCase struct {
	d       *dialogue
	backend string
	k       int  // bytes of the client stream that are transmitted
	waited  bool // k is an item boundary and the client reads the replies to that item before closing
}

// cutCases enumerates every (dialogue, back end, byte offset) once, plus the "read the reply, then
// close" variant at every item boundary.
func cutCases() []cutCase {
	var cs []cutCase
	for _, d := range dialogues() {
		for _, be := range []string{"mem", "file"} {
			for k := 0; k <= len(d.stream); k++ {
				cs = append(cs, cutCase{d, be, k, false})
			}
			for _, e := range d.ends {
				cs = append(cs, cutCase{d, be, e, true})
			}
		}
	}
	return cs
}

func runCut(c *fw.Ctx, cc cutCase) {
	d := cc.d
	conf := sut.DefaultConf()
	if cc.backend == "file" {
		dir := c.TempDir("c03cut")
		defer os.RemoveAll(dir)
		conf.Storage.Type = "file"
		conf.Storage.Params = map[string]string{"path": dir}
	}
	env, err := sut.NewEnv(conf, cc.backend)
	if err != nil {
		panic(err)
	}
	ss := env.StartSMTP()
	ended := false
	defer func() {
		if !ended && !ss.Ended() {
			ss.Close()
		}
	}()
	desc := fmt.Sprintf("dialogue %s, back end %s, cut after byte %d of %d (waited=%v)", d.name, cc.backend, cc.k, len(d.stream), cc.waited)
	fail := func(key, what string) {
		tr := ss.Trace
		if len(tr) > 40 {
			tr = tr[len(tr)-40:]
		}
		c.Violation("C03:cut:"+key, desc+": "+what, map[string]any{"dialogue": d.name, "backend": cc.backend, "k": cc.k,
			"waited": cc.waited, "sent": string(d.stream[:cc.k]), "trace_tail": tr})
	}
	c.Count("cut_sessions", 1)
	if _, ok := ss.Greeting(); !ok {
		fail("no-greeting", "no single well-formed 220 greeting")
		return
	}
	acked := map[int]bool{}
	maybe := -1
	pos := 0
	cutInData := false
	for i, it := range d.items {
		end := d.ends[i]
		if end < cc.k || (end == cc.k && cc.waited) {
			// Transmitted completely and the client reads what comes back.
			reps, mal, closed, ok := ss.Step(it.b)
			if !ok {
				c.Hang("smtp-no-quiescence", desc+": session neither idle nor closed", "")
				return
			}
			if mal != "" {
				fail("malformed-reply", mal)
				return
			}
			wantN := 1
			if it.kind == itData {
				wantN = 0
			}
			if len(reps) != wantN {
				fail("reply-count", fmt.Sprintf("%d replies to %s, expected %d", len(reps), fw.Q(string(it.b)), wantN))
				return
			}
			if wantN == 1 {
				code := reps[0].Code
				okc := reps[0].Class() == 2 || (it.kind == itCmd && (code == 354 || code == 334)) || (it.kind == itCred && code == 334)
				if !okc || closed && string(it.b) != "QUIT\r\n" {
					// The enumeration presupposes that the canonical dialogue is accepted.
					c.Inconclusive(desc + ": canonical dialogue not accepted at " + fw.Q(string(it.b)) + ": " + reps[0].String())
					return
				}
				if it.kind == itDot {
					acked[it.msg] = true
				}
			}
			pos = end
			continue
		}
		// Final chunk: the rest of what is transmitted (possibly a complete line), then the
		// client is gone without reading further.
		if cc.k > pos {
			ss.Q.Send(d.stream[pos:cc.k])
			if end == cc.k && it.kind == itDot {
				maybe = it.msg
			}
			if it.kind == itData || it.kind == itDot {
				cutInData = true
			}
			if cc.k < end {
				c.Count("cut_inside_a_line", 1)
			}
		}
		break
	}
	ended = true
	if !ss.Close() {
		c.Hang("smtp-session-end", desc+": SMTP session did not end after the client closed", "")
		return
	}
	c.Count("cut_sessions_ended", 1)
	if cutInData {
		c.Count("cut_inside_data_block", 1)
	}

	snap, err := sut.Snapshot(env.Store, []string{"anna", "bert", "carl", "dora", "emil"}, true)
	if err != nil {
		fail("store-unreadable", err.Error())
		return
	}
	// Attribute every stored message to exactly one (dialogue message, recipient mailbox).
	copies := map[string]int{} // "msg/mailbox" -> copies
	names := sut.SnapNames(snap)
	for _, n := range names {
		for _, sm := range snap[n] {
			if sm.SrcErr != "" {
				fail("source-unreadable", fmt.Sprintf("mailbox %q message %s: %s", n, sm.ID, sm.SrcErr))
				return
			}
			hit := -1
			for mi, m := range d.msgs {
				if strings.HasSuffix(normEOL(sm.Source), normEOL(m.raw)) {
					hit = mi
				}
			}
			if hit < 0 {
				fail("partial-or-phantom-message", fmt.Sprintf("mailbox %q holds a message that is none of the dialogue's messages in full: %s", n, brief(sm)))
				return
			}
			owed := false
			for _, rn := range d.msgs[hit].rcpts {
				if rn == n {
					owed = true
				}
			}
			if !owed {
				fail("message-in-foreign-mailbox", fmt.Sprintf("mailbox %q holds message #%d which was addressed to %v", n, hit, d.msgs[hit].rcpts))
				return
			}
			copies[fmt.Sprintf("%d/%s", hit, n)]++
		}
	}
	var ackedList []int
	for mi := range d.msgs {
		if acked[mi] {
			ackedList = append(ackedList, mi)
		}
	}
	sort.Ints(ackedList)
	for mi, m := range d.msgs {
		for _, rn := range m.rcpts {
			n := copies[fmt.Sprintf("%d/%s", mi, rn)]
			switch {
			case acked[mi]:
				if n == 0 {
					fail("acknowledged-message-missing", fmt.Sprintf("message #%d was acknowledged 250 to the client but mailbox %q does not hold it (acknowledged %v)", mi, rn, ackedList))
					return
				}
				if n > 1 {
					fail("duplicate-message", fmt.Sprintf("message #%d stored %d times in mailbox %q", mi, n, rn))
					return
				}
				c.Count("cut_acknowledged_copies_present", 1)
			case mi == maybe:
				if n > 1 {
					fail("duplicate-message", fmt.Sprintf("message #%d stored %d times in mailbox %q", mi, n, rn))
					return
				}
				if n == 1 {
					c.Count("cut_transmitted_unacknowledged_stored", 1)
				} else {
					c.Count("cut_transmitted_unacknowledged_not_stored", 1)
				}
			default:
				if n > 0 {
					fail("untransmitted-message-stored", fmt.Sprintf("message #%d is stored in mailbox %q although its terminating \".CRLF\" was not completely transmitted (acknowledged %v)", mi, rn, ackedList))
					return
				}
			}
		}
	}
	c.Count("cut_messages_acknowledged", int64(len(ackedList)))
	c.NonTrivial(fmt.Sprintf("cut|%s|%s|%d|%v", d.name, cc.backend, cc.k, cc.waited))
	if cc.k%97 == 0 {
		c.Sample(map[string]any{"part": "cut", "case": desc, "acknowledged": ackedList, "stored": len(copies)})
	}
}
