package c03

import (
	"fmt"
	"os"
	"runtime"
	"sort"
	"strings"
	"sync"
	"time"

	"github.com/inbucket/inbucket/v3/pkg/extension/event"

	"verifharness/internal/fw"
	"verifharness/internal/sut"
)

// Stream "overlap" (added after seeded change C03-9).
//
// "Transactions are isolated from each other ... never a partial or phantom message" is said of
// the server, and a server carries many connections at once.  The seq, cut and wear streams drive
// one session at a time, so anything the sessions of one server have in common - a recycled or
// server-wide data buffer, an envelope or recipient list that is not per session, a scratch area
// handed back before the delivery has finished with it - never had two users.  Here 3-7 sessions
// are open on ONE server at the same time.
//
// The overlap is a logical fact, not luck: in every round one or two sessions have transmitted
// their complete message and their delivery is held INSIDE Deliver by a BeforeMessageStored
// listener (an extension point of inbucket; it stands for a slow Lua hook or a slow store).
// While they are held, the other sessions play complete transactions, transactions that are
// discarded (RSET or EHLO after the recipients), with 1-3 recipients out of a pool of mailboxes
// the sessions share.  Their command lines are interleaved one by one in a drawn order (a fully
// determined schedule in which every session is somewhere inside its own transaction while the
// others move) or the sessions run in parallel goroutines (real interleavings on top).  Then the
// held deliveries are released in a drawn order.  Half of the cases run on a single P, where a
// per-P cache (sync.Pool, the usual Go buffer recycler) hands an item straight to the next taker,
// the other half on the child's default of 4.
//
// Every transaction has a token of its own that is its Subject and fills every line of its body,
// and bodies come in a few size classes (so that a later message is often no longer than an
// earlier one and fits whatever held the earlier one).
//
// Obligations, all from the property statement:
//   - every line of these valid lock-step dialogues gets exactly one reply, and it is the reply a
//     session alone on the server gets (a 503 because ANOTHER connection sent RSET is a
//     transaction that was not isolated);
//   - after all sessions have ended every mailbox holds exactly one message per transaction that
//     was acknowledged (250 after the dot) with that mailbox among its recipients: its Subject is
//     the transaction's token, its source ends with the bytes that transaction transmitted and
//     carries no token of any other transaction; nothing else is stored anywhere (no message of a
//     discarded transaction, no mailbox nobody addressed).
// Verdicts use replies and the final store only; no schedule-dependent value takes part.

// ovTx is one planned transaction of the overlap stream.
type ovTx struct {
	tok       string
	sess      int
	boxes     []string
	data      []byte // CRLF form, as transmitted (before dot-stuffing; no line starts with a dot)
	kind      string // "deliver", "rset", "ehlo"
	held      bool
	acked     bool // 250 after the dot
	whileHeld bool // played to its end while at least one delivery was held
}

var ovSizes = []int{0, 0, 300, 300, 1500, 1500, 6000, 6000, 30000, 90000}

// ovMessage builds a message whose Subject is tok and whose every body line carries tok.
func ovMessage(tok string, size int) []byte {
	var b strings.Builder
	b.Grow(size + 200)
	b.WriteString("Subject: " + tok + "\r\nFrom: sender-of-" + tok + "@origin.test\r\nX-Transaction: " + tok + "\r\n\r\n")
	for n := 0; b.Len() < size || n == 0; n++ {
		fmt.Fprintf(&b, "%s line %d of the body of %s only %s\r\n", tok, n, tok, tok)
	}
	return []byte(b.String())
}

// ovGate holds chosen deliveries inside Deliver (BeforeMessageStored) until released.
type ovGate struct {
	mu   sync.Mutex
	hold map[string]*ovHold // by Subject (the transaction's token)
}

type ovHold struct {
	entered chan struct{}
	release chan struct{}
	once    sync.Once
}

func (h *ovHold) open() { h.once.Do(func() { close(h.release) }) }

func (g *ovGate) arm(tok string) *ovHold {
	h := &ovHold{entered: make(chan struct{}), release: make(chan struct{})}
	g.mu.Lock()
	g.hold[tok] = h
	g.mu.Unlock()
	return h
}

func (g *ovGate) listener(m event.InboundMessage) *event.InboundMessage {
	g.mu.Lock()
	h := g.hold[m.Subject]
	delete(g.hold, m.Subject)
	g.mu.Unlock()
	if h != nil {
		close(h.entered)
		<-h.release
	}
	return nil // no opinion: the address policy decides, as without the listener
}

// ovStep is one client step: a command line or a data block, and the reply code a session that
// is alone on the server gets for it.
type ovStep struct {
	send string // without CRLF (data blocks: dot-stuffed, without the final CRLF)
	code int
	tx   *ovTx
	dot  bool // this step is the data block
}

// ovSess is one SMTP session; it is driven by one goroutine at a time.
type ovSess struct {
	n        int
	ss       *sut.SMTPSession
	fail     string
	watchdog string
}

func (s *ovSess) dead() bool { return s.fail != "" || s.watchdog != "" }

// play sends one step and judges its reply.
func (s *ovSess) play(st ovStep) bool {
	if s.dead() {
		return false
	}
	rep, err := s.ss.Cmd(st.send)
	shown := fw.Trunc(st.send, 40)
	if err != nil {
		if sut.IsWatchdog(err) {
			s.watchdog = fmt.Sprintf("session %d: %v", s.n, err)
		} else {
			s.fail = fmt.Sprintf("session %d, %q: %v", s.n, shown, err)
		}
		return false
	}
	if rep.Code != st.code {
		s.fail = fmt.Sprintf("session %d: %q is answered %s; a session alone on the server gets %d", s.n, shown, rep.String(), st.code)
		return false
	}
	if st.dot {
		st.tx.acked = true
	}
	return true
}

func ovSteps(t *ovTx) []ovStep {
	steps := []ovStep{{send: "MAIL FROM:<from-" + t.tok + "@origin.test>", code: 250, tx: t}}
	for _, b := range t.boxes {
		steps = append(steps, ovStep{send: "RCPT TO:<" + b + "@inbucket.test>", code: 250, tx: t})
	}
	switch t.kind {
	case "rset":
		steps = append(steps, ovStep{send: "RSET", code: 250, tx: t})
	case "ehlo":
		steps = append(steps, ovStep{send: "EHLO again.overlap.test", code: 250, tx: t})
	default:
		st := sut.DotStuff(t.data)
		steps = append(steps, ovStep{send: "DATA", code: 354, tx: t},
			ovStep{send: string(st[:len(st)-2]), code: 250, tx: t, dot: true})
	}
	return steps
}

func runOverlap(c *fw.Ctx, idx int, r *fw.Rand) {
	backend := []string{"mem", "file"}[idx%2]
	procs := []int{1, 0}[(idx/2)%2] // 0: leave the child's setting (4)
	if procs > 0 {
		old := runtime.GOMAXPROCS(procs)
		defer runtime.GOMAXPROCS(old)
	}
	conf := sut.DefaultConf()
	if backend == "file" {
		dir := c.TempDir("c03ov")
		defer os.RemoveAll(dir)
		conf.Storage.Type = "file"
		conf.Storage.Params = map[string]string{"path": dir}
	}
	env, err := sut.NewEnv(conf, backend)
	if err != nil {
		panic(err)
	}
	g := &ovGate{hold: map[string]*ovHold{}}
	env.ExtHost.Events.BeforeMessageStored.AddListener("c03-overlap-gate", g.listener)
	wd := 60 * time.Second * time.Duration(c.Slow)
	tag := fmt.Sprintf("[overlap %s procs %d case %d]", backend, procs, idx)

	nsess := r.Range(3, 7)
	pool := make([]string, r.Range(2, 6))
	for i := range pool {
		pool[i] = fmt.Sprintf("ov%dbox%d", idx, i)
	}
	sessions := make([]*ovSess, nsess)
	for i := range sessions {
		ss := env.StartSMTP()
		ss.Watchdog = wd
		sessions[i] = &ovSess{n: i, ss: ss}
	}
	var holds []*ovHold
	hung := false
	hang := func(name, what, dump string) {
		if !hung {
			hung = true
			c.Hang(name, tag+" "+what, dump)
		}
	}
	defer func() {
		for _, h := range holds {
			h.open()
		}
		for _, s := range sessions {
			if !s.ss.Ended() && !s.ss.Close() {
				hang("smtp-overlap-session-end", "SMTP session did not end after the client closed", "")
				return
			}
		}
	}()
	for _, s := range sessions {
		rep, err := s.ss.Greet()
		if err != nil {
			if sut.IsWatchdog(err) {
				hang("smtp-overlap-session", err.Error(), "")
			} else {
				c.Violation("C03:overlap:dialogue", tag+" "+err.Error(), nil)
			}
			return
		}
		if rep.Code != 220 {
			c.Violation("C03:overlap:dialogue", tag+" greeting "+rep.String(), nil)
			return
		}
		greet := "EHLO overlap.test"
		if r.Chance(1, 4) {
			greet = "HELO overlap.test"
		}
		if !s.play(ovStep{send: greet, code: 250}) {
			if s.watchdog != "" {
				hang("smtp-overlap-session", s.watchdog, "")
			} else {
				c.Violation("C03:overlap:dialogue", tag+" "+s.fail, map[string]any{"trace": s.ss.Trace})
			}
			return
		}
	}

	var all []*ovTx
	seq := make([]int, nsess)
	mk := func(si int, kind string) *ovTx {
		seq[si]++
		t := &ovTx{tok: fmt.Sprintf("ovtx%dx%dx%dq", idx, si, seq[si]), sess: si, kind: kind}
		for _, k := range r.Perm(len(pool))[:r.Range(1, minInt(3, len(pool)))] {
			t.boxes = append(t.boxes, pool[k])
		}
		t.data = ovMessage(t.tok, ovSizes[r.Intn(len(ovSizes))])
		all = append(all, t)
		return t
	}

	rounds := r.Range(1, 3)
	var nHeld, nNotHeld, whileHeld, discardedWhileHeld, parallelRounds int
	for round := 0; round < rounds && !hung; round++ {
		perm := r.Perm(nsess)
		nh := r.Range(1, 2)
		if nh > nsess-2 {
			nh = nsess - 2
		}
		holders, movers := perm[:nh], perm[nh:]
		// 1. Holders transmit a complete message; its delivery stops inside Deliver.
		type heldTx struct {
			s    *ovSess
			t    *ovTx
			h    *ovHold
			idle chan bool
		}
		var held []heldTx
		for _, si := range holders {
			s := sessions[si]
			t := mk(si, "deliver")
			steps := ovSteps(t)
			okSoFar := true
			for _, st := range steps[:len(steps)-1] {
				if !s.play(st) {
					okSoFar = false
					break
				}
			}
			if !okSoFar {
				continue
			}
			h := g.arm(t.tok)
			holds = append(holds, h)
			s.ss.Q.Send([]byte(steps[len(steps)-1].send + "\r\n"))
			idle := make(chan bool, 1)
			go func() {
				_, ok := s.ss.Q.WaitIdle(wd)
				idle <- ok
			}()
			select {
			case <-h.entered:
				t.held = true
				nHeld++
				held = append(held, heldTx{s, t, h, idle})
			case ok := <-idle:
				// Answered without reaching the extension point; judged by its reply like any other.
				h.open()
				nNotHeld++
				s.collect(t, ok)
			}
		}
		// 2. The others move while those deliveries are in progress.
		plans := make([][]ovStep, len(movers))
		var moved []*ovTx
		for k, si := range movers {
			for j, nt := 0, r.Range(1, 3); j < nt; j++ {
				kind := "deliver"
				switch r.Intn(6) {
				case 0:
					kind = "rset"
				case 1:
					kind = "ehlo"
				}
				if k == 0 && j == 0 {
					kind = "deliver"
				}
				t := mk(si, kind)
				moved = append(moved, t)
				plans[k] = append(plans[k], ovSteps(t)...)
			}
		}
		if r.Chance(1, 3) {
			parallelRounds++
			var wg sync.WaitGroup
			ok, dump := c.Within(wd+30*time.Second, func() {
				for k, si := range movers {
					wg.Add(1)
					go func(s *ovSess, plan []ovStep) {
						defer wg.Done()
						for _, st := range plan {
							if !s.play(st) {
								return
							}
						}
					}(sessions[si], plans[k])
				}
				wg.Wait()
			})
			if !ok {
				hang("smtp-overlap-sessions", "concurrent SMTP sessions did not finish", dump)
			}
		} else {
			// one line at a time, the sessions' lines merged in a drawn order
			pos := make([]int, len(movers))
			for {
				var live []int
				for k := range movers {
					if pos[k] < len(plans[k]) && !sessions[movers[k]].dead() {
						live = append(live, k)
					}
				}
				if len(live) == 0 {
					break
				}
				k := live[r.Intn(len(live))]
				sessions[movers[k]].play(plans[k][pos[k]])
				pos[k]++
			}
		}
		if len(held) > 0 && !hung {
			for _, t := range moved {
				if t.acked {
					t.whileHeld = true
					whileHeld++
				} else if t.kind != "deliver" && !sessions[t.sess].dead() {
					discardedWhileHeld++
				}
			}
		}
		// 3. Release the held deliveries in a drawn order and collect their replies.
		for _, k := range r.Perm(len(held)) {
			ht := held[k]
			ht.h.open()
			if hung {
				continue
			}
			ht.s.collect(ht.t, <-ht.idle)
		}
	}
	for _, s := range sessions {
		if s.watchdog != "" {
			hang("smtp-overlap-session", s.watchdog, "")
		}
	}
	if hung {
		return
	}
	// The sessions end (QUIT on some, a plain close on the others) before the store is judged.
	for _, s := range sessions {
		if !s.dead() && r.Bool() {
			s.play(ovStep{send: "QUIT", code: 221})
		}
		if !s.ss.Close() {
			hang("smtp-overlap-session-end", "SMTP session did not end after the client closed", "")
			return
		}
	}

	// ---- verdicts ----
	failed := false
	viol := func(key, what string, sess ...int) {
		failed = true
		d := map[string]any{"backend": backend, "procs": procs, "sessions": nsess}
		for _, i := range sess {
			d[fmt.Sprintf("trace_session_%d", i)] = sessions[i].ss.Trace
		}
		c.Violation(key, tag+" "+what, d)
	}
	for _, s := range sessions {
		if s.fail != "" {
			viol("C03:overlap:dialogue", fmt.Sprintf("%d sessions open on one server: %s", nsess, s.fail), s.n)
		}
	}
	byTok := map[string]*ovTx{}
	owed := map[string]map[string]bool{} // mailbox -> tokens acknowledged for it
	for _, t := range all {
		byTok[t.tok] = t
		if t.acked {
			for _, b := range t.boxes {
				if owed[b] == nil {
					owed[b] = map[string]bool{}
				}
				owed[b][t.tok] = true
			}
		}
	}
	snap, err := sut.Snapshot(env.Store, pool, true)
	if err != nil {
		viol("C03:overlap:store-unreadable", "after the sessions ended: "+err.Error())
		return
	}
	describe := func(t *ovTx) string {
		return fmt.Sprintf("transaction %s of session %d (%s, %d bytes, recipients %v, acknowledged: %v, held in delivery: %v)", t.tok, t.sess, t.kind, len(t.data), t.boxes, t.acked, t.held)
	}
	// tokensIn lists the tokens of this case that occur in s, other than own.
	prefix := fmt.Sprintf("ovtx%dx", idx)
	tokensIn := func(s, own string) []string {
		seen := map[string]bool{}
		for {
			i := strings.Index(s, prefix)
			if i < 0 {
				break
			}
			s = s[i:]
			if e := strings.IndexByte(s, 'q'); e > 0 && e < 40 {
				if tok := s[:e+1]; tok != own && byTok[tok] != nil {
					seen[tok] = true
				}
			}
			s = s[len(prefix):]
		}
		var out []string
		for t := range seen {
			out = append(out, t)
		}
		sort.Strings(out)
		return out
	}
	var storedOK, storedHeld int
	for _, name := range sut.SnapNames(snap) {
		got := map[string]int{}
		for _, sm := range snap[name] {
			if sm.SrcErr != "" {
				viol("C03:overlap:store-unreadable", fmt.Sprintf("source of %s/%s: %s", name, sm.ID, sm.SrcErr))
				continue
			}
			t := byTok[sm.Subject]
			if owed[name] == nil && t == nil {
				viol("C03:overlap:phantom-message", fmt.Sprintf("mailbox %q holds %v; no acknowledged transaction named that mailbox", name, brief(sm)))
				continue
			}
			if t == nil {
				viol("C03:overlap:phantom-message", fmt.Sprintf("mailbox %q holds a message whose Subject %q is that of no transaction: %v; tokens in its source: %v", name, sm.Subject, brief(sm), tokensIn(sm.Source, "")))
				continue
			}
			if !owed[name][t.tok] {
				viol("C03:overlap:unowed-message", fmt.Sprintf("mailbox %q holds a message of %s, which was not acknowledged for that mailbox: %v", name, describe(t), brief(sm)), t.sess)
				continue
			}
			got[t.tok]++
			foreign := tokensIn(sm.Source, t.tok)
			if !strings.HasSuffix(normEOL(sm.Source), normEOL(string(t.data))) || len(foreign) > 0 {
				other := []int{t.sess}
				for _, f := range foreign {
					other = append(other, byTok[f].sess)
				}
				viol("C03:overlap:foreign-content", fmt.Sprintf("mailbox %q: the stored message of %s does not consist of what that transaction transmitted (%d bytes stored); tokens of other transactions in it: %v; stored: %v",
					name, describe(t), len(sm.Source), foreign, brief(sm)), other...)
				continue
			}
			storedOK++
			if t.held {
				storedHeld++
			}
		}
		for tok, n := range got {
			if n > 1 {
				viol("C03:overlap:too-many-copies", fmt.Sprintf("mailbox %q holds %d messages of %s", name, n, describe(byTok[tok])), byTok[tok].sess)
			}
		}
		for tok := range owed[name] {
			if got[tok] == 0 {
				viol("C03:overlap:owed-message-missing", fmt.Sprintf("mailbox %q holds no (intact) message of %s", name, describe(byTok[tok])), byTok[tok].sess)
			}
		}
	}
	for name, toks := range owed {
		if len(snap[name]) == 0 && len(toks) > 0 {
			var l []string
			for t := range toks {
				l = append(l, t)
			}
			sort.Strings(l)
			viol("C03:overlap:owed-message-missing", fmt.Sprintf("mailbox %q is empty; acknowledged for it: %v", name, l), byTok[l[0]].sess)
		}
	}
	if failed {
		return
	}
	var acked int
	for _, t := range all {
		if t.acked {
			acked++
		}
	}
	c.Count("overlap_cases", 1)
	c.Count(fmt.Sprintf("overlap_config:%s/procs=%d", backend, procs), 1)
	c.Count("overlap_sessions", int64(nsess))
	c.Max("max_overlap_sessions_on_one_server", int64(nsess))
	c.Count("overlap_parallel_rounds", int64(parallelRounds))
	c.Count("overlap_held_deliveries", int64(nHeld))
	c.Count("overlap_holder_not_held", int64(nNotHeld))
	c.Count("overlap_transactions_acknowledged", int64(acked))
	c.Count("overlap_acknowledged_while_a_delivery_was_held", int64(whileHeld))
	c.Count("overlap_discarded_while_a_delivery_was_held", int64(discardedWhileHeld))
	c.Count("overlap_stored_copies_identical", int64(storedOK))
	c.Count("overlap_stored_copies_of_held_deliveries_identical", int64(storedHeld))
	if nHeld > 0 && whileHeld > 0 {
		c.NonTrivial(fmt.Sprintf("overlap|%s|p%d|s%d|h%d|w%d|par%d|b%d", backend, procs, nsess, nHeld, minInt(whileHeld, 6), parallelRounds, len(pool)))
	}
}

// collect takes the reply that followed a data block sent with Q.Send (idleOK: WaitIdle returned
// without its watchdog firing).
func (s *ovSess) collect(t *ovTx, idleOK bool) {
	if !idleOK {
		if s.watchdog == "" {
			s.watchdog = fmt.Sprintf("session %d: session neither idle nor closed after the data block of %s", s.n, t.tok)
		}
		return
	}
	replies, mal, closed, _ := s.ss.Step(nil)
	if s.dead() {
		return
	}
	if mal != "" || len(replies) != 1 {
		s.fail = fmt.Sprintf("session %d: %d replies after the terminating dot of %s (malformed=%q closed=%v)", s.n, len(replies), t.tok, mal, closed)
		return
	}
	if replies[0].Code != 250 {
		s.fail = fmt.Sprintf("session %d: the data block of %s is answered %s; a session alone on the server gets 250", s.n, t.tok, replies[0].String())
		return
	}
	t.acked = true
}

func minInt(a, b int) int {
	if a < b {
		return a
	}
	return b
}
