package c03

import (
	"fmt"
	"os"
	"sort"
	"strings"

	"verifharness/internal/fw"
	"verifharness/internal/gen"
	"verifharness/internal/sut"
)

// ---------------------------------------------------------------------------------------------
// Part (a): generated command-line sequences judged by a trace automaton over observed replies.
// ---------------------------------------------------------------------------------------------

// line is one client line (sent with CRLF appended).
type line struct {
	text     string
	kind     string    // generator class (coverage signature, finding keys)
	addr     *gen.Addr // recipient of an RCPT line whose address is unambiguous
	tolerant bool      // over-long or binary: the session may end instead of answering
}

var verbs = map[string]bool{"HELO": true, "EHLO": true, "MAIL": true, "RCPT": true, "DATA": true, "RSET": true, "QUIT": true}

// verbOf is the command verb of a line as SMTP defines it: the first word, case-insensitive.
func verbOf(text string) string {
	w := text
	if i := strings.IndexByte(w, ' '); i >= 0 {
		w = w[:i]
	}
	if len(w) != 4 {
		return ""
	}
	b := []byte(w)
	for i, c := range b {
		if 'a' <= c && c <= 'z' {
			b[i] = c - 32
		}
	}
	if verbs[string(b)] {
		return string(b)
	}
	return ""
}

type sess struct {
	c       *fw.Ctx
	r       *fw.Rand
	idx     int
	backend string
	env     *sut.Env
	ss      *sut.SMTPSession
	sm      *storeModel
	pool    []gen.Addr

	// automaton state, advanced only by observed replies
	greeted bool
	txOpen  bool
	fuzzy   bool // the open transaction's envelope is not determined by the statement
	acked   []gen.Addr
	auth    bool // inside an AUTH sub-dialogue (last reply was 334)

	// generator state
	txDone, txTarget, rcptTarget int
	probe                        string
	used                         map[string]bool // recipient texts used in the open transaction
	txSeq                        int
	lastSet                      string

	// TLS (added after seeded change C03-12, see tls.go)
	tlsConf bool     // the server is configured for STARTTLS
	link    *tlsLink // non-nil once the session has been upgraded
	tlsPlan int      // upgrade once this many transactions have ended (-1: no plan)

	events map[string]bool
	judged int
	failed bool
	over   bool // session has ended
	done   bool // finish() ran
}

func (s *sess) fail(key, what string) {
	s.failed = true
	tr := s.ss.Trace
	if len(tr) > 40 {
		tr = tr[len(tr)-40:]
	}
	s.c.Violation("C03:"+key, what, map[string]any{"backend": s.backend, "tls_configured": s.tlsConf, "inside_tls": s.link != nil, "max_rcpt": s.env.Conf.SMTP.MaxRecipients, "max_bytes": s.env.Conf.SMTP.MaxMessageBytes,
		"acked_in_open_tx": texts(s.acked), "trace_tail": tr})
}

func texts(as []gen.Addr) []string {
	var o []string
	for _, a := range as {
		o = append(o, a.Text)
	}
	return o
}

func (s *sess) state() string {
	switch {
	case s.auth:
		return "A"
	case !s.greeted && !s.txOpen:
		return "G"
	case !s.txOpen:
		return "R"
	case len(s.acked) == 0:
		return "T0"
	}
	return "T+"
}

func runSeq(c *fw.Ctx, idx int, r *fw.Rand) {
	conf := sut.DefaultConf()
	backend := []string{"mem", "file"}[(idx/16+idx)%2] // both back ends in every batch (8 or 16 children)
	conf.SMTP.MaxRecipients = []int{200, 200, 3}[r.Intn(3)]
	if r.Chance(1, 6) {
		conf.SMTP.MaxMessageBytes = 400 // some data blocks are refused after the dot
	}
	if backend == "file" {
		dir := c.TempDir("c03fs")
		defer os.RemoveAll(dir)
		conf.Storage.Type = "file"
		conf.Storage.Params = map[string]string{"path": dir}
	}
	// Added after seeded change C03-12: a third of the sessions run against a server configured for
	// STARTTLS, about half of those plan an upgrade at a transaction boundary.  Drawn from a stream
	// of its own so that the dialogue of every session without TLS is what it was before.
	rt := c.Rand("seq-tls", idx)
	tlsConf, tlsPlan := false, -1
	if rt.Chance(1, 3) && withTLS(c, conf) {
		tlsConf = true
		if rt.Bool() {
			tlsPlan = rt.Weighted([]int{5, 3, 2})
		}
	}
	env, err := sut.NewEnv(conf, backend)
	if err != nil {
		panic(err)
	}
	s := &sess{c: c, r: r, idx: idx, backend: backend, env: env, sm: newStoreModel(env), events: map[string]bool{},
		used: map[string]bool{}, tlsConf: tlsConf, tlsPlan: tlsPlan}
	if tlsConf {
		c.Count("seq_sessions_tls_configured", 1)
		backend += "+tls"
	}
	for len(s.pool) < 7 {
		a := gen.SimpleAddr(r, []string{"alpha.test", "beta.test", "Gamma.Example", "[192.168.1.5]"})
		a.Local = fmt.Sprintf("%s%c", a.Local, 'a'+len(s.pool)) // distinct mailboxes
		if a.Ext != "" || strings.Contains(a.Text, "+") {
			a.Text = a.Local + "+" + a.Ext + "@" + a.Domain
		} else {
			a.Text = a.Local + "@" + a.Domain
		}
		s.pool = append(s.pool, a)
	}
	s.txTarget = r.Range(1, 4)
	s.rcptTarget = r.Range(1, 4)
	c.Count("seq_sessions:"+s.backend, 1)
	s.ss = env.StartSMTP()
	defer func() {
		if !s.ss.Ended() {
			if !s.ss.Close() {
				c.Hang("smtp-session-end", "SMTP session did not end after the client closed", "")
			}
		}
	}()
	if _, ok := s.ss.Greeting(); !ok {
		s.fail("no-greeting", "no single well-formed 220 greeting")
		return
	}
	maxLines := r.Range(6, 45)
	for n := 0; n < maxLines && !s.over && !s.failed; n++ {
		if n > 1 && r.Chance(1, 60) {
			c.Count("idle_timeout_between_commands", 1)
			s.idleTimeout()
			break
		}
		l := s.next()
		if l.kind == "close" {
			break
		}
		s.play(l)
	}
	if !s.failed {
		s.finish()
	}
	if s.judged > 0 && !s.failed {
		var ev []string
		for e := range s.events {
			ev = append(ev, e)
		}
		sort.Strings(ev)
		c.NonTrivial(backend + "|" + strings.Join(ev, ","))
	}
	c.Sample(map[string]any{"part": "seq", "backend": backend, "trace_head": head(s.ss.Trace, 14)})
}

func head(t []sut.Exchange, n int) []sut.Exchange {
	if len(t) > n {
		return t[:n]
	}
	return t
}

// finish ends the session (if it has not ended) and checks that nothing was stored since the
// last completed transaction.
func (s *sess) finish() {
	if s.done {
		return
	}
	s.done = true
	if !s.over {
		s.over = true
		if s.txOpen {
			s.c.Count("closed_inside_transaction", 1)
		}
		if !s.ss.Close() {
			s.c.Hang("smtp-session-end", "SMTP session did not end after the client closed", "")
			return
		}
	}
	if !s.ss.Ended() && !s.ss.WaitEnd() {
		s.c.Hang("smtp-session-end", "SMTP session did not end after QUIT", "")
		return
	}
	s.c.Count("sessions_ended", 1)
	if key, what, _ := s.sm.check(nil, ""); key != "" {
		s.fail("after-session:"+key, "after the session ended without a completing transaction: "+what)
	}
	s.judged++
}

// idleTimeout makes the session's pending read fail with a deadline error (the configured idle
// timeout, without waiting for it) and then judges like any other unfinished ending: at most one
// reply, the session ends, and nothing is stored since the last completed transaction.
func (s *sess) idleTimeout() {
	if _, ok := s.ss.Q.WaitIdle(s.ss.Watchdog); !ok {
		s.c.Hang("smtp-no-quiescence", "session neither idle nor closed before the injected idle timeout", "")
		s.failed = true
		return
	}
	_, _ = s.take()
	s.ss.Q.FireReadTimeout()
	// Whether the session went on is read off the connection (closed, or blocked in Read again: a
	// logical fact), not off a watchdog period: a tree whose sessions survive the timeout used to
	// cost a full watchdog per case here (seeded changes C03-2/C03-3 ran into the child timeout).
	closed, ok := s.ss.Q.WaitIdle(s.ss.Watchdog)
	if !ok {
		s.c.Hang("smtp-no-quiescence", "session neither idle nor closed after the injected idle timeout", "")
		s.failed = true
		return
	}
	if !closed || !s.ss.WaitEnd() {
		// A server may also stay in its command loop after an idle timeout; then the client closes.
		s.c.Count("session_continues_after_idle_timeout", 1)
	}
	out, terr := s.take()
	reps, mal := sut.ParseSMTPReplies(out)
	if terr != nil && mal == "" {
		mal = "TLS stream from the server is broken: " + terr.Error()
	}
	if s.link != nil {
		s.c.Count("idle_timeouts_inside_tls", 1)
	}
	if mal != "" || len(reps) > 1 {
		s.fail("multiple-replies:idle-timeout", fmt.Sprintf("%d replies (malformed %q) after the read deadline expired: %v", len(reps), mal, replyStrings(reps)))
		return
	}
	s.finish()
}

// play sends one line, checks the reply count and shape, and advances the automaton.
func (s *sess) play(l line) {
	c := s.c
	st := s.state()
	replies, mal, closed, ok := s.step([]byte(l.text + "\r\n"))
	if !ok {
		c.Hang("smtp-no-quiescence", fmt.Sprintf("session neither idle nor closed after line kind %s", l.kind), "")
		s.failed = true
		return
	}
	c.Count("lines_sent", 1)
	c.Count("kind:"+l.kind, 1)
	if mal != "" {
		s.fail("malformed-reply:"+l.kind, fmt.Sprintf("after %s: %s", fw.Q(l.text), mal))
		return
	}
	if len(replies) > 1 {
		s.fail("multiple-replies:"+l.kind, fmt.Sprintf("%d replies to one line %s: %v", len(replies), fw.Q(l.text), replyStrings(replies)))
		return
	}
	if len(replies) == 0 {
		if closed && l.tolerant {
			// "no crash, no wedge": an over-long or binary line may end the session.
			c.Count("tolerant_line_ended_session", 1)
			s.over = true
			return
		}
		s.fail("no-reply:"+l.kind, fmt.Sprintf("no reply to %s (closed=%v)", fw.Q(l.text), closed))
		return
	}
	rep := replies[0]
	c.Count("replies_observed", 1)
	if s.link != nil {
		c.Count("replies_observed_inside_tls", 1)
		st = "tls:" + st
	} else if s.tlsConf {
		c.Count("replies_observed_tls_configured_clear", 1)
	}
	if len(rep.Lines) > 1 {
		c.Count("multi_line_replies", 1)
		if s.tlsConf {
			c.Count("multi_line_replies_tls_configured", 1)
		}
	}
	s.events[st+"|"+l.kind+"|"+fmt.Sprint(rep.Code)] = true
	verb := verbOf(l.text)

	if s.auth {
		// The line answered here was sent as a "credential".
		c.Count("credential_lines", 1)
		if verb != "" {
			c.Count("credential_lines_looking_like_commands", 1)
		}
		switch {
		case rep.Code == 334:
			s.closedCheck(closed, rep, l)
			return
		case rep.Code == 235 || rep.Class() == 5:
			s.auth = false
			s.closedCheck(closed, rep, l)
			return
		}
		s.auth = false // answered like a command: judge it like one
	}
	if l.kind == "STARTTLS" && rep.Code == 220 {
		s.startTLS(l, rep, closed)
		return
	}
	if rep.Code == 334 {
		s.auth = true
		c.Count("auth_subdialogues", 1)
		s.closedCheck(closed, rep, l)
		return
	}
	if rep.Code == 354 {
		if verb != "DATA" {
			s.fail("unexpected-354:"+l.kind, fmt.Sprintf("354 in reply to %s", fw.Q(l.text)))
			return
		}
		if !s.fuzzy && !s.txOpen {
			s.fail("data-outside-transaction", "DATA answered 354 with no MAIL acknowledged since the last transaction end")
			return
		}
		if !s.fuzzy && len(s.acked) == 0 {
			s.fail("data-without-recipient", "DATA answered 354 with no recipient acknowledged in the open transaction")
			return
		}
		s.judged++
		if closed {
			s.fail("closed-after-354", "session closed right after 354")
			return
		}
		s.dataPhase()
		return
	}
	ack := rep.Class() == 2
	switch verb {
	case "HELO", "EHLO":
		if ack {
			if verb == "EHLO" && s.tlsConf {
				// evidence only: what a server offers is not the property's business
				off := strings.Contains(strings.ToUpper(rep.String()), "STARTTLS")
				s.c.Count(fmt.Sprintf("ehlo_replies_tls_configured:inside_tls=%v:offers_starttls=%v", s.link != nil, off), 1)
			}
			if s.txOpen {
				if verb == "EHLO" {
					s.endTx("ehlo")
				} else {
					// The statement names "a repeated EHLO" only; what a HELO acknowledged inside a
					// transaction does to the envelope is not fixed, so nothing is judged until the
					// next transaction boundary.
					s.fuzzy = true
				}
			}
			s.greeted = true
		}
	case "MAIL":
		if ack {
			if !s.greeted {
				s.fail("mail-before-greeting", fmt.Sprintf("%s acknowledged (%s) although no HELO/EHLO was acknowledged on this connection", fw.Q(l.text), rep.String()))
				return
			}
			s.judged++
			if s.txOpen {
				s.endTx("nested-mail")
			}
			s.txOpen, s.fuzzy, s.acked = true, false, nil
			s.used = map[string]bool{}
			s.rcptTarget = s.r.Range(1, 4)
			c.Count("mail_acknowledged", 1)
		} else if !s.greeted {
			c.Count("mail_before_greeting_refused", 1)
		}
	case "RCPT":
		if ack {
			if !s.txOpen && !s.fuzzy {
				s.fail("rcpt-outside-transaction", fmt.Sprintf("%s acknowledged (%s) with no MAIL acknowledged since the last transaction end (state %s)", fw.Q(l.text), rep.String(), st))
				return
			}
			s.judged++
			if l.addr != nil {
				s.acked = append(s.acked, *l.addr)
			} else {
				s.fuzzy = true // acknowledged a recipient the harness cannot name
				c.Count("unnamed_recipient_acknowledged", 1)
			}
			c.Count("rcpt_acknowledged", 1)
		} else if !s.txOpen {
			c.Count("rcpt_outside_transaction_refused", 1)
		}
	case "DATA":
		if !s.txOpen || len(s.acked) == 0 {
			c.Count("data_without_recipient_refused", 1)
		}
	case "RSET":
		if ack {
			if !s.greeted {
				c.Count("rset_before_greeting", 1)
				if s.r.Chance(2, 3) {
					s.probe = "MAIL"
				}
			}
			s.endTx("rset")
		}
	case "QUIT":
		if rep.Code == 221 {
			if !closed {
				s.fail("session-continues-after-quit", "connection still open and session reading after 221")
				return
			}
			s.over = true
			c.Count("quit_221", 1)
			return
		}
	}
	s.closedCheck(closed, rep, l)
}

// closedCheck handles a server-side close that followed a reply to something other than QUIT.
func (s *sess) closedCheck(closed bool, rep sut.Reply, l line) {
	if closed && !s.over {
		s.over = true
		s.c.Count("server_closed_after:"+fmt.Sprint(rep.Code), 1)
	}
}

func replyStrings(rs []sut.Reply) []string {
	var o []string
	for _, r := range rs {
		o = append(o, fw.Trunc(r.String(), 120))
	}
	return o
}

// endTx is called at RSET 2xx, repeated EHLO 2xx, a nested MAIL 2xx: the envelope is discarded and
// nothing may have been stored for it.
func (s *sess) endTx(reason string) {
	was := s.txOpen || s.fuzzy
	if was {
		if key, what, _ := s.sm.check(nil, ""); key != "" {
			s.fail("discarded-transaction:"+key, fmt.Sprintf("transaction ended by %s (acknowledged recipients %v): %s", reason, texts(s.acked), what))
			return
		}
		s.judged++
		s.c.Count("transactions_discarded:"+reason, 1)
		s.txDone++
	}
	s.txOpen, s.fuzzy, s.acked = false, false, nil
	if was && s.probe == "" && s.r.Chance(2, 5) {
		s.probe = s.r.Pick([]string{"RCPT", "RCPT", "DATA"})
	}
}

// dataPhase transmits one data block after a 354 and judges the stored delta.
func (s *sess) dataPhase() {
	c, r := s.c, s.r
	s.txSeq++
	raw := genBody(r, fmt.Sprintf("%d-%d-%s", s.idx, s.txSeq, r.Letters(6, "0123456789abcdef")))
	block := sut.DotStuff(raw)
	if r.Chance(1, 10) {
		// Disconnect inside the data block: nothing may be stored.
		k := r.Intn(len(block))
		if r.Chance(1, 3) {
			k = len(block) - 1 - r.Intn(5) // just before the end of the terminator
		}
		s.send(block[:k])
		c.Count("closed_inside_data", 1)
		s.finish()
		return
	}
	if r.Chance(1, 12) {
		// The server's idle timeout expires inside the data block (injected logically): the
		// block was never completed, so nothing may be stored; at most one reply, session ends.
		k := r.Intn(len(block))
		s.send(block[:k])
		c.Count("idle_timeout_inside_data", 1)
		s.idleTimeout()
		return
	}
	// One to three chunks cut at arbitrary byte offsets; only the last may be answered.
	cuts := []int{}
	for n := r.Intn(3); n > 0; n-- {
		cuts = append(cuts, 1+r.Intn(len(block)-1))
	}
	sort.Ints(cuts)
	prev := 0
	for _, k := range cuts {
		if k == prev {
			continue
		}
		reps, mal, closed, ok := s.step(block[prev:k])
		if !ok {
			c.Hang("smtp-no-quiescence", "session neither idle nor closed inside a data block", "")
			s.failed = true
			return
		}
		if len(reps) > 0 || mal != "" || closed {
			s.fail("reply-inside-data", fmt.Sprintf("output before the end of the data block (replies %v, malformed %q, closed %v)", replyStrings(reps), mal, closed))
			return
		}
		prev = k
	}
	reps, mal, closed, ok := s.step(block[prev:])
	if !ok {
		c.Hang("smtp-no-quiescence", "session neither idle nor closed after the end of a data block", "")
		s.failed = true
		return
	}
	if mal != "" {
		s.fail("malformed-reply:end-of-data", mal)
		return
	}
	if len(reps) != 1 {
		s.fail(map[bool]string{true: "no-reply:end-of-data", false: "multiple-replies:end-of-data"}[len(reps) == 0],
			fmt.Sprintf("%d replies to a complete data block (closed=%v): %v", len(reps), closed, replyStrings(reps)))
		return
	}
	rep := reps[0]
	s.events["D|end-of-data|"+fmt.Sprint(rep.Code)] = true
	c.Count("data_blocks_completed", 1)
	if s.fuzzy {
		s.sm.resync()
		c.Count("transactions_not_judged", 1)
	} else {
		wants := map[string]*want{}
		if rep.Code == 250 {
			seen := map[string]bool{}
			for _, a := range s.acked {
				name := gen.ModelName("local", a.Local, a.Domain)
				w := wants[name]
				if w == nil {
					w = &want{}
					wants[name] = w
				}
				w.max++
				if !seen[a.Text] {
					seen[a.Text] = true
					w.min++
				}
			}
		}
		key, what, stored := s.sm.check(wants, string(raw))
		if key != "" {
			s.fail("completed-transaction:"+key, fmt.Sprintf("data block answered %s, recipients acknowledged since its MAIL %v: %s", rep.String(), texts(s.acked), what))
			return
		}
		s.judged++
		if rep.Code == 250 {
			c.Count("transactions_stored", 1)
			c.Count("messages_stored", int64(stored))
			if s.link != nil {
				c.Count("transactions_stored_inside_tls", 1)
			}
			set := strings.Join(texts(s.acked), ",")
			if s.lastSet != "" && s.lastSet != set {
				c.Count("consecutive_transactions_with_different_recipient_sets", 1)
			}
			s.lastSet = set
		} else {
			c.Count("data_blocks_refused", 1)
		}
	}
	s.txDone++
	s.txOpen, s.fuzzy, s.acked = false, false, nil
	if closed {
		s.over = true
		return
	}
	if r.Chance(2, 5) {
		s.probe = r.Pick([]string{"RCPT", "RCPT", "DATA"})
	}
}

// genBody builds a message: a small valid header block with a unique marker, then body lines that
// include dot lines and lines that look like commands.
func genBody(r *fw.Rand, uniq string) []byte {
	var b strings.Builder
	b.WriteString("From: hdr.from@hdr.test\r\n")
	if r.Bool() {
		b.WriteString("Subject: case " + uniq + "\r\n")
	}
	b.WriteString("X-Case: " + uniq + "\r\n\r\n")
	for n := r.Range(0, 8); n > 0; n-- {
		switch r.Intn(12) {
		case 0:
			b.WriteString(".")
		case 1:
			b.WriteString(".." + r.Letters(3, "abc."))
		case 2:
			b.WriteString(r.Pick([]string{"QUIT", "RSET", "DATA", "MAIL FROM:<x@sender.test>", "RCPT TO:<intruder@alpha.test>", "EHLO again", "NOOP"}))
		case 3:
			b.WriteString(strings.Repeat("long ", 400+r.Intn(200)))
		case 4:
			if r.Chance(1, 8) {
				b.WriteString(strings.Repeat("L", 100*1024))
			}
		default:
			b.WriteString(r.Letters(r.Range(0, 70), "abcdefghijklmnopqrstuvwxyz .,"))
		}
		b.WriteString("\r\n")
	}
	b.WriteString("end " + uniq + "\r\n")
	return []byte(b.String())
}

// ---------------------------------------------------------------------------------------------
// line generator
// ---------------------------------------------------------------------------------------------

func caseVerb(r *fw.Rand, s string) string {
	if r.Chance(1, 3) {
		// flip case of the verb (and of FROM:/TO:) only, never of the address
		i := strings.IndexAny(s, "<")
		if i < 0 {
			if j := strings.IndexByte(s, ' '); j >= 0 {
				i = j
			} else {
				i = len(s)
			}
		}
		return gen.RandCase(r, s[:i]) + s[i:]
	}
	return s
}

func (s *sess) pickRcpt() gen.Addr {
	r := s.r
	for try := 0; try < 8; try++ {
		a := s.pool[r.Intn(len(s.pool))]
		if !s.used[a.Text] || r.Chance(1, 12) {
			return a
		}
	}
	return s.pool[r.Intn(len(s.pool))]
}

func (s *sess) lineRcpt() line {
	a := s.pickRcpt()
	s.used[a.Text] = true
	form := s.r.Weighted([]int{8, 1, 1})
	t := ""
	switch form {
	case 0:
		t = "RCPT TO:<" + a.Text + ">"
	case 1:
		t = "RCPT TO: <" + a.Text + ">"
	case 2:
		t = "RCPT TO:<" + a.Text + "> "
	}
	return line{text: caseVerb(s.r, t), kind: "RCPT", addr: &a}
}

func (s *sess) lineMail() line {
	r := s.r
	snd := "sender" + r.Letters(2, "abcxyz") + "@" + r.Pick([]string{"sender.test", "origin.example"})
	t := "MAIL FROM:<" + snd + ">"
	switch r.Intn(8) {
	case 0:
		t += " SIZE=1000"
	case 1:
		t += " BODY=8BITMIME"
	case 2:
		t = "MAIL FROM:<>"
	}
	return line{text: caseVerb(r, t), kind: "MAIL"}
}

func (s *sess) lineHello() line {
	if s.r.Chance(7, 10) {
		return line{text: caseVerb(s.r, "EHLO client.test"), kind: "EHLO"}
	}
	return line{text: caseVerb(s.r, "HELO client.test"), kind: "HELO"}
}

func noNL(b []byte) []byte {
	for i, c := range b {
		if c == '\n' || c == '\r' {
			b[i] = '?'
		}
	}
	return b
}

func (s *sess) lineLong(n int, kind string) line {
	r := s.r
	fill := strings.Repeat(r.Letters(1, "AaZz09x"), n)
	var t string
	switch r.Intn(6) {
	case 0:
		t = "NOOP " + fill
	case 1:
		t = "MAIL FROM:<" + fill + "@sender.test>"
	case 2:
		a := s.pickRcpt()
		t = "RCPT TO:<" + fill + a.Text + ">"
	case 3:
		t = "EHLO " + fill
	case 4:
		t = strings.Repeat(" ", n)
	default:
		t = fill
	}
	return line{text: t, kind: kind, tolerant: true}
}

func (s *sess) lineBinary() line {
	r := s.r
	g := string(noNL(r.Bytes(r.Range(1, 200))))
	switch r.Intn(6) {
	case 0:
		return line{text: "MAIL FROM:<" + g + ">", kind: "binary", tolerant: true}
	case 1:
		return line{text: "RCPT TO:<" + g + ">", kind: "binary", tolerant: true}
	case 2:
		return line{text: "EHLO " + g, kind: "binary", tolerant: true}
	case 3:
		return line{text: g[:1] + "\x00\x00" + g, kind: "binary", tolerant: true}
	}
	return line{text: g, kind: "binary", tolerant: true}
}

func (s *sess) credential() line {
	r := s.r
	switch r.Intn(14) {
	case 0:
		return line{text: "", kind: "cred-empty"}
	case 1:
		return line{text: "*", kind: "cred-cancel"}
	case 2:
		return line{text: "QUIT", kind: "cred-QUIT"}
	case 3:
		return line{text: "RSET", kind: "cred-RSET"}
	case 4:
		return line{text: "MAIL FROM:<cred@sender.test>", kind: "cred-MAIL"}
	case 5:
		a := s.pickRcpt()
		return line{text: "RCPT TO:<" + a.Text + ">", kind: "cred-RCPT", addr: &a}
	case 6:
		return line{text: "DATA", kind: "cred-DATA"}
	case 7:
		return line{text: ".", kind: "cred-dot"}
	case 8:
		return line{text: "EHLO cred.test", kind: "cred-EHLO"}
	case 9:
		l := s.lineBinary()
		l.kind = "cred-binary"
		return l
	case 10:
		return line{text: strings.Repeat("Q", 10240), kind: "cred-10k", tolerant: true}
	case 11:
		return line{text: "AUTH LOGIN", kind: "cred-AUTH"}
	}
	return line{text: r.Pick([]string{"dXNlcg==", "cGFzc3dvcmQ=", "AHVzZXIAcGFzcw==", "not base64 !!"}), kind: "cred-b64"}
}

// next chooses the next line from the weighted grammar, biased towards making progress so that
// deep states (several transactions per connection) are reached.
func (s *sess) next() line {
	r := s.r
	if s.auth {
		return s.credential()
	}
	if s.tlsPlan >= 0 && s.link == nil && s.greeted && !s.txOpen && s.txDone >= s.tlsPlan {
		// the planned upgrade (no draw from r: see runSeq)
		s.tlsPlan = -1
		s.probe = ""
		return line{text: "STARTTLS", kind: "STARTTLS"}
	}
	if p := s.probe; p != "" {
		s.probe = ""
		switch p {
		case "RCPT":
			return s.lineRcpt()
		case "DATA":
			return line{text: "DATA", kind: "DATA"}
		case "MAIL":
			return s.lineMail()
		}
	}
	if r.Chance(62, 100) {
		switch {
		case !s.greeted:
			return s.lineHello()
		case !s.txOpen:
			if s.txDone >= s.txTarget && r.Chance(1, 2) {
				return line{text: caseVerb(r, "QUIT"), kind: "QUIT"}
			}
			return s.lineMail()
		case len(s.acked) < s.rcptTarget:
			return s.lineRcpt()
		default:
			return line{text: caseVerb(r, "DATA"), kind: "DATA"}
		}
	}
	switch r.Weighted([]int{6, 8, 10, 5, 12, 5, 8, 2, 10, 7, 6, 3, 3, 1, 5, 3, 5, 3, 2, 2}) {
	case 0:
		return line{text: caseVerb(r, "HELO again.test"), kind: "HELO"}
	case 1:
		return line{text: caseVerb(r, "EHLO again.test"), kind: "EHLO"}
	case 2:
		return s.lineMail()
	case 3:
		t := r.Pick([]string{"MAIL", "MAIL FROM:", "MAIL FROM:sender@sender.test", "MAIL TO:<x@sender.test>",
			"MAIL FROM:<a@sender.test> SIZE=99999999999", "MAIL FROM:<a@sender.test> SIZE=20000000", "MAIL FROM:<a@sender.test> BOGUS",
			"MAIL FROM:<not an address>", "MAIL  FROM:<a@sender.test>", "MAILFROM:<a@sender.test>"})
		if r.Chance(1, 4) {
			t = "MAIL FROM:" + r.Letters(r.Range(0, 7), "<><>::@ .\"\\,ab=")
		}
		return line{text: caseVerb(r, t), kind: "MAIL-odd"}
	case 4:
		return s.lineRcpt()
	case 5:
		a := s.pickRcpt()
		t := r.Pick([]string{"RCPT", "RCPT TO:", "RCPT TO:<>", "RCPT FROM:<" + a.Text + ">", "RCPT TO:<no-at-sign>",
			"RCPT TO:<" + a.Text + "> NOTIFY=NEVER", "RCPT <" + a.Text + ">", "RCPT TO:<two..dots@alpha.test>", "RCPT TO:<+ext@alpha.test>",
			"RCPTTO:<" + a.Text + ">"})
		if r.Chance(1, 3) {
			// Bracket soup: every arrangement of the characters the argument parsers look for.
			t = "RCPT TO:" + r.Letters(r.Range(0, 7), "<><>::@ .\"\\,ab")
		}
		return line{text: caseVerb(r, t), kind: "RCPT-odd"}
	case 6:
		return line{text: caseVerb(r, "DATA"), kind: "DATA"}
	case 7:
		return line{text: caseVerb(r, r.Pick([]string{"DATA now", "DATA  ", "DATA 1 2"})), kind: "DATA-odd"}
	case 8:
		return line{text: caseVerb(r, r.Pick([]string{"RSET", "RSET", "RSET", "RSET now"})), kind: "RSET"}
	case 9:
		t := r.Pick([]string{"NOOP", "NOOP", "NOOP", "NOOP abc", "VRFY user", "HELP", "EXPN list", "TURN", "SEND FROM:<a@b.test>", "SOML", "SAML x"})
		return line{text: caseVerb(r, t), kind: strings.ToUpper(t[:4])}
	case 10:
		t := r.Pick([]string{"FOOBAR", "XCLIENT NAME=x", "LHLO x", "BDAT 10 LAST", "GET / HTTP/1.1", "abc", "ab cd", "EHLO\tx", "MAIL\tFROM:<a@b.test>",
			"12345", "QUITE", "RSETT", "DATAX", "Q", "=?", "HELOclient", ".", "..", "250 ok", "354 go"})
		return line{text: t, kind: "unknown"}
	case 11:
		return line{text: r.Pick([]string{"", "", " ", "   ", "\t"}), kind: "empty"}
	case 12:
		return s.lineLong(10240, "long-10k")
	case 13:
		if s.c.Quick() && !r.Chance(1, 4) {
			return s.lineLong(10240, "long-10k")
		}
		return s.lineLong(1<<20, "long-1m")
	case 14:
		return s.lineBinary()
	case 15:
		t := r.Pick([]string{"AUTH PLAIN dGVzdAB0ZXN0AHRlc3Q=", "AUTH PLAIN", "AUTH PLAIN a b", "AUTH CRAM-MD5", "AUTH", "AUTH  PLAIN x"})
		return line{text: caseVerb(r, t), kind: "AUTH-PLAIN"}
	case 16:
		t := r.Pick([]string{"AUTH LOGIN", "AUTH LOGIN", "AUTH LOGIN dXNlcg=="})
		return line{text: caseVerb(r, t), kind: "AUTH-LOGIN"}
	case 17:
		return line{text: caseVerb(r, "STARTTLS"), kind: "STARTTLS"}
	case 18:
		return line{text: caseVerb(r, "QUIT"), kind: "QUIT"}
	}
	return line{kind: "close"}
}
