package c03

import (
	"fmt"
	"sort"
	"strings"

	"verifharness/internal/sut"
)

// storeModel is the store as the harness last saw it plus every mailbox name it ever expected.
// After each transaction end the real store is snapshotted completely and compared with
// (previous snapshot + the delta the observed replies entitle the transaction to).
type storeModel struct {
	env   *sut.Env
	snap  map[string][]sut.MsgSnap
	known map[string]bool
}

func newStoreModel(env *sut.Env) *storeModel {
	return &storeModel{env: env, snap: map[string][]sut.MsgSnap{}, known: map[string]bool{}}
}

// want is the number of new messages a mailbox is owed (range because of byte-identical
// duplicate recipients, see C01 "Not demanded").
type want struct{ min, max int }

// normEOL applies the CRLF/LF normalisation the properties allow.
func normEOL(s string) string { return strings.ReplaceAll(s, "\r\n", "\n") }

// check snapshots the store and compares it with the model plus wants.  Every new message must
// end (under EOL normalisation) with body.  On agreement the model is advanced.  stored is the
// number of new messages found where they were owed.
func (m *storeModel) check(wants map[string]*want, body string) (key, what string, stored int) {
	for n := range wants {
		m.known[n] = true
	}
	var extra []string
	for n := range m.known {
		extra = append(extra, n)
	}
	sort.Strings(extra)
	snap, err := sut.Snapshot(m.env.Store, extra, true)
	if err != nil {
		return "store-unreadable", err.Error(), 0
	}
	names := map[string]bool{}
	for n := range snap {
		names[n] = true
	}
	for n := range m.snap {
		names[n] = true
	}
	for n := range wants {
		names[n] = true
	}
	var sorted []string
	for n := range names {
		sorted = append(sorted, n)
	}
	sort.Strings(sorted)
	for _, n := range sorted {
		old, cur := m.snap[n], snap[n]
		if len(cur) < len(old) {
			return "message-lost", fmt.Sprintf("mailbox %q had %d messages, now %d", n, len(old), len(cur)), 0
		}
		for i := range old {
			if !sameMsg(old[i], cur[i]) {
				return "existing-message-changed", fmt.Sprintf("mailbox %q message %d changed: %v -> %v", n, i, brief(old[i]), brief(cur[i])), 0
			}
		}
		added := cur[len(old):]
		w := wants[n]
		if w == nil {
			if len(added) > 0 {
				return "unowed-message", fmt.Sprintf("mailbox %q gained %d message(s) not owed to it; first: %v", n, len(added), brief(added[0])), 0
			}
			continue
		}
		if len(added) < w.min {
			return "owed-message-missing", fmt.Sprintf("mailbox %q gained %d message(s), owed %d..%d", n, len(added), w.min, w.max), 0
		}
		if len(added) > w.max {
			return "too-many-copies", fmt.Sprintf("mailbox %q gained %d message(s), owed %d..%d", n, len(added), w.min, w.max), 0
		}
		for _, a := range added {
			if a.SrcErr != "" {
				return "source-unreadable", fmt.Sprintf("mailbox %q new message %s: %s", n, a.ID, a.SrcErr), 0
			}
			if !strings.HasSuffix(normEOL(a.Source), normEOL(body)) {
				return "wrong-content", fmt.Sprintf("mailbox %q new message %s does not end with the data of its own transaction: %v", n, a.ID, brief(a)), 0
			}
		}
		stored += len(added)
	}
	m.snap = snap
	return "", "", stored
}

// resync adopts the store's present contents without judging them.
func (m *storeModel) resync() {
	var extra []string
	for n := range m.known {
		extra = append(extra, n)
	}
	sort.Strings(extra)
	if snap, err := sut.Snapshot(m.env.Store, extra, true); err == nil {
		m.snap = snap
	}
}

func brief(m sut.MsgSnap) string {
	src := m.Source
	if len(src) > 160 {
		src = src[:80] + "..." + src[len(src)-80:]
	}
	return fmt.Sprintf("{id=%s from=%s to=%v subject=%q size=%d source=%q}", m.ID, m.From, m.To, m.Subject, m.Size, src)
}

func sameMsg(a, b sut.MsgSnap) bool {
	return a.ID == b.ID && a.From == b.From && strings.Join(a.To, ",") == strings.Join(b.To, ",") &&
		a.Subject == b.Subject && a.Size == b.Size && a.Seen == b.Seen && a.Source == b.Source && a.Date.Equal(b.Date)
}
