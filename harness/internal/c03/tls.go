package c03

import (
	"crypto/ecdsa"
	"crypto/elliptic"
	"crypto/rand"
	"crypto/tls"
	"crypto/x509"
	"crypto/x509/pkix"
	"encoding/pem"
	"errors"
	"fmt"
	"io"
	"math/big"
	"net"
	"os"
	"path/filepath"
	"sync"
	"time"

	"github.com/inbucket/inbucket/v3/pkg/config"

	"verifharness/internal/fw"
	"verifharness/internal/sut"
)

// Added after seeded change C03-12.  "Every command line receives exactly one well-formed reply"
// holds for every configuration of the server, and which lines a reply consists of depends on the
// configuration: with TLSEnabled and a loadable key pair the EHLO reply carries one line more
// (STARTTLS), STARTTLS is answered 220 instead of 454, the session then continues on a different
// net.Conn (tls.Server around the accepted one) with a fresh line reader and in the GREET state.
// No stream had ever configured TLS, so all of that code was outside the check.  A third of the seq
// sessions (and some wear and burst servers) now run with TLS configured; in seq about half of
// those perform the upgrade at a drawn point (and every STARTTLS line of the grammar that is
// answered 220 is followed by the handshake, as the protocol requires of a client) and the rest of
// the dialogue - same grammar, same automaton, same store oracle, same reply framing - is played
// inside TLS.
//
// The TLS client is the real crypto/tls over the same in-memory QConn the clear-text part uses, so
// the logical quiescent point ("session goroutine blocked in Read with no input left") keeps
// deciding when a reply is complete: the records the server wrote until then are handed to
// tls.Client, whose plaintext is parsed with the same strict sut.ParseSMTPReplies (zero or more
// 'ddd-' lines, then exactly one 'ddd ' line with the same code, nothing else).  Certificate and
// handshake use crypto/rand; nothing a verdict depends on is derived from it.

var (
	certOnce sync.Once
	certFile string
	keyFile  string
	certErr  error
)

// ensureCert writes one throw-away self-signed key pair per child process.
func ensureCert(dir string) error {
	certOnce.Do(func() {
		key, err := ecdsa.GenerateKey(elliptic.P256(), rand.Reader)
		if err != nil {
			certErr = err
			return
		}
		tmpl := &x509.Certificate{SerialNumber: big.NewInt(1), Subject: pkix.Name{CommonName: "inbucket.test"},
			NotBefore: time.Now().Add(-time.Hour), NotAfter: time.Now().Add(240 * time.Hour),
			KeyUsage: x509.KeyUsageDigitalSignature, ExtKeyUsage: []x509.ExtKeyUsage{x509.ExtKeyUsageServerAuth},
			DNSNames: []string{"inbucket.test"}}
		der, err := x509.CreateCertificate(rand.Reader, tmpl, tmpl, &key.PublicKey, key)
		if err != nil {
			certErr = err
			return
		}
		kb, err := x509.MarshalECPrivateKey(key)
		if err != nil {
			certErr = err
			return
		}
		certFile = filepath.Join(dir, "c03-cert.pem")
		keyFile = filepath.Join(dir, "c03-key.pem")
		if err := os.WriteFile(certFile, pem.EncodeToMemory(&pem.Block{Type: "CERTIFICATE", Bytes: der}), 0o600); err != nil {
			certErr = err
			return
		}
		certErr = os.WriteFile(keyFile, pem.EncodeToMemory(&pem.Block{Type: "EC PRIVATE KEY", Bytes: kb}), 0o600)
	})
	return certErr
}

// withTLS configures STARTTLS (TLSEnabled, loadable key pair, ForceTLS off).  false: the key pair
// could not be created (the machine's business; the caller goes on without TLS).
func withTLS(c *fw.Ctx, conf *config.Root) bool {
	if err := ensureCert(c.Scratch); err != nil {
		c.Count("tls_key_pair_unavailable", 1)
		return false
	}
	conf.SMTP.TLSEnabled = true
	conf.SMTP.ForceTLS = false
	conf.SMTP.TLSCert = certFile
	conf.SMTP.TLSPrivKey = keyFile
	return true
}

// drained is what qClient.Read reports when everything the server wrote up to the quiescent point
// has been consumed.  crypto/tls passes a Temporary net.Error through without poisoning the
// connection, so the next step can go on reading.
type drained struct{}

func (drained) Error() string   { return "server output consumed up to the quiescent point" }
func (drained) Timeout() bool   { return true }
func (drained) Temporary() bool { return true }

var errWatchdog = errors.New("watchdog: session neither idle nor closed during the TLS handshake")

// qClient is the client end of a QConn as a net.Conn, for tls.Client.  Writes queue input for the
// session.  Reads consume server output: while handshaking they wait for the session's next
// quiescent point (the server's flight is complete then); afterwards they never block - the caller
// waits for quiescence itself and feeds what the server wrote.
type qClient struct {
	q           *sut.QConn
	buf         []byte
	handshaking bool
	wd          time.Duration
}

func (a *qClient) Read(p []byte) (int, error) {
	if len(a.buf) == 0 {
		if !a.handshaking {
			return 0, drained{}
		}
		closed, ok := a.q.WaitIdle(a.wd)
		a.buf = a.q.Take()
		if len(a.buf) == 0 {
			switch {
			case !ok:
				return 0, errWatchdog
			case closed:
				return 0, io.EOF
			}
			return 0, errors.New("session waits for input without having sent its part of the handshake")
		}
	}
	n := copy(p, a.buf)
	a.buf = a.buf[n:]
	return n, nil
}

func (a *qClient) Write(p []byte) (int, error) {
	a.q.Send(append([]byte(nil), p...))
	return len(p), nil
}

func (a *qClient) Close() error                       { return nil }
func (a *qClient) LocalAddr() net.Addr                { return &net.TCPAddr{IP: net.IPv4(127, 0, 0, 1), Port: 40000} }
func (a *qClient) RemoteAddr() net.Addr               { return &net.TCPAddr{IP: net.IPv4(127, 0, 0, 1), Port: 25} }
func (a *qClient) SetDeadline(t time.Time) error      { return nil }
func (a *qClient) SetReadDeadline(t time.Time) error  { return nil }
func (a *qClient) SetWriteDeadline(t time.Time) error { return nil }

// tlsLink is the client side of an upgraded session.
type tlsLink struct {
	ad *qClient
	tc *tls.Conn
}

// upgrade performs the client's TLS handshake on a session that has just answered STARTTLS with 220.
func upgrade(q *sut.QConn, wd time.Duration) (*tlsLink, error) {
	ad := &qClient{q: q, handshaking: true, wd: wd}
	tc := tls.Client(ad, &tls.Config{InsecureSkipVerify: true, ServerName: "inbucket.test"})
	err := tc.Handshake()
	ad.handshaking = false
	if err != nil {
		return nil, err
	}
	return &tlsLink{ad: ad, tc: tc}, nil
}

// plain decrypts what the server wrote up to a quiescent point.  eof: the server ended the TLS
// stream (close_notify, or the transport closed at a record boundary).
func (t *tlsLink) plain(raw []byte) (out []byte, eof bool, err error) {
	t.ad.buf = append(t.ad.buf, raw...)
	tmp := make([]byte, 32*1024)
	for {
		n, e := t.tc.Read(tmp)
		out = append(out, tmp[:n]...)
		if e == nil {
			continue
		}
		var d drained
		switch {
		case errors.As(e, &d):
			return out, false, nil
		case errors.Is(e, io.EOF):
			return out, true, nil
		}
		return out, false, e
	}
}

// ---- transport of a seq session: clear text until upgraded, TLS afterwards ----

// send transmits bytes without waiting.
func (s *sess) send(b []byte) {
	if s.link == nil {
		s.ss.Q.Send(b)
		return
	}
	_, _ = s.link.tc.Write(b) // qClient.Write cannot fail
}

// take returns the plaintext of everything the session wrote so far.
func (s *sess) take() ([]byte, error) {
	raw := s.ss.Q.Take()
	if s.link == nil {
		return raw, nil
	}
	out, _, err := s.link.plain(raw)
	return out, err
}

// step is SMTPSession.Step for either transport: send, wait for the quiescent point, parse
// everything the session wrote meanwhile as a sequence of complete replies.
func (s *sess) step(b []byte) (replies []sut.Reply, mal string, closed bool, ok bool) {
	if s.link == nil {
		return s.ss.Step(b)
	}
	if len(b) > 0 {
		s.send(b)
	}
	closed, ok = s.ss.Q.WaitIdle(s.ss.Watchdog)
	out, err := s.take()
	replies, mal = sut.ParseSMTPReplies(out)
	if err != nil && mal == "" {
		mal = "TLS stream from the server is broken: " + err.Error()
	}
	ex := sut.Exchange{Sent: "[tls] " + fw.Trunc(string(b), 300), Malformed: mal, Closed: closed}
	for _, r := range replies {
		ex.Replies = append(ex.Replies, fw.Trunc(r.String(), 200))
	}
	if len(s.ss.Trace) < 400 {
		s.ss.Trace = append(s.ss.Trace, ex)
	}
	s.c.Count("tls_steps", 1)
	return
}

// startTLS is called when a STARTTLS line was answered with exactly one 220 reply: the client has
// to start the handshake now (anything else it sent would be read as a TLS record).  Afterwards the
// server must be silent until the next command, and the session starts over: RFC 3207 has the
// server discard what it learned before the handshake, the statement's "MAIL only after a
// greeting" is then about a greeting inside TLS.  An envelope open at this point (no tree known to
// the harness accepts STARTTLS there) is not named by the statement: not judged.
func (s *sess) startTLS(l line, rep sut.Reply, closed bool) {
	c := s.c
	if closed {
		s.fail("closed-after-starttls-220", "session closed right after answering STARTTLS with "+rep.String())
		return
	}
	if s.link != nil || !s.tlsConf {
		// 220 inside TLS or without a key pair: nothing the harness can follow up with.
		c.Count("starttls_220_not_followed", 1)
		s.finish()
		return
	}
	link, err := upgrade(s.ss.Q, s.ss.Watchdog)
	if err != nil {
		if errors.Is(err, errWatchdog) {
			c.Hang("smtp-no-quiescence", "session neither idle nor closed during the TLS handshake after STARTTLS", "")
			s.failed = true
			return
		}
		s.fail("starttls-handshake", fmt.Sprintf("%s answered %s, then the TLS handshake failed: %v", fw.Q(l.text), rep.String(), err))
		return
	}
	s.link = link
	c.Count("starttls_upgrades", 1)
	if s.txDone > 0 {
		c.Count("starttls_upgrades_after_a_transaction", 1)
	}
	s.events["tls"] = true
	// Nothing unsolicited: whatever the server wrote after the handshake (session tickets) must
	// not contain application data before the next command.
	reps, mal, closed, ok := s.step(nil)
	if !ok {
		c.Hang("smtp-no-quiescence", "session neither idle nor closed after the TLS handshake", "")
		s.failed = true
		return
	}
	if len(reps) > 0 || mal != "" || closed {
		s.fail("unsolicited-output:after-starttls", fmt.Sprintf("after the TLS handshake and before any command: replies %v, malformed %q, closed %v", replyStrings(reps), mal, closed))
		return
	}
	if s.txOpen {
		s.fuzzy = true
	}
	s.greeted = false
	s.judged++
}
