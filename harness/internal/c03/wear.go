package c03

import (
	"fmt"
	"os"
	"time"

	"verifharness/internal/fw"
	"verifharness/internal/sut"
)

// Stream "wear" (added after seeded change C03-8): "no input wedges the server" is a statement
// about the server, not about one session.  The other streams give every session a server of its
// own, so nothing that accumulates across connections can show.  Here one server object takes
// 20-70 connections that are lost at assorted points of the dialogue (client gone or idle timeout
// fired: before the greeting is answered, after MAIL, after RCPT, after the 354, in the middle of
// the data, after the final dot) and then one more connection with a plain transaction: every line
// of it must be answered and its message stored, exactly as on a fresh server.

var wearPoints = []string{"greeted", "helo", "mail", "rcpt", "data-354", "mid-data", "mid-data", "mid-data", "dot-sent", "mid-line"}

func runWear(c *fw.Ctx, idx int, r *fw.Rand) {
	backend := []string{"mem", "file"}[idx%2]
	conf := sut.DefaultConf()
	if backend == "file" {
		dir := c.TempDir("c03wear")
		defer os.RemoveAll(dir)
		conf.Storage.Type = "file"
		conf.Storage.Params = map[string]string{"path": dir}
	}
	// Added after seeded change C03-12: every third server is configured for STARTTLS (the replies
	// then differ, the framing rule does not).  No draw from r.
	if (idx/2)%3 == 1 && withTLS(c, conf) {
		c.Count("wear_servers_tls_configured", 1)
	}
	env, err := sut.NewEnv(conf, backend)
	if err != nil {
		panic(err)
	}
	wd := 20 * time.Second * time.Duration(c.Slow)
	n := r.Range(20, 70)
	byTimeout := 0
	lost := map[string]int{}
	desc := fmt.Sprintf("wear/%s/%d lost connections", backend, n)
	for i := 0; i < n; i++ {
		point := wearPoints[r.Intn(len(wearPoints))]
		ss := env.StartSMTP()
		ss.Watchdog = wd
		steps := []string{}
		switch point {
		case "helo":
			steps = []string{"EHLO wear.test"}
		case "mail":
			steps = []string{"EHLO wear.test", "MAIL FROM:<w@origin.test>"}
		case "rcpt":
			steps = []string{"EHLO wear.test", "MAIL FROM:<w@origin.test>", "RCPT TO:<lost@inbucket.test>"}
		case "data-354", "mid-data", "dot-sent":
			steps = []string{"EHLO wear.test", "MAIL FROM:<w@origin.test>", "RCPT TO:<lost@inbucket.test>", "DATA"}
		case "mid-line":
			steps = []string{"EHLO wear.test"}
		}
		okSess := true
		if _, err := ss.Greet(); err != nil {
			okSess = false
		}
		for _, st := range steps {
			if !okSess {
				break
			}
			if _, err := ss.Cmd(st); err != nil {
				okSess = false
			}
		}
		if !okSess {
			// a wedge inside the wear phase shows as a watchdog here
			if !ss.Close() {
				c.Hang("smtp-wear-session", fmt.Sprintf("%s: connection %d (to be lost at %s) got no answer and did not end", desc, i+1, point), "")
				return
			}
			c.Inconclusive(fmt.Sprintf("%s: connection %d could not be brought to %s", desc, i+1, point))
			return
		}
		switch point {
		case "mid-data":
			ss.Q.Send([]byte("Subject: lost\r\n\r\nnever finished" + r.Letters(r.Range(0, 200), "abc \r\n")))
			if _, ok := ss.Q.WaitIdle(wd); !ok {
				c.Hang("smtp-wear-session", desc+": session not idle inside a data block", "")
				return
			}
		case "dot-sent":
			ss.Q.Send([]byte("Subject: maybe\r\n\r\nsent completely\r\n.\r\n"))
		case "mid-line":
			ss.Q.Send([]byte("MAIL FROM:<half"))
			if _, ok := ss.Q.WaitIdle(wd); !ok {
				c.Hang("smtp-wear-session", desc+": session not idle inside a command line", "")
				return
			}
		}
		lost[point]++
		if point != "dot-sent" && r.Chance(1, 3) {
			// An expired read deadline inside a line hands bufio's ReadLine the partial line
			// without the error, the server answers it and starts another idle period: the
			// timeout is fired again until the session has gone (at most a few times).
			byTimeout++
			gone := false
			for k := 0; k < 4 && !gone; k++ {
				ss.Q.FireReadTimeout()
				closed, ok := ss.Q.WaitIdle(wd)
				if !ok {
					break
				}
				gone = closed
			}
			if !gone || !ss.WaitEnd() {
				c.Hang("smtp-wear-session", fmt.Sprintf("%s: connection %d did not end after its idle timeout fired (repeatedly) at %s", desc, i+1, point), "")
				return
			}
		} else if !ss.Close() {
			c.Hang("smtp-wear-session", fmt.Sprintf("%s: connection %d did not end after the client went away at %s", desc, i+1, point), "")
			return
		}
	}
	// The connection that matters.
	ss := env.StartSMTP()
	ss.Watchdog = wd
	subj := fmt.Sprintf("after-wear-%d", idx)
	type step struct {
		line string
		code int
	}
	if _, err := ss.Greet(); err != nil {
		if sut.IsWatchdog(err) {
			c.Hang("smtp-after-wear", desc+": the next connection gets no greeting", "")
		} else {
			c.Violation("C03:wear:dialogue", desc+": the next connection: "+err.Error(), map[string]any{"lost_at": lost})
		}
		return
	}
	for _, st := range []step{{"EHLO after.test", 250}, {"MAIL FROM:<a@origin.test>", 250}, {"RCPT TO:<kept@inbucket.test>", 250}, {"DATA", 354},
		{"Subject: " + subj + "\r\n\r\nstill working\r\n.", 250}, {"QUIT", 221}} {
		rep, err := ss.Cmd(st.line)
		if err != nil {
			if sut.IsWatchdog(err) {
				c.Hang("smtp-after-wear", fmt.Sprintf("%s: the next connection gets no answer to %q (the server takes no more work)", desc, fw.Trunc(st.line, 30)), "")
			} else {
				c.Violation("C03:wear:dialogue", fmt.Sprintf("%s: the next connection, %q: %v", desc, fw.Trunc(st.line, 30), err), map[string]any{"lost_at": lost, "trace": ss.Trace})
			}
			return
		}
		if rep.Code != st.code {
			c.Violation("C03:wear:refused", fmt.Sprintf("%s: the next connection's %q is answered %s; a fresh server answers %d", desc, fw.Trunc(st.line, 30), rep.String(), st.code),
				map[string]any{"lost_at": lost, "trace": ss.Trace})
			return
		}
	}
	_ = ss.WaitEnd()
	ms, err := env.Store.GetMessages("kept")
	if err != nil || len(ms) != 1 || ms[0].Subject() != subj {
		c.Violation("C03:wear:not-stored", fmt.Sprintf("%s: the acknowledged message of the next connection is not what mailbox 'kept' holds (%d messages, %v)", desc, len(ms), err),
			map[string]any{"lost_at": lost})
		return
	}
	// and nothing partial from the lost ones: 'lost' holds only complete "maybe" messages
	ls, _ := env.Store.GetMessages("lost")
	for _, m := range ls {
		if m.Subject() != "maybe" {
			c.Violation("C03:wear:partial-message", fmt.Sprintf("%s: mailbox 'lost' holds a message with subject %q; only completely transmitted messages may be there", desc, m.Subject()),
				map[string]any{"lost_at": lost})
			return
		}
	}
	if len(ls) > lost["dot-sent"] {
		c.Violation("C03:wear:partial-message", fmt.Sprintf("%s: mailbox 'lost' holds %d messages, only %d were transmitted completely", desc, len(ls), lost["dot-sent"]), map[string]any{"lost_at": lost})
		return
	}
	c.Count("wear_servers", 1)
	c.Count("wear_connections_lost", int64(n))
	c.Count("wear_connections_lost_by_idle_timeout", int64(byTimeout))
	c.Count("wear_connections_lost_inside_data", int64(lost["mid-data"]+lost["data-354"]))
	c.NonTrivial(fmt.Sprintf("wear|%s|%d|%d", backend, n/10, lost["mid-data"]/4))
}
