// Package c04 will hold the check for property C04.
package c04
