// Package c04 decides C04: mailbox naming is canonical.  Part one evaluates the exported naming
// functions (Addressing.NewRecipient / ExtractMailbox, StoreManager.MailboxForAddress) in the three
// naming modes over grammar-generated and mutated addresses and checks metamorphic relations
// (non-empty, fixed point, case independence, +extension independence) plus the M-naming model
// for addresses built from parts.  Part two delivers one message over a real SMTP session and
// fetches it through the real REST and web UI routes, the Go client and the per-mailbox WebSocket
// monitors by address, by derived name and by a case-flipped address; some cases offer the server
// recipients the harness' own policy object would refuse (see e2e.go, monitor.go).
package c04

import (
	"fmt"
	"strings"

	"github.com/inbucket/inbucket/v3/pkg/config"
	"github.com/inbucket/inbucket/v3/pkg/message"
	"github.com/inbucket/inbucket/v3/pkg/policy"

	"verifharness/internal/fw"
	"verifharness/internal/gen"
	"verifharness/internal/sut"
)

const keyEdgePeriod = "C04:name-edge-period"

func init() {
	fw.Register(&fw.Prop{
		ID:    "C04",
		Level: "exploration",
		Rule: "direct: addresses from a grammar (atoms with every unquoted special, '+' at start/middle/end/repeated/anywhere, dots, " +
			"quoted strings with quoted pairs and characters needing quotes, quoted-pair atoms, period edge shapes, source routes, host names " +
			"in random case, trailing dot, IPv4/IPv6 literals with random tag and hex case, invalid domains) plus 1-3 byte-level mutations of " +
			"accepted addresses; each address is evaluated in local, full and domain naming; only addresses NewRecipient accepts take part. " +
			"Relations: name non-empty; name(name)=name; name(case-flipped)=name; name(+ext inserted into an unquoted local part)=name; " +
			"name = M-naming for addresses built from parts. A direct case is non-trivial when accepted in >=1 mode; distinct by (shape class, " +
			"modes accepted, relations exercised, name edge kind). e2e: one accepted address per case (mode = index mod 3) delivered over a real " +
			"SMTP session, then GET /api/v1/mailbox/{x} and GET /serve/mailbox/{x}/{id} for x in {address, derived name, case-flipped address}; " +
			"distinct by (mode, shape class, lookups made). Every e2e case also opens the per-mailbox WebSocket monitors (v1 and v2 by address, one of them " +
			"by name and by case-flipped address) before the deliveries: each must relay both stored messages with the delivery-time mailbox name, decided at " +
			"the first sentinel event it relays (sentinels are emitted after the deliveries for the spellings a monitor might watch by mistake and, last, for " +
			"the delivery-time name). Every other e2e case first offers RCPT TO a string the harness' policy object refuses (no domain, empty domain, empty " +
			"local part, route + bare local part, unfiltered mutants, over-long local part, odd domains): refused is counted, accepted makes that string the " +
			"address of the case with all read-side checks.",
		Assumptions: []string{
			"name(x) means Addressing.ExtractMailbox(x) = StoreManager.MailboxForAddress(x); the three exported entry points are also required to agree with each other",
			"the +extension relation is applied only where the local part is an unquoted atom (no '\"' or '\\' anywhere in the address) and only when the extended address is itself accepted (length limits)",
			"M-naming is applied to addresses built from parts; for quoted or escaped local parts only when the unescaped text has no '+' and no doubled backslash",
			"URL path segments are escaped with url.PathEscape; any lookup key containing '/' is skipped and counted (router semantics, finding C14:name-contains-slash)",
			"equivalence of a host name with and without trailing dot, or of different spellings of one IP address, is not demanded",
			"POP3 USER takes the mailbox name verbatim by design; it is exercised and counted, never judged",
			"monitors: a stored event reaches the hub through the extension host's asynchronous broker in emit order (its documented contract), the hub replays its history (30) to a new listener before later events and relays in dispatch order; so the first sentinel a monitor relays proves that every earlier event of the mailbox it watches was relayed, whenever its listener joined. Relaying a sentinel of another spelling is not judged by itself; duplicates, deletions and foreign events are not judged; a monitor that relays no sentinel at all is left to the watchdog (hang:monitor-silent)",
			"a string the server's RCPT TO accepts (250) is an address of the property even when policy.NewRecipient called by the harness refuses it; for such a string the case-flipped spelling takes part only if the server accepts it too",
			"failures whose derived name has a local component starting/ending with '.' or containing '..' are reported under the single key " + keyEdgePeriod,
		},
		MinObs: func(tier string) map[string]int64 {
			m := map[string]int64{
				"accepted:local": 100000, "accepted:full": 100000, "accepted:domain": 100000,
				"fixedpoint_checks": 300000, "caseflip_checks": 300000, "plusext_checks": 150000, "model_checks": 200000,
				"mutated_accepted": 50000, "route_accepted": 30000, "ipv6_accepted": 50000, "quoted_accepted": 100000,
				"plus_in_local_accepted": 150000, "edge_period_names": 10000,
				"e2e_delivered": 10000, "e2e_get:webui-attach": 10000, "e2e_change:rest-purge": 4000, "e2e_lookup_by_address": 4000, "e2e_lookup_by_name": 4000, "e2e_lookup_by_flipped": 4000,
				"e2e_mode:local": 1500, "e2e_mode:full": 1500, "e2e_mode:domain": 1500,
				"e2e_ws_monitor:v1": 8000, "e2e_ws_monitor:v2": 8000, "e2e_ws_monitor_by_address": 8000, "e2e_ws_monitor_by_name": 3500,
				"e2e_ws_monitor_by_flipped": 3500, "e2e_ws_told": 30000, "e2e_rcpt_offered": 2000,
				"distinct_nontrivial": 1000,
			}
			return m
		},
		Run: run,
	})
}

var modes = []string{"local", "full", "domain"}

func modeConst(m string) config.Root {
	c := config.Root{}
	switch m {
	case "local":
		c.MailboxNaming = config.LocalNaming
	case "full":
		c.MailboxNaming = config.FullNaming
	case "domain":
		c.MailboxNaming = config.DomainNaming
	}
	return c
}

type namer struct {
	mode string
	pol  *policy.Addressing
	mgr  *message.StoreManager
}

func newNamers() []*namer {
	var out []*namer
	for _, m := range modes {
		conf := sut.DefaultConf()
		conf.MailboxNaming = modeConst(m).MailboxNaming
		pol := &policy.Addressing{Config: conf}
		out = append(out, &namer{mode: m, pol: pol, mgr: &message.StoreManager{AddrPolicy: pol}})
	}
	return out
}

func run(c *fw.Ctx) {
	namers := newNamers()
	c.Cases("direct", c.N(600000, 20000000), func(i int, r *fw.Rand) {
		direct(c, namers, r)
	})
	c.Cases("e2e", c.N(6000, 100000), func(i int, r *fw.Rand) {
		endToEnd(c, namers, i, r)
	})
}

// name applies both lookup entry points; they must agree.
func (n *namer) name(c *fw.Ctx, x string) (string, error, bool) {
	a, errA := n.pol.ExtractMailbox(x)
	b, errB := n.mgr.MailboxForAddress(x)
	if (errA == nil) != (errB == nil) || a != b {
		c.Violation("C04:api-disagree:"+n.mode, fmt.Sprintf("mode %s: ExtractMailbox(%q)=(%q,%v) but MailboxForAddress=(%q,%v)", n.mode, x, a, errA, b, errB), nil)
		return "", nil, false
	}
	return a, errA, true
}

func direct(c *fw.Ctx, namers []*namer, r *fw.Rand) {
	a := genAddr(r)
	mutated := false
	if r.Chance(1, 3) {
		// mutate only addresses that are accepted somewhere, so most mutants stay near the grammar
		if _, err := namers[1].pol.NewRecipient(a.Text); err == nil {
			a.Text = mutate(r, a.Text)
			a.Built, mutated = false, true
			a.Class = "mut:" + a.Class
			a.Plain = plainLocalEnd(a.Text) >= 0
		}
	}
	flipped := flipCase(r, a.Text)
	ext := genExt(r)
	var sig []string
	for _, n := range namers {
		detail := map[string]any{"mode": n.mode, "address": a.Text, "class": a.Class}
		rc, err := n.pol.NewRecipient(a.Text)
		if err != nil {
			c.Count("rejected:"+n.mode, 1)
			continue
		}
		name := rc.Mailbox
		c.Count("accepted:"+n.mode, 1)
		feat := n.mode
		if mutated {
			c.Count("mutated_accepted", 1)
		}
		if a.Route != "" && !mutated {
			c.Count("route_accepted", 1)
		}
		if strings.Contains(strings.ToLower(a.Domain), "[ipv6:") && !mutated {
			c.Count("ipv6_accepted", 1)
		}
		if !a.Plain && !mutated {
			c.Count("quoted_accepted", 1)
		}
		if strings.Contains(a.Unesc, "+") && !mutated {
			c.Count("plus_in_local_accepted", 1)
		}
		// the three entry points agree
		n2, err2, ok := n.name(c, a.Text)
		if !ok {
			continue
		}
		if err2 != nil || n2 != name {
			c.Violation("C04:api-disagree:"+n.mode, fmt.Sprintf("mode %s: NewRecipient(%q).Mailbox=%q but ExtractMailbox=(%q,%v)", n.mode, a.Text, name, n2, err2), detail)
			continue
		}
		// non-empty
		if name == "" {
			c.Violation("C04:empty-name:"+n.mode, fmt.Sprintf("mode %s: accepted address %q has the empty mailbox name", n.mode, a.Text), detail)
			continue
		}
		edge, kind := edgePeriod(n.mode, name)
		if edge {
			c.Count("edge_period_names", 1)
			feat += "/edge-" + kind
		}
		// fixed point
		c.Count("fixedpoint_checks", 1)
		nn, errN, ok := n.name(c, name)
		if !ok {
			continue
		}
		switch {
		case errN != nil && edge:
			c.Count("edge_period_fail:"+n.mode+":"+kind+":"+shapeOf(a), 1)
			c.Violation(keyEdgePeriod, fmt.Sprintf("mode %s: %q is accepted and named %q, but looking that name up fails: %v", n.mode, a.Text, name, errN), detail)
		case errN != nil:
			c.Violation("C04:name-not-lookupable:"+n.mode, fmt.Sprintf("mode %s: %q is accepted and named %q, but looking that name up fails: %v", n.mode, a.Text, name, errN), detail)
		case nn != name:
			c.Violation("C04:name-not-fixed-point:"+n.mode, fmt.Sprintf("mode %s: name(%q)=%q but name(%q)=%q", n.mode, a.Text, name, name, nn), detail)
		case edge:
			c.Count("edge_period_ok:"+n.mode+":"+kind, 1)
		}
		// case independence
		if flipped != a.Text {
			if rf, err := n.pol.NewRecipient(flipped); err == nil {
				c.Count("caseflip_checks", 1)
				feat += "/flip"
				if rf.Mailbox != name {
					c.Violation("C04:name-depends-on-case:"+n.mode, fmt.Sprintf("mode %s: name(%q)=%q but name(%q)=%q", n.mode, a.Text, name, flipped, rf.Mailbox), detail)
				}
			} else {
				c.Count("caseflip_rejected", 1)
			}
		}
		// +extension independence (unquoted local parts only)
		if a.Plain {
			if at := plainLocalEnd(a.Text); at >= 0 {
				ax := a.Text[:at] + "+" + ext + a.Text[at:]
				if rx, err := n.pol.NewRecipient(ax); err == nil {
					c.Count("plusext_checks", 1)
					feat += "/ext"
					if rx.Mailbox != name {
						c.Violation("C04:name-depends-on-extension:"+n.mode, fmt.Sprintf("mode %s: name(%q)=%q but name(%q)=%q", n.mode, a.Text, name, ax, rx.Mailbox), detail)
					}
				} else {
					c.Count("plusext_rejected", 1)
				}
			}
		}
		// M-naming
		if a.Built && (a.Plain || !strings.Contains(a.Unesc, "+")) {
			base := a.Unesc
			if p := strings.IndexByte(base, '+'); p >= 0 {
				base = base[:p]
			}
			want := gen.ModelName(n.mode, base, a.Domain)
			c.Count("model_checks", 1)
			feat += "/model"
			if name != want {
				c.Violation("C04:name-differs-from-model:"+n.mode, fmt.Sprintf("mode %s: name(%q)=%q, documented naming gives %q", n.mode, a.Text, name, want), detail)
			}
		}
		sig = append(sig, feat)
	}
	if len(sig) > 0 {
		c.NonTrivial("direct|" + a.Class + "|" + strings.Join(sig, ","))
		if mutated {
			c.Count("class:mutated", 1)
		} else {
			c.Count("class:"+classHead(a.Class), 1)
		}
		if r.Chance(1, 4000) {
			c.Sample(map[string]any{"address": a.Text, "class": a.Class, "checked": sig})
		}
	}
}

// shapeOf is used only to tally which written shapes lead to an edge-period name.
func shapeOf(a addr) string {
	switch {
	case strings.ContainsAny(a.Text, "\"") && strings.Contains(a.Text, "\\"):
		return "quoted+escaped"
	case strings.ContainsAny(a.Text, "\""):
		return "quoted"
	case strings.Contains(a.Text, "\\"):
		return "escaped"
	}
	return "unquoted"
}

func classHead(cls string) string {
	cls = strings.TrimPrefix(cls, "route:")
	if i := strings.IndexByte(cls, '@'); i >= 0 {
		cls = cls[:i]
	}
	return cls
}
