package c04

import (
	"bytes"
	"encoding/json"
	"fmt"
	"io"
	"net/http"
	"net/url"
	"strings"
	"sync"
	"time"

	"github.com/inbucket/inbucket/v3/pkg/rest/client"

	"verifharness/internal/fw"
	"verifharness/internal/sut"
)

type listEntry struct {
	Mailbox string `json:"mailbox"`
	ID      string `json:"id"`
}

func httpDo(cl *http.Client, method, u string, body []byte) (int, []byte, error) {
	var rd io.Reader
	if body != nil {
		rd = bytes.NewReader(body)
	}
	req, err := http.NewRequest(method, u, rd)
	if err != nil {
		return 0, nil, err
	}
	req.Header.Set("Accept", "application/json")
	if body != nil {
		req.Header.Set("Content-Type", "application/json")
	}
	resp, err := cl.Do(req)
	if err != nil {
		return 0, nil, err
	}
	defer resp.Body.Close()
	b, err := io.ReadAll(io.LimitReader(resp.Body, 1<<20))
	return resp.StatusCode, b, err
}

func mimeMessage(subject, token string) string {
	return "From: sender@origin.test\r\nTo: someone@dest.test\r\nSubject: " + subject + "\r\nMIME-Version: 1.0\r\n" +
		"Content-Type: multipart/mixed; boundary=\"b0und\"\r\n\r\n" +
		"--b0und\r\nContent-Type: text/plain\r\n\r\nplain " + token + "\r\n" +
		"--b0und\r\nContent-Type: text/html\r\n\r\n<p>html " + token + "</p>\r\n" +
		"--b0und\r\nContent-Type: text/plain; name=\"note.txt\"\r\nContent-Disposition: attachment; filename=\"note.txt\"\r\n\r\nattached " + token + "\r\n" +
		"--b0und--\r\n"
}

// endpoint is one read route that takes the mailbox name from the URL.
type endpoint struct {
	name string
	path func(x, id string) string
	// check returns "" when the response reaches the delivered message in mailbox `mailbox`.
	check func(body []byte, mailbox, id, token string) string
}

func jsonOne(body []byte, mailbox, id, _ string) string {
	var one listEntry
	if err := json.Unmarshal(body, &one); err != nil {
		return "undecodable JSON: " + err.Error()
	}
	if one.ID != id || one.Mailbox != mailbox {
		return fmt.Sprintf("response reports mailbox %q id %q, delivered to %q id %q", one.Mailbox, one.ID, mailbox, id)
	}
	return ""
}

func hasToken(prefix string) func(body []byte, mailbox, id, token string) string {
	return func(body []byte, _, _, token string) string {
		if !bytes.Contains(body, []byte(prefix+token)) {
			return fmt.Sprintf("body does not contain %q: %s", prefix+token, fw.Q(string(body)))
		}
		return ""
	}
}

var endpoints = []endpoint{
	{"rest-list", func(x, id string) string { return "/api/v1/mailbox/" + x },
		func(body []byte, mailbox, id, _ string) string {
			var list []listEntry
			if err := json.Unmarshal(body, &list); err != nil {
				return "undecodable JSON: " + err.Error()
			}
			for _, e := range list {
				if e.ID == id {
					if e.Mailbox != mailbox {
						return fmt.Sprintf("entry reports mailbox %q, delivered to %q", e.Mailbox, mailbox)
					}
					return ""
				}
			}
			return fmt.Sprintf("message %s not in the list of %d", id, len(list))
		}},
	{"rest-show", func(x, id string) string { return "/api/v1/mailbox/" + x + "/" + id }, jsonOne},
	{"rest-source", func(x, id string) string { return "/api/v1/mailbox/" + x + "/" + id + "/source" }, hasToken("plain ")},
	{"webui-message", func(x, id string) string { return "/serve/mailbox/" + x + "/" + id }, jsonOne},
	{"webui-html", func(x, id string) string { return "/serve/mailbox/" + x + "/" + id + "/html" }, hasToken("html ")},
	{"webui-source", func(x, id string) string { return "/serve/mailbox/" + x + "/" + id + "/source" }, hasToken("plain ")},
	{"webui-attach", func(x, id string) string { return "/serve/mailbox/" + x + "/" + id + "/attach/0/note.txt" }, hasToken("attached ")},
}

func endToEnd(c *fw.Ctx, namers []*namer, idx int, r *fw.Rand) {
	n := namers[idx%len(namers)]
	// pick an accepted address that can be written on an SMTP command line
	var a addr
	found := false
	for try := 0; try < 200 && !found; try++ {
		a = genAddr(r)
		if r.Chance(1, 5) {
			a.Text = mutate(r, a.Text)
			a.Built = false
			a.Class = "mut:" + a.Class
			a.Plain = plainLocalEnd(a.Text) >= 0
		}
		if !writable(a.Text) {
			continue // the RCPT argument syntax would strip it; not an address RCPT sees as written
		}
		if _, err := n.pol.NewRecipient(a.Text); err == nil {
			found = true
		}
	}
	if !found {
		c.Count("e2e_no_address", 1)
		return
	}
	// Added after seeded change C04-8: the statement is about every string "a RCPT TO accepts",
	// and that is decided by the server, not by the harness' policy object.  Every other case
	// first offers the server a string the policy object refuses (no domain, empty domain, ...).
	// Refused (501/550): counted, the case goes on with the address picked above.  Accepted (250):
	// that string is the address of this case and the full set of read-side checks applies to it.
	offered, offeredClass := "", ""
	if r.Chance(1, 2) {
		for try := 0; try < 50 && offered == ""; try++ {
			s, cls := genOffered(r)
			if s == "" || !writable(s) {
				continue
			}
			if _, err := n.pol.NewRecipient(s); err != nil {
				offered, offeredClass = s, cls
			}
		}
	}
	conf := sut.DefaultConf()
	conf.MailboxNaming = n.pol.Config.MailboxNaming
	// Half of the cases run a POP3 server whose own domain is the recipient's domain (in any letter
	// case), the situation of a real installation (added after seeded change C04-10).
	if at := strings.LastIndexByte(a.Text, '@'); at >= 0 && idx%2 == 1 {
		if d := a.Text[at+1:]; d != "" && strings.Trim(d, "abcdefghijklmnopqrstuvwxyzABCDEFGHIJKLMNOPQRSTUVWXYZ0123456789.-") == "" {
			conf.POP3.Domain = flipCase(r, d)
			c.Count("e2e_pop3_domain_is_recipient_domain", 1)
		}
	}
	var env *sut.WebEnv
	var err error
	ok, dump := c.Within(60*time.Second, func() { env, err = sut.NewWebEnv(conf, "mem") })
	if !ok {
		c.Hang("webenv-start", "NewWebEnv did not return", dump)
		return
	}
	if err != nil {
		panic(err)
	}
	defer env.Close()

	ss := env.StartSMTP()
	defer func() {
		if !ss.Ended() && !ss.Close() {
			c.Hang("smtp-session-end", "SMTP session did not end after the client closed", "")
		}
	}()
	if _, ok := ss.Greeting(); !ok {
		c.Inconclusive("no SMTP greeting")
		return
	}
	// say sends one command; want == 0 accepts any reply code.
	say := func(line string, want int) (int, bool) {
		rep, err := ss.Cmd(line)
		if err != nil {
			c.Inconclusive("SMTP dialogue: " + err.Error())
			return 0, false
		}
		if want != 0 && rep.Code != want {
			c.Inconclusive(fmt.Sprintf("SMTP step %q answered %s", fw.Trunc(line, 40), rep.String()))
			return rep.Code, false
		}
		return rep.Code, true
	}
	if _, ok := say("EHLO client.test", 250); !ok {
		return
	}
	flipped := flipCase(r, a.Text)
	flippedAccepted := false
	serverOnly := false // the address of this case is accepted by the server but refused by the policy object
	if offered != "" {
		// probe transaction: is the offered string (and a case-flipped spelling of it) accepted?
		if _, ok := say("MAIL FROM:<sender@origin.test>", 250); !ok {
			return
		}
		code, ok := say("RCPT TO:<"+offered+">", 0)
		if !ok {
			return
		}
		c.Count("e2e_rcpt_offered", 1)
		c.Count("e2e_rcpt_offered:"+classHead(offeredClass), 1)
		if code == 250 {
			c.Count("e2e_rcpt_offered_accepted", 1)
			serverOnly = true
			a = addr{Text: offered, Class: "offered:" + offeredClass, Plain: plainLocalEnd(offered) >= 0}
			flipped = flipCase(r, a.Text)
			if flipped != a.Text && writable(flipped) {
				code, ok := say("RCPT TO:<"+flipped+">", 0)
				if !ok {
					return
				}
				flippedAccepted = code == 250
			}
		} else {
			c.Count(fmt.Sprintf("e2e_rcpt_offered_refused:%d", code), 1)
			offeredClass = "refused"
		}
		if _, ok := say("RSET", 250); !ok {
			return
		}
	}
	if !serverOnly && flipped != a.Text {
		_, err := env.Policy.NewRecipient(flipped)
		flippedAccepted = err == nil
	}
	detail := map[string]any{"mode": n.mode, "address": a.Text, "class": a.Class}
	name, errName := env.Policy.ExtractMailbox(a.Text)
	if errName != nil || name == "" {
		key := "C04:empty-name:" + n.mode
		if serverOnly {
			key = "C04:rcpt-accepted-not-nameable:" + n.mode
		}
		c.Violation(key, fmt.Sprintf("mode %s: address %q is accepted by RCPT TO but the read side has no name for it: %q %v", n.mode, a.Text, name, errName), detail)
		return
	}

	// lookup keys
	cl := env.Server.Client()
	cl.CheckRedirect = func(*http.Request, []*http.Request) error { return http.ErrUseLastResponse }
	edge, kind := edgePeriod(n.mode, name)
	type key struct{ how, x string }
	all := []key{{"address", a.Text}, {"name", name}}
	if flippedAccepted {
		all = append(all, key{"flipped", flipped})
	}
	var keys []key
	for _, k := range all {
		if strings.Contains(k.x, "/") {
			c.Count("e2e_skipped_slash", 1)
			continue
		}
		keys = append(keys, k)
	}
	fkey := func(k key, iface string) string {
		if k.how == "name" && edge {
			return keyEdgePeriod
		}
		return "C04:" + iface + "-by-" + k.how + ":" + n.mode
	}
	sig := "e2e|" + n.mode + "|" + a.Class
	if serverOnly {
		sig = "e2e|" + n.mode + "|offered:" + classHead(offeredClass)
	} else if offeredClass == "refused" {
		sig += "|offered-refused"
	}

	// Per-mailbox WebSocket monitors, opened before the deliveries (see monitor.go).
	var monitors []*monitor
	defer func() {
		for _, m := range monitors {
			_ = m.conn.Close() // ends the reader goroutine and the server's handler
		}
	}()
	// by address: both API versions; by name and by the flipped address: one version each, drawn
	// from the case's random stream.  The upgrades run side by side (their latency, not their work,
	// is what costs wall time).
	type plan struct {
		k      key
		v      int
		m      *monitor
		status int
		err    error
	}
	var plans []*plan
	for _, k := range keys {
		if k.how == "address" {
			plans = append(plans, &plan{k: k, v: 1}, &plan{k: k, v: 2})
		} else {
			plans = append(plans, &plan{k: k, v: 1 + r.Intn(2)})
		}
	}
	ok, dump = c.Within(120*time.Second, func() {
		var wg sync.WaitGroup
		for _, p := range plans {
			wg.Add(1)
			go func(p *plan) {
				defer wg.Done()
				p.m, p.status, p.err = dialMonitor(env, p.v, p.k.how, p.k.x)
			}(p)
		}
		wg.Wait()
	})
	if !ok {
		c.Hang("monitor-dial", fmt.Sprintf("mode %s: opening the mailbox monitors for %q did not finish", n.mode, a.Text), dump)
		return // the abandoned goroutines own the plans
	}
	var dialErr error
	for _, p := range plans {
		switch {
		case p.err == nil:
			monitors = append(monitors, p.m)
		case p.status != 0:
			c.Count("e2e_ws_refused", 1)
			c.Violation(fkey(p.k, fmt.Sprintf("ws-v%d", p.v)), fmt.Sprintf("mode %s: the v%d monitor of the mailbox of %q (mailbox %q) asked [by %s %q] is refused: HTTP %d",
				n.mode, p.v, a.Text, name, p.k.how, p.k.x, p.status), detail)
		default:
			dialErr = p.err
		}
	}
	if dialErr != nil {
		c.Inconclusive("WebSocket dial: " + dialErr.Error())
		return
	}

	// deliver two messages to the address
	token := r.Letters(12, lower+digits)
	for k := 0; k < 2; k++ {
		if _, ok := say("MAIL FROM:<sender@origin.test>", 250); !ok {
			return
		}
		code, ok := say("RCPT TO:<"+a.Text+">", 0)
		if !ok {
			return
		}
		if code != 250 {
			// RCPT refused although NewRecipient accepts: not an address "RCPT TO accepts"
			c.Count("e2e_rcpt_refused", 1)
			return
		}
		if _, ok := say("DATA", 354); !ok {
			return
		}
		if _, ok := say(strings.TrimSuffix(string(sut.DotStuff([]byte(mimeMessage(fmt.Sprintf("c04 %s #%d", token, k), token)))), "\r\n"), 250); !ok {
			return
		}
	}
	tr := ss.Trace
	if len(tr) > 9 {
		tr = tr[:9]
	}
	detail["trace"] = tr
	snap, err := sut.Snapshot(env.Store, []string{name}, false)
	if err != nil {
		c.Violation("C04:store-unreadable", err.Error(), detail)
		return
	}
	if sut.SnapCount(snap) != 2 || len(snap) != 1 {
		c.Inconclusive(fmt.Sprintf("store holds %d messages in %d mailboxes after two deliveries to one address (C01 territory)", sut.SnapCount(snap), len(snap)))
		return
	}
	var msgs []sut.MsgSnap
	for _, l := range snap {
		msgs = l
	}
	c.Count("e2e_delivered", 2)
	c.Count("e2e_mode:"+n.mode, 1)
	if msgs[0].Mailbox != name || len(snap[name]) != 2 {
		c.Violation("C04:stored-under-other-name:"+n.mode, fmt.Sprintf("mode %s: mail to %q is named %q by the read side but was stored in mailbox %q", n.mode, a.Text, name, msgs[0].Mailbox), detail)
		return
	}

	// every monitor must have been told of both stored messages
	if len(monitors) > 0 {
		// mailboxes a monitor might watch by mistake: the name the read side derives from the key
		// (the delivery-time name on a correct server), the key as written, lower-cased,
		// URL-escaped, and the name another naming mode derives from it
		var cands []string
		for _, k := range keys {
			if on, err := env.Manager.MailboxForAddress(k.x); err == nil {
				cands = append(cands, on)
			}
		}
		for _, k := range keys {
			cands = append(cands, k.x, strings.ToLower(k.x), url.PathEscape(k.x))
			for _, o := range namers {
				if on, err := o.pol.ExtractMailbox(k.x); err == nil && o != n {
					cands = append(cands, on)
				}
			}
		}
		targets := sentinelTargets(name, cands)
		ok, dump := c.Within(30*time.Second, func() {
			// The stored events travel store -> extension host -> hub asynchronously, one at a
			// time per listener in emit order: sentinels emitted on the same broker now (after the
			// 250 replies) reach the hub after both of them.
			for k, mb := range targets {
				ev := sentinelMeta(mb, k)
				env.ExtHost.Events.AfterMessageStored.Emit(&ev)
			}
			for _, m := range monitors {
				<-m.done
			}
		})
		if !ok {
			var silent []string
			for _, m := range monitors {
				select {
				case <-m.done:
				default:
					m.mu.Lock()
					silent = append(silent, fmt.Sprintf("v%d by %s %q (%d events read)", m.v, m.how, m.x, len(m.got)))
					m.mu.Unlock()
				}
			}
			c.Hang("monitor-silent:"+n.mode, fmt.Sprintf("mode %s: two messages were stored in mailbox %q for %q and sentinels dispatched, but these mailbox monitors relayed no sentinel: %s",
				n.mode, name, a.Text, strings.Join(silent, "; ")), dump)
			return
		}
		ids := []string{msgs[0].ID, msgs[1].ID}
		for _, m := range monitors {
			k := key{m.how, m.x}
			why, decided := m.judge(name, ids, targets)
			if !decided {
				c.Count("e2e_ws_undecided", 1)
				c.Inconclusive(fmt.Sprintf("mode %s: v%d monitor [by %s %q]: %s", n.mode, m.v, m.how, m.x, why))
				continue
			}
			c.Count(fmt.Sprintf("e2e_ws_monitor:v%d", m.v), 1)
			c.Count("e2e_ws_monitor_by_"+m.how, 1)
			if why != "" {
				c.Violation(fkey(k, fmt.Sprintf("ws-v%d", m.v)), fmt.Sprintf("mode %s: mail to %q is stored in mailbox %q, but the v%d monitor asked [by %s %q] does not watch it: %s",
					n.mode, a.Text, name, m.v, m.how, m.x, fw.Trunc(why, 300)), detail)
				continue
			}
			c.Count("e2e_ws_told", int64(len(ids)))
		}
		sig += fmt.Sprintf("|ws%d", len(monitors))
		for _, m := range monitors {
			_ = m.conn.Close()
		}
	}

	// POP3 is a read interface as well.  Its USER argument is taken as the mailbox name as it is
	// (no address parsing), so it is asked by the name only: the name must be a fixed point there
	// too - logging in with the mailbox's own name reaches the two messages.  Names with white space
	// cannot be written on a POP3 command line.
	if !strings.ContainsAny(name, " \t") {
		ps := env.StartPOP3()
		why := ""
		if _, ok := ps.Greeting(); !ok {
			why = "no greeting"
		} else if rep, err := ps.Cmd("USER " + name); err != nil || !rep.OK {
			why = fmt.Sprintf("USER answered %v %v", rep, err)
		} else if rep, err := ps.Cmd("PASS x"); err != nil || !rep.OK {
			why = fmt.Sprintf("PASS answered %v %v", rep, err)
		} else if rep, err := ps.Cmd("STAT"); err != nil || !rep.OK {
			why = fmt.Sprintf("STAT answered %v %v", rep, err)
		} else if f := strings.Fields(rep.First); len(f) < 2 || f[1] != "2" {
			why = fmt.Sprintf("STAT reports %q, the mailbox holds 2 messages", rep.First)
		}
		if why == "" {
			_, _ = ps.Cmd("QUIT")
			c.Count("e2e_pop3_by_name", 1)
		} else if !strings.HasPrefix(why, "no greeting") {
			key := "C04:pop3-by-name:" + n.mode
			if e, _ := edgePeriod(n.mode, name); e {
				key = keyEdgePeriod
			}
			c.Violation(key, fmt.Sprintf("mode %s: mail to %q is stored in mailbox %q, but a POP3 login with that name does not reach it (POP3 domain %q): %s",
				n.mode, a.Text, name, conf.POP3.Domain, why), detail)
		}
		if !ps.Ended() {
			ps.Close()
		}
	}

	// read routes: every key must reach both messages' mailbox; message 0 is fetched
	for _, k := range keys {
		if k.how == "name" && edge {
			c.Count("e2e_edge_period:"+kind, 1)
		}
		ex := url.PathEscape(k.x)
		for _, ep := range endpoints {
			p := ep.path(ex, url.PathEscape(msgs[0].ID))
			code, body, err := httpDo(cl, "GET", env.Base+p, nil)
			if err != nil {
				c.Inconclusive("HTTP client error: " + err.Error())
				return
			}
			why := ""
			if code != 200 {
				why = fmt.Sprintf("HTTP %d %s", code, fw.Trunc(strings.TrimSpace(string(body)), 160))
			} else {
				why = ep.check(body, name, msgs[0].ID, token)
			}
			if why != "" {
				c.Violation(fkey(k, ep.name), fmt.Sprintf("mode %s: mail to %q (mailbox %q) is not reached by GET %s [by %s]: %s",
					n.mode, a.Text, name, p, k.how, why), detail)
			}
			c.Count("e2e_get:"+ep.name, 1)
		}
		c.Count("e2e_lookup_by_"+k.how, 1)
		sig += "|" + k.how
	}
	// the Go client is a read interface too: it takes the address or name as the user wrote it
	gc, err := client.New(env.Base, client.WithTransport(cl.Transport))
	if err != nil {
		panic(err)
	}
	for _, k := range keys {
		why := ""
		hs, err := gc.ListMailbox(k.x)
		if err != nil {
			why = "ListMailbox: " + err.Error()
		} else {
			why = fmt.Sprintf("ListMailbox: message %s not among %d headers", msgs[0].ID, len(hs))
			for _, h := range hs {
				if h.ID == msgs[0].ID {
					why = ""
					if h.Mailbox != name {
						why = fmt.Sprintf("ListMailbox: header reports mailbox %q", h.Mailbox)
					}
				}
			}
		}
		if why == "" {
			if m, err := gc.GetMessage(k.x, msgs[0].ID); err != nil {
				why = "GetMessage: " + err.Error()
			} else if m.ID != msgs[0].ID || m.Mailbox != name {
				why = fmt.Sprintf("GetMessage: reports mailbox %q id %q", m.Mailbox, m.ID)
			}
		}
		if why == "" {
			if src, err := gc.GetMessageSource(k.x, msgs[0].ID); err != nil {
				why = "GetMessageSource: " + err.Error()
			} else if !bytes.Contains(src.Bytes(), []byte("plain "+token)) {
				why = "GetMessageSource: not the delivered source"
			}
		}
		c.Count("e2e_go_client_lookups", 1)
		if why != "" {
			c.Violation(fkey(k, "go-client"), fmt.Sprintf("mode %s: mail to %q (mailbox %q) is not reached through the Go client [by %s %q]: %s",
				n.mode, a.Text, name, k.how, k.x, fw.Trunc(why, 200)), detail)
		}
	}
	// changing routes: mark seen, delete one message, purge; each through a randomly chosen key,
	// judged by the store's content afterwards
	if len(keys) > 0 {
		state := func() (seen0 bool, ids []string, err error) {
			ms, err := env.Store.GetMessages(name)
			if err != nil {
				return false, nil, err
			}
			for _, m := range ms {
				ids = append(ids, m.ID())
				if m.ID() == msgs[0].ID {
					seen0 = m.Seen()
				}
			}
			return
		}
		type change struct {
			name, method string
			path         func(x string) string
			body         []byte
			done         func(seen0 bool, ids []string) bool
			want         string
		}
		id0, id1 := msgs[0].ID, msgs[1].ID
		changes := []change{
			{"rest-markseen", "PATCH", func(x string) string { return "/api/v1/mailbox/" + x + "/" + url.PathEscape(id0) }, []byte(`{"seen":true}`),
				func(seen0 bool, ids []string) bool { return seen0 && len(ids) == 2 }, "message " + id0 + " marked seen"},
			{"rest-delete", "DELETE", func(x string) string { return "/api/v1/mailbox/" + x + "/" + url.PathEscape(id0) }, nil,
				func(_ bool, ids []string) bool { return len(ids) == 1 && ids[0] == id1 }, "message " + id0 + " removed, " + id1 + " kept"},
			{"rest-purge", "DELETE", func(x string) string { return "/api/v1/mailbox/" + x }, nil,
				func(_ bool, ids []string) bool { return len(ids) == 0 }, "mailbox empty"},
		}
		for _, ch := range changes {
			k := keys[r.Intn(len(keys))]
			p := ch.path(url.PathEscape(k.x))
			code, body, err := httpDo(cl, ch.method, env.Base+p, ch.body)
			if err != nil {
				c.Inconclusive("HTTP client error: " + err.Error())
				return
			}
			seen0, ids, err := state()
			if err != nil {
				c.Violation("C04:store-unreadable", err.Error(), detail)
				return
			}
			c.Count("e2e_change:"+ch.name, 1)
			if code != 200 || !ch.done(seen0, ids) {
				c.Violation(fkey(k, ch.name), fmt.Sprintf("mode %s: %s %s [by %s] for mail to %q (mailbox %q): HTTP %d %s; expected %s, mailbox now holds %v (first seen=%v)",
					n.mode, ch.method, p, k.how, a.Text, name, code, fw.Trunc(strings.TrimSpace(string(body)), 120), ch.want, ids, seen0), detail)
				break // later steps depend on this one
			}
		}
	}

	// POP3, informational only
	if !strings.ContainsAny(name, " \t") && idx%4 == 0 {
		ps := env.StartPOP3()
		if _, ok := ps.Greeting(); ok {
			if rep, err := ps.Cmd("USER " + name); err == nil && rep.OK {
				if rep, err := ps.Cmd("PASS x"); err == nil && rep.OK {
					c.Count("pop3_user_by_name_sessions", 1)
				}
			}
			_, _ = ps.Cmd("QUIT")
		}
		if !ps.Ended() {
			ps.Close()
		}
	}
	c.NonTrivial(sig)
	if r.Chance(1, 40) {
		c.Sample(map[string]any{"mode": n.mode, "address": a.Text, "mailbox": name, "lookups": sig})
	}
}
