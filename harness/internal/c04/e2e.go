package c04

import (
	"bytes"
	"encoding/json"
	"fmt"
	"io"
	"net/http"
	"net/url"
	"strings"
	"time"

	"github.com/inbucket/inbucket/v3/pkg/rest/client"

	"verifharness/internal/fw"
	"verifharness/internal/sut"
)

type listEntry struct {
	Mailbox string `json:"mailbox"`
	ID      string `json:"id"`
}

func httpDo(cl *http.Client, method, u string, body []byte) (int, []byte, error) {
	var rd io.Reader
	if body != nil {
		rd = bytes.NewReader(body)
	}
	req, err := http.NewRequest(method, u, rd)
	if err != nil {
		return 0, nil, err
	}
	req.Header.Set("Accept", "application/json")
	if body != nil {
		req.Header.Set("Content-Type", "application/json")
	}
	resp, err := cl.Do(req)
	if err != nil {
		return 0, nil, err
	}
	defer resp.Body.Close()
	b, err := io.ReadAll(io.LimitReader(resp.Body, 1<<20))
	return resp.StatusCode, b, err
}

func mimeMessage(subject, token string) string {
	return "From: sender@origin.test\r\nTo: someone@dest.test\r\nSubject: " + subject + "\r\nMIME-Version: 1.0\r\n" +
		"Content-Type: multipart/mixed; boundary=\"b0und\"\r\n\r\n" +
		"--b0und\r\nContent-Type: text/plain\r\n\r\nplain " + token + "\r\n" +
		"--b0und\r\nContent-Type: text/html\r\n\r\n<p>html " + token + "</p>\r\n" +
		"--b0und\r\nContent-Type: text/plain; name=\"note.txt\"\r\nContent-Disposition: attachment; filename=\"note.txt\"\r\n\r\nattached " + token + "\r\n" +
		"--b0und--\r\n"
}

// endpoint is one read route that takes the mailbox name from the URL.
type endpoint struct {
	name string
	path func(x, id string) string
	// check returns "" when the response reaches the delivered message in mailbox `mailbox`.
	check func(body []byte, mailbox, id, token string) string
}

func jsonOne(body []byte, mailbox, id, _ string) string {
	var one listEntry
	if err := json.Unmarshal(body, &one); err != nil {
		return "undecodable JSON: " + err.Error()
	}
	if one.ID != id || one.Mailbox != mailbox {
		return fmt.Sprintf("response reports mailbox %q id %q, delivered to %q id %q", one.Mailbox, one.ID, mailbox, id)
	}
	return ""
}

func hasToken(prefix string) func(body []byte, mailbox, id, token string) string {
	return func(body []byte, _, _, token string) string {
		if !bytes.Contains(body, []byte(prefix+token)) {
			return fmt.Sprintf("body does not contain %q: %s", prefix+token, fw.Q(string(body)))
		}
		return ""
	}
}

var endpoints = []endpoint{
	{"rest-list", func(x, id string) string { return "/api/v1/mailbox/" + x },
		func(body []byte, mailbox, id, _ string) string {
			var list []listEntry
			if err := json.Unmarshal(body, &list); err != nil {
				return "undecodable JSON: " + err.Error()
			}
			for _, e := range list {
				if e.ID == id {
					if e.Mailbox != mailbox {
						return fmt.Sprintf("entry reports mailbox %q, delivered to %q", e.Mailbox, mailbox)
					}
					return ""
				}
			}
			return fmt.Sprintf("message %s not in the list of %d", id, len(list))
		}},
	{"rest-show", func(x, id string) string { return "/api/v1/mailbox/" + x + "/" + id }, jsonOne},
	{"rest-source", func(x, id string) string { return "/api/v1/mailbox/" + x + "/" + id + "/source" }, hasToken("plain ")},
	{"webui-message", func(x, id string) string { return "/serve/mailbox/" + x + "/" + id }, jsonOne},
	{"webui-html", func(x, id string) string { return "/serve/mailbox/" + x + "/" + id + "/html" }, hasToken("html ")},
	{"webui-source", func(x, id string) string { return "/serve/mailbox/" + x + "/" + id + "/source" }, hasToken("plain ")},
	{"webui-attach", func(x, id string) string { return "/serve/mailbox/" + x + "/" + id + "/attach/0/note.txt" }, hasToken("attached ")},
}

func endToEnd(c *fw.Ctx, n *namer, idx int, r *fw.Rand) {
	// pick an accepted address that can be written on an SMTP command line
	var a addr
	found := false
	for try := 0; try < 200 && !found; try++ {
		a = genAddr(r)
		if r.Chance(1, 5) {
			a.Text = mutate(r, a.Text)
			a.Built = false
			a.Class = "mut:" + a.Class
			a.Plain = plainLocalEnd(a.Text) >= 0
		}
		if strings.ContainsAny(a.Text, "\r\n") {
			continue
		}
		if t := strings.Trim(a.Text, "<> "); t != a.Text {
			continue // the RCPT argument syntax would strip it; not an address RCPT sees as written
		}
		if _, err := n.pol.NewRecipient(a.Text); err == nil {
			found = true
		}
	}
	if !found {
		c.Count("e2e_no_address", 1)
		return
	}
	conf := sut.DefaultConf()
	conf.MailboxNaming = n.pol.Config.MailboxNaming
	var env *sut.WebEnv
	var err error
	ok, dump := c.Within(60*time.Second, func() { env, err = sut.NewWebEnv(conf, "mem") })
	if !ok {
		c.Hang("webenv-start", "NewWebEnv did not return", dump)
		return
	}
	if err != nil {
		panic(err)
	}
	defer env.Close()
	detail := map[string]any{"mode": n.mode, "address": a.Text, "class": a.Class}
	name, errName := env.Policy.ExtractMailbox(a.Text)
	if errName != nil || name == "" {
		c.Violation("C04:empty-name:"+n.mode, fmt.Sprintf("mode %s: accepted address %q has no name: %q %v", n.mode, a.Text, name, errName), detail)
		return
	}

	// deliver two messages to the address
	ss := env.StartSMTP()
	defer func() {
		if !ss.Ended() && !ss.Close() {
			c.Hang("smtp-session-end", "SMTP session did not end after the client closed", "")
		}
	}()
	token := r.Letters(12, lower+digits)
	type step struct {
		line string
		code int
		rcpt bool
	}
	steps := []step{{"EHLO client.test", 250, false}}
	for k := 0; k < 2; k++ {
		steps = append(steps,
			step{"MAIL FROM:<sender@origin.test>", 250, false},
			step{"RCPT TO:<" + a.Text + ">", 250, true},
			step{"DATA", 354, false},
			step{strings.TrimSuffix(string(sut.DotStuff([]byte(mimeMessage(fmt.Sprintf("c04 %s #%d", token, k), token)))), "\r\n"), 250, false})
	}
	if _, ok := ss.Greeting(); !ok {
		c.Inconclusive("no SMTP greeting")
		return
	}
	for _, st := range steps {
		rep, err := ss.Cmd(st.line)
		if err != nil {
			c.Inconclusive("SMTP dialogue: " + err.Error())
			return
		}
		if rep.Code != st.code {
			if st.rcpt {
				// RCPT refused although NewRecipient accepts: not an address "RCPT TO accepts"
				c.Count("e2e_rcpt_refused", 1)
				return
			}
			c.Inconclusive(fmt.Sprintf("SMTP step %q answered %s", fw.Trunc(st.line, 40), rep.String()))
			return
		}
	}
	detail["trace"] = ss.Trace[:4]
	snap, err := sut.Snapshot(env.Store, []string{name}, false)
	if err != nil {
		c.Violation("C04:store-unreadable", err.Error(), detail)
		return
	}
	if sut.SnapCount(snap) != 2 || len(snap) != 1 {
		c.Inconclusive(fmt.Sprintf("store holds %d messages in %d mailboxes after two deliveries to one address (C01 territory)", sut.SnapCount(snap), len(snap)))
		return
	}
	var msgs []sut.MsgSnap
	for _, l := range snap {
		msgs = l
	}
	c.Count("e2e_delivered", 2)
	c.Count("e2e_mode:"+n.mode, 1)
	if msgs[0].Mailbox != name || len(snap[name]) != 2 {
		c.Violation("C04:stored-under-other-name:"+n.mode, fmt.Sprintf("mode %s: mail to %q is named %q by the read side but was stored in mailbox %q", n.mode, a.Text, name, msgs[0].Mailbox), detail)
		return
	}

	// lookup keys
	cl := env.Server.Client()
	cl.CheckRedirect = func(*http.Request, []*http.Request) error { return http.ErrUseLastResponse }
	edge, kind := edgePeriod(n.mode, name)
	flipped := flipCase(r, a.Text)
	type key struct{ how, x string }
	all := []key{{"address", a.Text}, {"name", name}}
	if flipped != a.Text {
		if _, err := env.Policy.NewRecipient(flipped); err == nil {
			all = append(all, key{"flipped", flipped})
		}
	}
	var keys []key
	for _, k := range all {
		if strings.Contains(k.x, "/") {
			c.Count("e2e_skipped_slash", 1)
			continue
		}
		keys = append(keys, k)
	}
	fkey := func(k key, iface string) string {
		if k.how == "name" && edge {
			return keyEdgePeriod
		}
		return "C04:" + iface + "-by-" + k.how + ":" + n.mode
	}
	sig := "e2e|" + n.mode + "|" + a.Class
	// read routes: every key must reach both messages' mailbox; message 0 is fetched
	for _, k := range keys {
		if k.how == "name" && edge {
			c.Count("e2e_edge_period:"+kind, 1)
		}
		ex := url.PathEscape(k.x)
		for _, ep := range endpoints {
			p := ep.path(ex, url.PathEscape(msgs[0].ID))
			code, body, err := httpDo(cl, "GET", env.Base+p, nil)
			if err != nil {
				c.Inconclusive("HTTP client error: " + err.Error())
				return
			}
			why := ""
			if code != 200 {
				why = fmt.Sprintf("HTTP %d %s", code, fw.Trunc(strings.TrimSpace(string(body)), 160))
			} else {
				why = ep.check(body, name, msgs[0].ID, token)
			}
			if why != "" {
				c.Violation(fkey(k, ep.name), fmt.Sprintf("mode %s: mail to %q (mailbox %q) is not reached by GET %s [by %s]: %s",
					n.mode, a.Text, name, p, k.how, why), detail)
			}
			c.Count("e2e_get:"+ep.name, 1)
		}
		c.Count("e2e_lookup_by_"+k.how, 1)
		sig += "|" + k.how
	}
	// the Go client is a read interface too: it takes the address or name as the user wrote it
	gc, err := client.New(env.Base, client.WithTransport(cl.Transport))
	if err != nil {
		panic(err)
	}
	for _, k := range keys {
		why := ""
		hs, err := gc.ListMailbox(k.x)
		if err != nil {
			why = "ListMailbox: " + err.Error()
		} else {
			why = fmt.Sprintf("ListMailbox: message %s not among %d headers", msgs[0].ID, len(hs))
			for _, h := range hs {
				if h.ID == msgs[0].ID {
					why = ""
					if h.Mailbox != name {
						why = fmt.Sprintf("ListMailbox: header reports mailbox %q", h.Mailbox)
					}
				}
			}
		}
		if why == "" {
			if m, err := gc.GetMessage(k.x, msgs[0].ID); err != nil {
				why = "GetMessage: " + err.Error()
			} else if m.ID != msgs[0].ID || m.Mailbox != name {
				why = fmt.Sprintf("GetMessage: reports mailbox %q id %q", m.Mailbox, m.ID)
			}
		}
		if why == "" {
			if src, err := gc.GetMessageSource(k.x, msgs[0].ID); err != nil {
				why = "GetMessageSource: " + err.Error()
			} else if !bytes.Contains(src.Bytes(), []byte("plain "+token)) {
				why = "GetMessageSource: not the delivered source"
			}
		}
		c.Count("e2e_go_client_lookups", 1)
		if why != "" {
			c.Violation(fkey(k, "go-client"), fmt.Sprintf("mode %s: mail to %q (mailbox %q) is not reached through the Go client [by %s %q]: %s",
				n.mode, a.Text, name, k.how, k.x, fw.Trunc(why, 200)), detail)
		}
	}
	// changing routes: mark seen, delete one message, purge; each through a randomly chosen key,
	// judged by the store's content afterwards
	if len(keys) > 0 {
		state := func() (seen0 bool, ids []string, err error) {
			ms, err := env.Store.GetMessages(name)
			if err != nil {
				return false, nil, err
			}
			for _, m := range ms {
				ids = append(ids, m.ID())
				if m.ID() == msgs[0].ID {
					seen0 = m.Seen()
				}
			}
			return
		}
		type change struct {
			name, method string
			path         func(x string) string
			body         []byte
			done         func(seen0 bool, ids []string) bool
			want         string
		}
		id0, id1 := msgs[0].ID, msgs[1].ID
		changes := []change{
			{"rest-markseen", "PATCH", func(x string) string { return "/api/v1/mailbox/" + x + "/" + url.PathEscape(id0) }, []byte(`{"seen":true}`),
				func(seen0 bool, ids []string) bool { return seen0 && len(ids) == 2 }, "message " + id0 + " marked seen"},
			{"rest-delete", "DELETE", func(x string) string { return "/api/v1/mailbox/" + x + "/" + url.PathEscape(id0) }, nil,
				func(_ bool, ids []string) bool { return len(ids) == 1 && ids[0] == id1 }, "message " + id0 + " removed, " + id1 + " kept"},
			{"rest-purge", "DELETE", func(x string) string { return "/api/v1/mailbox/" + x }, nil,
				func(_ bool, ids []string) bool { return len(ids) == 0 }, "mailbox empty"},
		}
		for _, ch := range changes {
			k := keys[r.Intn(len(keys))]
			p := ch.path(url.PathEscape(k.x))
			code, body, err := httpDo(cl, ch.method, env.Base+p, ch.body)
			if err != nil {
				c.Inconclusive("HTTP client error: " + err.Error())
				return
			}
			seen0, ids, err := state()
			if err != nil {
				c.Violation("C04:store-unreadable", err.Error(), detail)
				return
			}
			c.Count("e2e_change:"+ch.name, 1)
			if code != 200 || !ch.done(seen0, ids) {
				c.Violation(fkey(k, ch.name), fmt.Sprintf("mode %s: %s %s [by %s] for mail to %q (mailbox %q): HTTP %d %s; expected %s, mailbox now holds %v (first seen=%v)",
					n.mode, ch.method, p, k.how, a.Text, name, code, fw.Trunc(strings.TrimSpace(string(body)), 120), ch.want, ids, seen0), detail)
				break // later steps depend on this one
			}
		}
	}

	// POP3, informational only
	if !strings.ContainsAny(name, " \t") && idx%4 == 0 {
		ps := env.StartPOP3()
		if _, ok := ps.Greeting(); ok {
			if rep, err := ps.Cmd("USER " + name); err == nil && rep.OK {
				if rep, err := ps.Cmd("PASS x"); err == nil && rep.OK {
					c.Count("pop3_user_by_name_sessions", 1)
				}
			}
			_, _ = ps.Cmd("QUIT")
		}
		if !ps.Ended() {
			ps.Close()
		}
	}
	c.NonTrivial(sig)
	if r.Chance(1, 40) {
		c.Sample(map[string]any{"mode": n.mode, "address": a.Text, "mailbox": name, "lookups": sig})
	}
}
