package c04

import (
	"fmt"
	"strings"

	"verifharness/internal/fw"
	"verifharness/internal/gen"
)

// addr is an address built from parts.  The harness knows the unescaped local part from the
// construction (it never parses the text to find out what inbucket should see).
type addr struct {
	Text   string // full address as handed to NewRecipient / RCPT TO:<...>
	Route  string // "" or "@hop,@hop:"
	Local  string // local part as written (with quotes / backslashes)
	Unesc  string // local part with quoting removed (construction knowledge)
	Domain string // domain as written
	Class  string // shape class (coverage signature)
	Plain  bool   // local part is an unquoted atom without quoted pairs
	Built  bool   // built from parts and not mutated: the M-naming model may apply
}

const (
	lower    = "abcdefghijklmnopqrstuvwxyz"
	upper    = "ABCDEFGHIJKLMNOPQRSTUVWXYZ"
	digits   = "0123456789"
	specials = "!#$%&'*-/=?^_`{|}~" // unquoted specials other than '+' and '.'
	atomSet  = lower + upper + digits + specials
	// characters that need quoting; inbucket's mailbox-name validation refuses them even
	// when quoted, so such addresses normally drop out at NewRecipient
	needQuote = " (),:;<>@[]\""
)

// dottedAtom returns seg('.'seg)* over atom characters.
func dottedAtom(r *fw.Rand) string {
	nseg := r.Weighted([]int{5, 3, 2, 1}) + 1
	var b strings.Builder
	for s := 0; s < nseg; s++ {
		if s > 0 {
			b.WriteByte('.')
		}
		var set string
		switch r.Intn(4) {
		case 0:
			set = lower
		case 1:
			set = lower + upper + digits
		case 2:
			set = atomSet
		default:
			set = specials + lower
		}
		b.WriteString(r.Letters(r.Range(1, 5), set))
	}
	return b.String()
}

// withPlus inserts k '+' characters at arbitrary positions (start, middle, end, adjacent).
func withPlus(r *fw.Rand, s string) (string, string) {
	kind := r.Weighted([]int{4, 1, 3, 2, 2, 2})
	switch kind {
	case 0:
		return s, "noplus"
	case 1:
		return "+" + s, "plus-start"
	case 2:
		p := r.Range(1, len(s))
		if p >= len(s) {
			return s + "+", "plus-end"
		}
		return s[:p] + "+" + s[p:], "plus-middle"
	case 3:
		return s + "+", "plus-end"
	case 4:
		p := r.Range(1, len(s))
		return s[:p] + "++" + s[p:], "plus-repeated"
	default:
		out := s
		k := r.Range(2, 3)
		for j := 0; j < k; j++ {
			p := r.Range(0, len(out))
			out = out[:p] + "+" + out[p:]
		}
		return out, "plus-anywhere"
	}
}

// genLocal returns (as written, unescaped, class, plain).
func genLocal(r *fw.Rand) (string, string, string, bool) {
	switch r.Weighted([]int{10, 4, 4, 2}) {
	case 0: // plain atom
		s, cls := withPlus(r, dottedAtom(r))
		return s, s, "atom/" + cls, true
	case 1: // quoted string, optionally followed by an atom tail
		var w, u strings.Builder
		w.WriteByte('"')
		n := r.Range(1, 8)
		cls := "quoted"
		for j := 0; j < n; j++ {
			switch r.Weighted([]int{10, 3, 2, 1, 2}) {
			case 0:
				c := atomSet[r.Intn(len(atomSet))]
				w.WriteByte(c)
				u.WriteByte(c)
			case 1:
				w.WriteByte('.')
				u.WriteByte('.')
			case 2:
				w.WriteByte('+')
				u.WriteByte('+')
			case 3:
				c := needQuote[r.Intn(len(needQuote)-1)] // not the double quote itself
				w.WriteByte(c)
				u.WriteByte(c)
				cls = "quoted-needq"
			default:
				c := (atomSet + ".+" + needQuote)[r.Intn(len(atomSet)+2+len(needQuote))]
				w.WriteByte('\\')
				w.WriteByte(c)
				u.WriteByte(c)
				if cls == "quoted" {
					cls = "quoted-pair-inside"
				}
			}
		}
		w.WriteByte('"')
		if r.Chance(1, 6) {
			t := dottedAtom(r)
			if r.Chance(1, 3) {
				t = "." + t
			}
			w.WriteString(t)
			u.WriteString(t)
			cls += "+tail"
		}
		return w.String(), u.String(), cls, false
	case 2: // atom with quoted pairs
		base, cls := withPlus(r, dottedAtom(r))
		var w strings.Builder
		np := 0
		for j := 0; j < len(base); j++ {
			if r.Chance(1, 4) {
				w.WriteByte('\\')
				np++
			}
			w.WriteByte(base[j])
		}
		if np == 0 {
			w.Reset()
			w.WriteByte('\\')
			w.WriteString(base)
		}
		return w.String(), base, "qpair/" + cls, false
	default: // edge shapes around periods, quoted or escaped
		a, b := r.Letters(r.Range(1, 3), lower+upper), r.Letters(r.Range(1, 3), lower+digits)
		type sh struct{ w, u, c string }
		shapes := []sh{
			{`".` + a + `"`, "." + a, "edge/quoted-leading-dot"},
			{`"` + a + `."`, a + ".", "edge/quoted-trailing-dot"},
			{`"` + a + `..` + b + `"`, a + ".." + b, "edge/quoted-double-dot"},
			{`\.` + a, "." + a, "edge/escaped-leading-dot"},
			{a + `.\.` + b, a + ".." + b, "edge/escaped-double-dot"},
			{a + `\.\.` + b, a + ".." + b, "edge/escaped-double-dot"},
			{`"".` + a, "." + a, "edge/emptyquote-leading-dot"},
			{`"` + a + `.".` + b, a + ".." + b, "edge/quote-then-dot"},
			{`"."`, ".", "edge/quoted-single-dot"},
			{a + ".+" + b, a + ".+" + b, "edge/atom-dot-before-plus"},
			{`"` + a + ".+" + b + `"`, a + ".+" + b, "edge/quoted-dot-before-plus"},
			{`"` + a + "." + b + `"`, a + "." + b, "edge/quoted-inner-dot"},
			{a + `\.` + b, a + "." + b, "edge/escaped-inner-dot"},
		}
		s := shapes[r.Intn(len(shapes))]
		return s.w, s.u, s.c, s.c == "edge/atom-dot-before-plus"
	}
}

func label(r *fw.Rand) string {
	n := r.Range(1, 8)
	b := make([]byte, 0, n)
	set := lower + upper + digits + "_"
	for j := 0; j < n; j++ {
		if j > 0 && j < n-1 && b[len(b)-1] != '-' && r.Chance(1, 8) {
			b = append(b, '-')
			continue
		}
		b = append(b, set[r.Intn(len(set))])
	}
	return string(b)
}

func hexGroup(r *fw.Rand) string {
	return r.Letters(r.Range(1, 4), "0123456789abcdefABCDEF")
}

// genDomain returns (as written, class).
func genDomain(r *fw.Rand) (string, string) {
	switch r.Weighted([]int{8, 3, 2, 3, 1, 1}) {
	case 5:
		// Long host names: total length and label length at and around the limits (63 per label,
		// 255 in total) and around 128 (a limit that applies to local parts, not to domains).
		total := r.Pick2([]int{62, 63, 64, 65, 126, 127, 128, 129, 130, 131, 180, 253, 254, 255, 256})
		var b strings.Builder
		for b.Len() < total {
			left := total - b.Len()
			ll := r.Range(1, 63)
			if r.Chance(1, 4) {
				ll = 63
			}
			if ll >= left-1 {
				ll = left
			}
			if ll > 63 && r.Chance(3, 4) {
				ll = 63
			}
			b.WriteString(r.Letters(ll, "abcdefghijklmnopqrstuvwxyzABCDEFGH0123456789"))
			if b.Len() < total-1 {
				b.WriteByte('.')
			}
		}
		return b.String(), "host-long"
	case 0:
		n := r.Range(1, 4)
		ls := make([]string, n)
		for j := range ls {
			ls[j] = label(r)
		}
		d := strings.Join(ls, ".")
		cls := "host"
		if r.Chance(1, 7) {
			d += "."
			cls = "host-trailing-dot"
		}
		return d, cls
	case 1:
		d := r.Pick(gen.Domains)
		return gen.RandCase(r, d), "pool"
	case 2:
		return fmt.Sprintf("[%d.%d.%d.%d]", r.Intn(256), r.Intn(256), r.Intn(256), r.Intn(256)), "ipv4"
	case 3:
		tag := gen.RandCase(r, "IPv6:")
		cls := "ipv6"
		if r.Chance(1, 6) {
			tag = ""
			cls = "ipv6-untagged"
		}
		var body string
		switch r.Intn(5) {
		case 0:
			g := make([]string, 8)
			for j := range g {
				g[j] = hexGroup(r)
			}
			body = strings.Join(g, ":")
		case 1:
			body = hexGroup(r) + ":" + hexGroup(r) + "::" + hexGroup(r)
		case 2:
			body = "::" + hexGroup(r)
		case 3:
			body = "::" + gen.RandCase(r, "ffff") + fmt.Sprintf(":%d.%d.%d.%d", r.Intn(256), r.Intn(256), r.Intn(256), r.Intn(256))
		default:
			body = hexGroup(r) + "::"
		}
		return "[" + tag + body + "]", cls
	default:
		return r.Pick([]string{"-lead.test", "dou..ble.test", ".start.test", "bad!char.test", "trail-.test",
			"[300.1.1.1]", "[IPv6:zz::1]", "", "[]", "a--b.test", "[1.2.3]"}), "invalid-domain"
	}
}

func genRoute(r *fw.Rand) string {
	n := r.Range(1, 3)
	hs := make([]string, n)
	for j := range hs {
		hs[j] = "@" + gen.RandCase(r, r.Pick([]string{"relay.test", "hop2.example", "a", "mx-1.z9.test"}))
	}
	return strings.Join(hs, ",") + ":"
}

// genAddr builds one address from parts.
func genAddr(r *fw.Rand) addr {
	var a addr
	a.Local, a.Unesc, a.Class, a.Plain = genLocal(r)
	var dc string
	a.Domain, dc = genDomain(r)
	a.Class += "@" + dc
	if r.Chance(1, 8) {
		a.Route = genRoute(r)
		a.Class = "route:" + a.Class
	}
	a.Text = a.Route + a.Local + "@" + a.Domain
	a.Built = true
	return a
}

var mutBytes = []byte(".+\"\\@:,[]<> \t-_!#$%&'*/=?^`{|}~aZ09\x00\x7f\x80\xff")

// mutate applies 1-3 byte-level edits.
func mutate(r *fw.Rand, s string) string {
	b := []byte(s)
	k := r.Range(1, 3)
	for j := 0; j < k; j++ {
		if len(b) == 0 {
			b = append(b, mutBytes[r.Intn(len(mutBytes))])
			continue
		}
		p := r.Intn(len(b))
		switch r.Intn(5) {
		case 0: // replace
			b[p] = mutBytes[r.Intn(len(mutBytes))]
		case 1: // insert
			c := mutBytes[r.Intn(len(mutBytes))]
			b = append(b[:p], append([]byte{c}, b[p:]...)...)
		case 2: // delete
			b = append(b[:p], b[p+1:]...)
		case 3: // duplicate
			b = append(b[:p], append([]byte{b[p]}, b[p:]...)...)
		default: // transpose
			if p+1 < len(b) {
				b[p], b[p+1] = b[p+1], b[p]
			}
		}
	}
	return string(b)
}

// flipCase flips ASCII letters at random; at least one letter is flipped when there is one.
func flipCase(r *fw.Rand, s string) string {
	b := []byte(s)
	var letters []int
	for i, c := range b {
		if ('a' <= c && c <= 'z') || ('A' <= c && c <= 'Z') {
			letters = append(letters, i)
		}
	}
	if len(letters) == 0 {
		return s
	}
	must := letters[r.Intn(len(letters))]
	for _, i := range letters {
		if i == must || r.Bool() {
			b[i] ^= 0x20
		}
	}
	return string(b)
}

// plainLocalEnd returns the index of the '@' that ends the local part of an address that contains
// neither quotes nor backslashes (after an optional source route), or -1.
func plainLocalEnd(s string) int {
	if strings.ContainsAny(s, "\"\\") {
		return -1
	}
	off := 0
	if strings.HasPrefix(s, "@") {
		c := strings.IndexByte(s, ':')
		if c < 0 {
			return -1
		}
		off = c + 1
	}
	at := strings.IndexByte(s[off:], '@')
	if at <= 0 {
		return -1
	}
	return off + at
}

// genExt returns an extension (without the leading '+') that keeps an atom local part well formed.
func genExt(r *fw.Rand) string {
	e := r.Letters(r.Range(0, 5), atomSet+"+")
	if r.Chance(1, 4) {
		e += "." + r.Letters(r.Range(1, 3), lower)
	}
	if r.Chance(1, 6) {
		e = "." + e + "x"
	}
	return e
}

// edgePeriod reports whether the local component of a derived name starts with '.', ends with
// '.', or contains "..", and which of the three.
func edgePeriod(mode, name string) (bool, string) {
	if mode == "domain" {
		return false, ""
	}
	l := name
	if mode == "full" {
		if i := strings.LastIndexByte(name, '@'); i >= 0 {
			l = name[:i]
		}
	}
	switch {
	case strings.HasPrefix(l, "."):
		return true, "leading"
	case strings.Contains(l, ".."):
		return true, "double"
	case strings.HasSuffix(l, "."):
		return true, "trailing"
	}
	return false, ""
}

// genOffered returns an address string that is *offered* to the server in a RCPT TO although the
// harness' own policy object is expected to refuse it (added after seeded change C04-8): the
// property quantifies over every string a RCPT TO accepts, and whether a string is accepted is the
// server's decision, not the decision of policy.NewRecipient called by the harness.  Shapes: a
// local part without a domain (RFC 5321 4.5.1 "Postmaster", james+news, quoted, escaped), with an
// empty domain, a domain without local part, a source route in front of a bare local part,
// unfiltered byte-level mutants, over-long local parts and invalid domains.
func genOffered(r *fw.Rand) (text, class string) {
	switch r.Weighted([]int{6, 4, 2, 1, 1, 3, 1, 1}) {
	case 0:
		l, _, cls, _ := genLocal(r)
		return l, "bare/" + cls
	case 1:
		w := gen.RandCase(r, r.Pick([]string{"postmaster", "abuse", "root", "webmaster", "james", "first.last"}))
		if r.Chance(1, 3) {
			w += "+" + genExt(r)
		}
		return w, "bare/well-known"
	case 2:
		l, _, cls, _ := genLocal(r)
		return l + "@", "empty-domain/" + cls
	case 3:
		d, cls := genDomain(r)
		return "@" + d, "empty-local@" + cls
	case 4:
		l, _, cls, _ := genLocal(r)
		return genRoute(r) + l, "route+bare/" + cls
	case 5:
		a := genAddr(r)
		return mutate(r, a.Text), "mut:" + a.Class
	case 6:
		d, cls := genDomain(r)
		return r.Letters(r.Range(65, 80), lower+upper+digits+"+.") + "@" + d, "long-local@" + cls
	default:
		l, _, cls, _ := genLocal(r)
		return l + "@" + r.Pick([]string{"-lead.test", "dou..ble.test", ".start.test", "bad!char.test", "[300.1.1.1]", "[]", "a b.test", "host"}), "odd-domain/" + cls
	}
}

// writable reports whether s reaches the RCPT handler as written: "RCPT TO:<s>" is one command
// line and the handler's trimming of '<', '>' and ' ' leaves s unchanged.
func writable(s string) bool {
	return !strings.ContainsAny(s, "\r\n") && strings.Trim(s, "<> ") == s
}
