package c04

import (
	"encoding/json"
	"fmt"
	"net"
	"net/mail"
	"net/url"
	"strings"
	"sync"
	"time"

	"github.com/gorilla/websocket"
	"github.com/inbucket/inbucket/v3/pkg/extension/event"

	"verifharness/internal/fw"
	"verifharness/internal/sut"
)

// Added after seeded change C04-7.  The per-mailbox WebSocket monitors
// (GET /api/v1/monitor/messages/{name} and /api/v2/monitor/messages/{name}) take the mailbox from
// the URL like every other read route, so they are read interfaces in the sense of the property:
// asked with the address as the user writes it (capitals, +extension, quoting, a full address in
// local naming, a source route) they have to watch the mailbox the mail is stored in.  The e2e
// stream never opened one.  Now every case opens a v1 and a v2 monitor per lookup key (address,
// derived name, case-flipped address) before the deliveries; each must be told of both stored
// messages of the mailbox (v1: message header, v2: "message-stored" event) and report the
// delivery-time mailbox name in them.
//
// How the verdict is reached without timing: a listener is registered by the handler some time
// after the upgrade, but the hub replays its history (30 entries) to a new listener before any
// later event, so whatever the join point a monitor that watches mailbox n receives, in hub
// order, every event dispatched for n.  After the deliveries the case emits sentinel "stored"
// events on the server's extension host (the asynchronous broker that carries the real stored
// events to the hub, in emit order): first for the spellings a monitor might be watching by
// mistake (what the read side derives from the key, the key as written, lower-cased, URL-escaped,
// named by another naming mode), last for the delivery-time name.  The
// first sentinel a monitor relays proves that everything dispatched before it for the mailbox it
// watches has been relayed: if the stored messages are not among that, the monitor does not watch
// the mailbox the mail is stored in.  Only a monitor that relays nothing at all is left to the
// watchdog (c.Hang).  Relaying a foreign sentinel is by itself not judged (how the filter compares
// is not specified); duplicates, deletions and foreign events are not C04's business.

const sentinelPrefix = "c04-sentinel-"

type wsEvent struct {
	Del     bool
	Mailbox string
	ID      string
}

type monitor struct {
	v      int
	how, x string // lookup key
	conn   *websocket.Conn
	done   chan struct{}

	mu  sync.Mutex
	got []wsEvent
	err error
}

func parseMonitorEvent(v int, data []byte) (wsEvent, error) {
	if v == 1 {
		var h struct {
			Mailbox *string `json:"mailbox"`
			ID      *string `json:"id"`
		}
		if err := json.Unmarshal(data, &h); err != nil {
			return wsEvent{}, err
		}
		if h.Mailbox == nil || h.ID == nil {
			return wsEvent{}, fmt.Errorf("not a v1 message header: %s", fw.Trunc(string(data), 200))
		}
		return wsEvent{Mailbox: *h.Mailbox, ID: *h.ID}, nil
	}
	var m struct {
		Variant    string `json:"variant"`
		Identifier *struct {
			Mailbox string `json:"mailbox"`
			ID      string `json:"id"`
		} `json:"identifier"`
		Header *struct {
			Mailbox string `json:"mailbox"`
			ID      string `json:"id"`
		} `json:"header"`
	}
	if err := json.Unmarshal(data, &m); err != nil {
		return wsEvent{}, err
	}
	switch {
	case m.Variant == "message-deleted" && m.Identifier != nil:
		return wsEvent{Del: true, Mailbox: m.Identifier.Mailbox, ID: m.Identifier.ID}, nil
	case m.Variant == "message-stored" && m.Header != nil:
		return wsEvent{Mailbox: m.Header.Mailbox, ID: m.Header.ID}, nil
	}
	return wsEvent{}, fmt.Errorf("unknown v2 monitor event %s", fw.Trunc(string(data), 200))
}

// run reads until the first sentinel or an error.  The read deadline only frees the goroutine of
// a case that has long been given up; verdicts never depend on it.
func (m *monitor) run() {
	defer close(m.done)
	for {
		_ = m.conn.SetReadDeadline(time.Now().Add(10 * time.Minute))
		_, data, err := m.conn.ReadMessage()
		if err == nil {
			var e wsEvent
			if e, err = parseMonitorEvent(m.v, data); err == nil {
				m.mu.Lock()
				m.got = append(m.got, e)
				m.mu.Unlock()
				if !e.Del && strings.HasPrefix(e.ID, sentinelPrefix) {
					return
				}
				continue
			}
		}
		m.mu.Lock()
		m.err = err
		m.mu.Unlock()
		return
	}
}

// dialMonitor opens one per-mailbox monitor.  status is the HTTP status of a refused upgrade
// (0 when the failure is not an HTTP answer).
func dialMonitor(env *sut.WebEnv, v int, how, x string) (m *monitor, status int, err error) {
	u := "ws" + strings.TrimPrefix(env.Base, "http") + fmt.Sprintf("/api/v%d/monitor/messages/", v) + url.PathEscape(x)
	d := websocket.Dialer{HandshakeTimeout: 60 * time.Second,
		NetDial: func(network, addr string) (net.Conn, error) { return sut.DialTCP(addr, 60*time.Second) }}
	conn, resp, err := d.Dial(u, nil)
	if err != nil {
		if resp != nil {
			status = resp.StatusCode
		}
		return nil, status, err
	}
	m = &monitor{v: v, how: how, x: x, conn: conn, done: make(chan struct{})}
	go m.run()
	return m, 0, nil
}

var sentinelDate = time.Date(2020, 2, 3, 4, 5, 6, 0, time.UTC)

func sentinelMeta(mailbox string, k int) event.MessageMetadata {
	return event.MessageMetadata{
		Mailbox: mailbox, ID: fmt.Sprintf("%s%d", sentinelPrefix, k),
		From: &mail.Address{Name: "Sentinel", Address: "sentinel@origin.test"},
		To:   []*mail.Address{{Address: "sentinel@dest.test"}},
		Date: sentinelDate, Subject: "c04 sentinel", Size: 100,
	}
}

// sentinelTargets lists the mailbox spellings that get a sentinel (at most 20 foreign ones, so
// that sentinels and stored messages fit the hub's history of 30), the delivery-time name last.
func sentinelTargets(name string, cands []string) []string {
	var out []string
	seen := map[string]bool{name: true}
	for _, cand := range cands {
		if !seen[cand] && len(out) < 20 {
			seen[cand] = true
			out = append(out, cand)
		}
	}
	return append(out, name)
}

// judge forms the verdict of one monitor that has stopped reading.  It returns the reason why the
// monitor failed ("" = it was told of every stored message) and whether a verdict could be formed.
func (m *monitor) judge(name string, ids []string, targets []string) (why string, decided bool) {
	m.mu.Lock()
	got, rerr := append([]wsEvent(nil), m.got...), m.err
	m.mu.Unlock()
	var sentinel *wsEvent
	if n := len(got); n > 0 && !got[n-1].Del && strings.HasPrefix(got[n-1].ID, sentinelPrefix) {
		sentinel = &got[n-1]
	}
	if sentinel == nil {
		return fmt.Sprintf("connection ended after %d events without a sentinel: %v", len(got), rerr), false
	}
	watched := sentinel.Mailbox
	var k int
	if _, err := fmt.Sscanf(strings.TrimPrefix(sentinel.ID, sentinelPrefix), "%d", &k); err == nil && k >= 0 && k < len(targets) {
		watched = targets[k]
	}
	for _, id := range ids {
		found := false
		for _, e := range got {
			if e.Del || e.ID != id {
				continue
			}
			found = true
			if e.Mailbox != name {
				return fmt.Sprintf("the event for message %s reports mailbox %q", id, e.Mailbox), true
			}
		}
		if !found {
			return fmt.Sprintf("it relays events of mailbox %q (sentinel received after %d events) but was not told of stored message %s",
				watched, len(got)-1, id), true
		}
	}
	return "", true
}
