// Package c05 decides C05: accept, reject and store decisions follow the configured domain policy
// exactly.  Configurations are written into the process environment and loaded with
// config.Process(), so the documented lower-casing on load is on the path.  The exported
// predicates and the wildcard matcher are compared with an independent model (M-policy); live SMTP
// sessions are judged on reply classes to MAIL/RCPT, the per-transaction recipient count and the
// store's content after DATA.
package c05

import (
	"fmt"
	"github.com/inbucket/inbucket/v3/pkg/extension/event"
	"io"
	"regexp"
	"sort"
	"strings"

	"github.com/inbucket/inbucket/v3/pkg/config"
	"github.com/inbucket/inbucket/v3/pkg/policy"
	"github.com/inbucket/inbucket/v3/pkg/stringutil"

	"verifharness/internal/fw"
	"verifharness/internal/gen"
	"verifharness/internal/sut"
)

func init() {
	fw.Register(&fw.Prop{
		ID:    "C05",
		Level: "exploration",
		Rule: "config: both defaults x accept/reject/store/discard lists (0-4 entries from a 16-domain pool incl. sub-domain, near-miss, trailing-dot and " +
			"IP-literal entries, written lower/MIXED/UPPER case) x 0-3 reject-origin patterns (* and ? at start/middle/end, adjacent stars, longer/shorter than " +
			"the subject, exact, empty) x MaxRecipients {0,1,2,5} (0: every RCPT refused, nothing stored), written to INBUCKET_SMTP_* variables and loaded by config.Process(); 200 domains per " +
			"configuration (pool in random/upper case, listed entries re-cased, sub-domains, near-misses, pattern instances and near-misses, empty, random). " +
			"session: same configurations, 1-3 transactions of MAIL (incl. <>) + 1..Max+3 RCPT + DATA/RSET (a transaction without an accepted recipient ends with RSET or with a DATA attempt, which must store nothing) with plain atom@domain addresses; a quarter with " +
			"an allowing Go listener, a third with a real Lua script (file + luahost.New) whose before.mail_from_accepted / before.rcpt_to_accepted / " +
			"before.message_stored hooks are absent or take no decision (raise a string/table/nil, runtime error, modify-then-raise, return nothing/nil/false/" +
			"smtp.defer()/a value of the wrong type, raise for some inputs only). Half of the reject-origin patterns are composed by a random walk over a " +
			"domain (keep / '?' / '*' for a run / inserted wildcard at every position, wildcard prefix and suffix), a third of the senders are instances of " +
			"a configured pattern or one edit away. " +
			"wild-exh: every pattern over {a,b,*,?} against every subject over {a,b,c} up to the tier's lengths; wild-rand: longer random pairs, half of them " +
			"pattern instances or one edit away; both through MatchWithWildcards and through ShouldAcceptOriginDomain with a one-pattern list. Non-trivial and distinct by (defaults, limit, outcome classes observed) for sessions, by (defaults, list/" +
			"pattern shape, decisions) for configurations, by (pattern shape, result) for matcher cases.",
		Assumptions: []string{
			"list membership is exact string equality ignoring ASCII case (doc/config.md: 'present in the list'); no sub-domain or trailing-dot equivalence is assumed",
			"a reject-origin pattern matches the lower-cased sender domain as a whole; '*' = any run incl. empty, '?' = exactly one character; MAIL FROM:<> has the empty domain, matched only by patterns made of '*' alone",
			"matcher subjects never contain '*' or '?' (a domain accepted by the address parser cannot)",
			"an environment list consisting of a single empty entry is the unset list; the empty pattern is only generated next to another entry",
			"live sessions use plain atom@domain without ESMTP parameters and syntactically valid domains, so every 5xx to MAIL/RCPT is a policy decision",
			"an extension listener that answers nothing usable (nil, false, a raised error, a value of another type) or smtp.defer() has taken no decision: the configured domain policy decides as if no extension were there; listeners are asked in registration order until one answers non-nil (extension.EventBroker.Emit), so an explicit smtp.defer() in front of the allowing Go listener hides that listener",
			"several configurations are loaded one after another in one child process by rewriting the INBUCKET_SMTP_* variables before each config.Process() call",
		},
		MinObs: func(tier string) map[string]int64 {
			mo := map[string]int64{
				"configs_loaded": 1000, "predicate_evals": 500000,
				"accept_true": 50000, "accept_false": 50000, "store_true": 50000, "store_false": 50000,
				"origin_true": 50000, "origin_false": 20000, "decided_by_case_folding": 5000,
				"sessions": 1500, "rcpt_accepted": 3000, "rcpt_refused_policy": 2000, "rcpt_refused_limit": 800,
				"mail_accepted": 2000, "mail_refused_origin": 500, "mail_empty_path_accepted": 100, "mail_empty_path_refused": 20,
				"messages_stored": 1500, "recipients_discarded": 1000, "transactions_at_limit": 500,
				"wild_pairs": 400000, "wild_match_true": 20000, "wild_match_false": 100000,
				"distinct_nontrivial": 500,
				// added after seeded change C05-13: the limit corner 0 on live sessions
				"sessions_limit_zero": 1000, "rcpt_refused_limit_zero": 400, "rcpt_refused_limit_zero_allowed_by_extension": 20,
				"transactions_limit_zero": 500, "data_attempts_without_recipient": 500, "data_attempts_without_recipient_limit_zero": 150,
				// added after seeded change C05-8: every pair also through the policy predicate
				"origin_single_pattern_pairs": 400000,
				// added after seeded change C05-7: sessions under a Lua script that takes no decision
				"lua_sessions": 1000, "lua_sessions_failing_stored_hook": 700, "lua_transactions_delivered": 1000,
				"lua_before_stored_emissions": 1000, "lua_discarded_under_failing_stored_hook": 700,
				"lua_rcpt_refused_policy_under_failing_hook": 1500, "lua_rcpt_refused_limit_under_failing_hook": 500,
				"lua_mail_refused_under_failing_hook": 700,
			}
			for _, k := range []string{"raise-string", "raise-table", "raise-nil", "runtime-error", "return-junk", "return-nil",
				"return-false", "return-nothing", "mutate-raise", "raise-sometimes"} {
				mo["lua_stored_hook_"+k+"_discarded"] = 30
				mo["lua_stored_hook_"+k+"_stored"] = 30
			}
			// every arrangement of wildcards decided both ways, at the predicate and on MAIL commands
			for _, f := range patFeatureList {
				mo["pat_"+f+"_match"], mo["pat_"+f+"_nomatch"] = 3000, 3000
				mo["mailcmd_"+f+"_match"], mo["mailcmd_"+f+"_nomatch"] = 100, 100
			}
			return mo
		},
		Run: run,
	})
}

func run(c *fw.Ctx) {
	c.Cases("config", c.N(10000, 100000), func(i int, r *fw.Rand) { configCase(c, r) })
	c.Cases("session", c.N(15000, 250000), func(i int, r *fw.Rand) { sessionCase(c, r) })
	// exhaustive matcher enumeration: one case per pattern
	pl, sl := 6, 5
	if !c.Quick() {
		pl, sl = 7, 6
	}
	subjects := enumerate("abc", sl)
	c.Cases("wild-exh", countStrings(4, pl), func(i int, r *fw.Rand) { wildExhaustive(c, nthString("ab*?", i), subjects) })
	c.Cases("wild-rand", c.N(2000, 40000), func(i int, r *fw.Rand) { wildRandom(c, r) })
}

// ---- predicates ------------------------------------------------------------------------------------

func bstr(b bool) string {
	if b {
		return "t"
	}
	return "f"
}

func configCase(c *fw.Ctx, r *fw.Rand) {
	m := genModel(r)
	conf := load(c, r, m)
	c.Count("configs_loaded", 1)
	pol := &policy.Addressing{Config: conf}
	seen := map[string]bool{}
	acc := map[string]int64{}
	defer flushCounts(c, acc)
	originSeen := map[string]bool{} // (input class, arrangements of the patterns that matched)
	for k := 0; k < 200; k++ {
		d, cls := genDomainInput(r, m)
		lower := d == strings.ToLower(d)
		caseCls := "lower"
		if !lower {
			caseCls = "mixed"
		}
		// accept
		wantA, gotA := m.accepts(d), pol.ShouldAcceptDomain(d)
		inList := listed(m.Reject, d)
		if !m.DefAccept {
			inList = listed(m.Accept, d)
		}
		if gotA != wantA {
			c.Violation(fmt.Sprintf("C05:ShouldAcceptDomain:default=%v,listed=%v,domain-case=%s", m.DefAccept, inList, caseCls),
				fmt.Sprintf("ShouldAcceptDomain(%q)=%v, documented rule gives %v (default accept %v, accept list %q, reject list %q)", d, gotA, wantA, m.DefAccept, m.Accept, m.Reject),
				m.describe())
		}
		// store
		wantS, gotS := m.stores(d), pol.ShouldStoreDomain(d)
		inListS := listed(m.Discard, d)
		if !m.DefStore {
			inListS = listed(m.Store, d)
		}
		if gotS != wantS {
			c.Violation(fmt.Sprintf("C05:ShouldStoreDomain:default=%v,listed=%v,domain-case=%s", m.DefStore, inListS, caseCls),
				fmt.Sprintf("ShouldStoreDomain(%q)=%v, documented rule gives %v (default store %v, store list %q, discard list %q)", d, gotS, wantS, m.DefStore, m.Store, m.Discard),
				m.describe())
		}
		// origin
		wantO, gotO := m.originOK(d), pol.ShouldAcceptOriginDomain(d)
		if gotO != wantO {
			c.Violation(fmt.Sprintf("C05:ShouldAcceptOriginDomain:expected=%v,domain-case=%s,empty=%v", wantO, caseCls, d == ""),
				fmt.Sprintf("ShouldAcceptOriginDomain(%q)=%v, documented rule gives %v (reject-origin patterns %q)", d, gotO, wantO, m.Origins),
				m.describe())
		}
		c.Count("predicate_evals", 3)
		hitBy := countPatternDecisions(acc, "pat", m, d)
		if len(hitBy) > 0 {
			originSeen["config-origin|"+cls+"|"+strings.Join(hitBy, ",")] = true
		}
		c.Count("accept_"+tf(wantA), 1)
		c.Count("store_"+tf(wantS), 1)
		c.Count("origin_"+tf(wantO), 1)
		// how many decisions hinge on case folding (entry or argument not lower case while listed)
		if (inList || inListS) && (!lower || !exactListed(m, d)) {
			c.Count("decided_by_case_folding", 1)
		}
		seen[cls+"/"+bstr(inList)+bstr(inListS)+bstr(wantO)] = true
	}
	var ks []string
	for k := range seen {
		ks = append(ks, k)
	}
	sort.Strings(ks)
	for k := range originSeen {
		c.NonTrivial(k)
	}
	c.NonTrivial(fmt.Sprintf("config|%v%v|%d%d%d%d|%s|%s", m.DefAccept, m.DefStore, min1(len(m.Accept)), min1(len(m.Reject)), min1(len(m.Store)), min1(len(m.Discard)),
		patShapes(m.Origins), strings.Join(ks, ",")))
	if r.Chance(1, 300) {
		c.Sample(m.describe())
	}
}

func tf(b bool) string {
	if b {
		return "true"
	}
	return "false"
}

func min1(n int) int {
	if n > 1 {
		return 1
	}
	return n
}

func exactListed(m *policyModel, d string) bool {
	for _, l := range [][]string{m.Accept, m.Reject, m.Store, m.Discard} {
		for _, e := range l {
			if e == d {
				return true
			}
		}
	}
	return false
}

// patShape classifies a pattern: where the wildcards are.
func patShape(p string) string {
	if p == "" {
		return "empty"
	}
	var f []string
	if strings.HasPrefix(p, "*") {
		f = append(f, "^*")
	}
	if strings.HasPrefix(p, "?") {
		f = append(f, "^?")
	}
	if strings.HasSuffix(p, "*") && len(p) > 1 {
		f = append(f, "*$")
	}
	if strings.HasSuffix(p, "?") && len(p) > 1 {
		f = append(f, "?$")
	}
	if strings.Contains(p, "**") {
		f = append(f, "**")
	}
	if len(p) > 2 {
		mid := p[1 : len(p)-1]
		if strings.Contains(mid, "*") {
			f = append(f, "m*")
		}
		if strings.Contains(mid, "?") {
			f = append(f, "m?")
		}
	}
	if strings.Trim(p, "*") == "" {
		f = append(f, "only*")
	}
	if len(f) == 0 {
		return "literal"
	}
	return strings.Join(f, "")
}

func patShapes(ps []string) string {
	var s []string
	for _, p := range ps {
		s = append(s, patShape(p))
	}
	sort.Strings(s)
	return strings.Join(s, "+")
}

// ---- live sessions -----------------------------------------------------------------------------------

func sessionDomain(r *fw.Rand, m *policyModel) string {
	for try := 0; try < 50; try++ {
		d, _ := genDomainInput(r, m)
		if validDomain(d) {
			return d
		}
	}
	return gen.RandCase(r, "alpha.test")
}

// dataShapes are the data blocks of the session transactions (each ends with CRLF; the final dot
// is added when sent).
var dataShapes = []string{
	"Subject: c05\r\n\r\nbody\r\n",
	"Subject: c05\r\n\r\nbody\r\n",
	"From: a@from.test\r\nTo: b@to.test\r\nSubject: c05 full\r\nDate: Mon, 02 Jan 2006 15:04:05 -0700\r\n\r\nbody\r\n",
	"\r\nno header at all\r\n",
	"just a line\r\n",
	" folded: from nowhere\r\nSubject: odd\r\n\r\nbody\r\n",
	"\tSubject: indented\r\nFrom: a@from.test\r\n\r\nbody\r\n",
	"X Mailer: home grown\r\nSubject: odd name\r\n\r\nbody\r\n",
	"Subject c05 no colon\r\n\r\nbody\r\n",
	": empty name\r\n\r\nbody\r\n",
	"Subject: =?utf-8?q?broken\r\nContent-Type: multipart/mixed; boundary=\r\n\r\nbody\r\n",
	"Subject: nul \x00 and high \xff\xfe bytes\r\n\r\nbody \x00\r\n",
	"Content-Type: text/plain; charset=\"unknown-charset\"\r\nContent-Transfer-Encoding: base64\r\n\r\n!!!not base64!!!\r\n",
}

func sessionCase(c *fw.Ctx, r *fw.Rand) {
	m := genModel(r)
	conf := load(c, r, m)
	conf.MailboxNaming = config.LocalNaming
	// The policy is what the configuration says for as long as the server runs.  In a quarter of
	// the sessions the web side is up as well and read-only pages are fetched before and during the
	// dialogue - the status page, an API listing, a mailbox page (added after seeded change C05-9:
	// a read-only page that rewrites the configuration it displays).
	var env *sut.Env
	browse := func() {}
	if r.Chance(1, 4) {
		we, err := sut.NewWebEnv(conf, "mem")
		if err != nil {
			panic(err)
		}
		defer we.Close()
		env = we.Env
		hc := we.Server.Client()
		browse = func() {
			for _, p := range []string{"/serve/status", "/api/v1/mailbox/nobody", "/serve/mailbox/nobody", "/serve/status"} {
				if resp, err := hc.Get(we.Base + p); err == nil {
					_, _ = io.Copy(io.Discard, resp.Body)
					_ = resp.Body.Close()
					c.Count("web_pages_fetched_around_sessions", 1)
				}
			}
		}
		browse()
	} else {
		var err error
		env, err = sut.NewEnv(conf, "mem")
		if err != nil {
			panic(err)
		}
	}
	// In a quarter of the sessions an extension explicitly allows every recipient whose local
	// part starts with "al": that overrides the domain lists, but the recipient limit (and the
	// store rule) still apply.
	allowExt := r.Chance(1, 4)
	addAllow := func() {
		env.ExtHost.Events.BeforeRcptToAccepted.AddListener("c05-allow", func(s event.SMTPSession) *event.SMTPResponse {
			if n := len(s.To); n > 0 && strings.HasPrefix(s.To[n-1].Address, "al") {
				return &event.SMTPResponse{Action: event.ActionAllow}
			}
			return nil
		})
		c.Count("sessions_with_allowing_extension", 1)
	}
	// Added after seeded change C05-7: a third of the sessions run with a real Lua script whose
	// hooks take no decision (see lua.go); the policy alone decides, the oracle below is unchanged.
	// The script is loaded before or after the allowing Go listener.  A Go listener in front of the
	// script counts the before-message-stored emissions (it answers nil = no decision).
	var script *luaScript
	allowShadowed := false
	storedEmits := 0
	if r.Chance(1, 3) {
		sc := genIdleScript(r)
		script = &sc
		allowFirst := r.Bool()
		if allowExt && allowFirst {
			addAllow()
		}
		env.ExtHost.Events.BeforeMessageStored.AddListener("c05-count", func(event.InboundMessage) *event.InboundMessage {
			storedEmits++
			return nil
		})
		installLua(c, env.ExtHost, sc, c.Batch)
		if allowExt && !allowFirst {
			addAllow()
			// Listeners are asked in order until one answers non-nil (extension.EventBroker.Emit):
			// an explicit smtp.defer() of the script in front ends the chain, the allowing listener
			// behind it is never asked and the domain lists decide.
			allowShadowed = sc.Rcpt == "explicit-defer"
		}
		c.Count("lua_sessions", 1)
		if failingKind(sc.Stored) {
			c.Count("lua_sessions_failing_stored_hook", 1)
		}
	} else if allowExt {
		addAllow()
	}
	acc := map[string]int64{}
	defer flushCounts(c, acc)
	ss := env.StartSMTP()
	defer func() {
		if !ss.Ended() && !ss.Close() {
			c.Hang("smtp-session-end", "SMTP session did not end after the client closed", "")
		}
	}()
	fail := func(key, what string) {
		d := m.describe()
		d["allowing_extension"] = allowExt
		if script != nil {
			// a decision that differs only under a script that decides nothing gets its own key
			key += ":lua-script-without-decision"
			what += fmt.Sprintf(" [Lua script configured, hooks take no decision: mail_from=%s rcpt_to=%s message_stored=%s]", script.Mail, script.Rcpt, script.Stored)
			d["lua_script"] = script.Source
		}
		d["trace"] = ss.Trace
		c.Violation(key, what, d)
	}
	if _, ok := ss.Greeting(); !ok {
		c.Inconclusive("no SMTP greeting")
		return
	}
	if rep, err := ss.Cmd("EHLO client.test"); err != nil || rep.Code != 250 {
		c.Inconclusive(fmt.Sprintf("EHLO not acknowledged: %v %v", rep, err))
		return
	}
	c.Count("sessions", 1)
	if m.Max == 0 {
		c.Count("sessions_limit_zero", 1)
	}
	refusedData := false
	outcomes := map[string]bool{}
	extraSeen := map[string]bool{} // further non-trivial signatures: pattern arrangements, script hook kinds x decisions
	defer func() {
		for k := range extraSeen {
			c.NonTrivial(k)
		}
	}()
	stored := 0 // messages the store must hold so far
	ntx := r.Range(1, 3)
	uniq := 0
	for t := 0; t < ntx; t++ {
		// MAIL, retried with other senders while policy refuses
		open := false
		for att := 0; att < 3 && !open; att++ {
			var line, dom string
			empty := r.Chance(1, 6)
			if empty {
				line = "MAIL FROM:<>"
			} else {
				dom = senderDomain(r, m)
				line = "MAIL FROM:<" + r.Pick([]string{"sender", "Bounce-1", "a.b"}) + "@" + dom + ">"
			}
			rep, err := ss.Cmd(line)
			if err != nil {
				fail("C05:reply-shape", err.Error())
				return
			}
			want := m.originOK(dom)
			cls := rep.Class()
			if cls != 2 && cls != 5 {
				fail("C05:mail-reply-class", fmt.Sprintf("%s answered %s", line, rep.String()))
				return
			}
			if (cls == 2) != want {
				k := "C05:mail-accepted-despite-reject-origin"
				if want {
					k = "C05:mail-refused-without-matching-pattern"
				}
				if empty {
					k += ":empty-reverse-path"
				}
				fail(k, fmt.Sprintf("%s answered %s; reject-origin patterns %q say accept=%v", line, rep.String(), m.Origins, want))
				return
			}
			// which arrangements of wildcards took (or just did not take) this decision
			if hitBy := countPatternDecisions(acc, "mailcmd", m, dom); len(hitBy) > 0 {
				extraSeen["session-origin|refused-by|"+strings.Join(hitBy, ",")] = true
			}
			if script != nil {
				if want {
					acc["lua_mail_accepted_hook_"+script.Mail]++
				} else {
					acc["lua_mail_refused_hook_"+script.Mail]++
					if failingKind(script.Mail) {
						c.Count("lua_mail_refused_under_failing_hook", 1)
					}
				}
				extraSeen["lua|mail="+script.Mail+"|accepted="+tf(want)] = true
			}
			switch {
			case empty && want:
				c.Count("mail_empty_path_accepted", 1)
				outcomes["mail:<>ok"] = true
			case empty:
				c.Count("mail_empty_path_refused", 1)
				outcomes["mail:<>refused"] = true
			case want:
				outcomes["mail:ok"] = true
			default:
				c.Count("mail_refused_origin", 1)
				outcomes["mail:refused"] = true
			}
			if want {
				c.Count("mail_accepted", 1)
				open = true
			}
		}
		if !open {
			continue
		}
		// RCPTs
		type rc struct{ local, domain string }
		var accepted, tried []rc
		nr := r.Range(1, m.Max+3)
		for k := 0; k < nr; k++ {
			uniq++
			local := fmt.Sprintf("r%dx%s", uniq, r.Letters(r.Range(0, 3), letters))
			if allowExt && r.Chance(1, 2) {
				local = "al" + local
			}
			dom := sessionDomain(r, m)
			if len(tried) > 0 && r.Chance(1, 3) {
				// Same local part as an earlier recipient of this transaction but another domain:
				// under local naming both name the same mailbox; the store rule is per recipient.
				prev := tried[r.Intn(len(tried))]
				for n := 0; n < 6 && strings.EqualFold(dom, prev.domain); n++ {
					dom = sessionDomain(r, m)
				}
				if !strings.EqualFold(dom, prev.domain) {
					local = prev.local
					c.Count("rcpt_sharing_a_mailbox", 1)
				}
			}
			tried = append(tried, rc{local, dom})
			line := "RCPT TO:<" + local + "@" + dom + ">"
			rep, err := ss.Cmd(line)
			if err != nil {
				fail("C05:reply-shape", err.Error())
				return
			}
			cls := rep.Class()
			if cls != 2 && cls != 5 {
				fail("C05:rcpt-reply-class", fmt.Sprintf("%s answered %s", line, rep.String()))
				return
			}
			polOK := m.accepts(dom)
			if allowExt && !allowShadowed && strings.HasPrefix(local, "al") {
				polOK = true
				c.Count("rcpt_allowed_by_extension", 1)
			}
			room := len(accepted) < m.Max
			want := polOK && room
			if (cls == 2) != want {
				var k string
				switch {
				case cls == 2 && !polOK:
					k = fmt.Sprintf("C05:rcpt-accepted-against-policy:default=%v", m.DefAccept)
				case cls == 2:
					k = "C05:rcpt-accepted-beyond-limit"
				default:
					k = fmt.Sprintf("C05:rcpt-refused-against-policy:default=%v", m.DefAccept)
				}
				fail(k, fmt.Sprintf("%s answered %s; policy accept=%v, %d of %d recipients already accepted", line, rep.String(), polOK, len(accepted), m.Max))
				return
			}
			if script != nil {
				res := "accepted"
				switch {
				case !polOK:
					res = "refused-policy"
					if failingKind(script.Rcpt) {
						c.Count("lua_rcpt_refused_policy_under_failing_hook", 1)
					}
				case !room:
					res = "refused-limit"
					if failingKind(script.Rcpt) {
						c.Count("lua_rcpt_refused_limit_under_failing_hook", 1)
					}
				}
				extraSeen["lua|rcpt="+script.Rcpt+"|"+res] = true
			}
			switch {
			case want:
				accepted = append(accepted, rc{local, dom})
				c.Count("rcpt_accepted", 1)
				outcomes["rcpt:ok"] = true
			case !polOK:
				c.Count("rcpt_refused_policy", 1)
				outcomes["rcpt:policy"] = true
			default:
				c.Count("rcpt_refused_limit", 1)
				outcomes["rcpt:limit"] = true
				if m.Max == 0 {
					c.Count("rcpt_refused_limit_zero", 1)
					if allowExt && !allowShadowed && strings.HasPrefix(local, "al") {
						// an explicit allow of an extension overrides the lists, never the limit
						c.Count("rcpt_refused_limit_zero_allowed_by_extension", 1)
					}
				}
			}
		}
		if len(accepted) > m.Max {
			fail("C05:rcpt-accepted-beyond-limit", fmt.Sprintf("%d recipients accepted in one transaction, limit %d", len(accepted), m.Max))
			return
		}
		if len(accepted) == m.Max {
			c.Count("transactions_at_limit", 1)
		}
		if m.Max == 0 {
			c.Count("transactions_limit_zero", 1)
		}
		// Added after seeded change C05-13: a transaction in which no RCPT was accepted (limit 0, or
		// every recipient refused by the lists) holds no recipient, so nothing may reach the store
		// for it.  Half of them try DATA before the RSET.  The reply to that DATA is C03's business and
		// not judged; if the server does start a data block it gets a message, and the store check
		// below (accepted is empty, the store must hold what it held before) decides.
		if len(accepted) == 0 && r.Bool() {
			rep, err := ss.Cmd("DATA")
			if err != nil {
				fail("C05:reply-shape", err.Error())
				return
			}
			c.Count("data_attempts_without_recipient", 1)
			if m.Max == 0 {
				c.Count("data_attempts_without_recipient_limit_zero", 1)
			}
			outcomes["end:data-without-recipient"] = true
			if rep.Code == 354 {
				c.Count("data_without_recipient_answered_354", 1)
				if rep, err = ss.Cmd(dataShapes[0] + "."); err != nil {
					fail("C05:reply-shape", err.Error())
					return
				}
			}
		}
		// end of transaction
		if len(accepted) == 0 || r.Chance(1, 8) {
			if _, err := ss.Cmd("RSET"); err != nil {
				fail("C05:reply-shape", err.Error())
				return
			}
			outcomes["end:rset"] = true
			accepted = nil
		} else {
			rep, err := ss.Cmd("DATA")
			if err != nil || rep.Code != 354 {
				c.Inconclusive(fmt.Sprintf("DATA with accepted recipients answered %v %v (C03 territory)", rep, err))
				return
			}
			// The store rule does not depend on what the message looks like (shapes added after
			// seeded change C05-10: a fallback path for unparseable headers that skips the rule).
			// A message the server refuses (451 for headers it cannot parse) is stored for nobody.
			shape := r.Intn(len(dataShapes))
			rep, err = ss.Cmd(dataShapes[shape] + ".")
			if err != nil || (rep.Code != 250 && rep.Class() != 4 && rep.Class() != 5) {
				c.Inconclusive(fmt.Sprintf("end of DATA answered %v %v", rep, err))
				return
			}
			c.Count(fmt.Sprintf("data_shape_%d_answered_%dxx", shape, rep.Class()), 1)
			if rep.Code != 250 {
				outcomes["end:data-refused"] = true
				refusedData = true
			}
			if script != nil {
				c.Count("lua_transactions_delivered", 1)
				c.Count("lua_before_stored_emissions", int64(storedEmits))
				storedEmits = 0
			}
		}
		// store content: one message per accepted recipient whose domain the store rule admits
		var names []string
		for _, a := range accepted {
			names = append(names, strings.ToLower(a.local))
		}
		if refusedData {
			accepted, refusedData = nil, false
		}
		snap, err := sut.Snapshot(env.Store, names, false)
		if err != nil {
			fail("C05:store-unreadable", err.Error())
			return
		}
		owed := map[string]int{} // mailbox -> copies the store rule demands
		for _, a := range accepted {
			if m.stores(a.domain) {
				owed[strings.ToLower(a.local)]++
			}
		}
		for _, a := range accepted {
			want := m.stores(a.domain)
			box := strings.ToLower(a.local)
			got := len(snap[box])
			switch {
			case got < owed[box]:
				fail(fmt.Sprintf("C05:not-stored-against-policy:default=%v", m.DefStore),
					fmt.Sprintf("recipient %s@%s accepted; the store rule owes mailbox %q %d copies (per recipient), it holds %d", a.local, a.domain, box, owed[box], got))
				return
			case got > owed[box]:
				fail(fmt.Sprintf("C05:stored-against-policy:default=%v", m.DefStore),
					fmt.Sprintf("recipient %s@%s accepted; the store rule owes mailbox %q %d copies (per recipient), it holds %d", a.local, a.domain, box, owed[box], got))
				return
			case want:
				stored++
				c.Count("messages_stored", 1)
				outcomes["stored"] = true
				if script != nil {
					acc["lua_stored_hook_"+script.Stored+"_stored"]++
					extraSeen["lua|stored="+script.Stored+"|stored"] = true
				}
			default:
				c.Count("recipients_discarded", 1)
				outcomes["discarded"] = true
				if script != nil {
					acc["lua_stored_hook_"+script.Stored+"_discarded"]++
					extraSeen["lua|stored="+script.Stored+"|discarded"] = true
					if failingKind(script.Stored) {
						c.Count("lua_discarded_under_failing_stored_hook", 1)
					}
				}
			}
		}
		if n := sut.SnapCount(snap); n != stored {
			fail("C05:unexpected-store-content", fmt.Sprintf("store holds %d messages, the policy model expects %d", n, stored))
			return
		}
		c.Count("transactions", 1)
	}
	var ks []string
	for k := range outcomes {
		ks = append(ks, k)
	}
	sort.Strings(ks)
	if len(ks) > 0 {
		c.NonTrivial(fmt.Sprintf("session|%v%v%d|%s", m.DefAccept, m.DefStore, m.Max, strings.Join(ks, ",")))
	}
	if r.Chance(1, 500) {
		d := m.describe()
		d["trace_head"] = head(ss.Trace, 14)
		c.Sample(d)
	}
}

func head(t []sut.Exchange, n int) []sut.Exchange {
	if len(t) > n {
		return t[:n]
	}
	return t
}

// ---- the wildcard matcher ------------------------------------------------------------------------------

// countStrings is the number of strings of length 0..maxLen over k symbols.
func countStrings(k, maxLen int) int {
	n, p := 0, 1
	for l := 0; l <= maxLen; l++ {
		n += p
		p *= k
	}
	return n
}

// nthString enumerates strings over alphabet by length, then lexicographically.
func nthString(alphabet string, i int) string {
	k := len(alphabet)
	l, p := 0, 1
	for i >= p {
		i -= p
		p *= k
		l++
	}
	b := make([]byte, l)
	for j := l - 1; j >= 0; j-- {
		b[j] = alphabet[i%k]
		i /= k
	}
	return string(b)
}

func enumerate(alphabet string, maxLen int) []string {
	n := countStrings(len(alphabet), maxLen)
	out := make([]string, n)
	for i := range out {
		out[i] = nthString(alphabet, i)
	}
	return out
}

func checkPair(c *fw.Ctx, p string, re *regexp.Regexp, s string) bool {
	want := oracleMatch(p, re, s)
	got := stringutil.MatchWithWildcards(p, s)
	if got != want {
		lead := "literal"
		switch {
		case p == "":
			lead = "empty-pattern"
		case p[0] == '*':
			lead = "star"
		case p[0] == '?':
			lead = "question"
		}
		c.Violation(fmt.Sprintf("C05:MatchWithWildcards:leading=%s:expected=%v", lead, want),
			fmt.Sprintf("MatchWithWildcards(%q, %q)=%v, the wildcard rules give %v", p, s, got, want), nil)
	}
	// Added after seeded change C05-8: the sender decision is taken by the policy predicate, which
	// may do more than call the matcher; the same pair must come out the same through it (one
	// pattern in the list; subjects here are lower case, so the predicate's folding is the identity).
	originPol.Config.SMTP.RejectOriginDomains[0] = p
	if refused := !originPol.ShouldAcceptOriginDomain(s); refused != want {
		kind := "literal"
		star, q := strings.Contains(p, "*"), strings.Contains(p, "?")
		switch {
		case p == "":
			kind = "empty"
		case star && q:
			kind = "star-and-question"
		case star:
			kind = "star-only"
		case q:
			kind = "question-only"
		}
		c.Violation(fmt.Sprintf("C05:ShouldAcceptOriginDomain:single-pattern=%s:expected-refused=%v", kind, want),
			fmt.Sprintf("with reject-origin list [%q] (%s), ShouldAcceptOriginDomain(%q)=%v; the wildcard rules say the pattern matches=%v",
				p, strings.Join(patFeatures(p), ","), s, !refused, want), nil)
	}
	return want
}

// originPol is a policy whose reject-origin list holds the one pattern under test (checkPair).
var originPol = &policy.Addressing{Config: &config.Root{SMTP: config.SMTP{DefaultAccept: true, DefaultStore: true,
	RejectOriginDomains: []string{""}}}}

func wildExhaustive(c *fw.Ctx, p string, subjects []string) {
	re := wildRE(p)
	nt, nf := 0, 0
	for _, s := range subjects {
		if checkPair(c, p, re, s) {
			nt++
		} else {
			nf++
		}
	}
	c.Count("wild_pairs", int64(len(subjects)))
	c.Count("wild_match_true", int64(nt))
	c.Count("wild_match_false", int64(nf))
	c.Count("wild_exhaustive_patterns", 1)
	c.Count("origin_single_pattern_pairs", int64(len(subjects)))
	c.NonTrivial(fmt.Sprintf("wild-exh|%s|%d|%v%v", patShape(p), len(p), nt > 0, nf > 0))
}

func wildRandom(c *fw.Ctx, r *fw.Rand) {
	for k := 0; k < 50; k++ {
		pl := r.Range(0, 14)
		pb := make([]byte, pl)
		for j := range pb {
			pb[j] = "aaabbc**?"[r.Intn(9)]
		}
		p := string(pb)
		var s string
		how := "random"
		switch r.Intn(4) {
		case 0:
			s = r.Letters(r.Range(0, 16), "abc")
		case 1:
			s = instantiateABC(r, p)
			how = "instance"
		default:
			b := []byte(instantiateABC(r, p))
			how = "edited"
			if len(b) > 0 {
				i := r.Intn(len(b))
				switch r.Intn(3) {
				case 0:
					b = append(b[:i], b[i+1:]...)
				case 1:
					b[i] = "abc"[r.Intn(3)]
				default:
					b = append(b[:i], append([]byte{"abc"[r.Intn(3)]}, b[i:]...)...)
				}
			}
			s = string(b)
		}
		res := checkPair(c, p, nil, s)
		c.Count("wild_pairs", 1)
		c.Count("origin_single_pattern_pairs", 1)
		c.Count("wild_match_"+tf(res), 1)
		rel := "eq"
		if len(p) > len(s) {
			rel = "longer"
		} else if len(p) < len(s) {
			rel = "shorter"
		}
		c.NonTrivial(fmt.Sprintf("wild-rand|%s|%s|%s|%v", patShape(p), how, rel, res))
	}
}

func instantiateABC(r *fw.Rand, p string) string {
	var b strings.Builder
	for i := 0; i < len(p); i++ {
		switch p[i] {
		case '*':
			b.WriteString(r.Letters(r.Range(0, 3), "abc"))
		case '?':
			b.WriteByte("abc"[r.Intn(3)])
		default:
			b.WriteByte(p[i])
		}
	}
	return b.String()
}

// senderDomain is sessionDomain, except that with reject-origin patterns configured a third of
// the senders are instances of a pattern or one edit away from one (added after seeded change
// C05-8: the arrangement of the pattern decides, so the senders must sit at the patterns).
func senderDomain(r *fw.Rand, m *policyModel) string {
	if len(m.Origins) > 0 && r.Chance(1, 3) {
		for try := 0; try < 20; try++ {
			b := []byte(instantiate(r, r.Pick(m.Origins)))
			if len(b) > 1 && r.Bool() {
				i := r.Intn(len(b))
				switch r.Intn(3) {
				case 0:
					b = append(b[:i], b[i+1:]...)
				case 1:
					b[i] = letters[r.Intn(26)]
				default:
					b = append(b[:i], append([]byte{letters[r.Intn(26)]}, b[i:]...)...)
				}
			}
			if d := string(b); validDomain(d) {
				return gen.RandCase(r, d)
			}
		}
	}
	return sessionDomain(r, m)
}
