// Package c05 will hold the check for property C05.
package c05
