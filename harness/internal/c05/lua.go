package c05

import (
	"fmt"
	"os"
	"path/filepath"
	"strings"

	"github.com/inbucket/inbucket/v3/pkg/config"
	"github.com/inbucket/inbucket/v3/pkg/extension"
	"github.com/inbucket/inbucket/v3/pkg/extension/luahost"

	"verifharness/internal/fw"
)

// Added after seeded change C05-7 (luahost answered a FAILED before.message_stored handler with the
// unmodified inbound message, which Deliver takes as "the extension overrides the store policy":
// mail for discard domains was stored).  The sessions of this check ran without any script, or with
// a Go listener that decides; the class never exercised is "an extension is configured but takes no
// decision": then the statement's rules decide alone - accepted exactly by the accept/reject rule,
// refused origin exactly by the patterns, stored exactly by the store/discard rule, never more than
// the limit.  A third of the sessions now run with a REAL Lua script (written to a file, loaded with
// conf.Lua.Path + luahost.New on the environment's extension host, as cmd/inbucket does) in which
// each of the three "before" hooks is absent or takes no decision in one of these ways: raises
// (string, table, nil error value, runtime error, assert), raises after modifying its argument,
// returns nothing / nil / false / smtp.defer(), returns a value of the wrong type (string, number,
// table, boolean, function, userdata of another type), or raises only for some inputs.  The oracle
// of the session is unchanged: the policy model decides.

// hookKind -> bodies.  %s is not used; bodies are complete statement lists ending the function.
var luaRaise = map[string][]string{
	"raise-string":  {`error("c05 boom")`, `error("c05 boom", 0)`, `assert(false, "c05 assert")`, `assert(nil)`},
	"raise-table":   {`error({})`, `error({ code = 42 })`, `error(setmetatable({}, {}))`},
	"raise-nil":     {`error()`, `error(nil)`},
	"runtime-error": {"local t = nil\nt.x = 1", `c05_undefined_function()`, `local n = 1 + nil`, `local s = ("x"):c05_no_such_method()`, `local v = nil .. "x"`},
}

var luaNoAnswer = map[string][]string{
	"return-nothing": {``, `return`, `do return end`},
	"return-nil":     {`return nil`, "local x = nil\nreturn x"},
	"return-false":   {`return false`},
}

var luaJunkSession = []string{`return "allow"`, `return "deny"`, `return 250`, `return 0`, `return {}`, `return { action = "allow" }`,
	`return true`, `return function() return smtp.allow() end`, `return session.from`, `return session`, `return smtp`, `return ""`}

var luaJunkStored = []string{`return "c05"`, `return msg.subject`, `return 42`, `return 0`, `return {}`, `return { mailboxes = { "c05-junk" } }`,
	`return true`, `return function() return msg end`, `return msg.from`, `return msg.mailboxes`, `return msg.to`, `return smtp.allow()`,
	`return smtp.defer()`, `return inbound_message`, `return ""`}

var luaMutateRaiseStored = []string{
	"msg.mailboxes = { \"c05-evil\" }\nerror(\"c05 boom\")",
	"msg.mailboxes = {}\nerror({})",
	"msg.subject = \"c05 changed\"\nlocal t = nil\nt.x = 1",
	"local mb = msg.mailboxes\nmb[#mb + 1] = \"c05-evil\"\nmsg.mailboxes = mb\nerror()",
}

// conditions under which a conditional handler raises (else it returns nil)
var luaCondSession = []string{`#session.to >= 2`, `#session.to == 1`, `string.find(session.from.address, "a") ~= nil`,
	`session.to[#session.to] ~= nil and string.sub(session.to[#session.to].address, 1, 1) == "a"`}
var luaCondStored = []string{`#msg.mailboxes >= 2`, `#msg.mailboxes == 1`, `msg.size > 0`, `string.sub(msg.mailboxes[1], 1, 1) == "a"`, `msg.subject == "c05"`}

var luaHookKinds = []string{"absent", "raise-string", "raise-table", "raise-nil", "runtime-error", "return-nothing", "return-nil",
	"return-false", "return-junk", "raise-sometimes", "explicit-defer", "mutate-raise"}

// genHook returns (kind, lua source) of one hook; hook is "mail", "rcpt" or "stored".
func genHook(r *fw.Rand, hook string) (string, string) {
	name, arg := "inbucket.before.message_stored", "msg"
	switch hook {
	case "mail":
		name, arg = "inbucket.before.mail_from_accepted", "session"
	case "rcpt":
		name, arg = "inbucket.before.rcpt_to_accepted", "session"
	}
	kind := luaHookKinds[r.Weighted([]int{3, 3, 2, 1, 3, 1, 2, 1, 4, 2, 1, 2})]
	var body string
	switch kind {
	case "absent":
		return kind, ""
	case "return-junk":
		if hook == "stored" {
			body = r.Pick(luaJunkStored)
		} else {
			body = r.Pick(luaJunkSession)
		}
	case "raise-sometimes":
		cond := r.Pick(luaCondSession)
		if hook == "stored" {
			cond = r.Pick(luaCondStored)
		}
		var all []string
		for _, k := range []string{"raise-string", "raise-table", "raise-nil", "runtime-error"} {
			all = append(all, luaRaise[k]...)
		}
		body = "if " + cond + " then\n" + r.Pick(all) + "\nend\nreturn nil"
	case "explicit-defer":
		if hook == "stored" {
			kind, body = "return-nil", "return nil"
		} else {
			body = "return smtp.defer()"
		}
	case "mutate-raise":
		if hook == "stored" {
			body = r.Pick(luaMutateRaiseStored)
		} else {
			// reading the argument, then failing (no modification of the session: C17 territory)
			body = "local n = #session.to\nlocal f = session.from.address\nerror(\"c05 boom \" .. f .. n)"
			kind = "raise-string"
		}
	default:
		if bs, ok := luaRaise[kind]; ok {
			body = r.Pick(bs)
		} else {
			body = r.Pick(luaNoAnswer[kind])
		}
	}
	return kind, "function " + name + "(" + arg + ")\n" + body + "\nend\n\n"
}

type luaScript struct {
	Mail, Rcpt, Stored string // hook kinds
	Source             string
}

func genIdleScript(r *fw.Rand) luaScript {
	var s luaScript
	var a, b, c string
	s.Mail, a = genHook(r, "mail")
	s.Rcpt, b = genHook(r, "rcpt")
	// the stored hook is the one with the largest effect: present three times out of four
	s.Stored, c = genHook(r, "stored")
	for n := 0; n < 2 && s.Stored == "absent"; n++ {
		s.Stored, c = genHook(r, "stored")
	}
	s.Source = "-- c05: hooks that take no decision\nlocal loaded = true\n\n" + a + b + c
	return s
}

// failing says whether a hook of that kind fails (raises or answers with a wrong type) on at least
// some calls, as opposed to deferring properly.
func failingKind(k string) bool {
	switch k {
	case "absent", "return-nothing", "return-nil", "return-false", "explicit-defer":
		return false
	}
	return true
}

var luaDir string

// installLua writes the script to a file and loads it the way cmd/inbucket does.
func installLua(c *fw.Ctx, host *extension.Host, s luaScript, n int) {
	if luaDir == "" {
		luaDir = c.TempDir("c05lua")
	}
	path := filepath.Join(luaDir, fmt.Sprintf("inbucket-%d.lua", n%4))
	if err := os.WriteFile(path, []byte(s.Source), 0o600); err != nil {
		panic(err)
	}
	h, err := luahost.New(config.Lua{Path: path}, host)
	_ = os.Remove(path) // compiled at load time
	if err != nil || h == nil {
		panic(fmt.Sprintf("c05: luahost.New refused the harness script: %v\n%s", err, strings.TrimSpace(s.Source)))
	}
}
