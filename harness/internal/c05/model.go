package c05

import (
	"fmt"
	"os"
	"regexp"
	"strconv"
	"strings"

	"github.com/inbucket/inbucket/v3/pkg/config"

	"verifharness/internal/fw"
	"verifharness/internal/gen"
	"verifharness/internal/sut"
)

// ---- M-policy: the documented rules (doc/config.md), written independently -------------------

// wild is the independent recursive matcher: '*' matches any (possibly empty) run of characters,
// '?' exactly one character, everything else itself.
func wild(p, s string) bool {
	if p == "" {
		return s == ""
	}
	switch p[0] {
	case '*':
		for len(p) > 1 && p[1] == '*' {
			p = p[1:]
		}
		if wild(p[1:], s) {
			return true
		}
		return s != "" && wild(p, s[1:])
	case '?':
		return s != "" && wild(p[1:], s[1:])
	}
	return s != "" && p[0] == s[0] && wild(p[1:], s[1:])
}

// wildRE is the regexp translation used to cross-check the recursive matcher.
func wildRE(p string) *regexp.Regexp {
	var b strings.Builder
	b.WriteString("(?s)^")
	for i := 0; i < len(p); i++ {
		switch p[i] {
		case '*':
			b.WriteString(".*")
		case '?':
			b.WriteString(".")
		default:
			b.WriteString(regexp.QuoteMeta(p[i : i+1]))
		}
	}
	b.WriteString("$")
	return regexp.MustCompile(b.String())
}

// oracleMatch returns the model's answer; the two independent formulations must agree, otherwise
// the harness itself is broken.
func oracleMatch(p string, re *regexp.Regexp, s string) bool {
	a := wild(p, s)
	if re == nil {
		re = wildRE(p)
	}
	if b := re.MatchString(s); a != b {
		panic(fmt.Sprintf("harness oracle inconsistent: pattern %q subject %q recursive=%v regexp=%v", p, s, a, b))
	}
	return a
}

type policyModel struct {
	DefAccept, DefStore                     bool
	Accept, Reject, Store, Discard, Origins []string // as written in the environment (mixed case)
	Max                                     int
}

func listed(list []string, domain string) bool {
	d := strings.ToLower(domain)
	for _, e := range list {
		if strings.ToLower(e) == d {
			return true
		}
	}
	return false
}

func (m *policyModel) accepts(domain string) bool {
	if m.DefAccept {
		return !listed(m.Reject, domain)
	}
	return listed(m.Accept, domain)
}

func (m *policyModel) stores(domain string) bool {
	if m.DefStore {
		return !listed(m.Discard, domain)
	}
	return listed(m.Store, domain)
}

func (m *policyModel) originOK(domain string) bool {
	d := strings.ToLower(domain)
	for _, p := range m.Origins {
		if oracleMatch(strings.ToLower(p), nil, d) {
			return false
		}
	}
	return true
}

// ---- generators --------------------------------------------------------------------------------

var pool = []string{"alpha.test", "beta.test", "gamma.example", "mail.alpha.test", "x-y.z9.test", "delta.example",
	"a.b", "localhost", "test", "alpha.tes", "alpha.test.", "xalpha.test", "[192.168.1.5]", "[ipv6:2001:db8::1]",
	"beta.tesu", "example"}

const letters = "abcdefghijklmnopqrstuvwxyz"

func pickList(r *fw.Rand) []string {
	// up to a dozen entries (longer lists after seeded change C05-9: every entry of a list counts,
	// not only the first few)
	n := []int{0, 1, 2, 3, 4, 6, 7, 9, 12}[r.Weighted([]int{4, 6, 6, 4, 2, 2, 2, 1, 1})]
	var l []string
	for j := 0; j < n; j++ {
		d := r.Pick(pool)
		switch r.Intn(4) {
		case 0:
			d = gen.RandCase(r, d)
		case 1:
			d = strings.ToUpper(d)
		}
		l = append(l, d)
	}
	return l
}

func genPattern(r *fw.Rand) string {
	d := r.Pick(pool)
	n := len(d)
	cut := func() int { return r.Range(1, n-1) }
	var p string
	switch r.Intn(20) {
	case 0:
		p = d
	case 1:
		p = "*"
	case 2:
		p = "**"
	case 3:
		p = "*.*"
	case 4:
		p = strings.Repeat("?", n)
	case 5:
		p = "*" + d[cut():]
	case 6:
		p = d[:cut()] + "*"
	case 7:
		a := cut()
		b := r.Range(a, n)
		p = d[:a] + "*" + d[b:]
	case 8:
		a := cut()
		p = d[:a] + "**" + d[a:]
	case 9:
		i := r.Intn(n)
		p = d[:i] + "?" + d[i+1:]
	case 10:
		p = "?" + d[1:]
	case 11:
		p = d[:n-1] + "?"
	case 12:
		p = d + "*"
	case 13:
		p = "*" + d
	case 14:
		p = d + "?"
	case 15:
		p = "?" + d
	case 16:
		p = "*" + d[r.Intn(n):][:1] + "*"
	case 17:
		p = d + ".extra"
	case 18:
		p = d[:n-1]
	default:
		a := cut()
		p = "*" + d[a:a+1] + "?*" + d[n-1:]
	}
	if r.Chance(1, 3) {
		p = gen.RandCase(r, p)
	}
	return p
}

func genModel(r *fw.Rand) *policyModel {
	// Added after seeded change C05-13: the corner of the limit itself.  One configuration in eight has
	// MaxRecipients=0 ("no transaction ever holds more than the configured maximum" then means: no
	// RCPT is ever accepted, nothing is ever stored); 1, the smallest limit that admits anything, was
	// generated before and keeps a quarter.  The model needs no special case: room = accepted < Max.
	m := &policyModel{DefAccept: r.Bool(), DefStore: r.Bool(), Max: []int{0, 1, 1, 2, 2, 5, 5, 5}[r.Intn(8)]}
	m.Accept, m.Reject, m.Store, m.Discard = pickList(r), pickList(r), pickList(r), pickList(r)
	np := []int{0, 1, 2, 3, 6, 8}[r.Weighted([]int{6, 8, 6, 4, 2, 1})]
	for j := 0; j < np; j++ {
		// half template patterns, half composed ones (any arrangement of the grammar, see patterns.go)
		if r.Bool() {
			m.Origins = append(m.Origins, genPatternComposed(r))
		} else {
			m.Origins = append(m.Origins, genPattern(r))
		}
	}
	if np > 0 && r.Chance(1, 8) {
		// the empty pattern, only next to another entry (a lone "" is the unset list)
		at := r.Intn(len(m.Origins) + 1)
		m.Origins = append(m.Origins[:at], append([]string{""}, m.Origins[at:]...)...)
	}
	return m
}

// instantiate turns a pattern into a subject it should match.
func instantiate(r *fw.Rand, p string) string {
	var b strings.Builder
	for i := 0; i < len(p); i++ {
		switch p[i] {
		case '*':
			b.WriteString(r.Letters(r.Range(0, 4), letters+"."))
		case '?':
			b.WriteByte(letters[r.Intn(26)])
		default:
			b.WriteByte(p[i])
		}
	}
	return b.String()
}

// genDomainInput returns a domain to ask the predicates about, with a class label.
func genDomainInput(r *fw.Rand, m *policyModel) (string, string) {
	lists := [][]string{m.Accept, m.Reject, m.Store, m.Discard}
	switch r.Intn(12) {
	case 0:
		return r.Pick(pool), "pool"
	case 1:
		return gen.RandCase(r, r.Pick(pool)), "pool-randcase"
	case 2:
		return strings.ToUpper(r.Pick(pool)), "pool-upper"
	case 3:
		l := lists[r.Intn(4)]
		if len(l) > 0 {
			return gen.RandCase(r, r.Pick(l)), "listed-randcase"
		}
		return r.Pick(pool), "pool"
	case 4:
		return letters[r.Intn(26):][:1] + "." + r.Pick(pool), "subdomain"
	case 5:
		d := r.Pick(pool)
		return d[:len(d)-1], "near-drop-last"
	case 6:
		return r.Pick(pool) + letters[r.Intn(26):][:1], "near-append"
	case 7:
		d := []byte(gen.RandCase(r, r.Pick(pool)))
		i := r.Intn(len(d))
		d[i] = letters[r.Intn(26)]
		return string(d), "near-replace"
	case 8:
		if len(m.Origins) > 0 {
			return gen.RandCase(r, instantiate(r, r.Pick(m.Origins))), "pattern-instance"
		}
		return r.Pick(pool), "pool"
	case 9:
		if len(m.Origins) > 0 {
			d := []byte(instantiate(r, strings.ToLower(r.Pick(m.Origins))))
			if len(d) > 0 {
				i := r.Intn(len(d))
				if r.Bool() {
					d = append(d[:i], d[i+1:]...)
				} else {
					d[i] = letters[r.Intn(26)]
				}
			}
			return string(d), "pattern-near-miss"
		}
		return r.Pick(pool), "pool"
	case 10:
		return "", "empty"
	default:
		return r.Letters(r.Range(1, 6), letters) + "." + r.Letters(r.Range(2, 4), letters), "random"
	}
}

// validDomain is a conservative syntax check (harness side): only domains passing it are used on
// live sessions, so that a 5xx can only come from policy.
func validDomain(d string) bool {
	switch strings.ToLower(d) {
	case "[192.168.1.5]", "[ipv6:2001:db8::1]":
		return true
	}
	if d == "" || len(d) > 60 {
		return false
	}
	for _, lab := range strings.Split(strings.TrimSuffix(d, "."), ".") {
		if lab == "" {
			return false
		}
		for i := 0; i < len(lab); i++ {
			c := lab[i]
			isAN := ('a' <= c && c <= 'z') || ('A' <= c && c <= 'Z') || ('0' <= c && c <= '9')
			if !isAN && !(c == '-' && i > 0 && i < len(lab)-1 && lab[i-1] != '-') {
				return false
			}
		}
	}
	return true
}

// ---- loading through the environment ---------------------------------------------------------

var envNames = []string{"INBUCKET_SMTP_DEFAULTACCEPT", "INBUCKET_SMTP_ACCEPTDOMAINS", "INBUCKET_SMTP_REJECTDOMAINS",
	"INBUCKET_SMTP_DEFAULTSTORE", "INBUCKET_SMTP_STOREDOMAINS", "INBUCKET_SMTP_DISCARDDOMAINS",
	"INBUCKET_SMTP_REJECTORIGINDOMAINS", "INBUCKET_SMTP_MAXRECIPIENTS"}

func setList(r *fw.Rand, name string, l []string) {
	if len(l) == 0 {
		if r.Chance(1, 4) {
			_ = os.Setenv(name, "")
		} else {
			_ = os.Unsetenv(name)
		}
		return
	}
	_ = os.Setenv(name, strings.Join(l, ","))
}

// load puts the model's configuration into the process environment, runs config.Process() and
// returns a configuration whose policy fields are exactly what inbucket loaded.
func load(c *fw.Ctx, r *fw.Rand, m *policyModel) *config.Root {
	for _, n := range envNames {
		_ = os.Unsetenv(n)
	}
	_ = os.Setenv("INBUCKET_SMTP_DEFAULTACCEPT", strconv.FormatBool(m.DefAccept))
	_ = os.Setenv("INBUCKET_SMTP_DEFAULTSTORE", strconv.FormatBool(m.DefStore))
	_ = os.Setenv("INBUCKET_SMTP_MAXRECIPIENTS", strconv.Itoa(m.Max))
	setList(r, "INBUCKET_SMTP_ACCEPTDOMAINS", m.Accept)
	setList(r, "INBUCKET_SMTP_REJECTDOMAINS", m.Reject)
	setList(r, "INBUCKET_SMTP_STOREDOMAINS", m.Store)
	setList(r, "INBUCKET_SMTP_DISCARDDOMAINS", m.Discard)
	setList(r, "INBUCKET_SMTP_REJECTORIGINDOMAINS", m.Origins)
	loaded, err := config.Process()
	for _, n := range envNames {
		_ = os.Unsetenv(n)
	}
	if err != nil {
		panic("config.Process: " + err.Error())
	}
	conf := sut.DefaultConf()
	conf.SMTP.DefaultAccept = loaded.SMTP.DefaultAccept
	conf.SMTP.DefaultStore = loaded.SMTP.DefaultStore
	conf.SMTP.MaxRecipients = loaded.SMTP.MaxRecipients
	conf.SMTP.AcceptDomains = loaded.SMTP.AcceptDomains
	conf.SMTP.RejectDomains = loaded.SMTP.RejectDomains
	conf.SMTP.StoreDomains = loaded.SMTP.StoreDomains
	conf.SMTP.DiscardDomains = loaded.SMTP.DiscardDomains
	conf.SMTP.RejectOriginDomains = loaded.SMTP.RejectOriginDomains
	// The switches, the limit and the list lengths must arrive as written (entries may be re-cased).
	same := func(a, b []string) bool {
		if len(a) != len(b) {
			return false
		}
		for i := range a {
			if !strings.EqualFold(a[i], b[i]) {
				return false
			}
		}
		return true
	}
	if loaded.SMTP.DefaultAccept != m.DefAccept || loaded.SMTP.DefaultStore != m.DefStore || loaded.SMTP.MaxRecipients != m.Max ||
		!same(loaded.SMTP.AcceptDomains, m.Accept) || !same(loaded.SMTP.RejectDomains, m.Reject) ||
		!same(loaded.SMTP.StoreDomains, m.Store) || !same(loaded.SMTP.DiscardDomains, m.Discard) ||
		!same(loaded.SMTP.RejectOriginDomains, m.Origins) {
		c.Violation("C05:config-load-mismatch", fmt.Sprintf("environment %+v loaded as %+v", *m, loaded.SMTP), nil)
	}
	return conf
}

func (m *policyModel) describe() map[string]any {
	return map[string]any{"default_accept": m.DefAccept, "default_store": m.DefStore, "max_recipients": m.Max,
		"accept": m.Accept, "reject": m.Reject, "store": m.Store, "discard": m.Discard, "reject_origin": m.Origins}
}
