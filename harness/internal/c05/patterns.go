package c05

import (
	"sort"
	"strings"

	"verifharness/internal/fw"
	"verifharness/internal/gen"
)

// Added after seeded change C05-8 (a literal-suffix shortcut in front of the wildcard matcher inside
// ShouldAcceptOriginDomain that compared a '?' after the last '*' literally).  The template
// generator genPattern puts at most one kind of wildcard at one place of a pool domain, so whole
// arrangements of the grammar were never written into INBUCKET_SMTP_REJECTORIGINDOMAINS: a '?'
// behind the last '*', several separated '*', '?' on both sides of a '*', wildcards at both ends
// at once.  The statement quantifies over "reject-origin patterns with * and ? wildcards", i.e. the
// whole grammar, and the decision is taken by the policy predicate (not by the matcher alone), so
//   - genPatternComposed walks over a domain and at every position keeps the character, replaces it
//     by '?', replaces a run by '*', or inserts a wildcard, with optional wildcard prefix/suffix;
//     every arrangement has positive probability and the common ones are frequent;
//   - patFeatures classifies a pattern by arrangement; the config and session streams count, per
//     arrangement, decisions where such a pattern matched and where it just did not (MinObs);
//   - the exhaustive and random matcher streams put every (pattern, subject) pair through
//     policy.ShouldAcceptOriginDomain with a one-pattern list as well (see checkPair).

// genPatternComposed derives a pattern from a domain by a random walk over its characters.
func genPatternComposed(r *fw.Rand) string {
	var d string
	switch r.Intn(4) {
	case 0:
		d = r.Letters(r.Range(1, 6), letters) + "." + r.Letters(r.Range(2, 4), letters)
	case 1:
		d = r.Letters(r.Range(1, 4), letters+"0123456789") + "." + r.Pick(pool)
	default:
		d = r.Pick(pool)
	}
	if r.Chance(1, 10) {
		// wildcards only
		return r.Letters(r.Range(1, 4), "*?")
	}
	den := []int{3, 5, 9}[r.Intn(3)] // wildcard density of this pattern: 1/den per position
	wildcard := func() string {
		return []string{"?", "?", "*", "*", "??", "*?", "?*", "**", "?*?", "*?*"}[r.Intn(10)]
	}
	var b strings.Builder
	if r.Chance(1, 4) {
		b.WriteString(wildcard())
	}
	for i := 0; i < len(d); {
		if !r.Chance(1, den) {
			b.WriteByte(d[i])
			i++
			continue
		}
		switch r.Intn(5) {
		case 0: // '?' for this character
			b.WriteByte('?')
			i++
		case 1: // '*' for a run (possibly empty) of characters
			b.WriteByte('*')
			i += r.Range(0, 4)
		case 2: // an inserted '?': the pattern asks for one more character than the domain has
			b.WriteByte('?')
		case 3: // '?' for each character of a short run
			n := r.Range(1, 3)
			b.WriteString(strings.Repeat("?", n))
			i += n
		default: // a group of wildcards for a run
			b.WriteString(wildcard())
			i += r.Range(0, 3)
		}
	}
	if r.Chance(1, 4) {
		b.WriteString(wildcard())
	}
	p := b.String()
	if r.Chance(1, 3) {
		p = gen.RandCase(r, p)
	}
	return p
}

// patFeatures names the arrangements of wildcards present in a pattern.
func patFeatures(p string) []string {
	var f []string
	last := strings.LastIndexByte(p, '*')
	hasQ := strings.Contains(p, "?")
	switch {
	case p == "":
		return []string{"empty"}
	case last < 0 && !hasQ:
		f = append(f, "literal")
	case strings.Trim(p, "*?") == "":
		f = append(f, "onlywild")
	}
	if last < 0 && hasQ {
		f = append(f, "q_nostar")
	}
	if last >= 0 {
		if strings.Contains(p[last+1:], "?") {
			f = append(f, "q_after_last_star")
		}
		if strings.Contains(p[:last], "?") {
			f = append(f, "q_before_last_star")
		}
		// several stars separated by something
		if first := strings.IndexByte(p, '*'); strings.Trim(p[first:last+1], "*") != "" {
			f = append(f, "multistar")
		}
		if strings.Contains(p, "**") {
			f = append(f, "adjacent_stars")
		}
	}
	if p[0] == '*' || p[0] == '?' {
		f = append(f, "leading_wild")
	}
	if p[len(p)-1] == '*' || p[len(p)-1] == '?' {
		f = append(f, "trailing_wild")
	}
	if p != strings.ToLower(p) {
		f = append(f, "mixedcase")
	}
	return f
}

// patFeatureList is every feature that patFeatures can name (for the observability minimum).
var patFeatureList = []string{"literal", "onlywild", "q_nostar", "q_after_last_star", "q_before_last_star", "multistar",
	"adjacent_stars", "leading_wild", "trailing_wild", "mixedcase"}

// countPatternDecisions counts, per arrangement, how often a configured pattern matched / did not
// match the domain (by the reference matcher); prefix is the counter family, acc collects the counts
// of the case (flushCounts hands them to the framework).  It returns the sorted
// arrangement features of the patterns that matched.
func countPatternDecisions(acc map[string]int64, prefix string, m *policyModel, domain string) []string {
	d := strings.ToLower(domain)
	hit := map[string]bool{}
	for _, p := range m.Origins {
		res := "nomatch"
		ok := wild(strings.ToLower(p), d)
		if ok {
			res = "match"
		}
		for _, f := range patFeatures(p) {
			acc[prefix+"_"+f+"_"+res]++
			if ok {
				hit[f] = true
			}
		}
	}
	var fs []string
	for f := range hit {
		fs = append(fs, f)
	}
	sort.Strings(fs)
	return fs
}

func flushCounts(c *fw.Ctx, acc map[string]int64) {
	for k, n := range acc {
		c.Count(k, n)
	}
}
