// Package c06 will hold the check for property C06.
package c06
