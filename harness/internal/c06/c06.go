// Package c06 decides C06: a message whose data exceeds the configured maximum message size is
// refused (at MAIL when the declared SIZE is too large, otherwise at DATA) and no part of it is
// stored; messages within the limit are accepted; after a refusal the session stays usable.
package c06

import (
	"bytes"
	"fmt"
	"sort"
	"strconv"
	"strings"
	"time"

	"verifharness/internal/fw"
	"verifharness/internal/sut"
)

var limits = []int{1, 100, 1000, 65536, 1000000}

func init() {
	fw.Register(&fw.Prop{
		ID:    "C06",
		Level: "exploration",
		Rule: "connections generated from (seed, case index): limit = {1,100,1000,65536,1000000}[i mod 5], back end = {mem,file}[(i/5) mod 2]; " +
			"1-3 probe transactions per connection, each a message of CRLF-form length limit+d (d in -12..+12 enumerated by case index, plus " +
			"limit/2, 2x, 3x, 10x, 20x, 100x for small limits, random) shaped as one long line, 60-byte lines, 1-byte lines or dot-led lines, " +
			"with SIZE absent / truthful / understated / overstated-within-limit / = limit / limit+1 / 2x limit / 2^31-1 / 2^31 / 2^32 / " +
			"20 digits / non-numeric, in several spellings. Measures: lo = LF-form length without the final newline, hi = length on the wire " +
			"(CRLF form, stuffed dots, terminator). Declared SIZE > limit => MAIL 5xx; lo > limit => not 2xx and store unchanged; hi <= limit " +
			"with a well-formed header block => 250 and stored; in between don't care. After every refusal a small transaction on the same " +
			"connection must be acknowledged (and stored when it fits the limit). Non-trivial and distinct by (limit, back end, size class, " +
			"shape, SIZE variant, outcome). Overlap stream (after seeded change C06-7): 3-8 sessions open on ONE server (limit in {100,1000,65536,1000000}, mem/file, " +
			"GOMAXPROCS 1 or the child's 4 by case index), every message filled with a token no other message carries; in 1-3 rounds 1-3 within-limit " +
			"deliveries are held inside Deliver by a BeforeMessageStored listener while the other sessions transmit within-limit and oversized messages " +
			"(one by one or in parallel goroutines), then released; lo > limit => not 2xx, hi <= limit => 250; afterwards every stored message must equal, " +
			"behind the three trace-header lines, what its accepted session transmitted, and no token of a refused message may occur in any stored source " +
			"or metadata, nor in any file of the file store's directory. " +
			"Stall stream (after seeded change C06-11): limit in {100,1000,65536,1000000} x mem/file by case index; one oversized message without a (too large) SIZE is sent in two parts, " +
			"the first ending far beyond / just beyond / within 3 bytes of / well before the limit, on a line boundary or inside a line; when the session is blocked in Read the read " +
			"deadline is made to expire once or twice (one case in eight: not at all), then - if the connection is still open - the rest follows: filler, then on lines of their own " +
			"MAIL FROM / RCPT TO / DATA / a small message addressed to a mailbox used nowhere else, then the final dot. Whatever the replies: every mailbox stays empty and (file) no " +
			"file of the store directory contains the outer or inner token; the last reply after the final dot is not 2xx; a session still open has given at most two replies since 354, " +
			"answers NOOP with exactly one reply and carries the follow-up transaction; without an expiry exactly one non-2xx reply and the session stays open. " +
			"Other SMTP switches (after seeded change C06-13): about 5 in 8 connections of the conn stream run against a server with one of, or a random subset of, Debug on / DefaultStore off with inbucket.test in StoreDomains / " +
			"DefaultAccept off with both test domains in AcceptDomains / TLSEnabled with a throw-away certificate (STARTTLS offered, not used), drawn from a stream of their own so the probes are unchanged; same oracle. " +
			"The starttls stream runs one case in five with Debug on and one in five with ForceTLS (the session is handed a tls.Server connection, handshake before the greeting, no STARTTLS), half of those with Debug too.",
		Assumptions: []string{
			"the acceptance side is only asserted for messages that start with a well-formed header block (Deliver may answer 451 otherwise)",
			"sizes between lo and hi of the limit are don't-care, so a pure off-by-one in the comparison is not decidable",
			"non-numeric SIZE values: the MAIL reply is observed, not judged",
			"a follow-up MAIL answered 503 is retried after RSET (a server may keep the failed transaction open); only a follow-up that still fails is a violation",
			"sessions run through VerifServeConn on an in-memory net.Conn",
			"stall stream: the idle timeout is injected as a deadline error of the pending Read on the in-memory connection (sut.QConn.FireReadTimeout), not waited for; a session the server ends at the expiry owes nothing further",
			"switch variants keep the address policy's decision for inbucket.test (accepted, stored) and discard.test (accepted, not stored) as under the defaults; with Debug on at limits 65536 / 1000000 only one in four / eight of the selected connections switch it on (output volume)",
			"overlap stream: the listener that holds a delivery returns nil (no opinion), so the address policy decides exactly as without it; only DATA-phase refusals are produced there",
		},
		MinObs: func(tier string) map[string]int64 {
			f := int64(1)
			if tier == "thorough" {
				f = 8
			}
			m := map[string]int64{"probes": 1500 * f, "must_refuse_data": 300 * f, "must_accept": 200 * f, "dont_care_band": 50 * f,
				"mail_size_over_limit": 150 * f, "refused_at_data": 300 * f, "refused_at_mail": 150 * f, "accepted_and_stored": 200 * f,
				"followups_stored": 300 * f, "followups_usable_only": 30 * f, "distinct_nontrivial": 300,
				"overlap_cases": 70 * f, "overlap_held_deliveries": 120 * f, "overlap_refused_while_held": 150 * f, "overlap_accepted_while_held": 40 * f,
				"overlap_stored_identical": 250 * f, "overlap_parallel_rounds": 30 * f, "overlap_disk_files_scanned": 100 * f,
				"stall_cases": 110 * f, "stall_deadline_expiries": 100 * f, "stall_expiry_beyond_limit": 70 * f, "stall_store_found_empty": 110 * f,
				"stall_control_cases": 12 * f, "stall_inside_a_line": 30 * f, "stall_disk_scans": 55 * f,
				"stall_where:beyond-far": 30 * f, "stall_where:beyond-near": 30 * f, "stall_where:around": 12 * f, "stall_where:before": 12 * f}
			// after seeded change C06-13 (switches.go): the workload under the other SMTP switches
			m["switched_connections"] = 1500 * f
			m["starttls_sessions_debug"] = 6 * f
			m["starttls_sessions_forcetls"] = 4 * f
			for _, n := range switchNames {
				m["switched_must_refuse_data:"+n] = 80 * f
				m["switched_must_accept:"+n] = 30 * f
			}
			for _, l := range limits {
				for _, b := range []string{"mem", "file"} {
					m[fmt.Sprintf("config:%d/%s", l, b)] = 50 * f
					if l >= 100 {
						m[fmt.Sprintf("stall_config:%d/%s", l, b)] = 14 * f
					}
				}
				if l >= 100 {
					m[fmt.Sprintf("refused_at_data:limit=%d", l)] = 30 * f
					m[fmt.Sprintf("accepted_and_stored:limit=%d", l)] = 20 * f
				}
			}
			return m
		},
		Run: run,
	})
}

func run(c *fw.Ctx) {
	n := c.N(4500, 40000)
	c.Cases("conn", n, func(i int, r *fw.Rand) { runConn(c, i, r) })
	c.Cases("starttls", c.N(40, 400), func(i int, r *fw.Rand) { runStartTLS(c, i, r) })
	c.Cases("overlap", c.N(80, 640), func(i int, r *fw.Rand) { runOverlap(c, i, r) })
	c.Cases("stall", c.N(128, 1024), func(i int, r *fw.Rand) { runStall(c, i, r) })
}

// probe is one test message with its SIZE declaration.
type probe struct {
	data      []byte // CRLF-form message, ends in CRLF (or empty)
	shape     string
	hasHeader bool
	lo, hi    int
	sizeKind  string
	sizeParam string // text appended to MAIL FROM:<..>, "" when absent
	declared  int64  // numeric declared value, -1 when absent or not numeric
	hugeNum   bool   // numeric but beyond int64 (20 digits): certainly above every limit
}

const minHeader = "A:b\r\n\r\n"

// buildMessage makes a CRLF-form message of exactly total bytes (total == 0 or >= 2).
func buildMessage(r *fw.Rand, total int, shape string) (data []byte, hasHeader bool) {
	if total <= 0 {
		return nil, false
	}
	if total < len(minHeader) {
		if total < 2 {
			total = 2
		}
		return append(bytes.Repeat([]byte("x"), total-2), '\r', '\n'), false
	}
	var b bytes.Buffer
	b.Grow(total + 2)
	hdr := "A:b"
	if total >= 60 && r.Bool() {
		hdr = "From: big@origin.test\r\nSubject: c06 probe"
	}
	if total-len(hdr)-4 == 1 {
		hdr += "b" // a body of exactly one byte cannot be a CRLF-terminated line
	}
	b.WriteString(hdr + "\r\n\r\n")
	rem := total - b.Len()
	for rem > 0 {
		n := rem // line length including its CRLF
		switch shape {
		case "lines60":
			n = 62
		case "lines1":
			n = 3
		case "dotlines":
			n = 12
		}
		if n >= rem || rem-n == 1 {
			n = rem
		}
		body := n - 2
		lead := ""
		if shape == "dotlines" {
			lead = "."
			if r.Bool() {
				lead = ".."
			}
		}
		if len(lead) > body {
			lead = lead[:body]
		}
		b.WriteString(lead)
		for k := len(lead); k < body; k++ {
			b.WriteByte("abcdefghijklmnopqrstuvwxyz0123456789"[(k*7+n)%36])
		}
		b.WriteString("\r\n")
		rem -= n
	}
	if b.Len() != total {
		panic(fmt.Sprintf("harness: buildMessage(%d,%s) produced %d bytes", total, shape, b.Len()))
	}
	return b.Bytes(), true
}

func measures(data []byte) (lo, hi int) {
	if len(data) == 0 {
		return 0, len(sut.DotStuff(data))
	}
	nl := bytes.Count(data, []byte("\r\n"))
	lo = len(data) - nl - 1
	if lo < 0 {
		lo = 0
	}
	return lo, len(sut.DotStuff(data))
}

var sizeKinds = []string{"absent", "absent", "absent", "absent", "absent", "absent", "truthful", "truthful", "understated",
	"understated", "overstated-within", "eq-limit", "limit+1", "2xlimit", "int32max", "2^31", "2^32", "20digits", "nonnumeric",
	"int64-edge", "uint64-range"}

func genProbe(r *fw.Rand, limit, slot int) probe {
	var p probe
	// Size: the case slot enumerates the offsets around the limit; other slots pick multiples.
	offsets := []int{-12, -8, -6, -5, -4, -3, -2, -1, 0, 1, 2, 3, 4, 5, 6, 7, 8, 9, 12}
	var total int
	switch s := slot % 30; {
	case s < len(offsets):
		total = limit + offsets[s]
	case s == 19:
		total = limit / 2
	case s == 20:
		total = 2 * limit
	case s == 21:
		total = 3 * limit
	case s == 22:
		total = 10 * limit
	case s == 23:
		total = 2*limit + r.Range(0, 50)
	case s == 24:
		total = limit + limit/3
	case s == 25:
		total = r.Range(2, 2*limit+20)
	case s == 26:
		total = limit + r.Range(10, 40)
	default:
		total = r.Range(limit+5, 3*limit+40)
	}
	if limit < 100 && slot%3 == 0 {
		total = limit * []int{10, 20, 100, 13, 40}[r.Intn(5)] // small limits: room for a header block
	}
	if total < 0 {
		total = 0
	}
	if total == 1 {
		total = 2
	}
	p.shape = []string{"oneline", "oneline", "oneline", "lines60", "lines1", "dotlines"}[r.Intn(6)]
	p.data, p.hasHeader = buildMessage(r, total, p.shape)
	p.lo, p.hi = measures(p.data)

	p.sizeKind = sizeKinds[r.Intn(len(sizeKinds))]
	p.declared = -1
	val := ""
	switch p.sizeKind {
	case "absent":
	case "truthful":
		p.declared = int64(len(p.data))
	case "understated":
		p.declared = int64(r.Intn(len(p.data)/2 + 1))
		if p.declared > int64(limit) {
			p.declared = int64(r.Intn(limit + 1))
		}
	case "overstated-within":
		p.declared = int64(limit - r.Intn(limit/4+1))
	case "eq-limit":
		p.declared = int64(limit)
	case "limit+1":
		p.declared = int64(limit) + 1
	case "2xlimit":
		p.declared = 2 * int64(limit)
	case "int32max":
		p.declared = 2147483647
	case "2^31":
		p.declared = 2147483648
	case "2^32":
		p.declared = 4294967296 + int64(r.Intn(5))
	case "20digits":
		val = "9" + r.Letters(19, "0123456789")
		p.hugeNum = true
	case "nonnumeric":
		val = r.Pick([]string{"abc", "12x", "x12", "0x10", "1e3", "_"})
	case "int64-edge":
		// around the edges of the machine integer types (after seeded change C06-10): every one of
		// these is a number, and far above every limit
		val = r.Pick([]string{"9223372036854775806", "9223372036854775807", "9223372036854775808", "9223372036854775809",
			"18446744073709551614", "18446744073709551615", "18446744073709551616", "18446744073709551617", "4611686018427387904",
			"340282366920938463463374607431768211456", "0009223372036854775808"})
		p.hugeNum = true
	case "uint64-range":
		val = strconv.FormatUint(1<<63+r.Uint64()>>1, 10) // 2^63 .. 2^64-1
		p.hugeNum = true
	}
	if p.declared >= 0 {
		val = strconv.FormatInt(p.declared, 10)
	}
	if val != "" {
		switch r.Intn(6) {
		case 0:
			p.sizeParam = " BODY=8BITMIME SIZE=" + val
		case 1:
			p.sizeParam = " SIZE=" + val + " BODY=8BITMIME"
		case 2:
			p.sizeParam = " size=" + val
		default:
			p.sizeParam = " SIZE=" + val
		}
	}
	return p
}

type conn struct {
	probeDomain string // domain of the probe recipients (inbucket.test, or discard.test: accepted but not stored)
	c           *fw.Ctx
	env         *sut.Env
	ss          *sut.SMTPSession
	limit       int
	backend     string
	idx         int
	known       map[string]bool
	model       map[string][]sut.MsgSnap
	seq         int
	hung        bool
	switches    string // "" or the non-default SMTP switches of this connection's server (switches.go)
}

// cmd is SMTPSession.Cmd, except that an expired watchdog is a bounded-progress candidate (the
// parent re-runs the case with a larger budget), never a verdict on the property: once it has
// fired, nothing else in this case is judged.
func (k *conn) cmd(line string) (sut.Reply, error) {
	rep, err := k.ss.Cmd(line)
	if err != nil && strings.HasPrefix(err.Error(), "watchdog:") {
		k.hang("smtp-command", err.Error())
	}
	return rep, err
}

func (k *conn) hang(name, what string) {
	if !k.hung {
		k.hung = true
		k.c.Hang(name, fmt.Sprintf("[limit %d %s case %d] %s", k.limit, k.backend, k.idx, what), "")
	}
}

func (k *conn) fail(key, what string, extra map[string]any) {
	if k.hung {
		return
	}
	d := map[string]any{"limit": k.limit, "backend": k.backend, "trace": k.ss.Trace}
	if k.switches != "" {
		d["smtp_switches"] = k.switches
		what = "[SMTP switches: " + k.switches + "] " + what
	}
	for a, b := range extra {
		d[a] = b
	}
	k.c.Violation(key, fmt.Sprintf("[limit %d %s case %d] %s", k.limit, k.backend, k.idx, what), d)
}

func runConn(c *fw.Ctx, idx int, r *fw.Rand) {
	limit := limits[idx%5]
	backend := []string{"mem", "file"}[(idx/5)%2]
	slot := idx / 10
	conf := sut.DefaultConf()
	conf.SMTP.MaxMessageBytes = limit
	// One connection in five addresses its probes to a discard domain: such mail is accepted but
	// not stored, and the size limit must hold for it all the same.
	discard := r.Chance(1, 5)
	conf.SMTP.DiscardDomains = []string{"discard.test"}
	if backend == "file" {
		conf.Storage.Type = "file"
		conf.Storage.Params = map[string]string{"path": c.TempDir("c06fs")}
	}
	swLabel, swInconclusive := applySwitches(c, conf, idx, limit)
	if swInconclusive != "" {
		c.Inconclusive(swInconclusive)
		return
	}
	env, err := sut.NewEnv(conf, backend)
	if err != nil {
		panic(err)
	}
	c.Count(fmt.Sprintf("config:%d/%s", limit, backend), 1)
	ss := env.StartSMTP()
	ss.Watchdog = 120 * time.Second * time.Duration(c.Slow)
	k := &conn{c: c, env: env, ss: ss, limit: limit, backend: backend, idx: idx, known: map[string]bool{}, model: map[string][]sut.MsgSnap{}, probeDomain: "inbucket.test", switches: swLabel}
	if discard {
		k.probeDomain = "discard.test"
		c.Count("connections_to_discard_domain", 1)
	}
	defer func() {
		if !ss.Ended() && !ss.Close() {
			c.Hang("smtp-session-end", "SMTP session did not end after the client closed", "")
		}
	}()
	if rs, mal, _, ok := ss.Step(nil); !ok {
		k.hang("smtp-greeting", "no output and no idle point after connecting")
		return
	} else if mal != "" || len(rs) != 1 || rs[0].Code != 220 {
		k.fail("C06:smtp-dialogue", "no single 220 greeting", nil)
		return
	}
	// The limit holds however the session was opened: one connection in three greets with the
	// plain HELO (no extension list, no SIZE announcement; inbucket refuses a second greeting, so there is one).
	greet := []string{"EHLO client.test"}
	switch (idx / 10) % 6 {
	case 2, 5:
		greet = []string{"HELO client.test"}
		c.Count("connections_greeting_helo", 1)
	}
	var rep sut.Reply
	for _, g := range greet {
		var err error
		rep, err = k.cmd(g)
		if err != nil || rep.Code != 250 {
			k.fail("C06:smtp-dialogue", fmt.Sprintf("%s answered %v %v", g, rep, err), nil)
			return
		}
	}
	// The advertised SIZE must be the configured limit (observed, informational).
	for _, l := range rep.Lines {
		if strings.HasSuffix(l, " SIZE "+strconv.Itoa(limit)) {
			c.Count("ehlo_advertises_limit", 1)
		}
	}
	nprobe := r.Range(1, 3)
	var sigs []string
	for j := 0; j < nprobe; j++ {
		p := genProbe(r, limit, slot*3+j)
		sig, ok := k.runProbe(r, p)
		if sig != "" {
			sigs = append(sigs, sig)
		}
		if !ok {
			break
		}
	}
	for _, s := range sigs {
		c.NonTrivial(s)
	}
}

// snapshot reads the whole store and returns the mailboxes that changed relative to the model,
// after checking that nothing that existed before was lost or altered.
func (k *conn) delta() (added map[string][]sut.MsgSnap, err error) {
	var extra []string
	for n := range k.known {
		extra = append(extra, n)
	}
	sort.Strings(extra)
	snap, err := sut.Snapshot(k.env.Store, extra, true)
	if err != nil {
		return nil, err
	}
	added = map[string][]sut.MsgSnap{}
	for n, old := range k.model {
		cur := snap[n]
		if len(cur) < len(old) {
			return nil, fmt.Errorf("mailbox %q lost messages: %d -> %d", n, len(old), len(cur))
		}
		for i := range old {
			if old[i].ID != cur[i].ID || old[i].Source != cur[i].Source {
				return nil, fmt.Errorf("mailbox %q message %d changed", n, i)
			}
		}
	}
	for n, cur := range snap {
		if len(cur) > len(k.model[n]) {
			added[n] = cur[len(k.model[n]):]
		}
	}
	k.model = snap
	return added, nil
}

// afterLines returns b without its first n LF-terminated lines.
func afterLines(b []byte, n int) []byte {
	for i := 0; i < n; i++ {
		j := bytes.IndexByte(b, '\n')
		if j < 0 {
			return nil
		}
		b = b[j+1:]
	}
	return b
}

func describe(added map[string][]sut.MsgSnap) string {
	var parts []string
	for n, l := range added {
		for _, m := range l {
			parts = append(parts, fmt.Sprintf("%s/%s size=%d", n, m.ID, m.Size))
		}
	}
	sort.Strings(parts)
	return strings.Join(parts, ", ")
}

func normC(b []byte) []byte {
	out := make([]byte, 0, len(b))
	for i := 0; i < len(b); i++ {
		if b[i] == '\r' {
			j := i
			for j < len(b) && b[j] == '\r' {
				j++
			}
			if j < len(b) && b[j] == '\n' {
				i = j - 1
				continue
			}
			out = append(out, b[i:j]...)
			i = j - 1
			continue
		}
		out = append(out, b[i])
	}
	return out
}

// runProbe plays one probe transaction plus, after a refusal, the follow-up transaction.
// It returns the non-trivial signature and whether the connection can carry another probe.
func (k *conn) runProbe(r *fw.Rand, p probe) (string, bool) {
	c, ss, limit := k.c, k.ss, k.limit
	c.Count("probes", 1)
	c.Count("size_kind:"+p.sizeKind, 1)
	c.Count("shape:"+p.shape, 1)
	k.seq++
	nrcpt := 1
	if r.Chance(1, 4) {
		nrcpt = 2
	}
	var boxes []string
	for j := 0; j < nrcpt; j++ {
		b := fmt.Sprintf("p%d%c", k.seq, 'a'+j)
		boxes = append(boxes, b)
		k.known[b] = true
	}
	info := map[string]any{"crlf_len": len(p.data), "lo": p.lo, "hi": p.hi, "shape": p.shape, "size_param": p.sizeParam,
		"has_header": p.hasHeader, "head": fw.Trunc(string(p.data), 120)}
	class := "dont-care"
	switch {
	case p.lo > limit:
		class = "must-refuse"
	case p.hi <= limit && p.hasHeader:
		class = "must-accept"
	case p.hi <= limit:
		class = "fits-no-header"
	}
	declaredOver := p.hugeNum || p.declared > int64(limit)
	sig := func(outcome string) string {
		c.Sample(map[string]any{"limit": limit, "backend": k.backend, "class": class, "crlf_len": len(p.data), "lo": p.lo, "hi": p.hi,
			"shape": p.shape, "mail_params": p.sizeParam, "outcome": outcome})
		if k.switches != "" {
			// the switch variants are distinguished by switch set, class and outcome only (not by shape and SIZE variant)
			c.Count("switched_outcome:"+outcome, 1)
			return fmt.Sprintf("%d|%s|%s|sw=%s|%s", limit, k.backend, class, k.switches, outcome)
		}
		return fmt.Sprintf("%d|%s|%s|%s|%s|%s", limit, k.backend, class, p.shape, p.sizeKind, outcome)
	}
	noStore := func(when string) bool {
		added, err := k.delta()
		if err != nil {
			k.fail("C06:store-damaged", when+": "+err.Error(), info)
			return false
		}
		if len(added) > 0 {
			k.fail("C06:refused-message-stored", fmt.Sprintf("%s, yet the store gained: %s", when, describe(added)), info)
			return false
		}
		return true
	}

	mail := "MAIL FROM:<big@origin.test>" + p.sizeParam
	rep, err := k.cmd(mail)
	if err != nil {
		k.fail("C06:smtp-dialogue", err.Error(), info)
		return "", false
	}
	if declaredOver {
		c.Count("mail_size_over_limit", 1)
		if rep.Class() != 5 {
			k.fail("C06:declared-size-over-limit-accepted", fmt.Sprintf("%q (limit %d) answered %s", mail, limit, rep.String()), info)
			return "", false
		}
		c.Count("refused_at_mail", 1)
		c.Count("refused_at_mail:"+strconv.Itoa(rep.Code), 1)
		if !noStore("MAIL refused for its SIZE") {
			return "", false
		}
		if !k.followUp(r, info, "MAIL refused for its declared SIZE") {
			return "", false
		}
		return sig("mail-refused"), true
	}
	if rep.Code != 250 {
		if p.sizeKind == "nonnumeric" {
			c.Count("nonnumeric_size_reply:"+strconv.Itoa(rep.Code), 1)
			if !noStore("MAIL with non-numeric SIZE refused") {
				return "", false
			}
			if !k.followUp(r, info, "MAIL with a non-numeric SIZE was refused") {
				return "", false
			}
			return "", true
		}
		if class == "must-accept" {
			k.fail("C06:within-limit-refused", fmt.Sprintf("%q (limit %d, message of %d wire bytes) answered %s", mail, limit, p.hi, rep.String()), info)
			return "", false
		}
		c.Count("mail_refused_dont_care", 1)
		if !noStore("MAIL refused") {
			return "", false
		}
		if !k.followUp(r, info, "MAIL was refused") {
			return "", false
		}
		return "", true
	}
	if p.sizeKind == "nonnumeric" {
		c.Count("nonnumeric_size_reply:250", 1)
	}
	for _, b := range boxes {
		rep, err := k.cmd("RCPT TO:<" + b + "@" + k.probeDomain + ">")
		if err != nil || rep.Code != 250 {
			k.fail("C06:smtp-dialogue", fmt.Sprintf("RCPT answered %v %v", rep, err), info)
			return "", false
		}
	}
	rep, err = k.cmd("DATA")
	if err != nil {
		k.fail("C06:smtp-dialogue", err.Error(), info)
		return "", false
	}
	if rep.Code != 354 {
		// Refusing at the DATA command is a refusal too.
		if class == "must-accept" {
			k.fail("C06:within-limit-refused", fmt.Sprintf("DATA answered %s for a message of %d wire bytes (limit %d)", rep.String(), p.hi, limit), info)
			return "", false
		}
		c.Count("refused_at_data_command", 1)
		if !noStore("DATA command refused") {
			return "", false
		}
		if !k.followUp(r, info, "the DATA command was refused") {
			return "", false
		}
		return sig("data-cmd-refused"), true
	}
	replies, mal, closed, ok := ss.Step(sut.DotStuff(p.data))
	if !ok {
		k.hang("smtp-data", "session neither idle nor closed after the data block")
		return "", false
	}
	if mal != "" || len(replies) == 0 {
		k.fail("C06:no-reply-after-data", fmt.Sprintf("no well-formed reply after the terminating dot (malformed=%q closed=%v)", mal, closed), info)
		return "", false
	}
	if len(replies) > 1 {
		c.Count("multiple_replies_after_data", 1)
	}
	first := replies[0]
	if k.switches != "" {
		k.countSwitched(class)
	}
	switch class {
	case "must-refuse":
		c.Count("must_refuse_data", 1)
	case "must-accept":
		c.Count("must_accept", 1)
	case "dont-care":
		c.Count("dont_care_band", 1)
	}
	if first.Class() == 2 {
		if class == "must-refuse" {
			added, _ := k.delta()
			k.fail("C06:oversized-data-accepted", fmt.Sprintf("message of at least %d bytes (LF form without final newline; %d on the wire) answered %s with limit %d; store gained: %s",
				p.lo, p.hi, first.String(), limit, describe(added)), info)
			return "", false
		}
		// Accepted: every recipient must now hold exactly this message.
		added, err := k.delta()
		if err != nil {
			k.fail("C06:store-damaged", "after an accepted message: "+err.Error(), info)
			return "", false
		}
		want := normC(p.data)
		if k.probeDomain == "discard.test" {
			if len(added) > 0 {
				k.fail("C06:unexpected-stored", "mail to a discard domain was stored: "+describe(added), info)
				return "", false
			}
			c.Count("accepted_and_discarded", 1)
			if class == "dont-care" {
				c.Count("dont_care_accepted", 1)
			}
			return sig("accepted-discarded"), len(replies) == 1
		}
		for _, b := range boxes {
			l := added[b]
			if len(l) != 1 {
				k.fail("C06:accepted-not-stored", fmt.Sprintf("250 after the dot, but mailbox %q gained %d messages", b, len(l)), info)
				return "", false
			}
			if !bytes.HasSuffix(normC([]byte(l[0].Source)), want) {
				k.fail("C06:accepted-stored-incomplete", fmt.Sprintf("250 after the dot, but the stored source of %s/%s (%d bytes) does not end with the %d transmitted bytes",
					b, l[0].ID, len(l[0].Source), len(p.data)), info)
				return "", false
			}
			delete(added, b)
		}
		if len(added) > 0 {
			k.fail("C06:unexpected-stored", "store gained messages outside the recipients: "+describe(added), info)
			return "", false
		}
		c.Count("accepted_and_stored", 1)
		c.Count(fmt.Sprintf("accepted_and_stored:limit=%d", limit), 1)
		if class == "dont-care" {
			c.Count("dont_care_accepted", 1)
		}
		return sig("accepted"), len(replies) == 1
	}
	// Refused after the dot.
	if class == "must-accept" {
		k.fail("C06:within-limit-refused", fmt.Sprintf("message of %d wire bytes (limit %d, SIZE %q) answered %s after the dot", p.hi, limit, p.sizeParam, first.String()), info)
		return "", false
	}
	if class == "dont-care" {
		c.Count("dont_care_refused", 1)
	}
	if class == "fits-no-header" {
		c.Count("fits_no_header_refused:"+strconv.Itoa(first.Code), 1)
	}
	c.Count("refused_at_data", 1)
	c.Count("refused_at_data:"+strconv.Itoa(first.Code), 1)
	c.Count(fmt.Sprintf("refused_at_data:limit=%d", limit), 1)
	if !noStore(fmt.Sprintf("message of %d wire bytes refused with %s", p.hi, first.String())) {
		return "", false
	}
	if closed || ss.Ended() {
		k.fail("C06:session-unusable-after-refusal", "the server closed the connection after refusing an oversized message", info)
		return "", false
	}
	if !k.followUp(r, info, fmt.Sprintf("a message of %d wire bytes was refused with %d", p.hi, first.Code)) {
		return "", false
	}
	return sig("data-refused-" + strconv.Itoa(first.Code)), true
}

// followUp runs a small valid transaction on the same connection.
func (k *conn) followUp(r *fw.Rand, info map[string]any, after string) bool {
	c, ss, limit := k.c, k.ss, k.limit
	k.seq++
	box := fmt.Sprintf("f%d", k.seq)
	k.known[box] = true
	bad := func(what string) bool {
		k.fail("C06:session-unusable-after-refusal", "after "+after+": "+what, info)
		return false
	}
	withRset := r.Bool()
	if withRset {
		if rep, err := k.cmd("RSET"); err != nil || rep.Code != 250 {
			return bad(fmt.Sprintf("RSET answered %v %v", rep, err))
		}
	}
	rep, err := k.cmd("MAIL FROM:<small@origin.test>")
	if err != nil {
		return bad(err.Error())
	}
	if rep.Code == 503 && !withRset {
		// A server may keep the failed transaction open until RSET.
		c.Count("followup_needed_rset", 1)
		if rep, err := k.cmd("RSET"); err != nil || rep.Code != 250 {
			return bad(fmt.Sprintf("RSET answered %v %v", rep, err))
		}
		rep, err = k.cmd("MAIL FROM:<small@origin.test>")
		if err != nil {
			return bad(err.Error())
		}
	}
	if rep.Code != 250 {
		return bad("follow-up MAIL answered " + rep.String())
	}
	if rep, err := k.cmd("RCPT TO:<" + box + "@inbucket.test>"); err != nil || rep.Code != 250 {
		return bad(fmt.Sprintf("follow-up RCPT answered %v %v", rep, err))
	}
	small := []byte(minHeader + "ok " + r.Letters(r.Range(0, 6), "abcdef") + "\r\n")
	if _, hi := measures(small); hi > limit {
		// Nothing with a header block fits this limit: show the session is usable, then abandon.
		if rep, err := k.cmd("RSET"); err != nil || rep.Code != 250 {
			return bad(fmt.Sprintf("RSET answered %v %v", rep, err))
		}
		if rep, err := k.cmd("NOOP"); err != nil || rep.Code != 250 {
			return bad(fmt.Sprintf("NOOP answered %v %v", rep, err))
		}
		if added, err := k.delta(); err != nil || len(added) > 0 {
			k.fail("C06:refused-message-stored", fmt.Sprintf("store changed during an abandoned follow-up: %v %s", err, describe(added)), info)
			return false
		}
		c.Count("followups_usable_only", 1)
		return true
	}
	if rep, err := k.cmd("DATA"); err != nil || rep.Code != 354 {
		return bad(fmt.Sprintf("follow-up DATA answered %v %v", rep, err))
	}
	replies, mal, _, ok := ss.Step(sut.DotStuff(small))
	if !ok {
		k.hang("smtp-data", "session neither idle nor closed after the follow-up data block")
		return false
	}
	if mal != "" || len(replies) != 1 || replies[0].Code != 250 {
		var rs []string
		for _, x := range replies {
			rs = append(rs, x.String())
		}
		return bad(fmt.Sprintf("follow-up message of %d bytes answered %v (malformed=%q)", len(small), rs, mal))
	}
	added, err := k.delta()
	if err != nil {
		k.fail("C06:store-damaged", "after the follow-up: "+err.Error(), info)
		return false
	}
	l := added[box]
	if len(l) != 1 || !bytes.HasSuffix(normC([]byte(l[0].Source)), normC(small)) || len(added) != 1 {
		k.fail("C06:followup-not-stored", fmt.Sprintf("after %s: follow-up message acknowledged 250, store delta is: %s", after, describe(added)), info)
		return false
	}
	// No part of the refused message may be stored: behind the three trace-header lines
	// (Return-Path, Received, its continuation) the stored copy is the follow-up message only.
	if rest := afterLines(normC([]byte(l[0].Source)), 3); !bytes.Equal(rest, normC(small)) {
		k.fail("C06:refused-bytes-in-later-message", fmt.Sprintf("after %s: the stored follow-up message has %d bytes behind the trace headers, %d were transmitted",
			after, len(rest), len(normC(small))), info)
		return false
	}
	c.Count("followups_stored", 1)
	return true
}
