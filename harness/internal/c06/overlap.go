package c06

import (
	"bytes"
	"fmt"
	"io/fs"
	"os"
	"path/filepath"
	"runtime"
	"sort"
	"strconv"
	"strings"
	"sync"
	"time"

	"github.com/inbucket/inbucket/v3/pkg/extension/event"

	"verifharness/internal/fw"
	"verifharness/internal/sut"
)

// Overlap stream (added after seeded change C06-7).
//
// "No part of a refused message is stored" is a statement about the server, not about one
// connection at a time; the conn and starttls streams run their sessions one after the other, so
// anything the sessions of one server share (a recycled or server-wide data buffer, a scratch area
// handed back too early) was never exercised.  Here several sessions are open on ONE server at the
// same time and transmit a mix of within-limit and clearly oversized messages.  Every message is
// filled with a token that occurs in no other message of the case, so any byte of a refused message
// that reaches the store is recognisable wherever it lands.
//
// The overlap is a logical fact, not luck: in every round some within-limit deliveries are held
// INSIDE Deliver by a BeforeMessageStored listener (an extension point of inbucket; it stands for a
// slow Lua hook or a slow store) while the other sessions transmit - among them oversized messages
// that are refused - and only then released.  The other sessions run one by one (a fully determined
// schedule) or in parallel goroutines (real interleavings on top); half of the cases run on a single
// P, where a per-P cache (sync.Pool, the usual Go buffer recycler) hands an item straight to the
// next taker, the other half on the child's default of 4.
//
// Obligations, all from the property statement:
//   - lo > limit  => the reply after the dot is not 2xx, the recipients' mailboxes stay empty, and
//     the message's token occurs nowhere in the store: not in the source or metadata of any stored
//     message, and (file back end) in no file under the store directory;
//   - hi <= limit => 250 (held or not), and every recipient holds exactly one message whose source
//     behind the three trace-header lines is byte-identical to what that session transmitted;
//   - after a refusal the same session carries its next transaction.
// Verdicts use replies and the final store only; no schedule-dependent value takes part.
// Only DATA-phase refusals are produced here (no SIZE parameter); the MAIL-phase rule is the conn
// stream's business.

var overlapLimits = []int{100, 1000, 65536, 65536, 1000000}

// omsg is one planned message of the overlap stream.
type omsg struct {
	tok      string
	sess     int
	boxes    []string
	data     []byte // CRLF form
	lo, hi   int
	oversize bool // lo > limit; otherwise hi <= limit with a header block
	held     bool // delivery was held inside Deliver by the gate
	sent     bool
	code     int // reply after the dot (0: none)
}

// overlapMessage builds a CRLF-form message of exactly total bytes whose every line is made of tok.
func overlapMessage(tok string, total int) []byte {
	hdr := "Subject: " + tok + "\r\nFrom: " + "o@origin.test" + "\r\n\r\n"
	if total < len(hdr)+len(tok)+2 {
		hdr = "A:b\r\n\r\n"
	}
	var b bytes.Buffer
	b.Grow(total + 2)
	b.WriteString(hdr)
	fill := strings.Repeat(tok, 72/len(tok)+2)
	rem := total - b.Len()
	for rem > 0 {
		n := 72 // line length including CRLF
		if n >= rem || rem-n < 3 {
			n = rem
		}
		if n < 2 {
			n = 2
		}
		for n-2 > len(fill) {
			fill += fill
		}
		b.WriteString(fill[:n-2])
		b.WriteString("\r\n")
		rem -= n
	}
	return b.Bytes()
}

// gate holds chosen deliveries inside Deliver (BeforeMessageStored) until released.
type gate struct {
	mu   sync.Mutex
	hold map[string]*holdPoint // by first recipient mailbox
}

type holdPoint struct {
	entered chan struct{}
	release chan struct{}
	once    sync.Once
}

func (h *holdPoint) open() { h.once.Do(func() { close(h.release) }) }

func (g *gate) arm(box string) *holdPoint {
	h := &holdPoint{entered: make(chan struct{}), release: make(chan struct{})}
	g.mu.Lock()
	g.hold[box] = h
	g.mu.Unlock()
	return h
}

func (g *gate) listener(m event.InboundMessage) *event.InboundMessage {
	if len(m.Mailboxes) == 0 {
		return nil
	}
	g.mu.Lock()
	h := g.hold[m.Mailboxes[0]]
	delete(g.hold, m.Mailboxes[0])
	g.mu.Unlock()
	if h != nil {
		close(h.entered)
		<-h.release
	}
	return nil // no opinion: the address policy decides, as without the listener
}

// osess is one SMTP session of the overlap stream.  It is driven by one goroutine at a time.
type osess struct {
	n        int
	ss       *sut.SMTPSession
	fail     string // dialogue deviation (key|what), first one wins
	watchdog string
	refused  bool // the previous transaction of this session was refused
}

func (s *osess) bad(key, what string) {
	if s.fail == "" && s.watchdog == "" {
		s.fail = key + "|" + fmt.Sprintf("session %d: %s", s.n, what)
	}
}

func (s *osess) cmd(line string) (sut.Reply, bool) {
	rep, err := s.ss.Cmd(line)
	if err != nil {
		if sut.IsWatchdog(err) {
			if s.watchdog == "" {
				s.watchdog = fmt.Sprintf("session %d: %v", s.n, err)
			}
		} else {
			s.bad("C06:smtp-dialogue", err.Error())
		}
		return rep, false
	}
	return rep, true
}

func (s *osess) dead() bool { return s.fail != "" || s.watchdog != "" }

// open plays MAIL, RCPT..., DATA up to the 354.
func (s *osess) open(m *omsg) bool {
	if s.dead() {
		return false
	}
	key := "C06:smtp-dialogue"
	if s.refused {
		key = "C06:session-unusable-after-refusal"
	}
	rep, ok := s.cmd("MAIL FROM:<o@origin.test>")
	if !ok {
		return false
	}
	if rep.Code == 503 && s.refused {
		// A server may keep the failed transaction open until RSET (same leniency as the conn stream).
		if rep, ok = s.cmd("RSET"); !ok || rep.Code != 250 {
			s.bad(key, "RSET after a refused message answered "+rep.String())
			return false
		}
		if rep, ok = s.cmd("MAIL FROM:<o@origin.test>"); !ok {
			return false
		}
	}
	if rep.Code != 250 {
		s.bad(key, "MAIL answered "+rep.String())
		return false
	}
	for _, b := range m.boxes {
		if rep, ok := s.cmd("RCPT TO:<" + b + "@inbucket.test>"); !ok {
			return false
		} else if rep.Code != 250 {
			s.bad(key, "RCPT answered "+rep.String())
			return false
		}
	}
	rep, ok = s.cmd("DATA")
	if !ok {
		return false
	}
	if rep.Code != 354 {
		s.bad(key, "DATA answered "+rep.String())
		return false
	}
	return true
}

// after records the reply that followed the data block.
func (s *osess) after(m *omsg, replies []sut.Reply, mal string, closed, ok bool) {
	if !ok {
		if s.watchdog == "" {
			s.watchdog = fmt.Sprintf("session %d: session neither idle nor closed after the data block of %s", s.n, m.tok)
		}
		return
	}
	if mal != "" || len(replies) != 1 {
		s.bad("C06:no-reply-after-data", fmt.Sprintf("%d replies after the terminating dot of %s (malformed=%q closed=%v)", len(replies), m.tok, mal, closed))
		if len(replies) > 0 {
			m.code = replies[0].Code
		}
		return
	}
	m.code = replies[0].Code
	s.refused = m.code/100 != 2
	if s.refused && closed {
		s.bad("C06:session-unusable-after-refusal", "the server closed the connection after refusing "+m.tok)
	}
}

// transmit plays one complete, un-held transaction.
func (s *osess) transmit(m *omsg) {
	if !s.open(m) {
		return
	}
	m.sent = true
	replies, mal, closed, ok := s.ss.Step(sut.DotStuff(m.data))
	s.after(m, replies, mal, closed, ok)
}

func runOverlap(c *fw.Ctx, idx int, r *fw.Rand) {
	limit := overlapLimits[idx%5]
	backend := []string{"mem", "file"}[(idx/5)%2]
	procs := []int{1, 0}[(idx/10)%2] // 0: leave the child's setting (4)
	if procs > 0 {
		old := runtime.GOMAXPROCS(procs)
		defer runtime.GOMAXPROCS(old)
	}
	conf := sut.DefaultConf()
	conf.SMTP.MaxMessageBytes = limit
	storeDir := ""
	if backend == "file" {
		storeDir = c.TempDir("c06ov")
		conf.Storage.Type = "file"
		conf.Storage.Params = map[string]string{"path": storeDir}
	}
	env, err := sut.NewEnv(conf, backend)
	if err != nil {
		panic(err)
	}
	g := &gate{hold: map[string]*holdPoint{}}
	env.ExtHost.Events.BeforeMessageStored.AddListener("c06-overlap-gate", g.listener)
	wd := 120 * time.Second * time.Duration(c.Slow)
	tag := fmt.Sprintf("[overlap limit %d %s procs %d case %d]", limit, backend, procs, idx)

	nsess := r.Range(4, 8)
	if limit >= 1000000 {
		nsess = r.Range(3, 5)
	}
	sessions := make([]*osess, nsess)
	for i := range sessions {
		ss := env.StartSMTP()
		ss.Watchdog = wd
		sessions[i] = &osess{n: i, ss: ss}
	}
	var holds []*holdPoint
	defer func() {
		for _, h := range holds {
			h.open()
		}
		for _, s := range sessions {
			if !s.ss.Ended() && !s.ss.Close() {
				c.Hang("smtp-session-end", tag+" SMTP session did not end after the client closed", "")
				return
			}
		}
	}()
	hung := false
	hang := func(name, what, dump string) {
		if !hung {
			hung = true
			c.Hang(name, tag+" "+what, dump)
		}
	}
	for _, s := range sessions {
		rep, err := s.ss.Greet()
		if err != nil {
			if sut.IsWatchdog(err) {
				hang("smtp-greeting", err.Error(), "")
			} else {
				c.Violation("C06:smtp-dialogue", tag+" "+err.Error(), nil)
			}
			return
		}
		if rep.Code != 220 {
			c.Violation("C06:smtp-dialogue", tag+" greeting "+rep.String(), nil)
			return
		}
		greet := "EHLO overlap.test"
		if r.Chance(1, 4) {
			greet = "HELO overlap.test"
		}
		if rep, ok := s.cmd(greet); !ok || rep.Code != 250 {
			if s.watchdog != "" {
				hang("smtp-command", s.watchdog, "")
			} else {
				c.Violation("C06:smtp-dialogue", fmt.Sprintf("%s %s answered %s %s", tag, greet, rep.String(), s.fail), nil)
			}
			return
		}
	}

	// Message factory.
	var all []*omsg
	seq := make([]int, nsess)
	mk := func(si int, oversize bool, nrcpt int) *omsg {
		seq[si]++
		m := &omsg{tok: fmt.Sprintf("[%d.%d.%d]", idx, si, seq[si]), sess: si, oversize: oversize}
		for j := 0; j < nrcpt; j++ {
			m.boxes = append(m.boxes, fmt.Sprintf("ov%ds%dm%d%c", idx, si, seq[si], 'a'+j))
		}
		minTotal := len("A:b\r\n\r\n") + len(m.tok) + 2
		var total int
		if !oversize {
			max := limit - 3 // hi = total + ".CRLF" (no line starts with a dot)
			switch r.Intn(4) {
			case 0:
				total = max
			case 1:
				total = max - r.Range(0, 20)
			case 2:
				total = max / 2
			default:
				total = r.Range(minTotal, max)
			}
			if total < minTotal {
				total = minTotal
			}
			if total > max {
				total = max
			}
		} else {
			switch r.Intn(5) {
			case 0:
				total = limit + r.Range(2, 12)
			case 1:
				total = limit + limit/3 + r.Range(2, 40)
			case 2:
				total = 2*limit + r.Range(0, 50)
			default:
				total = r.Range(limit+2, 3*limit+40)
			}
			if limit >= 1000000 && total > limit+limit/2 {
				total = limit + r.Range(2, limit/2)
			}
			if limit <= 100 && r.Bool() {
				total = limit * r.Range(5, 40)
			}
			if total < minTotal {
				total = minTotal + limit
			}
		}
		for {
			m.data = overlapMessage(m.tok, total)
			m.lo, m.hi = measures(m.data)
			if !oversize || m.lo > limit {
				break
			}
			total += limit - m.lo + 1
		}
		if len(m.data) != total || (!oversize && m.hi > limit) || !bytes.Contains(m.data, []byte(m.tok)) {
			panic(fmt.Sprintf("harness: overlap message %s: %d bytes for %d wanted, lo %d hi %d limit %d", m.tok, len(m.data), total, m.lo, m.hi, limit))
		}
		all = append(all, m)
		return m
	}

	rounds := r.Range(1, 3)
	if limit >= 1000000 {
		rounds = r.Range(1, 2)
	}
	var nHeld, nNotHeld, whileHeld, refusedWhileHeld, acceptedWhileHeld, parallelRounds int
	for round := 0; round < rounds && !hung; round++ {
		perm := r.Perm(nsess)
		nh := r.Range(1, 3)
		if nh > nsess-2 {
			nh = nsess - 2
		}
		holders, movers := perm[:nh], perm[nh:]
		// 1. Holders: transmit a within-limit message; its delivery stops inside Deliver.
		type heldTx struct {
			s    *osess
			m    *omsg
			h    *holdPoint
			idle chan bool
		}
		var held []heldTx
		for _, si := range holders {
			s := sessions[si]
			m := mk(si, false, r.Range(1, 2))
			if !s.open(m) {
				continue
			}
			h := g.arm(m.boxes[0])
			holds = append(holds, h)
			m.sent = true
			s.ss.Q.Send(sut.DotStuff(m.data))
			idle := make(chan bool, 1)
			go func() {
				_, ok := s.ss.Q.WaitIdle(wd)
				idle <- ok
			}()
			select {
			case <-h.entered:
				m.held = true
				nHeld++
				held = append(held, heldTx{s, m, h, idle})
			case ok := <-idle:
				// Never reached the extension point: answered without a delivery (judged below by its reply).
				h.open()
				nNotHeld++
				replies, mal, closed, _ := s.ss.Step(nil)
				s.after(m, replies, mal, closed, ok)
			}
		}
		// 2. Movers transmit while those deliveries are in progress.
		plans := make([][]*omsg, len(movers))
		for k, si := range movers {
			for j, nm := 0, r.Range(1, 2); j < nm; j++ {
				over := r.Chance(3, 5) || (k == 0 && j == 0)
				plans[k] = append(plans[k], mk(si, over, r.Range(1, 2)))
			}
		}
		if r.Bool() {
			parallelRounds++
			var wg sync.WaitGroup
			ok, dump := c.Within(wd+30*time.Second, func() {
				for k, si := range movers {
					wg.Add(1)
					go func(s *osess, plan []*omsg) {
						defer wg.Done()
						for _, m := range plan {
							s.transmit(m)
						}
					}(sessions[si], plans[k])
				}
				wg.Wait()
			})
			if !ok {
				hang("overlap-sessions", "concurrent SMTP sessions did not finish", dump)
			}
		} else {
			// one transaction at a time, sessions interleaved round-robin
			for j := 0; j < 2; j++ {
				for k, si := range movers {
					if j < len(plans[k]) {
						sessions[si].transmit(plans[k][j])
					}
				}
			}
		}
		if len(held) > 0 && !hung {
			for k := range movers {
				for _, m := range plans[k] {
					if m.code != 0 {
						whileHeld++
						if m.code/100 == 2 {
							acceptedWhileHeld++
						} else {
							refusedWhileHeld++
						}
					}
				}
			}
		}
		// 3. Release the held deliveries in a drawn order and collect their replies.
		for _, k := range r.Perm(len(held)) {
			t := held[k]
			t.h.open()
			if hung {
				continue
			}
			ok := <-t.idle
			replies, mal, closed, _ := t.s.ss.Step(nil)
			t.s.after(t.m, replies, mal, closed, ok)
		}
	}
	for _, s := range sessions {
		if s.watchdog != "" {
			hang("smtp-command", s.watchdog, "")
		}
	}
	if hung {
		return
	}
	// Sessions end (QUIT on some, plain close on the others) before the store is judged.
	for _, s := range sessions {
		if !s.dead() && r.Bool() {
			s.cmd("QUIT")
		}
		if !s.ss.Close() {
			hang("smtp-session-end", "SMTP session did not end after the client closed", "")
			return
		}
	}

	// ---- verdicts ----
	traces := func(ids ...int) map[string]any {
		d := map[string]any{"limit": limit, "backend": backend, "procs": procs, "sessions": nsess}
		for _, i := range ids {
			d[fmt.Sprintf("trace_session_%d", i)] = sessions[i].ss.Trace
		}
		return d
	}
	failed := false
	viol := func(key, what string, d map[string]any) {
		failed = true
		c.Violation(key, tag+" "+what, d)
	}
	for _, s := range sessions {
		if s.fail != "" {
			kv := strings.SplitN(s.fail, "|", 2)
			viol(kv[0], kv[1], traces(s.n))
		}
	}
	byTok := map[string]*omsg{}
	byBox := map[string]*omsg{}
	var boxes []string
	var nRefused, nAccepted int
	for _, m := range all {
		byTok[m.tok] = m
		for _, b := range m.boxes {
			byBox[b] = m
			boxes = append(boxes, b)
		}
		if !m.sent || m.code == 0 {
			continue
		}
		switch {
		case m.oversize && m.code/100 == 2:
			viol("C06:oversized-data-accepted", fmt.Sprintf("message %s of at least %d bytes (LF form without final newline; %d on the wire) answered %d with limit %d while %d sessions were open",
				m.tok, m.lo, m.hi, m.code, limit, nsess), traces(m.sess))
		case !m.oversize && m.code != 250:
			viol("C06:within-limit-refused", fmt.Sprintf("message %s of %d wire bytes (limit %d, held in delivery: %v) answered %d", m.tok, m.hi, limit, m.held, m.code), traces(m.sess))
		}
		if m.code/100 == 2 {
			nAccepted++
		} else {
			nRefused++
		}
	}
	sort.Strings(boxes)
	snap, err := sut.Snapshot(env.Store, boxes, true)
	if err != nil {
		viol("C06:store-damaged", "after the sessions ended: "+err.Error(), traces())
		return
	}
	// scan finds every complete token of this case in b.
	prefix := []byte(fmt.Sprintf("[%d.", idx))
	var scanned int64
	scan := func(b []byte, found map[string]int) {
		scanned += int64(len(b))
		for {
			i := bytes.Index(b, prefix)
			if i < 0 {
				return
			}
			b = b[i:]
			end := bytes.IndexByte(b[:minInt(len(b), 40)], ']')
			if end > 0 {
				if m := byTok[string(b[:end+1])]; m != nil {
					found[m.tok]++
				}
			}
			b = b[len(prefix):]
		}
	}
	isRefused := func(m *omsg) bool { return m.sent && m.code != 0 && m.code/100 != 2 }
	var stored, storedOK int
	for _, name := range sut.SnapNames(snap) {
		owner := byBox[name]
		for _, sm := range snap[name] {
			stored++
			if sm.SrcErr != "" {
				viol("C06:store-damaged", fmt.Sprintf("source of %s/%s unreadable: %s", name, sm.ID, sm.SrcErr), traces())
				continue
			}
			// (a) nothing unique to a refused message, anywhere in what is stored
			found := map[string]int{}
			scan([]byte(sm.Source), found)
			scan([]byte(sm.Subject+"\n"+sm.From+"\n"+strings.Join(sm.To, "\n")), found)
			for tok, n := range found {
				if rm := byTok[tok]; isRefused(rm) {
					own := "no planned recipient"
					if owner != nil {
						own = fmt.Sprintf("message %s of session %d, reply %d, held in delivery: %v", owner.tok, owner.sess, owner.code, owner.held)
					}
					viol("C06:concurrent-refused-bytes-stored", fmt.Sprintf("stored message %s/%s (%d bytes; mailbox of %s) contains %d copies of token %s, which only the refused message of session %d (%d wire bytes, answered %d) carried",
						name, sm.ID, len(sm.Source), own, n, tok, rm.sess, rm.hi, rm.code), traces(rm.sess))
				}
			}
			if owner == nil {
				viol("C06:unexpected-stored", fmt.Sprintf("mailbox %q, which no session addressed, holds %s (%d bytes)", name, sm.ID, sm.Size), traces())
				continue
			}
			if !owner.sent || owner.code/100 != 2 {
				viol("C06:refused-message-stored", fmt.Sprintf("message %s (%d wire bytes, limit %d) was answered %d, yet mailbox %q holds %s (%d bytes)",
					owner.tok, owner.hi, limit, owner.code, name, sm.ID, sm.Size), traces(owner.sess))
				continue
			}
			// (b) an accepted message is stored as its session sent it
			if rest := afterLines(normC([]byte(sm.Source)), 3); !bytes.Equal(rest, normC(owner.data)) {
				var foreign []string
				for tok := range found {
					if tok != owner.tok {
						foreign = append(foreign, tok)
					}
				}
				sort.Strings(foreign)
				viol("C06:concurrent-accepted-stored-differs", fmt.Sprintf("message %s of session %d (answered 250, held in delivery: %v): the stored source of %s/%s has %d bytes behind the trace headers, %d were transmitted, and they differ; tokens of other messages in it: %v",
					owner.tok, owner.sess, owner.held, name, sm.ID, len(rest), len(normC(owner.data)), foreign), traces(owner.sess))
				continue
			}
			storedOK++
		}
	}
	for _, m := range all {
		if m.sent && m.code == 250 && !m.oversize {
			for _, b := range m.boxes {
				if n := len(snap[b]); n != 1 {
					viol("C06:accepted-not-stored", fmt.Sprintf("message %s answered 250, but mailbox %q holds %d messages", m.tok, b, n), traces(m.sess))
				}
			}
		}
	}
	// (c) file back end: no file under the store directory carries a refused token either
	var diskFiles int
	if storeDir != "" {
		_ = filepath.WalkDir(storeDir, func(p string, d fs.DirEntry, err error) error {
			if err != nil || d.IsDir() {
				return nil
			}
			b, err := os.ReadFile(p)
			if err != nil {
				return nil
			}
			diskFiles++
			found := map[string]int{}
			scan(b, found)
			for tok, n := range found {
				if rm := byTok[tok]; isRefused(rm) {
					rel, _ := filepath.Rel(storeDir, p)
					viol("C06:concurrent-refused-bytes-on-disk", fmt.Sprintf("file %s (%d bytes) of the store directory contains %d copies of token %s of the refused message of session %d (answered %d)",
						rel, len(b), n, tok, rm.sess, rm.code), traces(rm.sess))
				}
			}
			return nil
		})
	}
	if failed {
		return
	}
	c.Count("overlap_cases", 1)
	c.Count(fmt.Sprintf("overlap_config:%d/%s/procs=%d", limit, backend, procs), 1)
	c.Count("overlap_sessions", int64(nsess))
	c.Max("max_overlap_sessions_on_one_server", int64(nsess))
	c.Count("overlap_parallel_rounds", int64(parallelRounds))
	c.Count("overlap_held_deliveries", int64(nHeld))
	c.Count("overlap_holder_not_held", int64(nNotHeld))
	c.Count("overlap_transmissions_while_held", int64(whileHeld))
	c.Count("overlap_refused_while_held", int64(refusedWhileHeld))
	c.Count("overlap_accepted_while_held", int64(acceptedWhileHeld))
	c.Count("overlap_refused", int64(nRefused))
	c.Count("overlap_accepted", int64(nAccepted))
	c.Count("overlap_stored_identical", int64(storedOK))
	c.Count("overlap_stored_scanned_for_refused_tokens", int64(stored))
	c.Count("overlap_bytes_scanned", scanned)
	c.Count("overlap_disk_files_scanned", int64(diskFiles))
	if nHeld > 0 && refusedWhileHeld > 0 {
		c.NonTrivial(fmt.Sprintf("overlap|%d|%s|p%d|s%d|h%d|r%s|par%d", limit, backend, procs, nsess, nHeld, strconv.Itoa(minInt(refusedWhileHeld, 6)), parallelRounds))
	}
}

func minInt(a, b int) int {
	if a < b {
		return a
	}
	return b
}
