package c06

import (
	"bytes"
	"fmt"
	"io/fs"
	"os"
	"path/filepath"
	"strconv"
	"strings"
	"time"

	"verifharness/internal/fw"
	"verifharness/internal/sut"
)

// Stall stream (added after seeded change C06-11).
//
// "Refused and no part of it is stored; afterwards the session remains usable" quantifies over
// every way an oversized message can reach the server, and a DATA block does not have to arrive in
// one piece.  Every other stream hands the whole block to the session at once, so the server's
// handling of a block that is INTERRUPTED - the sender pauses for longer than the server's idle
// timeout somewhere inside the block and then goes on - was never exercised: in particular not the
// piece of code that throws away the part of a refused block beyond the limit, which is the only
// place where the server reads from the connection after it has already decided to refuse.
//
// Here the oversized message is transmitted in two parts.  The first part ends (on a line boundary
// or in the middle of a line) clearly beyond the limit, just beyond it, within +-3 bytes of it, or
// well before it; the harness waits until the session is blocked in Read with no input left (a
// logical fact), lets the read deadline expire once or twice (sut.QConn.FireReadTimeout: the pending
// Read fails with a deadline error exactly as on a TCP connection whose idle timeout ran out; a
// second expiry because a server may begin another idle period after the first), and then - if the
// connection is still open - sends the rest of the very same block and the final dot.  The rest is
// ordinary message text for a server that is still inside the block, and a complete mail
// transaction for a server that has lost its place: on lines of their own it carries
// MAIL FROM / RCPT TO / DATA / a small header block and body addressed to a mailbox that occurs
// nowhere else in the case (a forwarded transcript looks like that), which the block's own final
// dot would terminate.  One case in eight is the control: the same two parts with the pause but
// without an expired deadline.
//
// What the server answers to the expiry is its business (221/421 and close, 552 and close, 552 and
// go on discarding, nothing at all ...).  Demanded, all from the property statement:
//   - no part of the refused message is stored: after the last byte, every mailbox (VisitMailboxes
//     plus the recipients of the outer and of the inner transaction by name) is empty, and on the
//     file back end no file under the store directory contains the token of the outer text or of
//     the inner message;
//   - the refused block is never acknowledged: the last reply after the final dot is not 2xx;
//   - if the session is still open after the final dot it is usable, i.e. in step with the client:
//     the text of the block was not answered line by line (at most one reply to the expiry and one
//     to the end of the block), NOOP gets exactly one reply, and the usual follow-up transaction is
//     acknowledged and stored byte-identical (followUp of the conn stream);
//   - control (no expiry): exactly the conn stream's obligations - one reply after the dot, not
//     2xx, session open, follow-up stored.
// A session that the server ended at the expiry owes nothing further.

var stallLimits = []int{100, 1000, 65536, 1000000}

// stallFill appends filler lines (made of tok, never starting with a dot) to b until the decoded
// length of what it appended - one byte per character plus one per line end, the way a dot reader
// counts - is exactly n (n >= 1).
func stallFill(b *bytes.Buffer, tok string, n int) {
	line := strings.Repeat(tok+" ", 60/(len(tok)+1)+1)[:60]
	for n > 0 {
		k := 60
		if n-1 < k {
			k = n - 1 // the last line; may be empty
		}
		b.WriteString(line[:k])
		b.WriteString("\r\n")
		n -= k + 1
	}
}

func runStall(c *fw.Ctx, idx int, r *fw.Rand) {
	limit := stallLimits[idx%4]
	backend := []string{"mem", "file"}[(idx/4)%2]
	mode := (idx / 8) % 8
	where, fires := "beyond-far", 1
	switch mode {
	case 1, 3:
		where = "beyond-near"
	case 4:
		where, fires = []string{"beyond-far", "beyond-near"}[(idx/64)%2], 2
	case 5:
		where = "around"
	case 6:
		where = "before"
	case 7:
		where, fires = []string{"beyond-near", "beyond-far", "around"}[(idx/64)%3], 0
	}
	midLine := r.Bool()

	conf := sut.DefaultConf()
	conf.SMTP.MaxMessageBytes = limit
	storeDir := ""
	if backend == "file" {
		storeDir = c.TempDir("c06stall")
		conf.Storage.Type = "file"
		conf.Storage.Params = map[string]string{"path": storeDir}
	}
	env, err := sut.NewEnv(conf, backend)
	if err != nil {
		panic(err)
	}
	ss := env.StartSMTP()
	ss.Watchdog = 120 * time.Second * time.Duration(c.Slow)
	k := &conn{c: c, env: env, ss: ss, limit: limit, backend: backend, idx: idx, known: map[string]bool{}, model: map[string][]sut.MsgSnap{}, probeDomain: "inbucket.test"}
	defer func() {
		if !ss.Ended() && !ss.Close() {
			c.Hang("smtp-session-end", "SMTP session did not end after the client closed", "")
		}
	}()

	// --- the message ---
	otok := "zo" + r.Letters(8, "abcdefghijklmnopqrstuvwxyz")
	itok := "zi" + r.Letters(8, "abcdefghijklmnopqrstuvwxyz")
	outerBox := "outer" + strconv.Itoa(idx)
	innerBoxes := []string{"smug" + strconv.Itoa(idx)}
	if r.Chance(1, 4) {
		innerBoxes = append(innerBoxes, "smug"+strconv.Itoa(idx)+"b")
	}
	k.known[outerBox] = true
	for _, b := range innerBoxes {
		k.known[b] = true
	}
	var first bytes.Buffer
	first.WriteString("Subject: " + otok + "\r\n\r\n")
	hdrDecoded := first.Len() - 2
	var target int // decoded length of the first part (before an optional partial line)
	switch where {
	case "beyond-far":
		target = limit + limit/2 + r.Range(0, limit/2)
	case "beyond-near":
		target = limit + 2 + r.Range(0, 40)
	case "around":
		target = limit + r.Range(-3, 3)
	case "before":
		target = limit/4 + r.Range(0, limit/2)
	}
	partial := 0
	if midLine {
		partial = r.Range(1, 50)
		if where == "around" {
			partial = r.Range(1, 3)
			target -= partial
		}
	}
	if target < hdrDecoded+2 {
		target = hdrDecoded + 2
	}
	stallFill(&first, otok, target-hdrDecoded)
	var rest bytes.Buffer
	if midLine {
		n := partial
		line := strings.Repeat(otok+" ", 12)
		first.WriteString(line[:n])
		rest.WriteString(line[n:n+r.Range(0, 20)] + "\r\n")
	}
	// The whole message is oversized under every measure, wherever the first part ended.
	more := r.Range(0, 3) * 61
	if where == "around" || where == "before" {
		more = limit + limit/4 + 61 + r.Range(0, limit/4)
	}
	if more > 0 {
		stallFill(&rest, otok, more)
	}
	// Text that is a mail transaction when read as commands.  Its data part fits every limit used.
	up := func(s string) string {
		return s
	}
	if r.Chance(1, 4) {
		up = strings.ToLower
	}
	for j, n := 0, r.Range(0, 2); j < n; j++ {
		rest.WriteString(r.Pick([]string{"RSET", "NOOP", "EHLO inner.test", "HELO inner.test"}) + "\r\n")
	}
	rest.WriteString(up("MAIL FROM:") + "<inner@origin.test>\r\n")
	for _, b := range innerBoxes {
		rest.WriteString(up("RCPT TO:") + "<" + b + "@inbucket.test>\r\n")
	}
	rest.WriteString(up("DATA") + "\r\n")
	inner := "Subject: " + itok + "\r\n\r\n" + itok + " " + r.Letters(r.Range(0, 20), "abcdef ") + "\r\n"
	rest.WriteString(inner)
	whole := append(append([]byte{}, first.Bytes()...), rest.Bytes()...)
	lo, hi := measures(whole)
	rest.WriteString(".\r\n")
	if lo <= limit || len(inner) > limit {
		panic(fmt.Sprintf("harness: stall message lo=%d inner=%d limit=%d", lo, len(inner), limit))
	}
	info := map[string]any{"stall": where, "mid_line": midLine, "deadline_expiries": fires, "first_part_bytes": first.Len(), "rest_bytes": rest.Len(),
		"lo": lo, "hi": hi, "outer_token": otok, "inner_token": itok, "rest_tail": fw.Trunc(string(rest.Bytes()[maxInt(0, rest.Len()-300):]), 300)}
	desc := fmt.Sprintf("oversized message (%d bytes on the wire) sent in two parts, first part %d bytes (%s the limit%s), ", hi, first.Len(),
		map[string]string{"beyond-far": "far beyond", "beyond-near": "just beyond", "around": "within 3 bytes of", "before": "before"}[where],
		map[bool]string{true: ", ending inside a line", false: ""}[midLine])
	if fires == 0 {
		desc += "pause without an expired deadline"
	} else {
		desc += fmt.Sprintf("read deadline expired %dx during the pause", fires)
	}

	// --- the dialogue up to 354 ---
	if rs, mal, _, ok := ss.Step(nil); !ok {
		k.hang("smtp-greeting", "no output and no idle point after connecting")
		return
	} else if mal != "" || len(rs) != 1 || rs[0].Code != 220 {
		k.fail("C06:smtp-dialogue", "no single 220 greeting", nil)
		return
	}
	mail := "MAIL FROM:<big@origin.test>"
	if r.Chance(1, 4) {
		mail += " SIZE=" + strconv.Itoa(r.Range(0, limit)) // understated: the refusal belongs to the DATA phase
	}
	steps := []struct {
		line string
		code int
	}{{r.Pick([]string{"EHLO client.test", "EHLO client.test", "HELO client.test"}), 250}, {mail, 250}, {"RCPT TO:<" + outerBox + "@inbucket.test>", 250}, {"DATA", 354}}
	for _, st := range steps {
		rep, err := k.cmd(st.line)
		if err != nil || rep.Code != st.code {
			k.fail("C06:smtp-dialogue", fmt.Sprintf("%s answered %v %v", st.line, rep, err), info)
			return
		}
	}

	// --- first part, pause, expiry ---
	note := func(sent string, out []byte, closed bool) ([]sut.Reply, string) {
		reps, mal := sut.ParseSMTPReplies(out)
		ex := sut.Exchange{Sent: sent, Malformed: mal, Closed: closed}
		for _, x := range reps {
			ex.Replies = append(ex.Replies, fw.Trunc(x.String(), 200))
		}
		ss.Trace = append(ss.Trace, ex)
		return reps, mal
	}
	ss.Q.Send(first.Bytes())
	closed, ok := ss.Q.WaitIdle(ss.Watchdog)
	if !ok {
		k.hang("smtp-data", "session neither idle nor closed inside a data block")
		return
	}
	early, mal := note(fmt.Sprintf("[first %d bytes of the data block] ...%q", first.Len(), fw.Trunc(string(first.Bytes()[maxInt(0, first.Len()-60):]), 60)), ss.Q.Take(), closed)
	if mal != "" {
		k.fail("C06:smtp-dialogue", "malformed output inside the data block: "+mal, info)
		return
	}
	nReplies := len(early)
	if len(early) > 0 {
		c.Count("stall_reply_before_block_end", 1) // a server may refuse as soon as it knows; not judged
	}
	fired := 0
	var atExpiry []sut.Reply
	for f := 0; f < fires && !closed; f++ {
		ss.Q.FireReadTimeout()
		fired++
		if closed, ok = ss.Q.WaitIdle(ss.Watchdog); !ok {
			k.hang("smtp-data", "session neither idle nor closed after its read deadline expired inside a data block")
			return
		}
		reps, mal := note("[read deadline expired]", ss.Q.Take(), closed)
		if mal != "" {
			k.fail("C06:smtp-dialogue", "malformed output after the read deadline expired: "+mal, info)
			return
		}
		atExpiry = append(atExpiry, reps...)
	}
	nReplies += len(atExpiry)
	c.Count("stall_deadline_expiries", int64(fired))
	for _, x := range atExpiry {
		c.Count("stall_reply_at_expiry:"+strconv.Itoa(x.Code), 1)
	}

	// --- the rest of the block ---
	var after []sut.Reply
	if !closed {
		var mal string
		after, mal, closed, ok = ss.Step(rest.Bytes())
		if !ok {
			k.hang("smtp-data", "session neither idle nor closed after the rest of the data block and its final dot")
			return
		}
		if mal != "" {
			k.fail("C06:smtp-dialogue", "malformed output after the rest of the data block: "+mal, info)
			return
		}
		nReplies += len(after)
		c.Count("stall_rest_sent", 1)
		c.Count("stall_smuggled_transactions_sent", 1)
	} else {
		c.Count("stall_session_ended_at_expiry", 1)
		if !ss.WaitEnd() {
			k.hang("smtp-session-end", "connection closed by the server, but the session did not end")
			return
		}
	}
	var all []string
	for _, x := range append(append(append([]sut.Reply{}, early...), atExpiry...), after...) {
		all = append(all, x.String())
	}
	info["replies_since_354"] = all

	// (1) nothing of the refused message is stored, whatever was answered
	stored := func(when string) bool {
		added, err := k.delta()
		if err != nil {
			k.fail("C06:store-damaged", desc+"; "+when+": "+err.Error(), info)
			return false
		}
		if len(added) > 0 {
			part := "the message"
			for _, b := range innerBoxes {
				if len(added[b]) > 0 {
					part = "the transaction quoted inside its text (mailbox " + b + ")"
				}
			}
			k.fail("C06:stall:refused-message-part-stored", fmt.Sprintf("%s; replies since 354: %q; %s the store holds %s: %s", desc, all, when, part, describe(added)), info)
			return false
		}
		return true
	}
	if !stored("after the final dot") {
		return
	}
	c.Count("stall_store_found_empty", 1)
	if storeDir != "" {
		files, hit := 0, ""
		_ = filepath.WalkDir(storeDir, func(p string, d fs.DirEntry, err error) error {
			if err != nil || d.IsDir() {
				return nil
			}
			b, err := os.ReadFile(p)
			if err != nil {
				return nil
			}
			files++
			if hit == "" && (bytes.Contains(b, []byte(otok)) || bytes.Contains(b, []byte(itok))) {
				hit, _ = filepath.Rel(storeDir, p)
			}
			return nil
		})
		c.Count("stall_disk_files_scanned", int64(files))
		c.Count("stall_disk_scans", 1)
		if hit != "" {
			k.fail("C06:stall:refused-bytes-on-disk", fmt.Sprintf("%s; file %s of the store directory contains text of the refused message", desc, hit), info)
			return
		}
	}

	sigOutcome := "ended"
	if fires == 0 {
		// control: the conn stream's obligations
		c.Count("stall_control_cases", 1)
		switch {
		case len(after) == 0:
			k.fail("C06:no-reply-after-data", desc+": no reply after the terminating dot", info)
			return
		case after[len(after)-1].Class() == 2 || after[0].Class() == 2:
			k.fail("C06:oversized-data-accepted", fmt.Sprintf("%s: answered %q with limit %d", desc, all, limit), info)
			return
		case nReplies != 1:
			k.fail("C06:stall:body-answered-as-commands", fmt.Sprintf("%s: %d replies to one data block: %q", desc, nReplies, all), info)
			return
		case closed || ss.Ended():
			k.fail("C06:session-unusable-after-refusal", desc+": the server closed the connection after refusing an oversized message", info)
			return
		}
		c.Count("stall_control_refused:"+strconv.Itoa(after[0].Code), 1)
	}
	if !closed && !ss.Ended() {
		// (2) never acknowledged, (3) still open => in step with the client and usable
		c.Count("stall_session_open_after_block", 1)
		if n := len(after); n > 0 && after[n-1].Class() == 2 {
			k.fail("C06:oversized-data-accepted", fmt.Sprintf("%s: the last reply after the final dot is %q (limit %d); replies since 354: %q", desc, after[n-1].String(), limit, all), info)
			return
		}
		if nReplies > 2 {
			k.fail("C06:stall:body-answered-as-commands", fmt.Sprintf("%s: %d replies since 354 although the client sent nothing but the text of one data block: %q", desc, nReplies, all), info)
			return
		}
		rep, err := ss.Cmd("NOOP")
		if sut.IsWatchdog(err) {
			k.hang("smtp-command", err.Error())
			return
		}
		if err != nil {
			k.fail("C06:stall:session-out-of-step", fmt.Sprintf("%s; afterwards NOOP: %v", desc, err), info)
			return
		}
		c.Count("stall_noop_after_block:"+strconv.Itoa(rep.Code), 1)
		if !k.followUp(r, info, desc) {
			return
		}
		sigOutcome = "open"
		if len(after) > 0 {
			sigOutcome += "-" + strconv.Itoa(after[len(after)-1].Code)
		}
	} else if len(atExpiry) > 0 {
		sigOutcome += "-" + strconv.Itoa(atExpiry[len(atExpiry)-1].Code)
	}
	if !ss.Ended() && !ss.Close() {
		c.Hang("smtp-session-end", "SMTP session did not end after the client closed", "")
		return
	}
	// the session is over: once more, nothing but a follow-up may be there
	if !stored("after the session ended") {
		return
	}
	c.Count("stall_cases", 1)
	c.Count("stall_where:"+where, 1)
	c.Count(fmt.Sprintf("stall_config:%d/%s", limit, backend), 1)
	if midLine {
		c.Count("stall_inside_a_line", 1)
	}
	if fires > 0 && strings.HasPrefix(where, "beyond") {
		c.Count("stall_expiry_beyond_limit", 1)
	}
	c.Count("stall_bytes_sent", int64(first.Len()+rest.Len()))
	c.NonTrivial(fmt.Sprintf("stall|%d|%s|%s|mid=%v|fires=%d|%s", limit, backend, where, midLine, fires, sigOutcome))
	if idx < 16 {
		c.Sample(map[string]any{"stream": "stall", "limit": limit, "backend": backend, "where": where, "mid_line": midLine, "deadline_expiries": fires,
			"first_part_bytes": first.Len(), "rest_bytes": rest.Len(), "replies_since_354": all, "outcome": sigOutcome})
	}
}

func maxInt(a, b int) int {
	if a > b {
		return a
	}
	return b
}
