package c06

import (
	"bufio"
	"bytes"
	"crypto/ecdsa"
	"crypto/elliptic"
	"crypto/rand"
	"crypto/tls"
	"crypto/x509"
	"crypto/x509/pkix"
	"encoding/pem"
	"fmt"
	"math/big"
	"net"
	"os"
	"path/filepath"
	"strings"
	"sync"
	"time"

	"verifharness/internal/fw"
	"verifharness/internal/sut"
)

// STARTTLS slice: the size limit is a property of the server, not of the transport.  A session is
// upgraded with STARTTLS (real crypto/tls handshake over net.Pipe against the real session code)
// and then offers an oversized and a within-limit message.  Certificate generation uses
// crypto/rand; nothing the oracle decides depends on it.

var (
	certOnce sync.Once
	certFile string
	keyFile  string
	certErr  error
)

func ensureCert(dir string) error {
	certOnce.Do(func() {
		key, err := ecdsa.GenerateKey(elliptic.P256(), rand.Reader)
		if err != nil {
			certErr = err
			return
		}
		tmpl := &x509.Certificate{SerialNumber: big.NewInt(1), Subject: pkix.Name{CommonName: "inbucket.test"},
			NotBefore: time.Now().Add(-time.Hour), NotAfter: time.Now().Add(240 * time.Hour),
			KeyUsage: x509.KeyUsageDigitalSignature, ExtKeyUsage: []x509.ExtKeyUsage{x509.ExtKeyUsageServerAuth},
			DNSNames: []string{"inbucket.test"}}
		der, err := x509.CreateCertificate(rand.Reader, tmpl, tmpl, &key.PublicKey, key)
		if err != nil {
			certErr = err
			return
		}
		kb, err := x509.MarshalECPrivateKey(key)
		if err != nil {
			certErr = err
			return
		}
		certFile = filepath.Join(dir, "c06-cert.pem")
		keyFile = filepath.Join(dir, "c06-key.pem")
		if err := os.WriteFile(certFile, pem.EncodeToMemory(&pem.Block{Type: "CERTIFICATE", Bytes: der}), 0o600); err != nil {
			certErr = err
			return
		}
		certErr = os.WriteFile(keyFile, pem.EncodeToMemory(&pem.Block{Type: "EC PRIVATE KEY", Bytes: kb}), 0o600)
	})
	return certErr
}

type tlsClient struct {
	conn net.Conn
	r    *bufio.Reader
	wd   time.Duration
}

// reply reads one complete SMTP reply; err "watchdog" when the read deadline (watchdog) expired.
func (t *tlsClient) reply() (code int, lines []string, err error) {
	for {
		_ = t.conn.SetReadDeadline(time.Now().Add(t.wd))
		l, e := t.r.ReadString('\n')
		if e != nil {
			if ne, ok := e.(net.Error); ok && ne.Timeout() {
				return 0, lines, fmt.Errorf("watchdog: no reply")
			}
			return 0, lines, e
		}
		l = strings.TrimRight(l, "\r\n")
		lines = append(lines, l)
		if len(l) < 4 {
			return 0, lines, fmt.Errorf("malformed reply line %q", l)
		}
		fmt.Sscanf(l[:3], "%d", &code)
		if l[3] == ' ' {
			return code, lines, nil
		}
	}
}

func (t *tlsClient) cmd(line string) (int, []string, error) {
	_ = t.conn.SetWriteDeadline(time.Now().Add(t.wd))
	if _, err := t.conn.Write([]byte(line + "\r\n")); err != nil {
		return 0, nil, err
	}
	return t.reply()
}

func runStartTLS(c *fw.Ctx, idx int, r *fw.Rand) {
	if err := ensureCert(c.Scratch); err != nil {
		c.Inconclusive("cannot create a throw-away certificate: " + err.Error())
		return
	}
	limit := []int{1000, 65536}[idx%2]
	backend := []string{"mem", "file"}[(idx/2)%2]
	conf := sut.DefaultConf()
	conf.SMTP.MaxMessageBytes = limit
	conf.SMTP.TLSEnabled = true
	conf.SMTP.TLSCert = certFile
	conf.SMTP.TLSPrivKey = keyFile
	// After seeded change C06-13: the remaining boolean switches of config.SMTP, which must not
	// influence the limit either.  One case in five runs with Debug on; one in five with ForceTLS
	// (the listener's mode "TLS from the first byte": the session is handed a *tls.Conn, the client
	// shakes hands before the greeting and STARTTLS is not offered), half of those with Debug as well.
	debug := (idx/4)%5 == 3 || (idx/4)%10 == 4
	forced := (idx/4)%5 == 4
	conf.SMTP.Debug = debug
	conf.SMTP.ForceTLS = forced
	if backend == "file" {
		conf.Storage.Type = "file"
		conf.Storage.Params = map[string]string{"path": c.TempDir("c06tls")}
	}
	env, err := sut.NewEnv(conf, backend)
	if err != nil {
		panic(err)
	}
	srv, cli := net.Pipe()
	var srvConn net.Conn = srv
	if forced {
		pair, err := tls.LoadX509KeyPair(certFile, keyFile)
		if err != nil {
			c.Inconclusive("cannot load the throw-away certificate: " + err.Error())
			return
		}
		srvConn = tls.Server(srv, &tls.Config{Certificates: []tls.Certificate{pair}})
	}
	ended := make(chan struct{})
	go func() {
		defer close(ended)
		env.SMTP.VerifServeConn(900000+idx, srvConn)
	}()
	t := &tlsClient{conn: cli, r: bufio.NewReader(cli), wd: 60 * time.Second * time.Duration(c.Slow)}
	defer func() {
		_ = t.conn.Close()
		select {
		case <-ended:
		case <-time.After(t.wd):
			c.Hang("smtp-session-end", "SMTP session did not end after the TLS client closed", "")
		}
	}()
	info := map[string]any{"limit": limit, "backend": backend, "smtp_debug": debug, "smtp_forcetls": forced}
	upgrade := func() bool {
		tc := tls.Client(cli, &tls.Config{InsecureSkipVerify: true, ServerName: "inbucket.test"})
		_ = cli.SetDeadline(time.Now().Add(t.wd))
		if err := tc.Handshake(); err != nil {
			c.Inconclusive("TLS handshake failed: " + err.Error())
			return false
		}
		t.conn, t.r = tc, bufio.NewReader(tc)
		return true
	}
	if forced && !upgrade() {
		return
	}
	bad := func(key, what string, err error) {
		if err != nil && strings.HasPrefix(err.Error(), "watchdog:") {
			c.Hang("smtp-starttls", what+": "+err.Error(), "")
			return
		}
		c.Violation(key, fmt.Sprintf("[starttls limit %d %s] %s (%v)", limit, backend, what, err), info)
	}
	if code, _, err := t.reply(); err != nil || code != 220 {
		bad("C06:starttls-dialogue", "no 220 greeting", err)
		return
	}
	code, lines, err := t.cmd("EHLO tls.test")
	if err != nil || code != 250 {
		bad("C06:starttls-dialogue", "EHLO refused", err)
		return
	}
	if !forced {
		if !strings.Contains(strings.Join(lines, "\n"), "STARTTLS") {
			c.Inconclusive("server does not offer STARTTLS although TLS is configured")
			return
		}
		if code, _, err := t.cmd("STARTTLS"); err != nil || code != 220 {
			bad("C06:starttls-dialogue", "STARTTLS refused", err)
			return
		}
		if !upgrade() {
			return
		}
		if code, _, err := t.cmd("EHLO tls.test"); err != nil || code != 250 {
			bad("C06:starttls-dialogue", "EHLO after STARTTLS refused", err)
			return
		}
	}
	send := func(box string, data []byte) (int, error) {
		for _, l := range []string{"MAIL FROM:<s@sender.test>", "RCPT TO:<" + box + "@inbucket.test>"} {
			if code, _, err := t.cmd(l); err != nil || code != 250 {
				return 0, fmt.Errorf("%s answered %d (%v)", l, code, err)
			}
		}
		if code, _, err := t.cmd("DATA"); err != nil || code != 354 {
			return 0, fmt.Errorf("DATA answered %d (%v)", code, err)
		}
		st := sut.DotStuff(data)
		_ = t.conn.SetWriteDeadline(time.Now().Add(t.wd))
		if _, err := t.conn.Write(st); err != nil {
			return 0, err
		}
		code, _, err := t.reply()
		return code, err
	}
	// 1. oversized: clearly beyond the limit under every measure.
	big := []byte("Subject: big\r\nFrom: a@b.test\r\n\r\n" + strings.Repeat(strings.Repeat("x", 60)+"\r\n", (2*limit)/62+r.Range(3, 40)))
	code, err = send("tlsbig", big)
	if err != nil {
		bad("C06:starttls-dialogue", "oversized transaction", err)
		return
	}
	if code/100 == 2 {
		c.Violation("C06:oversized-data-accepted", fmt.Sprintf("[starttls limit %d %s debug=%v forcetls=%v] on a TLS session a message of %d bytes was answered %d", limit, backend, debug, forced, len(big), code), info)
		return
	}
	if ms, _ := env.Store.GetMessages("tlsbig"); len(ms) != 0 {
		c.Violation("C06:refused-message-stored", fmt.Sprintf("[starttls limit %d %s] refused message is in the store", limit, backend), info)
		return
	}
	c.Count("starttls_oversized_refused", 1)
	// 2. the session stays usable: a small message is accepted and stored completely.
	small := []byte("Subject: small\r\nFrom: a@b.test\r\n\r\n" + strings.Repeat("ok line\r\n", r.Range(1, 20)))
	if limit >= len(small)+10 {
		code, err = send("tlssmall", small)
		if err != nil {
			// a server may keep the failed transaction open: allow one RSET
			if c2, _, e2 := t.cmd("RSET"); e2 == nil && c2 == 250 {
				code, err = send("tlssmall", small)
			}
		}
		if err != nil || code != 250 {
			bad("C06:session-unusable-after-refusal", fmt.Sprintf("follow-up message after STARTTLS answered %d", code), err)
			return
		}
		ms, gerr := env.Store.GetMessages("tlssmall")
		if gerr != nil || len(ms) != 1 {
			c.Violation("C06:followup-not-stored", fmt.Sprintf("[starttls limit %d %s] follow-up acknowledged, mailbox holds %d messages (%v)", limit, backend, len(ms), gerr), info)
			return
		}
		sn := sut.SnapMsg(ms[0], true)
		if !bytes.Equal(afterLines(normC([]byte(sn.Source)), 3), normC(small)) {
			c.Violation("C06:refused-bytes-in-later-message", fmt.Sprintf("[starttls limit %d %s] stored follow-up differs from what was transmitted", limit, backend), info)
			return
		}
		c.Count("starttls_followups_stored", 1)
	}
	_, _, _ = t.cmd("QUIT")
	c.Count("starttls_sessions", 1)
	if debug {
		c.Count("starttls_sessions_debug", 1)
	}
	if forced {
		c.Count("starttls_sessions_forcetls", 1)
	}
	c.NonTrivial(fmt.Sprintf("starttls|%d|%s|debug=%v|forcetls=%v", limit, backend, debug, forced))
}
