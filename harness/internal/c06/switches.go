package c06

// Added after seeded change C06-13 (the SMTP debug option made readDataBlock read the data block
// around the limiting reader, so oversized DATA was answered 250 and stored in full).
//
// The property quantifies over configurations, yet every stream configured the server with
// MaxMessageBytes, the storage back end and the discard domain only: each boolean switch of
// config.SMTP stayed at the value of sut.DefaultConf (Debug off, DefaultAccept on, DefaultStore on,
// TLSEnabled off, ForceTLS off).  None of them may influence the size limit.  The "conn" stream - the
// whole size/shape/SIZE workload with its unchanged oracle - therefore now runs a share of its
// connections (about 5 in 8) against a server with one of them, or a random subset, flipped in a way
// that leaves the address policy's decision for the harness's two domains as it was:
//
//	debug        SMTP.Debug = true (the server echoes commands and replies to the child's stdout)
//	store-list   DefaultStore = false, StoreDomains = [inbucket.test]  (discard.test still not stored)
//	accept-list  DefaultAccept = false, AcceptDomains = [inbucket.test, discard.test]
//	tls-offered  TLSEnabled = true with a throw-away certificate; STARTTLS is advertised, not used
//
// ForceTLS needs a *tls.Conn under the session and is exercised in the starttls stream (together with
// Debug there).  Which switches a connection gets is drawn from a stream of its own
// (c.Rand("conn-switches", idx)), so the probes of every connection are what they were before.
// Debug output volume: the unchanged server prints a line per command and reply only; a server that
// echoed message data as well would print every probe, so at the two large limits only one in four /
// one in eight of the selected connections switch Debug on.

import (
	"sort"
	"strings"

	"github.com/inbucket/inbucket/v3/pkg/config"

	"verifharness/internal/fw"
)

var switchNames = []string{"debug", "store-list", "accept-list", "tls-offered"}

// applySwitches flips the boolean SMTP switches chosen for connection idx in conf and returns their
// label ("" = all at their defaults).  inconclusive is set when the throw-away certificate cannot be made.
func applySwitches(c *fw.Ctx, conf *config.Root, idx, limit int) (label, inconclusive string) {
	sw := c.Rand("conn-switches", idx)
	on := map[string]bool{}
	switch v := sw.Intn(8); {
	case v < 4:
		on[switchNames[v]] = true
	case v == 4:
		for _, n := range switchNames {
			if sw.Bool() {
				on[n] = true
			}
		}
	}
	if on["debug"] {
		keep := 1
		switch {
		case limit >= 1000000:
			keep = 8
		case limit >= 65536:
			keep = 4
		}
		if sw.Intn(keep) != 0 {
			delete(on, "debug")
		}
	}
	var names []string
	for n := range on {
		names = append(names, n)
	}
	sort.Strings(names)
	for _, n := range names {
		switch n {
		case "debug":
			conf.SMTP.Debug = true
		case "store-list":
			conf.SMTP.DefaultStore = false
			conf.SMTP.StoreDomains = []string{"inbucket.test"}
		case "accept-list":
			conf.SMTP.DefaultAccept = false
			conf.SMTP.AcceptDomains = []string{"inbucket.test", "discard.test"}
		case "tls-offered":
			if err := ensureCert(c.Scratch); err != nil {
				return "", "cannot create a throw-away certificate: " + err.Error()
			}
			conf.SMTP.TLSEnabled = true
			conf.SMTP.TLSCert = certFile
			conf.SMTP.TLSPrivKey = keyFile
		}
		c.Count("switched_connections:"+n, 1)
	}
	if len(names) > 0 {
		c.Count("switched_connections", 1)
	}
	return strings.Join(names, "+"), ""
}

// countSwitched records a probe whose data block was judged on a server with non-default switches.
func (k *conn) countSwitched(class string) {
	for _, n := range strings.Split(k.switches, "+") {
		switch class {
		case "must-refuse":
			k.c.Count("switched_must_refuse_data:"+n, 1)
		case "must-accept":
			k.c.Count("switched_must_accept:"+n, 1)
		}
	}
}
