// Package c07 will hold the check for property C07.
package c07
