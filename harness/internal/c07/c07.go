// Package c07 decides C07: the memory store and the file store each behave like a map from
// mailbox name to an arrival-ordered list of messages, and are observationally equivalent.  The
// same generated operation sequence is applied to a real mem store and a real file store; every
// return value and, after every operation, the complete state of every mailbox of the history is
// compared with the reference model (internal/model), and the two back-ends with each other.
//
// The package also exports the operation-sequence generator (seq.go) and the executor (exec.go)
// used by C08 and C10.
package c07

import (
	"fmt"
	"os"
	"sort"
	"strings"
	"time"

	"github.com/inbucket/inbucket/v3/pkg/config"
	"github.com/inbucket/inbucket/v3/pkg/extension"

	"verifharness/internal/fw"
	"verifharness/internal/sut"
)

func init() {
	fw.Register(&fw.Prop{
		ID:    "C07",
		Level: "exploration",
		Rule: "operation sequences of 30-300 ops generated from (seed, case index) over 3-6 mailbox names (groups brute-forced to share " +
			"the first 3 or 6 hex digits of the mailbox hash = same file-store lock bucket and directory; names with '@', specials, " +
			"control bytes, invalid UTF-8, Unicode incl. an NFC/NFD pair, a case pair, 300 characters, the empty name), arbitrary metadata " +
			"(display names, 0-4 To entries, dates with sub-second and zone parts, zero date) and bodies (0 bytes .. 70 KB, binary); ops " +
			"add / get(live|removed|never-issued|id of another mailbox) / latest / list / mark-seen / remove / purge / visit, with " +
			"re-add after purge, remove twice, latest after purge.  The SAME sequence is applied to a real mem store and a real file " +
			"store; each return value and, after every op, every mailbox of the history is compared with the reference model; the two " +
			"back-ends are compared op by op (ids by position).  A case is non-trivial when it delivered, removed and looked up a " +
			"missing message at least once; distinct by (name classes, set of operation/outcome features reached, length bucket).  " +
			"Stream owners (after seeded change C07-11): 2-4 goroutines released together (GOMAXPROCS > 1), each the only user of one " +
			"mailbox, the names neighbours in the file store's layout (same 3 hex digits of the hash but not the 4th; same 4 but another " +
			"level-2 directory; same level-2 directory; unrelated); each owner cycles its mailbox 50-100 times through deliver 1-3 / read " +
			"back / empty (remove one by one, purge) with the sequential executor and its own one-mailbox model on a file store and a " +
			"memory store shared by all owners: every operation must give exactly the owner's expected result whatever the neighbours do.",
		Assumptions: []string{
			"the stores are driven through the storage.Store interface with message.Delivery values, as StoreManager does; From is never nil and To has no nil element",
			"Size() is compared with the number of bytes of the Delivery reader (Delivery.Size is set to the same value)",
			"dates are compared with time.Equal (gob does not keep the zone name)",
			"MarkSeen/RemoveMessage are never called with the id \"latest\" (unspecified); ids differing from \"latest\" only in case are treated as ordinary ids",
			"empty mailboxes reported by VisitMailboxes are ignored; whether the callback is called again after it returned false is counted, not judged",
			"the empty mailbox name is an ordinary name at the Store interface (both stores treat it so); it is judged like any other name",
			"the file store issues ids from the wall-clock second plus a process-wide 4-digit counter: the check assumes fewer than 10000 deliveries per second per process (stream owners delays deliveries beyond 4000 per clock second; the clock takes no part in a verdict)",
			"stream owners: a mailbox is used by one goroutine only; nothing is demanded about a mailbox under concurrent use by several parties (C09)",
		},
		MinObs: func(tier string) map[string]int64 {
			k := int64(1)
			if tier == "thorough" {
				k = 15
			}
			return map[string]int64{
				"distinct_nontrivial":              100 * k,
				"mem/op:add":                       6000 * k,
				"file/op:add":                      6000 * k,
				"file/missing_lookups":             1500 * k,
				"mem/missing_lookups":              1500 * k,
				"file/missing_removes":             600 * k,
				"mem/missing_markseen":             300 * k,
				"file/removed":                     1500 * k,
				"mem/purged_messages":              300 * k,
				"file/feat:readd-after-purge":      100 * k,
				"file/feat:remove-twice":           150 * k,
				"file/feat:remove-middle":          300 * k,
				"file/feat:latest-after-purge":     50 * k,
				"mem/visited_mailboxes_compared":   3000 * k,
				"ops_compared_between_backends":    30000 * k,
				"sequences_with_same_bucket_names": 100 * k,
				"file/ops_on_empty_name":           50 * k,
				"file/marked_seen":                 500 * k,
				// stream "owners": concurrent owners of neighbouring mailboxes; how often the call that
				// emptied one mailbox really ran while a neighbour delivered into its empty mailbox
				"owners/cases": 24 * k, "owners/rounds": 3000 * k, "owners/empties": 3000 * k,
				"owners/file/op:add": 5000 * k, "owners/ops_compared_between_backends": 20000 * k,
				"owners/cases_with_names_sharing_3_hex_digits_not_the_4th": 15 * k,
				"owners/empty_overlaps_neighbour_first_delivery":           300 * k,
			}
		},
		ChildTimeout: func(tier string) time.Duration {
			if tier == "thorough" {
				return 150 * time.Minute
			}
			return 25 * time.Minute
		},
		Run: run,
	})
}

func run(c *fw.Ctx) {
	n := c.N(600, 12000)
	c.Cases("seq", n, func(i int, r *fw.Rand) {
		ok, dump := c.Within(10*time.Minute, func() { runSeq(c, i, r) })
		if !ok {
			c.Hang("store-operation", "an operation sequence did not finish within the watchdog", dump)
		}
	})
	// Stream "owners" (added after seeded change C07-11, see owners.go): concurrent owners of
	// neighbouring mailboxes, each with an exact sequential expectation.
	c.Cases("owners", c.N(24, 400), func(i int, r *fw.Rand) {
		ok, dump := c.Within(10*time.Minute, func() { runOwners(c, i, r) })
		if !ok {
			c.Hang("store-operation", "concurrent owners of neighbouring mailboxes did not finish within the watchdog", dump)
		}
	})
	c.Cases("wrap", c.N(4, 48), func(i int, r *fw.Rand) {
		ok, dump := c.Within(10*time.Minute, func() { runWrap(c, i, r) })
		if !ok {
			c.Hang("store-operation", "a sequence at the id-counter wrap did not finish within the watchdog", dump)
		}
	})
}

// Report transfers an executor's findings and counters to the framework.
func Report(c *fw.Ctx, e *Exec, prefix string) {
	for _, f := range e.Fails {
		c.Violation(f.Key, f.What, f.Detail)
	}
	for k, v := range e.Counts {
		if strings.HasPrefix(k, "max_") {
			c.Max(k, v)
		} else {
			c.Count(prefix+k, v)
		}
	}
}

// FeatureSig renders the feature set of an executor.
func FeatureSig(e *Exec) string {
	var fs []string
	for f := range e.Feats {
		fs = append(fs, f)
	}
	sort.Strings(fs)
	return strings.Join(fs, ",")
}

// NameSig renders the classes of a name set.
func NameSig(names []Name) string {
	var cs []string
	for _, n := range names {
		cs = append(cs, n.Class)
	}
	sort.Strings(cs)
	return strings.Join(cs, ",")
}

// BoxTexts returns the name texts.
func BoxTexts(names []Name) []string {
	out := make([]string, len(names))
	for i, n := range names {
		out[i] = n.Text
	}
	return out
}

func runSeq(c *fw.Ctx, idx int, r *fw.Rand) {
	names := PickNames(r, r.Range(3, 6))
	nops := r.Range(30, 300)
	if r.Chance(1, 6) {
		nops = r.Range(30, 60)
	}
	ops := GenOps(r, names, nops, C07Weights, fmt.Sprintf("c07-%d", idx), nil, false)
	boxes := BoxTexts(names)

	// A quarter of the sequences run both stores with the same mailbox cap (added after seeded
	// change C07-8): the ordered-mailbox model then also says which message a delivery displaces,
	// and the back-ends must still agree.
	capN, cfgDesc := 0, "no cap/limit"
	if idx%4 == 3 {
		capN = []int{2, 3, 5, 8}[(idx/4)%4]
		cfgDesc = fmt.Sprintf("cap %d", capN)
		c.Count("sequences_with_cap", 1)
	}
	host := extension.NewHost()
	ms, err := sut.NewStore("mem", config.Storage{Type: "memory", Params: map[string]string{}, MailboxMsgCap: capN}, host)
	if err != nil {
		panic(err)
	}
	dir := c.TempDir("c07fs")
	defer os.RemoveAll(dir)
	fs, err := sut.NewStore("file", config.Storage{Type: "file", Params: map[string]string{"path": dir}, MailboxMsgCap: capN}, host)
	if err != nil {
		panic(err)
	}
	em := NewExec("C07", "mem", cfgDesc, ms, capN, 0, boxes)
	ef := NewExec("C07", "file", cfgDesc, fs, capN, 0, boxes)
	ef.ContentEvery = 8

	for k, op := range ops {
		om := em.Apply(op)
		of := ef.Apply(op)
		if em.Dead() || ef.Dead() {
			break
		}
		if om != "" && of != "" {
			c.Count("ops_compared_between_backends", 1)
			if om != of {
				c.Violation("C07:backends-differ:"+op.Kind, fmt.Sprintf("operation %d %s: mem store observed %q, file store %q", k+1, op.String(), om, of),
					map[string]any{"mem_trace": em.Trace, "file_trace": ef.Trace})
				break
			}
		}
	}
	if !em.Dead() && !ef.Dead() {
		for _, e := range []*Exec{em, ef} {
			e.Step++
			if e.VerifyAll("at-end", "", true) {
				e.Visit(0, true)
			}
		}
	}
	Report(c, em, "mem/")
	Report(c, ef, "file/")

	classes := NameSig(names)
	if strings.Contains(classes, "same-") {
		c.Count("sequences_with_same_bucket_names", 1)
	}
	for _, n := range names {
		c.Count("name_class:"+n.Class, 1)
	}
	if ef.Counts["op:add"] > 0 && ef.Counts["removed"] > 0 && ef.Counts["missing_lookups"]+ef.Counts["missing_removes"]+ef.Counts["missing_markseen"] > 0 {
		c.NonTrivial(fmt.Sprintf("names=%s|feats=%s|len=%d", classes, FeatureSig(ef), nops/50))
	}
	c.Sample(map[string]any{"names": boxes, "ops": nops, "first_ops": head(ef.Trace, 14), "file_counts": ef.Counts})
}

func head(t []string, n int) []string {
	if len(t) > n {
		return append([]string{}, t[:n]...)
	}
	return t
}
