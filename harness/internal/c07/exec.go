package c07

// Executor shared by C07, C08 and C10: applies abstract operations to one real store, compares
// every return value with the reference model (model.Store) and, after every operation, the
// complete observable state of every mailbox of the history with the model.

import (
	"context"
	"errors"
	"fmt"
	"io"
	"net/mail"
	"reflect"
	"sort"
	"strings"

	"github.com/inbucket/inbucket/v3/pkg/config"
	"github.com/inbucket/inbucket/v3/pkg/storage"

	"verifharness/internal/fw"
	"verifharness/internal/model"
	"verifharness/internal/sut"
)

// Fail is one refutation found by the executor.
type Fail struct {
	Key    string
	What   string
	Detail map[string]any
}

// Exec drives one real store next to its reference model.
type Exec struct {
	Prop    string // finding-key prefix ("C07", "C08", "C10")
	Backend string // "mem" | "file"
	Config  string // human description of the configuration, for messages
	Store   storage.Store
	M       *model.Store
	Removed map[string][]string // ids that left each mailbox (removed, purged, evicted, expired), oldest first
	Boxes   []string            // every mailbox name the history may touch

	Open    func() (storage.Store, error) // OpReopen
	ScanCfg config.Storage                // OpScan

	// ContentEvery: read the content of every message of every mailbox each N-th step (the
	// mailbox an operation names is always read completely).  0 means every step.
	ContentEvery int
	// DeclareShort: a third of the deliveries declare (Message.Size()) fewer bytes than their
	// reader yields, the way StoreManager.Deliver does (its declared size leaves out the trace
	// headers it prepends).  What a store reports and accounts is what it stored.
	DeclareShort bool
	// QuietReopen: a third of the reopens are not followed by an immediate read of everything.
	QuietReopen bool

	Step   int
	Trace  []string
	Fails  []Fail
	Counts map[string]int64
	Feats  map[string]bool

	lastMut  map[string]string          // last mutating operation kind per mailbox
	since    map[string]bool            // kinds of effective mutations since the last reopen / restart
	imported map[string]map[string]bool // ids taken over from an earlier process (Import)
}

// NewExec returns an executor with an empty model.
func NewExec(prop, backend, cfgDesc string, st storage.Store, cap int, limit int64, boxes []string) *Exec {
	return &Exec{Prop: prop, Backend: backend, Config: cfgDesc, Store: st, M: model.New(cap, limit),
		Removed: map[string][]string{}, Boxes: boxes, Counts: map[string]int64{}, Feats: map[string]bool{},
		lastMut: map[string]string{}, since: map[string]bool{}, imported: map[string]map[string]bool{}}
}

// NoteReopen records which kinds of mutation the state now read back went through since the
// previous reopen (kind "reopen") or process restart (kind "restart").
func (e *Exec) NoteReopen(kind string) {
	if len(e.since) == 0 {
		e.feat(kind + "-without-change")
	}
	for k := range e.since {
		e.feat(kind + "-after-" + k)
	}
	e.since = map[string]bool{}
}

// Dead reports whether a refutation was found (the history is abandoned then: the model and the
// store no longer correspond).
func (e *Exec) Dead() bool { return len(e.Fails) > 0 }

func (e *Exec) count(name string) { e.Counts[name]++ }

func (e *Exec) feat(name string) {
	e.Feats[name] = true
	e.Counts["feat:"+name]++
}

func (e *Exec) fail(class, what string) {
	tail := e.Trace
	if len(tail) > 50 {
		tail = tail[len(tail)-50:]
	}
	e.Fails = append(e.Fails, Fail{
		Key:  e.Prop + ":" + e.Backend + ":" + class,
		What: fmt.Sprintf("[%s %s] step %d: %s", e.Backend, e.Config, e.Step, what),
		Detail: map[string]any{"backend": e.Backend, "config": e.Config, "step": e.Step,
			"last_operations": append([]string{}, tail...), "model": e.modelBrief()},
	})
}

func (e *Exec) modelBrief() map[string][]string {
	out := map[string][]string{}
	for b, l := range e.M.Boxes {
		for _, m := range l {
			out[fw.Trunc(b, 60)] = append(out[fw.Trunc(b, 60)], fmt.Sprintf("%s(%dB,seen=%v)", m.ID, m.Size, m.Seen))
		}
	}
	return out
}

func isNilMsg(m storage.Message) bool {
	if m == nil {
		return true
	}
	v := reflect.ValueOf(m)
	return v.Kind() == reflect.Ptr && v.IsNil()
}

func readSource(m storage.Message) (string, error) {
	r, err := m.Source()
	if err != nil {
		return "", err
	}
	b, err := io.ReadAll(r)
	_ = r.Close()
	return string(b), err
}

// diffMsg compares a stored message with the model's; "" means equal.
func diffMsg(m storage.Message, w *model.Msg, box string, withSource bool) (field, what string) {
	if m.ID() != w.ID {
		return "id", fmt.Sprintf("ID()=%q, expected %q", m.ID(), w.ID)
	}
	if m.Mailbox() != box {
		return "mailbox", fmt.Sprintf("message %s: Mailbox()=%s, stored in %s", w.ID, fw.Q(m.Mailbox()), fw.Q(box))
	}
	if got := sut.AddrString(m.From()); got != w.From {
		return "from", fmt.Sprintf("message %s: From()=%s, written %s", w.ID, fw.Q(got), fw.Q(w.From))
	}
	if got := sut.AddrStrings(m.To()); strings.Join(got, "\x00") != strings.Join(w.To, "\x00") || len(got) != len(w.To) {
		return "to", fmt.Sprintf("message %s: To()=%q, written %q", w.ID, got, w.To)
	}
	if m.Subject() != w.Subject {
		return "subject", fmt.Sprintf("message %s: Subject()=%s, written %s", w.ID, fw.Q(m.Subject()), fw.Q(w.Subject))
	}
	if !m.Date().Equal(w.Date) {
		return "date", fmt.Sprintf("message %s: Date()=%v, written %v", w.ID, m.Date(), w.Date)
	}
	if m.Size() != w.Size {
		return "size", fmt.Sprintf("message %s: Size()=%d, %d bytes were written", w.ID, m.Size(), w.Size)
	}
	if m.Seen() != w.Seen {
		return "seen", fmt.Sprintf("message %s: Seen()=%v, expected %v", w.ID, m.Seen(), w.Seen)
	}
	if withSource {
		src, err := readSource(m)
		if err != nil {
			return "content-unreadable", fmt.Sprintf("message %s: Source(): %v", w.ID, err)
		}
		if src != w.Source {
			return "content", fmt.Sprintf("message %s: content differs from what was written (%d bytes read, %d written; read starts %s, written starts %s)",
				w.ID, len(src), len(w.Source), fw.Q(fw.Trunc(src, 60)), fw.Q(fw.Trunc(w.Source, 60)))
		}
	}
	return "", ""
}

// compareList checks one listing against the model.  ctx names the call site in the finding key.
func (e *Exec) compareList(ctx, box string, got []storage.Message, withSource bool) bool {
	want := e.M.List(box)
	gotIDs := make([]string, len(got))
	for i, m := range got {
		if isNilMsg(m) {
			e.fail(ctx+":nil-entry", fmt.Sprintf("listing of %s holds a nil message at position %d", fw.Q(box), i))
			return false
		}
		gotIDs[i] = m.ID()
	}
	wantIDs := make([]string, len(want))
	for i, m := range want {
		wantIDs[i] = m.ID
	}
	if strings.Join(gotIDs, "\x00") != strings.Join(wantIDs, "\x00") || len(gotIDs) != len(wantIDs) {
		class := classifyListDiff(gotIDs, wantIDs)
		e.fail(ctx+":"+class, fmt.Sprintf("mailbox %s lists %v, model (oldest first) %v", fw.Q(box), gotIDs, wantIDs))
		return false
	}
	for i, m := range got {
		if f, what := diffMsg(m, want[i], box, withSource); f != "" {
			e.fail(ctx+":wrong-"+f, fmt.Sprintf("mailbox %s position %d: %s", fw.Q(box), i, what))
			return false
		}
	}
	return true
}

func classifyListDiff(got, want []string) string {
	gc, wc := map[string]int{}, map[string]int{}
	dup := false
	for _, g := range got {
		gc[g]++
		if gc[g] > 1 {
			dup = true
		}
	}
	for _, w := range want {
		wc[w]++
	}
	lost, extra := 0, 0
	for k, n := range wc {
		if gc[k] < n {
			lost++
		}
	}
	for k, n := range gc {
		if wc[k] < n {
			extra++
		}
	}
	switch {
	case dup:
		return "duplicate-id-listed"
	case lost == 0 && extra == 0:
		return "wrong-order"
	case lost > 0 && extra == 0:
		return "message-lost"
	case lost == 0 && extra > 0:
		return "message-not-gone"
	}
	return "wrong-messages"
}

func (e *Exec) verifyBox(ctx, box string, withSource bool) bool {
	ms, err := e.Store.GetMessages(box)
	if err != nil {
		e.fail(ctx+":list-error", fmt.Sprintf("GetMessages(%s): %v", fw.Q(box), err))
		return false
	}
	e.Counts["listings_compared"]++
	e.Counts["messages_compared"] += int64(len(ms))
	return e.compareList(ctx, box, ms, withSource)
}

// VerifyAll compares every mailbox of the history with the model.  touched is read with content.
func (e *Exec) VerifyAll(ctx, touched string, allContent bool) bool {
	var total int64
	for _, b := range e.Boxes {
		if !e.verifyBox(ctx, b, allContent || b == touched) {
			return false
		}
	}
	if e.M.Limit > 0 {
		for _, b := range e.Boxes {
			ms, _ := e.Store.GetMessages(b)
			for _, m := range ms {
				total += m.Size()
			}
		}
		if total > e.M.Limit {
			e.fail(ctx+":size-limit-exceeded", fmt.Sprintf("stored bytes %d exceed the limit %d", total, e.M.Limit))
			return false
		}
		if total > e.Counts["max_stored_bytes"] {
			e.Counts["max_stored_bytes"] = total
		}
	}
	return true
}

// resolve turns the abstract selection of op into a concrete id.
func (e *Exec) resolve(op *Op) (id, class string) {
	switch op.Which {
	case SelLive:
		if l := e.M.List(op.Box); len(l) > 0 {
			return l[op.Sel%len(l)].ID, SelLive
		}
	case SelRemoved:
		if l := e.Removed[op.Box]; len(l) > 0 {
			return l[len(l)-1-op.Sel%len(l)], SelRemoved
		}
	case SelForeign:
		var cands []string
		for _, b := range e.Boxes {
			if b == op.Box {
				continue
			}
			for _, m := range e.M.List(b) {
				// The mem store numbers messages per mailbox, so an id of another mailbox may
				// also be live here; only ids that are not live in op.Box are "foreign".
				if e.M.Get(op.Box, m.ID) == nil {
					cands = append(cands, m.ID)
				}
			}
		}
		if len(cands) > 0 {
			return cands[op.Sel%len(cands)], SelForeign
		}
	}
	return op.Never, SelNever
}

func (e *Exec) posOf(box, id string) int {
	for i, m := range e.M.List(box) {
		if m.ID == id {
			return i
		}
	}
	return -1
}

// checkLookup judges the result of GetMessage.
func (e *Exec) checkLookup(ctx, box, id string, want *model.Msg, m storage.Message, err error) bool {
	if want == nil {
		e.count("missing_lookups")
		switch {
		case err == nil && isNilMsg(m):
			e.fail(ctx+":missing-reported-as-nil-success", fmt.Sprintf("GetMessage(%s,%s) of a message that does not exist returned (nil, nil)", fw.Q(box), fw.Q(id)))
		case err == nil:
			e.fail(ctx+":missing-returns-message", fmt.Sprintf("GetMessage(%s,%s) of a message that does not exist returned message %s", fw.Q(box), fw.Q(id), fw.Q(m.ID())))
		case !errors.Is(err, storage.ErrNotExist):
			e.fail(ctx+":missing-wrong-error", fmt.Sprintf("GetMessage(%s,%s) of a message that does not exist failed with %q, not ErrNotExist", fw.Q(box), fw.Q(id), err))
		case !isNilMsg(m):
			e.fail(ctx+":missing-with-message", fmt.Sprintf("GetMessage(%s,%s) returned ErrNotExist together with a message", fw.Q(box), fw.Q(id)))
		default:
			return true
		}
		return false
	}
	switch {
	case err != nil:
		e.fail(ctx+":existing-not-found", fmt.Sprintf("GetMessage(%s,%s) of a live message failed: %v", fw.Q(box), fw.Q(id), err))
	case isNilMsg(m):
		e.fail(ctx+":existing-nil", fmt.Sprintf("GetMessage(%s,%s) of a live message returned a nil message without error", fw.Q(box), fw.Q(id)))
	default:
		if f, what := diffMsg(m, want, box, true); f != "" {
			e.fail(ctx+":wrong-"+f, fmt.Sprintf("GetMessage(%s,%s): %s", fw.Q(box), fw.Q(id), what))
			return false
		}
		return true
	}
	return false
}

func lookupObs(m storage.Message, err error) string {
	switch {
	case err == nil && isNilMsg(m):
		return "nil"
	case err == nil:
		return "found"
	case errors.Is(err, storage.ErrNotExist):
		return "notexist"
	}
	return "error"
}

// Apply executes one operation, judges it, and verifies the whole state afterwards.  The
// returned observation is back-end independent (ids replaced by positions) so that two
// executors fed the same sequence can be compared; "" means not comparable.
func (e *Exec) Apply(op *Op) (obs string) {
	e.Step++
	e.Trace = append(e.Trace, fmt.Sprintf("%d:%s", e.Step, op.String()))
	if len(e.Trace) > 200 {
		e.Trace = e.Trace[100:]
	}
	e.count("op:" + op.Kind)
	if op.Box == "" && op.Kind != OpVisit && op.Kind != OpReopen && op.Kind != OpScan {
		e.count("ops_on_empty_name")
	}
	touched := op.Box
	switch op.Kind {
	case OpAdd:
		obs = e.add(op)
	case OpGet:
		id, class := e.resolve(op)
		want := e.M.Get(op.Box, id)
		e.count("get:" + class)
		e.feat("get-" + class)
		pos := e.posOf(op.Box, id)
		m, err := e.Store.GetMessage(op.Box, id)
		e.Trace = append(e.Trace, fmt.Sprintf("   -> get %s %s: %s", class, fw.Q(id), lookupObs(m, err)))
		e.checkLookup("get", op.Box, id, want, m, err)
		obs = fmt.Sprintf("get:%s:pos=%d", lookupObs(m, err), pos)
	case OpLatest:
		want := e.M.Latest(op.Box)
		if want == nil {
			e.feat("latest-on-empty")
			if e.lastMut[op.Box] == OpPurge {
				e.feat("latest-after-purge")
			}
		} else {
			e.feat("latest-on-nonempty")
		}
		m, err := e.Store.GetMessage(op.Box, "latest")
		e.checkLookup("latest", op.Box, "latest", want, m, err)
		obs = "latest:" + lookupObs(m, err)
		if err == nil && !isNilMsg(m) {
			obs += fmt.Sprintf(":pos=%d", e.posOf(op.Box, m.ID()))
		}
	case OpList:
		ms, err := e.Store.GetMessages(op.Box)
		if err != nil {
			e.fail("list:error", fmt.Sprintf("GetMessages(%s): %v", fw.Q(op.Box), err))
			break
		}
		e.compareList("list", op.Box, ms, true)
		obs = fmt.Sprintf("list:%d", len(ms))
		inHistory := false
		for _, b := range e.Boxes {
			if b == op.Box {
				inHistory = true
			}
		}
		if !inHistory {
			e.feat("list-unknown-mailbox")
			touched = ""
		}
	case OpSeen:
		id, class := e.resolve(op)
		want := e.M.Get(op.Box, id)
		e.count("seen:" + class)
		err := e.Store.MarkSeen(op.Box, id)
		e.Trace = append(e.Trace, fmt.Sprintf("   -> seen %s %s: %v", class, fw.Q(id), err))
		switch {
		case want == nil && err == nil:
			e.fail("seen:missing-reported-as-success", fmt.Sprintf("MarkSeen(%s,%s) of a message that does not exist returned nil", fw.Q(op.Box), fw.Q(id)))
		case want == nil && !errors.Is(err, storage.ErrNotExist):
			e.fail("seen:missing-wrong-error", fmt.Sprintf("MarkSeen(%s,%s) of a message that does not exist failed with %q, not ErrNotExist", fw.Q(op.Box), fw.Q(id), err))
		case want != nil && err != nil:
			e.fail("seen:error", fmt.Sprintf("MarkSeen(%s,%s) of a live message failed: %v", fw.Q(op.Box), fw.Q(id), err))
		case want != nil:
			if want.Seen {
				e.feat("seen-twice")
			}
			if !want.Seen {
				e.since["mark-seen"] = true
			}
			e.M.MarkSeen(op.Box, id)
			e.count("marked_seen")
		default:
			e.count("missing_markseen")
			e.feat("seen-missing-" + class)
		}
		obs = fmt.Sprintf("seen:%v:pos=%d", err == nil, e.posOf(op.Box, id))
	case OpRemove:
		id, class := e.resolve(op)
		want := e.M.Get(op.Box, id)
		pos := e.posOf(op.Box, id)
		e.count("remove:" + class)
		err := e.Store.RemoveMessage(op.Box, id)
		e.Trace = append(e.Trace, fmt.Sprintf("   -> remove %s %s: %v", class, fw.Q(id), err))
		switch {
		case want == nil && err == nil:
			e.fail("remove:missing-reported-as-success", fmt.Sprintf("RemoveMessage(%s,%s) of a message that does not exist returned nil", fw.Q(op.Box), fw.Q(id)))
		case want == nil && !errors.Is(err, storage.ErrNotExist):
			e.fail("remove:missing-wrong-error", fmt.Sprintf("RemoveMessage(%s,%s) of a message that does not exist failed with %q, not ErrNotExist", fw.Q(op.Box), fw.Q(id), err))
		case want != nil && err != nil:
			e.fail("remove:error", fmt.Sprintf("RemoveMessage(%s,%s) of a live message failed: %v", fw.Q(op.Box), fw.Q(id), err))
		case want != nil:
			n := len(e.M.List(op.Box))
			switch {
			case n == 1:
				e.feat("remove-only-message")
			case pos == 0:
				e.feat("remove-oldest")
			case pos == n-1:
				e.feat("remove-newest")
			default:
				e.feat("remove-middle")
			}
			e.M.Remove(op.Box, id)
			e.Removed[op.Box] = append(e.Removed[op.Box], id)
			e.lastMut[op.Box] = OpRemove
			e.count("removed")
			if n == 1 {
				e.since["remove-last-message"] = true
			} else {
				e.since["remove"] = true
			}
		default:
			e.count("missing_removes")
			if class == SelRemoved {
				e.feat("remove-twice")
			} else {
				e.feat("remove-missing-" + class)
			}
		}
		obs = fmt.Sprintf("remove:%v:pos=%d", err == nil, pos)
	case OpPurge:
		n := len(e.M.List(op.Box))
		err := e.Store.PurgeMessages(op.Box)
		if err != nil {
			e.fail("purge:error", fmt.Sprintf("PurgeMessages(%s): %v", fw.Q(op.Box), err))
			break
		}
		if n == 0 {
			e.feat("purge-empty")
		} else {
			e.feat("purge-nonempty")
		}
		for _, m := range e.M.Purge(op.Box) {
			e.Removed[op.Box] = append(e.Removed[op.Box], m.ID)
		}
		e.lastMut[op.Box] = OpPurge
		e.Counts["purged_messages"] += int64(n)
		if n > 0 {
			e.since["purge"] = true
		}
		obs = fmt.Sprintf("purge:%d", n)
	case OpVisit:
		obs = e.Visit(op.Stop, false)
		touched = ""
	case OpReopen:
		st, err := e.Open()
		if err != nil {
			e.fail("reopen:error", fmt.Sprintf("constructing a store on the existing path failed: %v", err))
			break
		}
		e.Store = st
		e.count("reopens")
		e.NoteReopen("reopen")
		if e.M.Count() > 0 {
			e.count("reopens_nonempty")
		}
		e.Counts["messages_across_reopen"] += int64(e.M.Count())
		if e.QuietReopen && (e.Step+int(e.Counts["reopens"]))%3 == 0 {
			// nothing is read through the new store object before the next operation of the
			// history (added after seeded change C10-9: the first thing a restarted server does
			// may be to accept mail); that operation's own verification then reads everything
			e.count("reopens_without_immediate_read")
			return "reopen"
		}
		if e.VerifyAll("after-reopen", "", true) {
			e.Visit(0, true)
		}
		return "reopen"
	case OpScan:
		obs = e.scan()
		touched = ""
	}
	if e.Dead() {
		return obs
	}
	all := e.ContentEvery <= 1 || e.Step%e.ContentEvery == 0
	e.VerifyAll("after-"+op.Kind, touched, all)
	return obs
}

func (e *Exec) add(op *Op) string {
	sp := op.Msg
	from := sp.From
	to := make([]*mail.Address, len(sp.To))
	for i := range sp.To {
		a := sp.To[i]
		to[i] = &a
	}
	dl := sut.NewDelivery(op.Box, &from, to, sp.Subject, sp.Date, sp.Body)
	if e.DeclareShort && (len(sp.Body)+e.Step)%3 == 0 && len(sp.Body) > 1 {
		short := 100 + len(sp.Body)%80
		if short > len(sp.Body)/2 {
			short = len(sp.Body) / 2
		}
		dl.Meta.Size = int64(len(sp.Body) - short)
		e.count("adds_declaring_fewer_bytes_than_sent")
	}
	id, err := e.Store.AddMessage(dl)
	if e.M.Limit > 0 && int64(len(sp.Body)) > e.M.Limit {
		// A message larger than the whole size limit can never be retained: the store must
		// refuse it and stay exactly as it was (the state comparison after this operation
		// checks that nothing was stored or evicted).  The model is not touched.
		e.feat("add-larger-than-limit")
		e.count("adds_refused_larger_than_limit")
		if err == nil {
			e.fail("add:message-larger-than-limit-accepted", fmt.Sprintf("AddMessage(%s, %d bytes) with a store size limit of %d bytes returned id %s and no error",
				fw.Q(op.Box), len(sp.Body), e.M.Limit, fw.Q(id)))
		}
		return "add:refused"
	}
	if err != nil {
		e.fail("add:error", fmt.Sprintf("AddMessage(%s, %d bytes) failed: %v", fw.Q(op.Box), len(sp.Body), err))
		return ""
	}
	e.Trace = append(e.Trace, "   -> id "+fw.Q(id))
	if !e.M.FreshID(op.Box, id) {
		// The cap evicts before the new id is chosen: a message the cap removes in this very
		// delivery is no longer live when the id is handed out.
		live := e.M.Get(op.Box, id) != nil
		if live && e.M.Cap > 0 {
			if n := len(e.M.List(op.Box)); e.posOf(op.Box, id) < n-e.M.Cap+1 {
				live = false
			}
		}
		switch {
		case live:
			e.fail("add:id-of-live-message-reused", fmt.Sprintf("AddMessage(%s) returned id %s, which a live message of the mailbox already has", fw.Q(op.Box), fw.Q(id)))
			return ""
		case e.imported[op.Box][id]:
			// Issued by an earlier process and deleted since: a fresh process cannot know the id.
			e.count("ids_of_deleted_messages_of_earlier_process_reissued")
		default:
			e.fail("add:id-reused", fmt.Sprintf("AddMessage(%s) returned id %s, which an earlier (removed) message of the mailbox had in this process", fw.Q(op.Box), fw.Q(id)))
			return ""
		}
	}
	switch e.lastMut[op.Box] {
	case OpPurge:
		e.feat("readd-after-purge")
	case OpRemove:
		e.feat("add-after-remove")
	}
	e.lastMut[op.Box] = OpAdd
	e.since["add"] = true
	if i := strings.IndexByte(id, '-'); i > 0 {
		// Evidence only: the file store's ids start with the wall-clock second.  Count deliveries
		// that share their second with a live message written by an earlier process - the
		// situation in which a per-process id counter could repeat an id.
		for _, m := range e.M.List(op.Box) {
			if e.imported[op.Box][m.ID] && strings.HasPrefix(m.ID, id[:i+1]) {
				e.count("adds_in_same_second_as_live_message_of_earlier_process")
				break
			}
		}
	}
	w := &model.Msg{ID: id, Mailbox: op.Box, From: sut.AddrString(&from), To: sut.AddrStrings(to), Subject: sp.Subject,
		Date: sp.Date, Size: int64(len(sp.Body)), Source: string(sp.Body)}
	hadEvictions := e.Counts["evict:cap"]+e.Counts["evict:size"] > 0
	ev, kept := e.M.Add(w)
	nc, ns, other := 0, 0, false
	for _, x := range ev {
		e.Removed[x.Msg.Mailbox] = append(e.Removed[x.Msg.Mailbox], x.Msg.ID)
		e.count("evict:" + x.Reason)
		if x.Reason == "cap" {
			nc++
		} else {
			ns++
			if x.Msg.Mailbox != op.Box {
				other = true
			}
		}
	}
	if nc > 0 {
		e.feat("cap-eviction")
		e.since["cap-eviction"] = true
	}
	if ns > 0 {
		e.feat("size-eviction")
	}
	if ns > 1 {
		e.feat("size-eviction-of-several")
	}
	if nc > 0 && ns > 0 {
		e.feat("cap-and-size-eviction-in-one-add")
	}
	if other {
		e.feat("size-eviction-from-other-mailbox")
	}
	if len(ev) > 0 {
		e.count("adds_with_evictions")
	}
	m, gerr := e.Store.GetMessage(op.Box, id)
	if kept {
		e.count("adds_kept")
		if hadEvictions {
			e.count("adds_kept_after_earlier_evictions")
		}
		switch {
		case gerr != nil || isNilMsg(m):
			e.fail("add:new-message-not-retrievable", fmt.Sprintf("AddMessage(%s, %d bytes) returned id %s, the message fits (cap %d, limit %d, %d other bytes stored), but GetMessage gives (%v, %v)",
				fw.Q(op.Box), len(sp.Body), fw.Q(id), e.M.Cap, e.M.Limit, e.M.Total()-w.Size, lookupObs(m, gerr), gerr))
			return ""
		default:
			if f, what := diffMsg(m, w, op.Box, true); f != "" {
				e.fail("add:read-back-wrong-"+f, fmt.Sprintf("message just added to %s: %s", fw.Q(op.Box), what))
				return ""
			}
		}
	} else {
		e.count("adds_not_kept")
		e.feat("add-evicted-immediately")
		if !(errors.Is(gerr, storage.ErrNotExist) && isNilMsg(m)) {
			e.fail("add:message-beyond-limit-retrievable", fmt.Sprintf("AddMessage(%s, %d bytes) with limit %d: the model evicts the new message itself, but GetMessage(%s) gives (%v, %v)",
				fw.Q(op.Box), len(sp.Body), e.M.Limit, fw.Q(id), lookupObs(m, gerr), gerr))
			return ""
		}
	}
	return fmt.Sprintf("add:kept=%v:cap=%d:size=%d", kept, nc, ns)
}

// Visit runs VisitMailboxes and compares every non-empty mailbox reported with the model.
func (e *Exec) Visit(stop int, withSource bool) string {
	calls, afterStop, empties := 0, 0, 0
	stopped := false
	seen := map[string]bool{}
	type rep struct {
		name string
		ms   []storage.Message
	}
	var reps []rep
	err := e.Store.VisitMailboxes(func(ms []storage.Message) bool {
		if stopped {
			afterStop++
			return false
		}
		calls++
		if len(ms) == 0 {
			empties++
		} else if !isNilMsg(ms[0]) {
			reps = append(reps, rep{ms[0].Mailbox(), ms})
		} else {
			reps = append(reps, rep{"", ms})
		}
		if stop > 0 && calls >= stop {
			stopped = true
			return false
		}
		return true
	})
	e.Counts["visit_empty_mailboxes_reported"] += int64(empties)
	e.Counts["visit_callbacks_after_stop"] += int64(afterStop)
	if err != nil {
		e.fail("visit:error", fmt.Sprintf("VisitMailboxes failed: %v", err))
		return ""
	}
	if afterStop > 0 {
		// The visitor's false means stop (storage.Store: "cont bool"; the retention scanner's only
		// way to abandon a scan).  Judged since seeded change C07-10; before it was only counted.
		e.fail("visit:callback-after-stop", fmt.Sprintf("VisitMailboxes called the visitor %d more time(s) after it had returned false at mailbox %d", afterStop, calls))
		return ""
	}
	for _, r := range reps {
		if seen[r.name] {
			e.fail("visit:mailbox-reported-twice", fmt.Sprintf("VisitMailboxes reported mailbox %s twice", fw.Q(r.name)))
			return ""
		}
		seen[r.name] = true
		if len(e.M.List(r.name)) == 0 {
			var ids []string
			for _, m := range r.ms {
				if !isNilMsg(m) {
					ids = append(ids, m.ID())
				}
			}
			e.fail("visit:unexpected-mailbox", fmt.Sprintf("VisitMailboxes reported %d message(s) %v under mailbox name %s, which is empty in the model (non-empty: %q)",
				len(r.ms), ids, fw.Q(r.name), e.M.Names()))
			return ""
		}
		if !e.compareList("visit", r.name, r.ms, withSource) {
			return ""
		}
		e.Counts["visited_mailboxes_compared"]++
	}
	if !stopped {
		names := e.M.Names()
		sort.Strings(names)
		for _, n := range names {
			if !seen[n] {
				e.fail("visit:mailbox-not-reported", fmt.Sprintf("VisitMailboxes did not report non-empty mailbox %s (%d messages)", fw.Q(n), len(e.M.List(n))))
				return ""
			}
		}
		return fmt.Sprintf("visit:%d", len(reps))
	}
	e.feat("visit-stopped-early")
	return ""
}

// scan runs one retention scan; the model drops every message of the "old" date class.
func (e *Exec) scan() string {
	rs := storage.NewRetentionScanner(e.ScanCfg, e.Store)
	if err := rs.DoScan(context.Background()); err != nil {
		e.fail("scan:error", fmt.Sprintf("retention scan failed: %v", err))
		return ""
	}
	expired, retained := 0, 0
	for _, b := range e.Boxes {
		var ids []string
		for _, m := range e.M.List(b) {
			if m.Date.Before(AgedPivot) {
				ids = append(ids, m.ID)
			} else {
				retained++
			}
		}
		for _, id := range ids {
			e.M.Remove(b, id)
			e.Removed[b] = append(e.Removed[b], id)
			expired++
		}
		if len(ids) > 0 {
			e.lastMut[b] = OpRemove
		}
	}
	e.Counts["scan_expired"] += int64(expired)
	e.Counts["scan_retained"] += int64(retained)
	if expired > 0 {
		e.since["retention-scan"] = true
	}
	if expired > 0 && retained > 0 {
		e.feat("scan-expired-and-retained")
	} else if expired > 0 {
		e.feat("scan-expired-only")
	}
	return fmt.Sprintf("scan:%d", expired)
}

// ---------------------------------------------------------------------------------------------
// State transfer between processes (C10 real restarts).

// State is the serialisable part of an executor.
type State struct {
	Boxes   map[string][]model.Msg
	Removed map[string][]string
	Step    int
	Since   map[string]bool
}

// Export captures the model.
func (e *Exec) Export() State {
	s := State{Boxes: map[string][]model.Msg{}, Removed: e.Removed, Step: e.Step, Since: e.since}
	for b, l := range e.M.Boxes {
		for _, m := range l {
			s.Boxes[b] = append(s.Boxes[b], *m)
		}
	}
	return s
}

// Import installs a model captured in another process.  Only ids of live messages count as
// used: a fresh process cannot know the ids of messages deleted before it started.
func (e *Exec) Import(s State) {
	for b, l := range s.Boxes {
		for i := range l {
			m := l[i]
			e.M.Boxes[b] = append(e.M.Boxes[b], &m)
			if e.M.Used[b] == nil {
				e.M.Used[b] = map[string]bool{}
			}
			e.M.Used[b][m.ID] = true
			if e.imported[b] == nil {
				e.imported[b] = map[string]bool{}
			}
			e.imported[b][m.ID] = true
		}
	}
	if s.Since != nil {
		e.since = s.Since
	}
	if s.Removed != nil {
		e.Removed = s.Removed
	}
	e.Step = s.Step
}
