package c07

// Stream "owners" (added after seeded change C07-11).
//
// What was thin: the statement quantifies over "several mailboxes (including names that hash into
// the same directory/lock bucket ...)" and says that removal "affects only the named message".
// The sequences of stream "seq" use such names, but one operation at a time, so the only thing
// that makes neighbouring mailboxes independent of each other in the file store - the lock that
// serialises everybody who creates or prunes a shared hash directory - was never needed: a
// sequential history is correct with any lock, or none.  C07-11 makes the lock finer than the
// directory it has to protect (4 hex digits of the hash instead of 3): one mailbox's purge prunes
// the shared level-1 directory while the neighbour's first delivery is inside MkdirAll, and that
// delivery fails although nobody named that mailbox.
//
// What the stream does: 2-4 goroutines run at the same time (GOMAXPROCS > 1, released together),
// each the ONLY user of one mailbox.  The names are neighbours in the file store's layout
// mail/<hash[0:3]>/<hash[0:6]>/<hash>: they share the first 3 hex digits of the mailbox hash but
// not the 4th; share 4 digits but not the level-2 directory; share the level-2 directory
// (6 digits); or are unrelated.  Each owner drives its mailbox through many create/empty cycles:
// deliver 1-3 messages into the empty mailbox, read them back (list, get, latest, mark-seen,
// look-ups of missing ids), empty it (remove one by one in some order, purge, or both), look
// again.  These are the moments at which the file store creates and prunes the shared levels.
//
// Oracle: unchanged.  Because nobody else touches an owner's mailbox, the ordered-mailbox model
// pins every result of every operation of that owner exactly, whatever the neighbours do at the
// same time; so every owner simply runs the sequential executor (exec.go) on its own one-mailbox
// history against the shared store: every operation must succeed with the model's result and the
// mailbox must list exactly the model's messages after every operation.  The same history runs
// on a memory store shared in the same way, and the two back-ends are compared op by op.  No
// linearizability checker is needed, and nothing is demanded about mailboxes under concurrent
// use by several parties (that is C09).  At rest the file store's visit must report exactly what
// the owners left.
//
// The wall clock is used for pacing only (see pacer); it takes no part in any verdict.

import (
	"fmt"
	"os"
	"runtime"
	"sort"
	"strings"
	"sync"
	"sync/atomic"
	"time"

	"github.com/inbucket/inbucket/v3/pkg/config"
	"github.com/inbucket/inbucket/v3/pkg/extension"
	"github.com/inbucket/inbucket/v3/pkg/storage"
	"github.com/inbucket/inbucket/v3/pkg/stringutil"

	"verifharness/internal/fw"
	"verifharness/internal/sut"
)

// ---------------------------------------------------------------------------------------------
// Neighbour names.

// nbSet is one set of owner mailboxes with the relation that holds between them.
type nbSet struct {
	Shape string
	Names []string
	Sib3  bool // some pair shares 3 hex digits but not the 4th
}

var (
	nbOnce   sync.Once
	nbShapes map[string][][]string
)

// Shapes of owner sets.  "3not4": same level-1 directory (old lock bucket), different 4th digit;
// "4not6": same 4 digits, different level-2 directory; "level2": same level-2 directory.
var shapeOrder = []string{"pair-3not4", "4not6+3not4", "trio-3not4", "level2+3not4", "two-pairs-3not4", "4not6+unrelated",
	"pair-3not4+unrelated", "level2+unrelated"}

func findNeighbours() {
	type ent struct{ name, hash string }
	by3 := map[string][]ent{}
	for k := 0; k < 40000; k++ {
		n := fmt.Sprintf("m%d", k)
		h := stringutil.HashMailboxName(n)
		if len(h) < 8 {
			continue
		}
		by3[h[:3]] = append(by3[h[:3]], ent{n, h})
	}
	keys := make([]string, 0, len(by3))
	for k := range by3 {
		keys = append(keys, k)
	}
	sort.Strings(keys)
	nbShapes = map[string][][]string{}
	add := func(shape string, names ...string) {
		if len(nbShapes[shape]) < 64 {
			nbShapes[shape] = append(nbShapes[shape], names)
		}
	}
	var pairs [][]string // pairs sharing 3 digits, not the 4th - one per bucket
	for _, k := range keys {
		l := by3[k]
		// one name per distinct 4th digit
		var d4 []ent
		seen4 := map[byte]bool{}
		for _, e := range l {
			if !seen4[e.hash[3]] {
				seen4[e.hash[3]] = true
				d4 = append(d4, e)
			}
		}
		if len(d4) >= 2 {
			add("pair-3not4", d4[0].name, d4[1].name)
			pairs = append(pairs, []string{d4[0].name, d4[1].name})
		}
		if len(d4) >= 3 {
			add("trio-3not4", d4[0].name, d4[1].name, d4[2].name)
		}
		// a pair with the same 4 digits / the same 6 digits, and a third name with another 4th digit
		var p4, p6 []ent
		for i := 0; i < len(l) && (p4 == nil || p6 == nil); i++ {
			for j := i + 1; j < len(l); j++ {
				a, b := l[i], l[j]
				if a.hash[:6] == b.hash[:6] && p6 == nil {
					p6 = []ent{a, b}
				}
				if a.hash[:4] == b.hash[:4] && a.hash[:6] != b.hash[:6] && p4 == nil {
					p4 = []ent{a, b}
				}
			}
		}
		third := func(p []ent) string {
			for _, e := range d4 {
				if e.hash[3] != p[0].hash[3] {
					return e.name
				}
			}
			return ""
		}
		if p4 != nil {
			if t := third(p4); t != "" {
				add("4not6+3not4", p4[0].name, p4[1].name, t)
			}
			add("4not6+unrelated", p4[0].name, p4[1].name)
		}
		if p6 != nil {
			if t := third(p6); t != "" {
				add("level2+3not4", p6[0].name, p6[1].name, t)
			}
			add("level2+unrelated", p6[0].name, p6[1].name)
		}
	}
	// "unrelated": a name from another level-1 directory (the first name of a later bucket's pair).
	unrelated := func(set []string, at int) string {
		for d := 1; d < len(pairs); d++ {
			cand := pairs[(at+d*7)%len(pairs)][0]
			ok := true
			for _, s := range set {
				if stringutil.HashMailboxName(s)[:3] == stringutil.HashMailboxName(cand)[:3] {
					ok = false
				}
			}
			if ok {
				return cand
			}
		}
		return "unrelated-owner"
	}
	for _, sh := range []string{"4not6+unrelated", "level2+unrelated"} {
		for i, s := range nbShapes[sh] {
			nbShapes[sh][i] = append(s, unrelated(s, i))
		}
	}
	for i := 0; i+1 < len(pairs) && i < 128; i += 2 {
		add("two-pairs-3not4", pairs[i][0], pairs[i+1][0], pairs[i][1], pairs[i+1][1])
	}
	for i := 0; i < len(pairs) && i < 64; i++ {
		add("pair-3not4+unrelated", pairs[i][0], pairs[i][1], unrelated(pairs[i], i))
	}
}

// pickNeighbours chooses the owner mailboxes of case idx.
func pickNeighbours(idx int, r *fw.Rand) nbSet {
	nbOnce.Do(findNeighbours)
	for d := 0; d < len(shapeOrder); d++ {
		sh := shapeOrder[(idx+d)%len(shapeOrder)]
		if l := nbShapes[sh]; len(l) > 0 {
			names := append([]string{}, l[r.Intn(len(l))]...)
			set := nbSet{Shape: sh, Names: names}
			for i := range names {
				for j := i + 1; j < len(names); j++ {
					a, b := stringutil.HashMailboxName(names[i]), stringutil.HashMailboxName(names[j])
					if a[:3] == b[:3] && a[3] != b[3] {
						set.Sib3 = true
					}
				}
			}
			return set
		}
	}
	return nbSet{Shape: "fallback", Names: []string{"owner-a", "owner-b"}}
}

// ---------------------------------------------------------------------------------------------
// Pacing and overlap evidence.

// pacer keeps the whole process below the file store's id capacity: ids are the wall-clock second
// plus a process-wide four-digit counter (assumption of this check: fewer than 10000 deliveries
// per second per process).  Four goroutines delivering into a RAM-backed directory can come
// close; at most 4000 deliveries are started per clock second, so at most 8000 in any window of
// one second.  The clock only delays a delivery; it never enters a verdict.
type pacer struct {
	mu    sync.Mutex
	sec   int64
	n     int
	waits int64
}

func (p *pacer) tick() {
	for {
		now := time.Now()
		p.mu.Lock()
		if s := now.Unix(); s != p.sec {
			p.sec, p.n = s, 0
		}
		if p.n < 4000 {
			p.n++
			p.mu.Unlock()
			return
		}
		p.waits++
		p.mu.Unlock()
		time.Sleep(time.Until(now.Truncate(time.Second).Add(time.Second)) + time.Millisecond)
	}
}

// ownedStore is the file store as one owner sees it.  It only counts how often the call that
// empties the owner's mailbox ran at the same time as a neighbour's delivery into its empty
// mailbox - the evidence that the stream really produced the interleavings it is for.
type ownedStore struct {
	storage.Store
	firstStart, firstEnd atomic.Int64 // deliveries into the empty mailbox begun / finished
	others               []*ownedStore
	nextAddIsFirst       bool // set by the owner before each operation
	nextCallEmpties      bool
	overlaps             int64
}

func (s *ownedStore) AddMessage(m storage.Message) (string, error) {
	if s.nextAddIsFirst {
		s.nextAddIsFirst = false
		s.firstStart.Add(1)
		defer s.firstEnd.Add(1)
	}
	return s.Store.AddMessage(m)
}

func (s *ownedStore) emptying(f func() error) error {
	if !s.nextCallEmpties {
		return f()
	}
	s.nextCallEmpties = false
	ended := make([]int64, len(s.others))
	for i, o := range s.others {
		ended[i] = o.firstEnd.Load()
	}
	err := f()
	for i, o := range s.others {
		// first deliveries of o begun before this call returned and not finished before it began
		if d := o.firstStart.Load() - ended[i]; d > 0 {
			s.overlaps += d
		}
	}
	return err
}

func (s *ownedStore) RemoveMessage(mailbox, id string) error {
	return s.emptying(func() error { return s.Store.RemoveMessage(mailbox, id) })
}

func (s *ownedStore) PurgeMessages(mailbox string) error {
	return s.emptying(func() error { return s.Store.PurgeMessages(mailbox) })
}

// ---------------------------------------------------------------------------------------------
// One owner's history.

// genOwnerOps generates create/empty cycles for one mailbox.  The last cycle leaves its messages.
func genOwnerOps(r *fw.Rand, box string, rounds int, nonce string) (ops []*Op, roundStart []int) {
	adds := 0
	never := func() string { return r.Pick(neverIDs) }
	sel := func(kind, which string, s int) *Op {
		return &Op{Kind: kind, Box: box, Which: which, Sel: s, Never: never()}
	}
	for k := 0; k < rounds; k++ {
		roundStart = append(roundStart, len(ops))
		n := r.Range(1, 3)
		for j := 0; j < n; j++ {
			adds++
			size := r.Range(0, 400)
			if r.Chance(1, 12) {
				size = r.Range(3000, 9000)
			}
			ops = append(ops, &Op{Kind: OpAdd, Box: box, Msg: GenMsg(r, fmt.Sprintf("%s-%d", nonce, adds), size, false)})
			if r.Chance(1, 4) {
				ops = append(ops, &Op{Kind: OpLatest, Box: box})
			}
		}
		// read back
		for _, what := range r.Perm(5)[:r.Range(2, 4)] {
			switch what {
			case 0:
				ops = append(ops, &Op{Kind: OpList, Box: box})
			case 1:
				ops = append(ops, sel(OpGet, SelLive, r.Intn(1000)))
			case 2:
				ops = append(ops, &Op{Kind: OpLatest, Box: box})
			case 3:
				ops = append(ops, sel(OpSeen, SelLive, r.Intn(1000)))
			default:
				ops = append(ops, sel(OpGet, r.Pick([]string{SelRemoved, SelNever}), r.Intn(8)))
			}
		}
		if k == rounds-1 {
			break
		}
		// empty
		switch r.Intn(5) {
		case 0, 1:
			ops = append(ops, &Op{Kind: OpPurge, Box: box})
		case 2: // one by one, any order
			for j := 0; j < n; j++ {
				ops = append(ops, sel(OpRemove, SelLive, r.Intn(1000)))
			}
		case 3: // one by one, oldest first
			for j := 0; j < n; j++ {
				ops = append(ops, sel(OpRemove, SelLive, 0))
			}
		default: // some, then purge
			for j := 0; j < n-1; j++ {
				ops = append(ops, sel(OpRemove, SelLive, r.Intn(1000)))
			}
			ops = append(ops, &Op{Kind: OpPurge, Box: box})
		}
		// look at the empty mailbox
		switch r.Intn(8) {
		case 0:
			ops = append(ops, &Op{Kind: OpLatest, Box: box})
		case 1:
			ops = append(ops, &Op{Kind: OpList, Box: box})
		case 2:
			ops = append(ops, sel(OpGet, SelRemoved, r.Intn(5)))
		case 3:
			ops = append(ops, sel(OpRemove, SelRemoved, 0))
		case 4:
			ops = append(ops, &Op{Kind: OpPurge, Box: box})
		}
	}
	return ops, roundStart
}

type owner struct {
	box        string
	ops        []*Op
	roundStart []int
	em, ef     *Exec
	fst        *ownedStore
	differ     *Fail
	rounds     int64
	empties    int64
	compared   int64
}

func (w *owner) run(p *pacer, stop *atomic.Bool) {
	next := 0
	for k, op := range w.ops {
		if stop.Load() {
			return
		}
		if next < len(w.roundStart) && w.roundStart[next] == k {
			next++
			w.rounds++
		}
		live := len(w.ef.M.List(w.box))
		willEmpty := live > 0 && (op.Kind == OpPurge || (op.Kind == OpRemove && op.Which == SelLive && live == 1))
		w.fst.nextAddIsFirst = op.Kind == OpAdd && live == 0
		w.fst.nextCallEmpties = willEmpty
		if op.Kind == OpAdd {
			p.tick()
		}
		om := w.em.Apply(op)
		of := w.ef.Apply(op)
		if w.em.Dead() || w.ef.Dead() {
			stop.Store(true)
			return
		}
		if willEmpty {
			w.empties++
		}
		if om != "" && of != "" {
			w.compared++
			if om != of {
				w.differ = &Fail{Key: "C07:owners:backends-differ:" + op.Kind,
					What:   fmt.Sprintf("owner of %s, operation %d %s: mem store observed %q, file store %q", fw.Q(w.box), k+1, op.String(), om, of),
					Detail: map[string]any{"mem_trace": w.em.Trace, "file_trace": w.ef.Trace}}
				stop.Store(true)
				return
			}
		}
	}
}

func runOwners(c *fw.Ctx, idx int, r *fw.Rand) {
	set := pickNeighbours(idx, r)
	rounds := r.Range(50, 100)

	if runtime.GOMAXPROCS(0) < 2 {
		defer runtime.GOMAXPROCS(runtime.GOMAXPROCS(4))
	}
	host := extension.NewHost()
	ms, err := sut.NewStore("mem", config.Storage{Type: "memory", Params: map[string]string{}}, host)
	if err != nil {
		panic(err)
	}
	dir := c.TempDir("c07own")
	defer os.RemoveAll(dir)
	fs, err := sut.NewStore("file", config.Storage{Type: "file", Params: map[string]string{"path": dir}}, host)
	if err != nil {
		panic(err)
	}

	var hashes []string
	for _, n := range set.Names {
		hashes = append(hashes, stringutil.HashMailboxName(n)[:8])
	}
	ws := make([]*owner, len(set.Names))
	for i, n := range set.Names {
		desc := fmt.Sprintf("no cap/limit; owner %d of %d running concurrently, one mailbox each: %v (hashes %v, %s), %d create/empty cycles",
			i+1, len(set.Names), set.Names, hashes, set.Shape, rounds)
		w := &owner{box: n, fst: &ownedStore{Store: fs}}
		w.ops, w.roundStart = genOwnerOps(r, n, rounds, fmt.Sprintf("c07o-%d-%d", idx, i))
		w.em = NewExec("C07:owners", "mem", desc, ms, 0, 0, []string{n})
		w.ef = NewExec("C07:owners", "file", desc, w.fst, 0, 0, []string{n})
		w.ef.ContentEvery = 4
		ws[i] = w
	}
	for i, w := range ws {
		for j, o := range ws {
			if i != j {
				w.fst.others = append(w.fst.others, o.fst)
			}
		}
	}

	// Released together.
	var wg sync.WaitGroup
	var stop atomic.Bool
	p := &pacer{}
	start := make(chan struct{})
	for _, w := range ws {
		wg.Add(1)
		go func(w *owner) {
			defer wg.Done()
			<-start
			w.run(p, &stop)
		}(w)
	}
	close(start)
	wg.Wait()

	// At rest: every owner's mailbox once more with content, then one visit of the file store.
	failed := false
	for _, w := range ws {
		if w.em.Dead() || w.ef.Dead() || w.differ != nil {
			failed = true
		}
	}
	if !failed {
		for _, w := range ws {
			for _, e := range []*Exec{w.em, w.ef} {
				e.Step++
				if !e.VerifyAll("at-rest", "", true) {
					failed = true
				}
			}
		}
	}
	if !failed {
		visitAtRest(c, "file", fs, ws, set)
		visitAtRest(c, "mem", ms, ws, set)
	}

	var feats = map[string]bool{}
	var nrounds, empties, overlaps, compared int64
	for _, w := range ws {
		Report(c, w.em, "owners/mem/")
		Report(c, w.ef, "owners/file/")
		if w.differ != nil {
			c.Violation(w.differ.Key, w.differ.What, w.differ.Detail)
		}
		for f := range w.ef.Feats {
			feats[f] = true
		}
		nrounds += w.rounds
		empties += w.empties
		overlaps += w.fst.overlaps
		compared += w.compared
	}
	c.Count("owners/cases", 1)
	if failed {
		c.Count("owners/cases_refuted", 1)
	}
	c.Count("owners/shape:"+set.Shape, 1)
	c.Count("owners/goroutines", int64(len(ws)))
	c.Count("owners/rounds", nrounds)
	c.Count("owners/empties", empties)
	c.Count("owners/empty_overlaps_neighbour_first_delivery", overlaps)
	c.Count("owners/ops_compared_between_backends", compared)
	c.Count("owners/pacer_waits", p.waits)
	c.Max("max_owners_gomaxprocs", int64(runtime.GOMAXPROCS(0)))
	if set.Sib3 {
		c.Count("owners/cases_with_names_sharing_3_hex_digits_not_the_4th", 1)
	}
	if !failed && empties >= int64(len(ws)) && compared > 0 {
		var fl []string
		for f := range feats {
			fl = append(fl, f)
		}
		sort.Strings(fl)
		c.NonTrivial(fmt.Sprintf("owners|%s|n=%d|overlap=%v|%s", set.Shape, len(ws), overlaps > 0, strings.Join(fl, ",")))
	}
	if idx < 8 {
		c.Sample(map[string]any{"stream": "owners", "shape": set.Shape, "names": set.Names, "hashes": hashes, "rounds_each": rounds,
			"empties": empties, "empty_overlaps_neighbour_first_delivery": overlaps, "first_ops": head(ws[0].ef.Trace, 10)})
	}
}

// visitAtRest: with all owners finished, VisitMailboxes must report exactly the non-empty
// mailboxes the owners left, each with exactly its messages in order.
func visitAtRest(c *fw.Ctx, backend string, st storage.Store, ws []*owner, set nbSet) {
	got := map[string][]string{}
	twice := ""
	err := st.VisitMailboxes(func(ms []storage.Message) bool {
		if len(ms) == 0 || isNilMsg(ms[0]) {
			return true
		}
		name := ms[0].Mailbox()
		if _, dup := got[name]; dup {
			twice = name
		}
		ids := []string{}
		for _, m := range ms {
			if !isNilMsg(m) {
				ids = append(ids, m.ID())
			}
		}
		got[name] = ids
		return true
	})
	desc := fmt.Sprintf("[%s, owners %v (%s) at rest]", backend, set.Names, set.Shape)
	if err != nil {
		c.Violation("C07:owners:"+backend+":visit:error", fmt.Sprintf("%s VisitMailboxes failed: %v", desc, err), nil)
		return
	}
	if twice != "" {
		c.Violation("C07:owners:"+backend+":visit:mailbox-reported-twice", fmt.Sprintf("%s VisitMailboxes reported mailbox %s twice", desc, fw.Q(twice)), nil)
		return
	}
	want := map[string][]string{}
	for _, w := range ws {
		e := w.ef
		if backend == "mem" {
			e = w.em
		}
		ids := []string{}
		for _, m := range e.M.List(w.box) {
			ids = append(ids, m.ID)
		}
		if len(ids) > 0 {
			want[w.box] = ids
		}
	}
	for n, ids := range want {
		if strings.Join(got[n], "\x00") != strings.Join(ids, "\x00") {
			c.Violation("C07:owners:"+backend+":visit:wrong-messages", fmt.Sprintf("%s visit reports %v for mailbox %s, its owner left %v", desc, got[n], fw.Q(n), ids), nil)
			return
		}
	}
	for n, ids := range got {
		if _, ok := want[n]; !ok {
			c.Violation("C07:owners:"+backend+":visit:unexpected-mailbox", fmt.Sprintf("%s visit reports mailbox %s with %v, which no owner left non-empty", desc, fw.Q(n), ids), nil)
			return
		}
	}
	c.Count("owners/"+backend+"/visited_mailboxes_compared_at_rest", int64(len(want)))
}
