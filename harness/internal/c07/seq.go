package c07

// Operation-sequence generator shared by C07, C08 and C10.  Operations are abstract: they name a
// mailbox and select a message by class and position ("the k-th live message", "the k-th most
// recently removed id", a never-issued id, an id that lives in another mailbox); the executor
// resolves the selection against its reference model when the operation is applied, because ids
// are opaque outputs of the implementation and differ between back-ends.

import (
	"fmt"
	"net/mail"
	"sort"
	"strings"
	"sync"
	"time"

	"github.com/inbucket/inbucket/v3/pkg/stringutil"

	"verifharness/internal/fw"
)

// Operation kinds.
const (
	OpAdd    = "add"
	OpGet    = "get"
	OpLatest = "latest"
	OpList   = "list"
	OpSeen   = "seen"
	OpRemove = "remove"
	OpPurge  = "purge"
	OpVisit  = "visit"
	OpReopen = "reopen" // C10: construct a new Store object on the same path
	OpScan   = "scan"   // C10: one retention scan
)

// Message selection classes.
const (
	SelLive    = "live"
	SelRemoved = "removed"
	SelNever   = "never"
	SelForeign = "foreign"
)

// MsgSpec is everything the harness writes with one delivery.
type MsgSpec struct {
	From    mail.Address
	To      []mail.Address
	Subject string
	Date    time.Time
	Body    []byte
}

// Op is one abstract store operation.
type Op struct {
	Kind  string
	Box   string
	Which string   // selection class for get / seen / remove
	Sel   int      // position selector (resolved modulo the candidates)
	Never string   // the id used for SelNever (and the fallback when a class has no candidate)
	Msg   *MsgSpec // OpAdd
	Stop  int      // OpVisit: stop after this many callbacks (0 = visit everything)
}

func (o *Op) String() string {
	switch o.Kind {
	case OpAdd:
		return fmt.Sprintf("add(%s,%dB)", fw.Q(short(o.Box)), len(o.Msg.Body))
	case OpGet, OpSeen, OpRemove:
		return fmt.Sprintf("%s(%s,%s#%d)", o.Kind, fw.Q(short(o.Box)), o.Which, o.Sel)
	case OpVisit:
		return fmt.Sprintf("visit(stop=%d)", o.Stop)
	case OpReopen, OpScan:
		return o.Kind
	}
	return fmt.Sprintf("%s(%s)", o.Kind, fw.Q(short(o.Box)))
}

func short(s string) string {
	if len(s) > 40 {
		return s[:16] + fmt.Sprintf("..(%d bytes)", len(s))
	}
	return s
}

// ---------------------------------------------------------------------------------------------
// Mailbox names.

// Name is a mailbox name with its generator class.
type Name struct {
	Text  string
	Class string
}

var (
	bucketOnce   sync.Once
	bucketGroups [][]string // names sharing the first 3 hex digits of the hash (lock bucket, level-1 dir)
	level2Pairs  [][]string // names sharing the first 6 hex digits (level-1 and level-2 dir)
)

// findCollisions brute-forces names whose SHA-1 (stringutil.HashMailboxName, as the file store
// computes it) shares a prefix.
func findCollisions() {
	by3 := map[string][]string{}
	by6 := map[string][]string{}
	for k := 0; k < 40000; k++ {
		n := fmt.Sprintf("m%d", k)
		h := stringutil.HashMailboxName(n)
		if len(h) < 6 {
			continue
		}
		if k < 3000 {
			by3[h[:3]] = append(by3[h[:3]], n)
		}
		by6[h[:6]] = append(by6[h[:6]], n)
	}
	var k3, k6 []string
	for k, l := range by3 {
		if len(l) >= 2 {
			k3 = append(k3, k)
		}
	}
	for k, l := range by6 {
		if len(l) >= 2 {
			k6 = append(k6, k)
		}
	}
	sort.Strings(k3)
	sort.Strings(k6)
	for _, k := range k3 {
		l := by3[k]
		if len(l) > 3 {
			l = l[:3]
		}
		bucketGroups = append(bucketGroups, l)
	}
	for _, k := range k6 {
		level2Pairs = append(level2Pairs, by6[k][:2])
	}
}

// Collisions returns the pre-computed colliding name groups.
func Collisions() (bucket [][]string, level2 [][]string) {
	bucketOnce.Do(findCollisions)
	return bucketGroups, level2Pairs
}

var fixedNames = []Name{
	{"user@example.com", "at"},
	{"First.Last+tag@Sub.Domain.test", "at"},
	{"@", "at"},
	{"we!rd#$%&'*+-/=?^_`{|}~", "special"},
	{"../../etc/passwd", "special"},
	{"a/b\\c", "special"},
	{"sp ace\ttab", "special"},
	{"semi;colon,\"quote\"", "special"},
	{"line\nbreak", "special"},
	{"nul\x00byte", "special"},
	{".", "special"},
	{"index.gob", "special"},
	{"\xff\xfe-not-utf8", "special"},
	{"почта", "unicode"},
	{"用户@例え.テスト", "unicode"},
	{"\u00e9mile", "unicode-nfc"},
	{"e\u0301mile", "unicode-nfd"},
	{"\U0001F4EC", "unicode"},
	{"Box", "case-upper"},
	{"box", "case-lower"},
	{"", "empty"},
}

// PickNames chooses n distinct mailbox names of varied classes.  With probability 3/4 the set
// contains a group hashing into the same lock bucket / level-1 directory.
func PickNames(r *fw.Rand, n int) []Name {
	b3, b6 := Collisions()
	var out []Name
	seen := map[string]bool{}
	add := func(nm Name) {
		if !seen[nm.Text] && len(out) < n {
			seen[nm.Text] = true
			out = append(out, nm)
		}
	}
	if r.Chance(3, 4) {
		if r.Chance(1, 4) && len(b6) > 0 {
			for _, t := range b6[r.Intn(len(b6))] {
				add(Name{t, "same-level2-dir"})
			}
		} else if len(b3) > 0 {
			g := b3[r.Intn(len(b3))]
			k := 2
			if len(g) > 2 && r.Bool() {
				k = 3
			}
			for _, t := range g[:k] {
				add(Name{t, "same-bucket"})
			}
		}
	}
	for len(out) < n {
		switch r.Intn(10) {
		case 0, 1, 2:
			add(Name{"box" + r.Letters(r.Range(1, 5), "abcdefghijklmnopqrstuvwxyz0123456789"), "plain"})
		case 3:
			add(Name{r.Letters(300, "abcdefghijklmnopqrstuvwxyzABCDEFGHIJKLMNOPQRSTUVWXYZ0123456789.-_@"), "long300"})
		case 4:
			// Both members of a pair that differs only in case / normalisation form.
			p := r.Pick([]string{"case", "norm"})
			for _, nm := range fixedNames {
				if (p == "case" && strings.HasPrefix(nm.Class, "case-")) || (p == "norm" && strings.HasPrefix(nm.Class, "unicode-nf")) {
					add(nm)
				}
			}
		default:
			add(fixedNames[r.Intn(len(fixedNames))])
		}
	}
	return out
}

// ---------------------------------------------------------------------------------------------
// Messages.

var displayNames = []string{"", "", "Alice Example", "Bob \"Q\" O'Neil", "Ünï Cödé 名前",
	"=?utf-8?q?not_decoded?=", "Comma, Semi; <angle>", strings.Repeat("Long Name ", 30)}

var addrLocals = []string{"alice", "bob.smith", "o'neil", "x", "UPPER", "tag+ext", "üser", "\"quoted local\"", "a!b#c"}
var addrDomains = []string{"example.com", "Sub.Example.ORG", "[192.168.1.5]", "例え.テスト", "localhost", "x-y.z9.test"}

func genAddr(r *fw.Rand) mail.Address {
	return mail.Address{Name: r.Pick(displayNames), Address: r.Pick(addrLocals) + "@" + r.Pick(addrDomains)}
}

var subjects = []string{"", "hello", "Re: Fwd: [list] status", "件名 über \U0001F4E7", "tab\there", "multi\r\n line",
	"trailing space ", " leading", "=?utf-8?b?eA==?="}

// GenDate returns a date with sub-second and zone parts.  When aged is set, every date is at
// least several years away from the present on either side (class old: 1971-2015, class young:
// 2100-2200), so that a retention cut-off computed from the machine clock cannot fall near it.
func GenDate(r *fw.Rand, aged bool) time.Time {
	var zone *time.Location
	switch r.Intn(6) {
	case 0:
		zone = time.UTC
	case 1:
		zone = time.FixedZone("", r.Range(-14*60, 14*60)*60)
	case 2:
		// Offset with a seconds part.  Only east of Greenwich: time.Time.UnmarshalBinary
		// (go1.23) reads the seconds byte of a negative offset as unsigned, so such a zone
		// changes on the first gob round trip and may then hit the -1 minute case below.
		zone = time.FixedZone("ODD", r.Range(0, 12*3600))
	case 3:
		zone = time.FixedZone("CEST", 2*3600)
	default:
		zone = time.FixedZone("", []int{-8 * 3600, 5*3600 + 1800, 9 * 3600}[r.Intn(3)])
	}
	// encoding/gob (time.Time.MarshalBinary) cannot represent a zone whose offset, in whole
	// minutes, is -1; the file store's index is a gob.  Such zones do not exist; avoid them.
	if _, off := time.Date(2000, 1, 1, 0, 0, 0, 0, zone).Zone(); off/60 == -1 {
		zone = time.FixedZone("", -2*3600)
	}
	nsec := 0
	switch r.Intn(4) {
	case 0:
		nsec = 0
	case 1:
		nsec = r.Intn(1000) * 1000000
	default:
		nsec = r.Intn(1000000000)
	}
	old := r.Bool()
	if !aged {
		switch r.Intn(20) {
		case 0:
			return time.Time{}
		case 1:
			// Around "now": irrelevant for checks that never run a retention scan.
			return time.Date(2026, time.Month(r.Range(1, 12)), r.Range(1, 28), r.Intn(24), r.Intn(60), r.Intn(60), nsec, zone)
		}
	}
	if old {
		return time.Date(r.Range(1971, 2015), time.Month(r.Range(1, 12)), r.Range(1, 28), r.Intn(24), r.Intn(60), r.Intn(60), nsec, zone)
	}
	return time.Date(r.Range(2100, 2200), time.Month(r.Range(1, 12)), r.Range(1, 28), r.Intn(24), r.Intn(60), r.Intn(60), nsec, zone)
}

// AgedPivot separates the two date classes of GenDate(aged=true).
var AgedPivot = time.Date(2050, 1, 1, 0, 0, 0, 0, time.UTC)

// GenBody returns a message source of exactly size bytes (size < 0: a seeded size) that starts,
// room permitting, with a nonce line making it unique within the case.
func GenBody(r *fw.Rand, nonce string, size int) []byte {
	if size < 0 {
		switch r.Intn(12) {
		case 0:
			size = 0
		case 1:
			size = r.Range(1, 20)
		case 2:
			size = r.Range(20000, 70000)
		default:
			size = r.Range(40, 1500)
		}
	}
	head := "X-Nonce: " + nonce + "\r\nSubject: generated\r\n\r\n"
	b := make([]byte, 0, size)
	b = append(b, head...)
	if len(b) > size {
		b = b[:size]
	}
	if len(b) < size {
		rest := size - len(b)
		switch r.Intn(3) {
		case 0: // binary, including NUL, bare CR/LF and invalid UTF-8
			b = append(b, r.Bytes(rest)...)
		case 1: // text lines, some starting with a dot
			for len(b) < size {
				line := r.Letters(r.Range(0, 70), "abcdefghijklmnopqrstuvwxyz .,ä") + "\r\n"
				if r.Chance(1, 8) {
					line = "." + line
				}
				b = append(b, line...)
			}
			b = b[:size]
		default:
			b = append(b, strings.Repeat("x", rest)...)
		}
	}
	return b
}

// GenMsg builds a delivery.  size < 0 lets the generator pick the body size.
func GenMsg(r *fw.Rand, nonce string, size int, aged bool) *MsgSpec {
	m := &MsgSpec{From: genAddr(r), Subject: r.Pick(subjects), Date: GenDate(r, aged)}
	if r.Chance(1, 6) {
		m.Subject = "subj " + r.Letters(r.Range(1, 900), "abcdefghij XYZ0123é")
	}
	nto := r.Weighted([]int{1, 6, 3, 2, 1}) // 0..4 To entries
	for i := 0; i < nto; i++ {
		m.To = append(m.To, genAddr(r))
	}
	if nto >= 2 && r.Chance(1, 4) {
		m.To[nto-1] = m.To[0] // duplicate entry
	}
	m.Body = GenBody(r, nonce, size)
	return m
}

// ---------------------------------------------------------------------------------------------
// Sequences.

var neverIDs = []string{"", "0", "-1", "x", "99999999", "01", " 1", "1 ", "20010101T000000-0000", "20990101T000000-9999",
	"latest2", "LATEST", "../index", "index.gob", "1.raw", "é", "nope", "+1", "+2", "002", "1.0", "0x1", "1e0"}

// Weights holds the relative frequency of each operation kind.
type Weights struct {
	Add, Get, Latest, List, Seen, Remove, Purge, Visit int
}

// C07Weights is the mix used for model-conformance sequences.
var C07Weights = Weights{Add: 36, Get: 16, Latest: 7, List: 6, Seen: 9, Remove: 16, Purge: 4, Visit: 6}

// GenOps generates n operations over the given names.  sizeFn picks the body size of the k-th
// add (nil: seeded sizes); aged selects retention-safe dates.
func GenOps(r *fw.Rand, names []Name, n int, w Weights, nonce string, sizeFn func(r *fw.Rand) int, aged bool) []*Op {
	ops := make([]*Op, 0, n)
	adds := 0
	box := func() string { return names[r.Intn(len(names))].Text }
	// A hot mailbox receives half of the traffic so that it grows beyond a handful of messages.
	hot := box()
	pickBox := func() string {
		if r.Bool() {
			return hot
		}
		return box()
	}
	newAdd := func(b string) *Op {
		adds++
		size := -1
		if sizeFn != nil {
			size = sizeFn(r)
		}
		return &Op{Kind: OpAdd, Box: b, Msg: GenMsg(r, fmt.Sprintf("%s-%d", nonce, adds), size, aged)}
	}
	sel := func(kind, b string) *Op {
		o := &Op{Kind: kind, Box: b, Sel: r.Intn(1000), Never: r.Pick(neverIDs)}
		switch r.Weighted([]int{60, 20, 12, 8}) {
		case 0:
			o.Which = SelLive
		case 1:
			o.Which = SelRemoved
			if r.Bool() {
				o.Sel = 0 // the most recently removed id
			}
		case 2:
			o.Which = SelNever
			if (kind == OpSeen || kind == OpRemove) && r.Chance(1, 3) {
				// "latest" is a read alias of GetMessage only; it is not the id of any message.
				o.Never = "latest"
			}
		default:
			o.Which = SelForeign
		}
		return o
	}
	kinds := []int{w.Add, w.Get, w.Latest, w.List, w.Seen, w.Remove, w.Purge, w.Visit}
	var follow *Op
	for len(ops) < n {
		if follow != nil {
			ops = append(ops, follow)
			follow = nil
			continue
		}
		b := pickBox()
		switch r.Weighted(kinds) {
		case 0:
			ops = append(ops, newAdd(b))
		case 1:
			ops = append(ops, sel(OpGet, b))
		case 2:
			ops = append(ops, &Op{Kind: OpLatest, Box: b})
		case 3:
			o := &Op{Kind: OpList, Box: b}
			if r.Chance(1, 10) {
				o.Box = "never-used-" + r.Letters(4, "abcdef")
			}
			ops = append(ops, o)
		case 4:
			o := sel(OpSeen, b)
			ops = append(ops, o)
			if r.Chance(1, 5) { // mark the same message again
				c := *o
				follow = &c
			}
		case 5:
			o := sel(OpRemove, b)
			ops = append(ops, o)
			switch r.Intn(6) {
			case 0: // remove the same id a second time
				follow = &Op{Kind: OpRemove, Box: b, Which: SelRemoved, Sel: 0, Never: o.Never}
			case 1: // deliver right after a removal
				follow = newAdd(b)
			case 2:
				nv := o.Never
				if nv == "latest" {
					nv = "nope" // for GetMessage "latest" is an alias, not a missing id
				}
				follow = &Op{Kind: OpGet, Box: b, Which: SelRemoved, Sel: 0, Never: nv}
			}
		case 6:
			ops = append(ops, &Op{Kind: OpPurge, Box: b})
			switch r.Intn(5) {
			case 0, 1:
				follow = newAdd(b)
			case 2:
				follow = &Op{Kind: OpLatest, Box: b}
			case 3:
				follow = &Op{Kind: OpGet, Box: b, Which: SelRemoved, Sel: r.Intn(5), Never: "nope"}
			}
		default:
			o := &Op{Kind: OpVisit}
			if r.Chance(1, 5) {
				o.Stop = r.Range(1, 3)
			}
			ops = append(ops, o)
		}
	}
	return ops
}
