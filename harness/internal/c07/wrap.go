package c07

import (
	"fmt"
	"net/mail"
	"os"
	"strconv"
	"time"

	"github.com/inbucket/inbucket/v3/pkg/config"
	"github.com/inbucket/inbucket/v3/pkg/extension"

	"verifharness/internal/fw"
	"verifharness/internal/sut"
)

// Stream "wrap" (added after seeded change C07-7): file-store ids end in a four-digit,
// process-wide counter that wraps from 9999 to 0000, so after ten thousand deliveries the ids of
// one mailbox are no longer ascending within a second.  Nothing in the statement depends on ids
// being ordered.  The stream reads the counter from an id, burns deliveries (into a mailbox it
// keeps purging) until the counter is just below the wrap, and then runs an ordinary generated
// sequence on the file store, whose first additions straddle the wrap.
func runWrap(c *fw.Ctx, idx int, r *fw.Rand) {
	dir := c.TempDir("c07wrap")
	defer os.RemoveAll(dir)
	fs, err := sut.NewStore("file", config.Storage{Type: "file", Params: map[string]string{"path": dir}}, extension.NewHost())
	if err != nil {
		panic(err)
	}
	from := &mail.Address{Address: "burn@origin.test"}
	to := []*mail.Address{{Address: "burnbox@inbucket.test"}}
	burn := func() (int, bool) {
		id, err := fs.AddMessage(sut.NewDelivery("burnbox", from, to, "burn", time.Now(), []byte("Subject: burn\r\n\r\nx\r\n")))
		if err != nil || len(id) < 5 {
			c.Inconclusive(fmt.Sprintf("burn delivery failed: %q %v", id, err))
			return 0, false
		}
		n, err := strconv.Atoi(id[len(id)-4:])
		if err != nil {
			c.Inconclusive("file-store id does not end in four digits: " + id)
			return 0, false
		}
		return n, true
	}
	n, ok := burn()
	if !ok {
		return
	}
	target := 9988 + r.Intn(8)
	for k := 0; n != target; k++ {
		if n, ok = burn(); !ok {
			return
		}
		if k%100 == 99 {
			if err := fs.PurgeMessages("burnbox"); err != nil {
				c.Inconclusive("purge of the burn mailbox failed: " + err.Error())
				return
			}
		}
		if k > 30000 {
			c.Inconclusive("the id counter never reached the wrap")
			return
		}
	}
	_ = fs.PurgeMessages("burnbox")
	names := PickNames(r, r.Range(2, 3))
	ops := GenOps(r, names, r.Range(60, 140), C07Weights, fmt.Sprintf("c07w-%d", idx), nil, false)
	boxes := BoxTexts(names)
	ef := NewExec("C07", "file", "no cap/limit, id counter at the wrap", fs, 0, 0, boxes)
	ef.ContentEvery = 8
	for _, op := range ops {
		ef.Apply(op)
		if ef.Dead() {
			break
		}
	}
	if !ef.Dead() {
		ef.Step++
		if ef.VerifyAll("at-end", "", true) {
			ef.Visit(0, true)
		}
	}
	Report(c, ef, "wrap/")
	// Did a mailbox really get ids from both sides of the wrap within one second?
	straddled := 0
	for _, b := range boxes {
		ms, err := fs.GetMessages(b)
		if err != nil {
			continue
		}
		for i := 1; i < len(ms); i++ {
			p, q := ms[i-1].ID(), ms[i].ID()
			if len(p) == len(q) && len(p) > 5 && p[:len(p)-4] == q[:len(q)-4] && q[len(q)-4:] < p[len(p)-4:] {
				straddled++
			}
		}
	}
	c.Count("wrap_sequences", 1)
	if straddled > 0 {
		c.Count("wrap_mailboxes_with_descending_ids_at_end", int64(straddled))
		c.NonTrivial(fmt.Sprintf("wrap|%d|%s", idx, FeatureSig(ef)))
	}
}
