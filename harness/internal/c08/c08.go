// Package c08 will hold the check for property C08.
package c08
