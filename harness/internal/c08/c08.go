// Package c08 decides C08: the per-mailbox message cap and the memory store's total size limit
// evict oldest-first and only what is necessary, and the store's accounting never drifts.
// Sequential histories of deliveries of varying sizes, removals and purges are applied to a real
// store; after EVERY operation the complete store state must equal the reference model with the
// same cap and limit (internal/model), and the message just delivered must be retrievable iff the
// model kept it.  Generator and executor are shared with C07 (internal/c07).
package c08

import (
	"fmt"
	"os"
	"strconv"
	"strings"
	"time"

	"github.com/inbucket/inbucket/v3/pkg/config"
	"github.com/inbucket/inbucket/v3/pkg/extension"

	"verifharness/internal/c07"
	"verifharness/internal/fw"
	"verifharness/internal/sut"
)

type cfg struct {
	backend string
	cap     int
	maxkb   int // 0 = no size limit configured
}

func (c cfg) String() string {
	kb := "none"
	if c.maxkb > 0 {
		kb = strconv.Itoa(c.maxkb)
	}
	return fmt.Sprintf("%s/cap=%d/maxkb=%s", c.backend, c.cap, kb)
}

var configs = func() []cfg {
	var out []cfg
	for _, cp := range []int{0, 1, 2, 3, 10} {
		for _, kb := range []int{0, 1, 2, 8} {
			out = append(out, cfg{"mem", cp, kb})
		}
	}
	// The size limit exists in the memory store only; the file store gets every cap.
	for _, cp := range []int{0, 1, 2, 3, 10} {
		out = append(out, cfg{"file", cp, 0})
	}
	return out
}()

func init() {
	fw.Register(&fw.Prop{
		ID:    "C08",
		Level: "exploration",
		Rule: "sequential histories of 50-400 ops generated from (seed, case index) for every configuration cap{0,1,2,3,10} x " +
			"maxkb{none,1,2,8} on the memory store and cap{0,1,2,3,10} on the file store (25 configurations, case i uses configuration " +
			"i mod 25): 1-5 mailboxes, deliveries of 1 byte .. 1.5x the limit (incl. exactly limit-1, limit, limit+1), interleaved " +
			"removals (live, already removed, never issued), purges, mark-seen and lookups.  After every operation every mailbox is " +
			"listed and compared with the reference model with the same cap and limit (survivors, order, metadata, sum of sizes <= " +
			"limit), GetMessage(id just returned) must succeed iff the model kept the new message, and a delivery larger than the whole " +
			"limit must fail and change nothing.  A case is non-trivial when the " +
			"model evicted at least one message and a later delivery was kept; distinct by (configuration, eviction/removal features " +
			"reached, number of mailboxes).  Streams lostfile, capchange, overtake: see the files.  Stream overlap (160/2400): 2-8 senders " +
			"deliver in rounds to the same one or two capped mailboxes (file and memory store, cap 1,2,3,5), one or two deliveries per " +
			"round parked inside their body read on a gate while the others run; at every quiescent point each mailbox lists at most cap " +
			"messages, only delivered ones under their ids, none that cap later deliveries strictly follow, every one that fewer than cap " +
			"deliveries follow or overlap, in an order agreeing with precedence.  Stream purgerace (120/1800, 3-6 rounds each): a memory " +
			"store with maxkb 4/8/20 filled with old mail and a witness mailbox; one client purges / removes the oldest mail while 2-6 " +
			"senders deliver; at quiescence stored bytes <= limit, nothing removed is listed, no message nobody removed is missing while " +
			"a message delivered completely before it is present, and none is missing at all unless the messages the client did not " +
			"remove exceed the limit by themselves (then the store must end up fuller than limit - largest missing message).",
		Assumptions: []string{
			"histories are sequential: AddMessage waits for the size enforcer (enforcerDeliver blocks), so the state is settled when it returns",
			"sizes are the number of bytes of the Delivery reader, which is what both stores keep",
			"the model applies the cap first (oldest of the mailbox), then the size limit (globally oldest) - the order that evicts the least",
			"a message larger than the whole limit is refused by AddMessage with an error and leaves the store exactly unchanged (nothing stored, nothing evicted)",
			"maxkb is passed through cfg.Params[\"maxkb\"], the cap through cfg.MailboxMsgCap, as documented in doc/config.md",
			"overlap/purgerace: a delivery X precedes Y when AddMessage(X) returned before AddMessage(Y) was called (logical clock stamped around the calls); nothing is demanded about the order of overlapping calls",
			"purgerace: the client removes only a prefix of the store's delivery order, so mail whose removal is in flight is always older than any message nobody removes",
		},
		MinObs: func(tier string) map[string]int64 {
			k := int64(1)
			if tier == "thorough" {
				k = 15
			}
			m := map[string]int64{
				"distinct_nontrivial":                       150 * k,
				"mem/evict:cap":                             5000 * k,
				"mem/evict:size":                            5000 * k,
				"file/evict:cap":                            2000 * k,
				"mem/adds_kept_after_earlier_evictions":     10000 * k,
				"mem/adds_refused_larger_than_limit":        300 * k,
				"mem/feat:cap-and-size-eviction-in-one-add": 200 * k,
				"mem/feat:size-eviction-from-other-mailbox": 1000 * k,
				"mem/feat:size-eviction-of-several":         500 * k,
				"mem/removed":                               2000 * k,
				"mem/purged_messages":                       1000 * k,
				"mem/listings_compared":                     100000 * k,
				"file/listings_compared":                    20000 * k,
				"histories_cap_and_limit_with_removals":     50 * k,
				// streams overlap and purgerace (after seeded changes C08-11, C08-12)
				"overlap_histories:file":                       60 * k,
				"overlap_histories:mem":                        60 * k,
				"overlap_quiescent_listings":                   500 * k,
				"overlap_listings_at_cap":                      300 * k,
				"overlap_deliveries_started_inside_another":    1500 * k,
				"overlap_slow_deliveries_parked_in_read":       250 * k,
				"overlap_rounds_fast_completed_inside_slow":    100 * k,
				"purgerace_rounds":                             300 * k,
				"purgerace_deliveries_overlapping_the_removal": 300 * k,
				"purgerace_removed_by_client":                  5000 * k,
				"purgerace_rounds_keep_class_complete":         200 * k,
				"purgerace_witness_messages_checked":           1000 * k,
			}
			for _, cf := range configs {
				m["config:"+cf.String()] = 10 * k
			}
			return m
		},
		ChildTimeout: func(tier string) time.Duration {
			if tier == "thorough" {
				return 150 * time.Minute
			}
			return 25 * time.Minute
		},
		Run: run,
	})
}

func run(c *fw.Ctx) {
	n := c.N(25*80, 25*1600)
	c.Cases("hist", n, func(i int, r *fw.Rand) {
		ok, dump := c.Within(10*time.Minute, func() { runHistory(c, i, r) })
		if !ok {
			c.Hang("store-operation", "a history did not finish within the watchdog (configuration "+configs[i%len(configs)].String()+")", dump)
		}
	})
	c.Cases("lostfile", c.N(96, 1440), func(i int, r *fw.Rand) { runLostFile(c, i, r) })
	c.Cases("capchange", c.N(80, 1200), func(i int, r *fw.Rand) { runCapChange(c, i, r) })
	c.Cases("overtake", c.N(90, 900), func(i int, r *fw.Rand) { runOvertake(c, i, r) })
	// added after seeded changes C08-11 and C08-12: the two limits under overlapping calls
	c.Cases("overlap", c.N(160, 2400), func(i int, r *fw.Rand) { runOverlap(c, i, r) })
	c.Cases("purgerace", c.N(120, 1800), func(i int, r *fw.Rand) { runPurgeRace(c, i, r) })
}

var weights = c07.Weights{Add: 56, Get: 5, Latest: 3, List: 2, Seen: 4, Remove: 21, Purge: 5, Visit: 4}

func runHistory(c *fw.Ctx, idx int, r *fw.Rand) {
	cf := configs[idx%len(configs)]
	c.Count("config:"+cf.String(), 1)
	names := c07.PickNames(r, r.Range(1, 5))
	nops := r.Range(50, 400)
	limit := int64(cf.maxkb) * 1024
	// Body sizes: from 1 byte to 1.5x the limit, with the boundary values.
	ref := int(limit)
	if ref == 0 {
		ref = 2048
	}
	mode := r.Intn(3) // 0 mixed, 1 mostly small (many messages under the limit), 2 mostly large
	sizeFn := func(r *fw.Rand) int {
		w := []int{55, 25, 10, 5, 5}
		switch mode {
		case 1:
			w = []int{85, 10, 3, 1, 1}
		case 2:
			w = []int{20, 30, 30, 10, 10}
		}
		switch r.Weighted(w) {
		case 0:
			return r.Range(1, ref/8)
		case 1:
			return r.Range(ref/8, ref/2)
		case 2:
			return r.Range(ref/2, ref)
		case 3:
			return r.Range(ref+1, ref+ref/2)
		default:
			return []int{1, ref - 1, ref, ref + 1, ref / 2, ref/2 + 1}[r.Intn(6)]
		}
	}
	ops := c07.GenOps(r, names, nops, weights, fmt.Sprintf("c08-%d", idx), sizeFn, false)
	boxes := c07.BoxTexts(names)

	sc := config.Storage{Type: "memory", Params: map[string]string{}, MailboxMsgCap: cf.cap}
	if cf.maxkb > 0 {
		sc.Params["maxkb"] = strconv.Itoa(cf.maxkb)
	}
	if cf.backend == "file" {
		dir := c.TempDir("c08fs")
		defer os.RemoveAll(dir)
		sc.Type = "file"
		sc.Params["path"] = dir
	}
	st, err := sut.NewStore(cf.backend, sc, extension.NewHost())
	if err != nil {
		panic(err)
	}
	e := c07.NewExec("C08", cf.backend, cf.String(), st, cf.cap, limit, boxes)
	e.DeclareShort = true // after seeded change C08-9: limits are about stored bytes, not declared ones
	if cf.backend == "file" {
		e.ContentEvery = 8
	}
	for _, op := range ops {
		e.Apply(op)
		if e.Dead() {
			break
		}
	}
	if !e.Dead() {
		e.Step++
		if e.VerifyAll("at-end", "", true) {
			e.Visit(0, true)
		}
	}
	c07.Report(c, e, cf.backend+"/")
	evictions := e.Counts["evict:cap"] + e.Counts["evict:size"]
	c.Count("cfgstat:"+cf.String()+":evictions", evictions)
	if cf.cap > 0 && cf.maxkb > 0 && e.Counts["evict:cap"] > 0 && e.Counts["evict:size"] > 0 && e.Counts["removed"] > 0 {
		c.Count("histories_cap_and_limit_with_removals", 1)
	}
	if evictions > 0 && e.Counts["adds_kept_after_earlier_evictions"] > 0 {
		var fs []string
		for _, f := range []string{"cap-eviction", "size-eviction", "size-eviction-of-several", "cap-and-size-eviction-in-one-add",
			"size-eviction-from-other-mailbox", "add-larger-than-limit", "readd-after-purge",
			"add-after-remove", "purge-nonempty", "remove-oldest", "remove-middle", "remove-newest", "remove-only-message", "remove-twice"} {
			if e.Feats[f] {
				fs = append(fs, f)
			}
		}
		c.NonTrivial(fmt.Sprintf("%s|boxes=%d|%s", cf.String(), len(boxes), strings.Join(fs, ",")))
	}
	c.Sample(map[string]any{"config": cf.String(), "mailboxes": len(boxes), "ops": nops, "counts": e.Counts})
}
