package c08

import (
	"fmt"
	"io"
	"net/mail"
	"os"
	"path/filepath"
	"time"

	"github.com/inbucket/inbucket/v3/pkg/config"
	"github.com/inbucket/inbucket/v3/pkg/extension"
	"github.com/inbucket/inbucket/v3/pkg/storage"
	"github.com/inbucket/inbucket/v3/pkg/stringutil"

	"verifharness/internal/fw"
	"verifharness/internal/sut"
)

// Stream "lostfile" (added after seeded change C08-7): "a mailbox never lists more than the cap"
// has no exception for a mailbox one of whose content files is gone (the state an interrupted
// removal leaves behind, or an operator's rm).  A capped file-store mailbox is filled, the content
// file of one message is removed behind the store's back, and deliveries continue: after every
// delivery the mailbox lists at most cap messages, they are the most recent ones in order, and
// the message just delivered reads back.  What reading the damaged message yields is not judged.
func runLostFile(c *fw.Ctx, idx int, r *fw.Rand) {
	capN := []int{2, 3, 5, 8}[idx%4]
	dir := c.TempDir("c08lost")
	defer os.RemoveAll(dir)
	st, err := sut.NewStore("file", config.Storage{Type: "file", Params: map[string]string{"path": dir}, MailboxMsgCap: capN}, extension.NewHost())
	if err != nil {
		panic(err)
	}
	const mb = "capped"
	from := &mail.Address{Address: "sender@origin.test"}
	to := []*mail.Address{{Address: mb + "@inbucket.test"}}
	var ids []string
	desc := fmt.Sprintf("lostfile/cap%d", capN)
	deliver := func(k int) (string, string, bool) {
		body := fmt.Sprintf("Subject: lost %d\r\n\r\nbody %d %s\r\n", k, k, r.Letters(r.Range(0, 60), "abcdefgh "))
		id, err := st.AddMessage(sut.NewDelivery(mb, from, to, fmt.Sprintf("lost %d", k), time.Now(), []byte(body)))
		if err != nil {
			c.Violation("C08:file:lostfile:add-error", fmt.Sprintf("%s: delivery %d fails: %v (ids so far %v)", desc, k, err, ids), nil)
			return "", "", false
		}
		ids = append(ids, id)
		return id, body, true
	}
	fill := r.Range(1, capN)
	for k := 0; k < fill; k++ {
		if _, _, ok := deliver(k); !ok {
			return
		}
	}
	victim := 0
	if r.Chance(1, 3) {
		victim = r.Intn(fill)
	}
	h := stringutil.HashMailboxName(mb)
	raw := filepath.Join(dir, "mail", h[0:3], h[0:6], h, ids[victim]+".raw")
	if err := os.Remove(raw); err != nil {
		c.Inconclusive(desc + ": cannot remove the content file as planned: " + err.Error())
		return
	}
	for k := fill; k < fill+capN+3; k++ {
		id, body, ok := deliver(k)
		if !ok {
			return
		}
		ms, err := st.GetMessages(mb)
		if err != nil {
			c.Violation("C08:file:lostfile:list-error", fmt.Sprintf("%s: listing after delivery %d fails: %v", desc, k, err), nil)
			return
		}
		var got []string
		for _, m := range ms {
			got = append(got, m.ID())
		}
		want := ids
		if len(want) > capN {
			want = want[len(want)-capN:]
		}
		if len(got) > capN {
			c.Violation("C08:file:lostfile:cap-exceeded", fmt.Sprintf("%s: after delivery %d the mailbox lists %d messages %v; the content file of %s had been lost before", desc, k, len(got), got, ids[victim]),
				map[string]any{"delivered": ids, "victim": ids[victim]})
			return
		}
		if fmt.Sprint(got) != fmt.Sprint(want) {
			c.Violation("C08:file:lostfile:wrong-messages", fmt.Sprintf("%s: after delivery %d the mailbox lists %v, the most recent %d deliveries are %v (content file of %s lost before)", desc, k, got, capN, want, ids[victim]),
				map[string]any{"delivered": ids, "victim": ids[victim]})
			return
		}
		m, err := st.GetMessage(mb, id)
		if err != nil || m == nil {
			c.Violation("C08:file:lostfile:new-message-not-retrievable", fmt.Sprintf("%s: delivery %d returned id %s, GetMessage: %v", desc, k, id, err), nil)
			return
		}
		rd, err := m.Source()
		if err == nil {
			b, _ := io.ReadAll(rd)
			_ = rd.Close()
			if string(b) != body {
				err = fmt.Errorf("content differs")
			}
		}
		if err != nil {
			c.Violation("C08:file:lostfile:new-message-not-retrievable", fmt.Sprintf("%s: delivery %d (id %s) does not read back: %v", desc, k, id, err), nil)
			return
		}
	}
	c.Count("lostfile_histories", 1)
	c.NonTrivial(fmt.Sprintf("lostfile|%d|%d|%d", capN, fill, victim))
}

// Stream "capchange" (for seeded change C08-4, which until now C10 and C11 caught): the cap is a
// configuration value, and a store started on an existing path with a LOWER cap meets mailboxes
// holding more than it allows.  A file-store mailbox is filled under one cap, a new store object
// with a smaller (or larger, or no) cap is opened on the path, deliveries continue: after every
// delivery the mailbox lists at most the current cap, and what it lists are the most recent
// deliveries in order.
func runCapChange(c *fw.Ctx, idx int, r *fw.Rand) {
	dir := c.TempDir("c08capchg")
	defer os.RemoveAll(dir)
	open := func(capN int) storage.Store {
		st, err := sut.NewStore("file", config.Storage{Type: "file", Params: map[string]string{"path": dir}, MailboxMsgCap: capN}, extension.NewHost())
		if err != nil {
			panic(err)
		}
		return st
	}
	const mb = "capped"
	from := &mail.Address{Address: "sender@origin.test"}
	to := []*mail.Address{{Address: mb + "@inbucket.test"}}
	caps := []int{[]int{5, 8, 12, 0}[idx%4], []int{1, 2, 3, 4}[(idx/4)%4]}
	if idx%5 == 4 {
		caps = append(caps, []int{0, 9, 1}[(idx/5)%3])
	}
	var ids []string
	k := 0
	for phase, capN := range caps {
		st := open(capN)
		n := r.Range(3, 14)
		if phase > 0 {
			n = r.Range(1, 6)
		}
		for i := 0; i < n; i++ {
			k++
			body := fmt.Sprintf("Subject: cc %d\r\n\r\nbody %d\r\n", k, k)
			id, err := st.AddMessage(sut.NewDelivery(mb, from, to, fmt.Sprintf("cc %d", k), time.Now(), []byte(body)))
			if err != nil {
				c.Violation("C08:file:capchange:add-error", fmt.Sprintf("caps %v, phase %d: delivery %d fails: %v", caps, phase, k, err), nil)
				return
			}
			ids = append(ids, id)
			ms, err := st.GetMessages(mb)
			if err != nil {
				c.Violation("C08:file:capchange:list-error", fmt.Sprintf("caps %v, phase %d: listing after delivery %d fails: %v", caps, phase, k, err), nil)
				return
			}
			var got []string
			for _, m := range ms {
				got = append(got, m.ID())
			}
			if capN > 0 && len(ids) > capN {
				ids = ids[len(ids)-capN:]
			}
			if capN > 0 && len(got) > capN {
				c.Violation("C08:file:capchange:cap-exceeded", fmt.Sprintf("caps %v, phase %d (cap %d): after delivery %d the mailbox lists %d messages", caps, phase, capN, k, len(got)), nil)
				return
			}
			if fmt.Sprint(got) != fmt.Sprint(ids) {
				c.Violation("C08:file:capchange:wrong-messages", fmt.Sprintf("caps %v, phase %d (cap %d): after delivery %d the mailbox lists %v, the most recent deliveries are %v", caps, phase, capN, k, got, ids), nil)
				return
			}
		}
	}
	c.Count("capchange_histories", 1)
	c.NonTrivial(fmt.Sprintf("capchange|%v", caps))
}
