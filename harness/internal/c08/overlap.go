package c08

import (
	"fmt"
	"io"
	"net/mail"
	"os"
	"sort"
	"sync"
	"sync/atomic"
	"time"

	"github.com/inbucket/inbucket/v3/pkg/config"
	"github.com/inbucket/inbucket/v3/pkg/extension"
	"github.com/inbucket/inbucket/v3/pkg/extension/event"
	"github.com/inbucket/inbucket/v3/pkg/message"

	"verifharness/internal/fw"
	"verifharness/internal/sut"
)

// Stream "overlap" (added after seeded change C08-11): "a mailbox never lists more than the cap and
// always holds its most recent messages" is not restricted to deliveries that arrive one after the
// other - several SMTP sessions deliver to one mailbox at the same time.  The sequential histories
// never have two AddMessage calls open at once, so a store that enforces the cap when a delivery
// starts and publishes the message later without looking at the cap again passes them all.
//
// 2-8 goroutines deliver to the same one or two capped mailboxes (both back-ends, caps 1, 2, 3, 5)
// in rounds.  In every round one or two deliveries are made slow: their reader hands out the
// header, and blocks on a gate when the store asks for more; the other deliveries of the round are
// started only when the slow ones are inside that read, the gate is opened when the others have
// returned (or, where the store serialises deliveries to one mailbox, after a short grace period:
// the timing decides only how much overlap there is, never a verdict).  So the overlap is a logical
// fact wherever the store permits it.  Every delivery is stamped with a logical clock before the call
// and after its return; X precedes Y when X returned before Y was called.
//
// At every quiescent point (all deliveries of the round returned) each mailbox must
//   - list at most cap messages, all of them messages delivered to it, under the id AddMessage
//     returned, no id twice;
//   - not list a message that at least cap later deliveries to that mailbox strictly follow
//     (whatever the order of the overlapping ones, it is not among the most recent cap);
//   - list every message that fewer than cap deliveries follow or overlap (whatever the order, it
//     is among the most recent cap);
//   - list in an order that agrees with precedence.
//
// Nothing is demanded about the relative order of overlapping deliveries.
func runOverlap(c *fw.Ctx, idx int, r *fw.Rand) {
	backend := []string{"file", "mem"}[idx%2]
	capN := []int{1, 2, 3, 5}[(idx/2)%4]
	sc := config.Storage{Type: "memory", Params: map[string]string{}, MailboxMsgCap: capN}
	if backend == "file" {
		dir := c.TempDir("c08ovl")
		defer os.RemoveAll(dir)
		sc.Type = "file"
		sc.Params["path"] = dir
	}
	st, err := sut.NewStore(backend, sc, extension.NewHost())
	if err != nil {
		panic(err)
	}
	boxes := []string{"shared"}
	if r.Chance(1, 3) {
		boxes = append(boxes, "second")
	}
	workers := r.Range(2, 8)
	rounds := r.Range(2, 4)
	desc := fmt.Sprintf("overlap/%s/cap%d/%dboxes/%dsenders", backend, capN, len(boxes), workers)

	type dlv struct {
		box, subject string
		body         []byte
		gated        bool
		inv, ret     int64
		id           string
		err          error
	}
	var clock atomic.Int64
	var all []*dlv // every delivery made so far, all rounds
	seq := 0
	from := &mail.Address{Address: "sender@origin.test"}
	mk := func(box string, gated bool) *dlv {
		seq++
		subj := fmt.Sprintf("ovl %d-%03d", idx, seq)
		body := []byte("Subject: " + subj + "\r\n\r\n" + r.Letters(r.Range(20, 400), "abcdefghijklmnop \r\n") + "\r\n")
		d := &dlv{box: box, subject: subj, body: body, gated: gated}
		all = append(all, d)
		return d
	}
	send := func(d *dlv, rd io.Reader) {
		d.inv = clock.Add(1)
		d.id, d.err = st.AddMessage(&message.Delivery{
			Meta: event.MessageMetadata{Mailbox: d.box, From: from, To: []*mail.Address{{Address: d.box + "@inbucket.test"}},
				Date: time.Now(), Subject: d.subject, Size: int64(len(d.body))},
			Reader: rd})
		d.ret = clock.Add(1)
	}
	// How long the other deliveries of a round get before the slow ones are released.  The file
	// store holds the mailbox lock over the read, so there the wait is usually in vain (kept
	// short); the memory store reads the body before it touches the mailbox.
	grace := 30 * time.Millisecond * time.Duration(c.Slow)
	if backend == "mem" {
		grace = 2 * time.Second * time.Duration(c.Slow)
	}

	// judge is called at quiescent points only.
	judge := func(round int) bool {
		for _, box := range boxes {
			var ds []*dlv
			for _, d := range all {
				if d.box == box {
					if d.err != nil {
						c.Violation("C08:"+backend+":overlap:add-error", fmt.Sprintf("%s: delivery %q fails: %v", desc, d.subject, d.err), nil)
						return false
					}
					ds = append(ds, d)
				}
			}
			ms, err := st.GetMessages(box)
			if err != nil {
				c.Violation("C08:"+backend+":overlap:list-error", fmt.Sprintf("%s: listing %s after round %d fails: %v", desc, box, round, err), nil)
				return false
			}
			bySubj := map[string]*dlv{}
			for _, d := range ds {
				bySubj[d.subject] = d
			}
			var got []string
			listed := map[*dlv]bool{}
			seenID := map[string]bool{}
			var order []*dlv
			for _, m := range ms {
				got = append(got, m.ID()+":"+m.Subject())
			}
			detail := func() map[string]any {
				var hist []string
				for _, d := range ds {
					hist = append(hist, fmt.Sprintf("%s id=%s called@%d returned@%d gated=%v", d.subject, d.id, d.inv, d.ret, d.gated))
				}
				return map[string]any{"listing": got, "deliveries": hist, "cap": capN, "mailbox": box, "round": round}
			}
			if len(ms) > capN {
				c.Violation("C08:"+backend+":overlap:cap-exceeded", fmt.Sprintf("%s: with all deliveries of round %d returned, mailbox %s lists %d messages, cap is %d: %v", desc, round, box, len(ms), capN, got), detail())
				return false
			}
			for _, m := range ms {
				d := bySubj[m.Subject()]
				if d == nil || d.id != m.ID() || seenID[m.ID()] {
					c.Violation("C08:"+backend+":overlap:foreign-or-duplicate-message", fmt.Sprintf("%s: mailbox %s lists %s:%q, which is not a message delivered to it under that id (or the id is listed twice): %v", desc, box, m.ID(), m.Subject(), got), detail())
					return false
				}
				seenID[m.ID()] = true
				listed[d] = true
				order = append(order, d)
			}
			for _, x := range ds {
				after, notBefore := 0, 0
				for _, y := range ds {
					if y == x {
						continue
					}
					if x.ret < y.inv {
						after++
					}
					if !(y.ret < x.inv) {
						notBefore++
					}
				}
				if after >= capN && listed[x] {
					c.Violation("C08:"+backend+":overlap:message-not-gone", fmt.Sprintf("%s: mailbox %s still lists %q although %d later deliveries to it were made strictly after that one returned (cap %d): %v", desc, box, x.subject, after, capN, got), detail())
					return false
				}
				if notBefore < capN && !listed[x] {
					c.Violation("C08:"+backend+":overlap:recent-message-lost", fmt.Sprintf("%s: mailbox %s does not list %q (id %s) although only %d deliveries followed or overlapped it (cap %d): %v", desc, box, x.subject, x.id, notBefore, capN, got), detail())
					return false
				}
			}
			for i := range order {
				for j := i + 1; j < len(order); j++ {
					if order[j].ret < order[i].inv {
						c.Violation("C08:"+backend+":overlap:wrong-order", fmt.Sprintf("%s: mailbox %s lists %q before %q, which had been delivered completely before: %v", desc, box, order[i].subject, order[j].subject, got), detail())
						return false
					}
				}
			}
			c.Count("overlap_quiescent_listings", 1)
			if len(ms) == capN {
				c.Count("overlap_listings_at_cap", 1)
			}
		}
		return true
	}

	// Some mail from before, delivered one after the other.
	for _, box := range boxes {
		for k := r.Intn(capN + 2); k > 0; k-- {
			d := mk(box, false)
			send(d, newGatedReader(d.body, false))
		}
	}
	if !judge(0) {
		return
	}
	maxOpen, overlapped := 0, 0
	for round := 1; round <= rounds; round++ {
		// plan[w] is what sender w delivers, in order
		plan := make([][]*dlv, workers)
		var slow []int // senders whose first delivery is gated
		gatedBox := map[string]bool{}
		nslow := r.Range(1, 2)
		for w := 0; w < workers; w++ {
			box := boxes[r.Intn(len(boxes))]
			// one slow delivery per mailbox: where the store holds the mailbox lock over the
			// read, a second one could not even start
			g := len(slow) < nslow && !gatedBox[box] && w < workers-1
			if g {
				slow = append(slow, w)
				gatedBox[box] = true
			}
			plan[w] = append(plan[w], mk(box, g))
			for k := r.Intn(3); k > 0; k-- {
				plan[w] = append(plan[w], mk(boxes[r.Intn(len(boxes))], false))
			}
		}
		gate := make(chan struct{})
		var wgSlow, wgFast sync.WaitGroup
		var entered []chan struct{}
		run := func(w int, wg *sync.WaitGroup, ent chan struct{}) {
			defer wg.Done()
			for k, d := range plan[w] {
				rd := newGatedReader(d.body, false)
				if k == 0 && ent != nil {
					rd = newGatedReader(d.body, true)
					rd.entered, rd.gate = ent, gate
				}
				send(d, rd)
			}
		}
		isSlow := map[int]bool{}
		for _, w := range slow {
			isSlow[w] = true
			ent := make(chan struct{})
			entered = append(entered, ent)
			wgSlow.Add(1)
			go run(w, &wgSlow, ent)
		}
		inRead := 0
		for _, ent := range entered {
			select {
			case <-ent:
				inRead++
			case <-time.After(2 * time.Second * time.Duration(c.Slow)):
			}
		}
		c.Count("overlap_slow_deliveries_parked_in_read", int64(inRead))
		fastDone := make(chan struct{})
		for w := 0; w < workers; w++ {
			if !isSlow[w] {
				wgFast.Add(1)
				go run(w, &wgFast, nil)
			}
		}
		go func() { wgFast.Wait(); close(fastDone) }()
		select {
		case <-fastDone:
			// every other delivery of the round returned while the slow ones were parked in
			// their read: complete deliveries inside an open one
			c.Count("overlap_rounds_fast_completed_inside_slow", 1)
		case <-time.After(grace):
			c.Count("overlap_rounds_store_serialised", 1)
		}
		close(gate)
		ok, dump := c.Within(60*time.Second, func() { wgSlow.Wait(); wgFast.Wait() })
		if !ok {
			c.Hang("overlap-delivery", desc+": deliveries did not return after the slow readers were released", dump)
			return
		}
		// evidence: how much overlap there was (stamps only)
		var rd []*dlv
		for _, p := range plan {
			rd = append(rd, p...)
		}
		sort.Slice(rd, func(i, j int) bool { return rd[i].inv < rd[j].inv })
		for i, x := range rd {
			open := 1
			for j, y := range rd {
				if i != j && y.box == x.box && y.inv < x.inv && x.inv < y.ret {
					open++
				}
			}
			if open > maxOpen {
				maxOpen = open
			}
			if open > 1 {
				overlapped++
			}
		}
		c.Count("overlap_deliveries", int64(len(rd)))
		if !judge(round) {
			return
		}
	}
	c.Count("overlap_deliveries_started_inside_another", int64(overlapped))
	if maxOpen >= 3 {
		c.Count("overlap_histories_with_3_or_more_open_deliveries_on_one_mailbox", 1)
	}
	c.Count("overlap_histories:"+backend, 1)
	if overlapped > 0 {
		c.NonTrivial(fmt.Sprintf("overlap|%s|%d|%d|%d|%d", backend, capN, len(boxes), workers, rounds))
	}
}

// gatedReader yields the header part of a message, then - when gated - announces that the store
// is asking for more and waits for the gate before it yields the rest.
type gatedReader struct {
	data    []byte
	off     int
	split   int
	gated   bool
	entered chan struct{}
	gate    chan struct{}
}

func newGatedReader(data []byte, gated bool) *gatedReader {
	split := len(data) / 3
	if split < 1 {
		split = 1
	}
	return &gatedReader{data: data, split: split, gated: gated}
}

func (g *gatedReader) Read(p []byte) (int, error) {
	if g.off >= len(g.data) {
		return 0, io.EOF
	}
	end := len(g.data)
	if g.gated {
		if g.off < g.split {
			end = g.split
		} else if g.off == g.split {
			g.gated = false
			close(g.entered)
			<-g.gate
		}
	}
	n := copy(p, g.data[g.off:end])
	g.off += n
	return n, nil
}
