package c08

import (
	"fmt"
	"net/mail"
	"strings"
	"sync/atomic"
	"time"

	"github.com/inbucket/inbucket/v3/pkg/config"
	"github.com/inbucket/inbucket/v3/pkg/extension"
	"github.com/inbucket/inbucket/v3/pkg/storage"
	"github.com/inbucket/inbucket/v3/pkg/verifhook"

	"verifharness/internal/fw"
	"verifharness/internal/sut"
)

// Stream "overtake" (for seeded change C08-2, which until now only C09 caught): "the store's
// accounting never drifts ... no matter how many evictions, removals or purges preceded it" also
// when a removal or purge of a message reaches the size enforcer before the notice of that
// message's own delivery.  The window is opened logically: the delivery is parked at the hook
// point mem.add.visible (message in its mailbox, enforcer not yet told), another client removes
// the message or purges the mailbox, the delivery goes on.  Then the store is filled to exactly its
// limit with 1 KiB messages - all must fit - and one more is delivered: exactly the oldest goes,
// and the stored bytes never exceed the limit.
func runOvertake(c *fw.Ctx, idx int, r *fw.Rand) {
	const kib = 1024
	kind := []string{"remove", "purge", "remove-then-redeliver"}[idx%3]
	capN := []int{0, 0, 6}[(idx/3)%3]
	st, err := sut.NewStore("mem", config.Storage{Type: "memory", Params: map[string]string{"maxkb": "4"}, MailboxMsgCap: capN}, extension.NewHost())
	if err != nil {
		panic(err)
	}
	desc := fmt.Sprintf("overtake/%s/cap%d", kind, capN)
	from := &mail.Address{Address: "s@origin.test"}
	seq := 0
	deliver := func(mb string) (string, error) {
		seq++
		body := []byte(fmt.Sprintf("Subject: o%03d\r\n\r\n", seq))
		body = append(body, []byte(strings.Repeat("x", kib-len(body)))...)
		return st.AddMessage(sut.NewDelivery(mb, from, []*mail.Address{{Address: mb + "@inbucket.test"}}, fmt.Sprintf("o%03d", seq), time.Now(), body))
	}
	total := func() (n int, bytes int64, ids []string) {
		_ = st.VisitMailboxes(func(ms []storage.Message) bool {
			for _, m := range ms {
				n++
				bytes += m.Size()
				ids = append(ids, m.Mailbox()+"/"+m.ID())
			}
			return true
		})
		return
	}
	keepers := r.Intn(3)
	var order []string // mailbox/id in delivery order of what should be live
	for i := 0; i < keepers; i++ {
		id, err := deliver("keep")
		if err != nil {
			c.Inconclusive(desc + ": keeper delivery failed: " + err.Error())
			return
		}
		order = append(order, "keep/"+id)
	}
	var armed atomic.Bool
	parked, release := make(chan struct{}), make(chan struct{})
	verifhook.Set(func(site string, args ...string) {
		if site == "mem.add.visible" && armed.CompareAndSwap(true, false) {
			close(parked)
			<-release
		}
	})
	defer verifhook.Set(nil)
	armed.Store(true)
	done := make(chan error, 1)
	go func() { _, err := deliver("victim"); done <- err }()
	wd := 20 * time.Second * time.Duration(c.Slow)
	select {
	case <-parked:
	case <-time.After(wd):
		armed.Store(false)
		c.Inconclusive(desc + ": the delivery never reached mem.add.visible")
		return
	}
	ms, err := st.GetMessages("victim")
	if err != nil || len(ms) != 1 {
		close(release)
		<-done
		c.Inconclusive(fmt.Sprintf("%s: at mem.add.visible the mailbox lists %d messages (%v)", desc, len(ms), err))
		return
	}
	if kind == "purge" {
		err = st.PurgeMessages("victim")
	} else {
		err = st.RemoveMessage("victim", ms[0].ID())
	}
	close(release)
	select {
	case derr := <-done:
		if err != nil || derr != nil {
			c.Inconclusive(fmt.Sprintf("%s: removal %v, delivery %v", desc, err, derr))
			return
		}
	case <-time.After(wd):
		c.Hang("overtake-delivery", desc+": the parked delivery did not return after the hook released it", "")
		return
	}
	verifhook.Set(nil)
	c.Count("overtake_windows", 1)
	if n, _, ids := total(); n != keepers {
		c.Violation("C08:mem:overtake:removed-message-present", fmt.Sprintf("%s: after the removal overtook the delivery's registration the store holds %v, expected only the %d keepers", desc, ids, keepers), nil)
		return
	}
	box := "victim"
	if kind != "remove-then-redeliver" {
		box = "fill"
	}
	for len(order) < 4 {
		id, err := deliver(box)
		if err != nil {
			c.Violation("C08:mem:overtake:add-error", fmt.Sprintf("%s: a 1 KiB delivery into a store holding %d KiB of 4 fails: %v", desc, len(order), err), nil)
			return
		}
		order = append(order, box+"/"+id)
		n, bytes, ids := total()
		if bytes > 4*kib {
			c.Violation("C08:mem:overtake:size-limit-exceeded", fmt.Sprintf("%s: stored bytes %d exceed the limit 4096 (%v)", desc, bytes, ids), nil)
			return
		}
		if n != len(order) {
			c.Violation("C08:mem:overtake:message-lost", fmt.Sprintf("%s: %d x 1 KiB delivered into a 4 KiB store after the window, %d are listed (%v): a message that fits was evicted", desc, len(order), n, ids), nil)
			return
		}
	}
	// the fifth KiB: exactly the oldest goes
	id, err := deliver(box)
	if err != nil {
		c.Violation("C08:mem:overtake:add-error", fmt.Sprintf("%s: delivery into the full store fails: %v", desc, err), nil)
		return
	}
	order = append(order[1:], box+"/"+id)
	n, bytes, ids := total()
	have := map[string]bool{}
	for _, x := range ids {
		have[x] = true
	}
	missing := ""
	for _, x := range order {
		if !have[x] {
			missing = x
		}
	}
	switch {
	case bytes > 4*kib:
		c.Violation("C08:mem:overtake:size-limit-exceeded", fmt.Sprintf("%s: after one more KiB the store holds %d bytes in %d messages, limit 4096 (%v)", desc, bytes, n, ids), nil)
	case n != 4 || missing != "":
		c.Violation("C08:mem:overtake:wrong-messages", fmt.Sprintf("%s: after one more KiB the store lists %v, the four most recent deliveries are %v", desc, ids, order), nil)
	default:
		c.Count("overtake_histories", 1)
		c.NonTrivial(fmt.Sprintf("overtake|%s|%d|%d", kind, capN, keepers))
	}
}
