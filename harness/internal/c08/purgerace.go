package c08

import (
	"fmt"
	"net/mail"
	"runtime"
	"strconv"
	"strings"
	"sync"
	"sync/atomic"
	"time"

	"github.com/inbucket/inbucket/v3/pkg/config"
	"github.com/inbucket/inbucket/v3/pkg/extension"
	"github.com/inbucket/inbucket/v3/pkg/storage"

	"verifharness/internal/fw"
	"verifharness/internal/sut"
)

// Stream "purgerace" (added after seeded change C08-12): "messages are evicted strictly oldest-first
// across the whole store, only until the limit is met again" also while a client is taking the
// OLDEST mail out of a full store - a POP3 client deleting what it fetched, a purge of an old
// mailbox - and deliveries go on.  A removal is two steps in the memory store (the message leaves
// its mailbox, then the size enforcer is told); a delivery handled in between finds the enforcer's
// oldest entry already gone from its mailbox.  Room that such an entry gives back is room: the
// delivery must not cost live, newer mail as well.  The sequential histories never have a removal
// and a delivery open at once, and the hook mem.add.visible only parks deliveries, so the window
// comes from real concurrency: several rounds per case, each on a fresh full store.
//
// A round: the store (maxkb 4, 8 or 20) is filled sequentially with one or two "bulk" mailboxes -
// the oldest mail - and then a "witness" mailbox holding the newest.  Then one client removes a
// PREFIX of the global delivery order (purges the oldest bulk mailbox, or both in order, or
// removes the oldest messages one by one, oldest first) while 2-6 senders deliver to fresh
// mailboxes.  Everything the client does not touch - the rest of the bulk, the witness, the new
// mail - is the "keep" class.  Judged at quiescence (client and senders returned), from a complete
// listing of the store:
//
//	(a) stored bytes <= limit;
//	(b) every listed message is a delivered one under its id, and not one the client removed;
//	(c) oldest-first: if a message nobody removed is missing (evicted), every message delivered
//	    completely before it is gone too - in particular the witness loses nothing while older
//	    mail exists anywhere;
//	(d) only what is necessary: what the client removes is always the oldest mail present, so its
//	    entries are at the front of the enforcer's queue and are used up before any keep-class
//	    message is reached; a keep-class message can only be evicted when the keep-class messages
//	    alone exceed the limit.  So: if all keep-class bytes together fit the limit, none may be
//	    missing; otherwise, if one is missing, the store must end up holding more than
//	    limit - (size of the largest missing keep-class message) - the eviction that removed the
//	    last of them left at least that much, and keep-class mail only grows afterwards.
//
// Not demanded: which of the to-be-removed messages the enforcer evicted before the client got to
// them (RemoveMessage then reports ErrNotExist; counted), and the order among overlapping deliveries.
func runPurgeRace(c *fw.Ctx, idx int, r *fw.Rand) {
	maxkb := []int{4, 8, 20}[idx%3]
	kind := []string{"purge-oldest-mailbox", "remove-oldest-one-by-one", "purge-both-bulk-mailboxes", "purge-oldest-mailbox"}[(idx/3)%4]
	fits := idx%5 != 4 // four cases in five: the keep class fits the limit, so nothing of it may go
	if p := []int{2, 4, 4, 8}[r.Intn(4)]; runtime.GOMAXPROCS(0) != p {
		defer runtime.GOMAXPROCS(runtime.GOMAXPROCS(p))
	}
	rounds := r.Range(3, 6)
	hits := 0
	for round := 0; round < rounds; round++ {
		ok, overlapping := purgeRaceRound(c, idx, round, r, maxkb, kind, fits)
		if !ok {
			return
		}
		hits += overlapping
	}
	c.Count("purgerace_histories", 1)
	if hits > 0 {
		c.NonTrivial(fmt.Sprintf("purgerace|%d|%s|%v|%d", maxkb, kind, fits, rounds))
	}
}

type prMsg struct {
	box, subject string
	size         int
	class        string // "remove" (the client takes it out), "bulk", "witness", "new": keep class
	inv, ret     int64
	id           string
	err          error
	removed      bool // the client's removal of it (or the purge of its mailbox) returned success
}

func purgeRaceRound(c *fw.Ctx, idx, round int, r *fw.Rand, maxkb int, kind string, fits bool) (bool, int) {
	limit := int64(maxkb) * 1024
	st, err := sut.NewStore("mem", config.Storage{Type: "memory", Params: map[string]string{"maxkb": strconv.Itoa(maxkb)}}, extension.NewHost())
	if err != nil {
		panic(err)
	}
	desc := fmt.Sprintf("purgerace/maxkb%d/%s/keep-fits=%v/round%d", maxkb, kind, fits, round)
	from := &mail.Address{Address: "s@origin.test"}
	var clock atomic.Int64
	var all []*prMsg
	seq := 0
	mk := func(box, class string, size int) *prMsg {
		seq++
		m := &prMsg{box: box, class: class, size: size, subject: fmt.Sprintf("pr%d-%d-%04d", idx, round, seq)}
		all = append(all, m)
		return m
	}
	send := func(m *prMsg) {
		body := []byte("Subject: " + m.subject + "\r\n\r\n")
		if len(body) < m.size {
			body = append(body, []byte(strings.Repeat("x", m.size-len(body)))...)
		}
		m.size = len(body)
		m.inv = clock.Add(1)
		m.id, m.err = st.AddMessage(sut.NewDelivery(m.box, from, []*mail.Address{{Address: m.box + "@inbucket.test"}}, m.subject, time.Now(), body))
		m.ret = clock.Add(1)
	}
	size := func() int { return r.Range(60, 60+int(limit)/40) } // 60..162 / 264 / 572 bytes

	// --- the full store, delivered one after the other: oldA (oldest), oldB, witness (newest)
	nWit := r.Range(2, 6)
	witBytes := 0
	var wit []*prMsg
	for k := 0; k < nWit; k++ {
		s := size()
		witBytes += s
		wit = append(wit, &prMsg{size: s})
	}
	// the old mail fills the store to 0.9 .. 1.15 of the limit before the witness arrives
	target := int(limit) * r.Range(90, 115) / 100
	split := r.Range(35, 75) // percent of the old mail that goes to the oldest mailbox
	got := 0
	for got < target*split/100 {
		m := mk("old-a", "bulk", size())
		send(m)
		got += m.size
	}
	for got < target {
		m := mk("old-b", "bulk", size())
		send(m)
		got += m.size
	}
	for _, w := range wit {
		m := mk("witness", "witness", w.size)
		send(m)
	}
	for _, m := range all {
		if m.err != nil {
			c.Violation("C08:mem:purgerace:add-error", fmt.Sprintf("%s: sequential delivery %q of %d bytes fails: %v", desc, m.subject, m.size, m.err), nil)
			return false, 0
		}
	}
	// what is there now (sequential so far: the hist stream judges this part exactly)
	live := map[string]bool{}
	_ = st.VisitMailboxes(func(ms []storage.Message) bool {
		for _, m := range ms {
			live[m.Mailbox()+"/"+m.ID()] = true
		}
		return true
	})
	// The client's share: a prefix of the delivery order.
	var toRemove []*prMsg
	var liveOld []*prMsg
	for _, m := range all {
		if m.class == "bulk" && live[m.box+"/"+m.id] {
			liveOld = append(liveOld, m)
		}
	}
	switch kind {
	case "purge-oldest-mailbox":
		for _, m := range liveOld {
			if m.box == "old-a" {
				toRemove = append(toRemove, m)
			}
		}
	case "purge-both-bulk-mailboxes":
		toRemove = liveOld
	default: // the oldest 40-100 % of the old mail, one by one
		toRemove = liveOld[:len(liveOld)*r.Range(40, 100)/100]
	}
	if len(toRemove) == 0 {
		c.Count("purgerace_rounds_nothing_to_remove", 1)
		return true, 0
	}
	var freed, keepBytes int64
	for _, m := range toRemove {
		m.class = "remove"
		freed += int64(m.size)
	}
	for _, m := range all {
		if m.class != "remove" && live[m.box+"/"+m.id] {
			keepBytes += int64(m.size)
		}
	}
	// New mail: either it fits next to the rest of the keep class (then nothing of the keep
	// class may ever be evicted), or it is up to 1.6 x what is left.
	budget := limit - keepBytes
	if !fits {
		budget = budget * int64(r.Range(105, 160)) / 100
	} else {
		budget = budget * int64(r.Range(40, 100)) / 100
	}
	senders := r.Range(2, 6)
	plans := make([][]*prMsg, senders)
	var newBytes int64
	for {
		s := size()
		if newBytes+int64(s) > budget {
			break
		}
		w := r.Intn(senders)
		plans[w] = append(plans[w], mk(fmt.Sprintf("fresh-%d", w), "new", s))
		newBytes += int64(s)
	}
	if fits && keepBytes+newBytes > limit {
		panic("c08 purgerace: generator broke its own bound")
	}

	// --- the concurrent part
	start := make(chan struct{})
	var wg sync.WaitGroup
	var remInv, remRet int64
	notExist := 0
	var remErr error
	wg.Add(1)
	go func() {
		defer wg.Done()
		<-start
		remInv = clock.Add(1)
		switch kind {
		case "remove-oldest-one-by-one":
			for _, m := range toRemove {
				switch err := st.RemoveMessage(m.box, m.id); err {
				case nil:
					m.removed = true
				case storage.ErrNotExist:
					notExist++ // the enforcer had it first
				default:
					remErr = err
				}
			}
		default:
			bs := []string{"old-a"}
			if kind == "purge-both-bulk-mailboxes" {
				bs = append(bs, "old-b")
			}
			for _, b := range bs {
				if err := st.PurgeMessages(b); err != nil {
					remErr = err
					continue
				}
				for _, m := range toRemove {
					if m.box == b {
						m.removed = true
					}
				}
			}
		}
		remRet = clock.Add(1)
	}()
	for w := range plans {
		wg.Add(1)
		go func(p []*prMsg) {
			defer wg.Done()
			<-start
			for _, m := range p {
				send(m)
			}
		}(plans[w])
	}
	close(start)
	ok, dump := c.Within(60*time.Second, wg.Wait)
	if !ok {
		c.Hang("purgerace", desc+": removals and deliveries did not return", dump)
		return false, 0
	}
	if remErr != nil {
		c.Violation("C08:mem:purgerace:remove-error", fmt.Sprintf("%s: the client's removal fails: %v", desc, remErr), nil)
		return false, 0
	}

	// --- quiescent: judge
	type seen struct {
		size int64
	}
	present := map[string]seen{}
	var stored int64
	var listing []string
	_ = st.VisitMailboxes(func(ms []storage.Message) bool {
		for _, m := range ms {
			present[m.Mailbox()+"/"+m.ID()+"/"+m.Subject()] = seen{m.Size()}
			stored += m.Size()
			listing = append(listing, m.Mailbox()+"/"+m.ID())
		}
		return true
	})
	detail := func() map[string]any {
		var hist []string
		for _, m := range all {
			hist = append(hist, fmt.Sprintf("%s/%s %s %dB %s called@%d returned@%d removed-by-client=%v present=%v", m.box, m.id, m.subject, m.size, m.class, m.inv, m.ret, m.removed,
				func() bool { _, ok := present[m.box+"/"+m.id+"/"+m.subject]; return ok }()))
		}
		return map[string]any{"limit": limit, "stored": stored, "history": hist, "client": fmt.Sprintf("%s called@%d returned@%d", kind, remInv, remRet)}
	}
	if stored > limit {
		c.Violation("C08:mem:purgerace:size-limit-exceeded", fmt.Sprintf("%s: at rest the store holds %d bytes, limit %d", desc, stored, limit), detail())
		return false, 0
	}
	known, nNew := 0, 0
	overlapping := 0
	var missingKeep []*prMsg
	for _, m := range all {
		if m.err != nil {
			c.Violation("C08:mem:purgerace:add-error", fmt.Sprintf("%s: delivery %q of %d bytes fails: %v", desc, m.subject, m.size, m.err), detail())
			return false, 0
		}
		_, here := present[m.box+"/"+m.id+"/"+m.subject]
		if here {
			known++
		}
		if m.class == "new" {
			nNew++
		}
		if m.class == "new" && m.inv < remRet && remInv < m.ret {
			overlapping++
		}
		switch {
		case here && m.removed:
			c.Violation("C08:mem:purgerace:removed-message-present", fmt.Sprintf("%s: %s/%s is listed although the client's removal of it returned success", desc, m.box, m.id), detail())
			return false, 0
		case !here && m.class != "remove" && live[m.box+"/"+m.id] || !here && m.class == "new":
			missingKeep = append(missingKeep, m)
		}
	}
	if known != len(present) {
		c.Violation("C08:mem:purgerace:foreign-message", fmt.Sprintf("%s: the store lists %d messages, %d of them are deliveries of this history under their ids: %v", desc, len(present), known, listing), detail())
		return false, 0
	}
	c.Count("purgerace_rounds", 1)
	c.Count("purgerace_rounds:"+kind, 1)
	c.Count("purgerace_deliveries_overlapping_the_removal", int64(overlapping))
	c.Count("purgerace_removed_by_client", int64(len(toRemove)-notExist))
	c.Count("purgerace_evicted_before_the_client_came", int64(notExist))
	c.Count("purgerace_new_deliveries", int64(nNew))
	// (c) oldest-first
	for _, y := range missingKeep {
		for _, x := range all {
			if x.ret < y.inv {
				if _, here := present[x.box+"/"+x.id+"/"+x.subject]; here {
					key := "C08:mem:purgerace:newer-evicted-while-older-present"
					if y.class == "witness" {
						key = "C08:mem:purgerace:witness-evicted-while-older-present"
					}
					c.Violation(key, fmt.Sprintf("%s: %s/%s (%s, nobody removed it) is gone while %s/%s (%s), delivered completely before it, is still there; store holds %d of %d bytes",
						desc, y.box, y.id, y.class, x.box, x.id, x.class, stored, limit), detail())
					return false, 0
				}
			}
		}
	}
	// (d) only what is necessary
	if len(missingKeep) > 0 {
		c.Count("purgerace_keep_class_evictions", int64(len(missingKeep)))
		largest := 0
		var names []string
		for _, m := range missingKeep {
			if m.size > largest {
				largest = m.size
			}
			if len(names) < 12 {
				names = append(names, m.box+"/"+m.id+"("+m.class+")")
			}
		}
		if keepBytes+newBytes <= limit {
			c.Violation("C08:mem:purgerace:unnecessary-eviction", fmt.Sprintf("%s: %d messages nobody removed are gone (%v ...) although everything except what the client removed amounts to %d bytes, limit %d: the removed mail was the oldest in the store and made the room; the store ends up holding %d bytes",
				desc, len(missingKeep), names, keepBytes+newBytes, limit, stored), detail())
			return false, 0
		}
		if stored <= limit-int64(largest) {
			c.Violation("C08:mem:purgerace:evicted-more-than-necessary", fmt.Sprintf("%s: %d messages nobody removed are gone (%v ...), the largest of %d bytes, and the store ends up holding only %d of %d bytes: the last of these evictions was not needed",
				desc, len(missingKeep), names, largest, stored, limit), detail())
			return false, 0
		}
		c.Count("purgerace_rounds_with_necessary_evictions", 1)
	} else {
		c.Count("purgerace_rounds_keep_class_complete", 1)
	}
	c.Count("purgerace_witness_messages_checked", int64(nWit))
	return true, overlapping
}
