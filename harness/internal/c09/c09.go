// Package c09 will hold the check for property C09.
package c09
