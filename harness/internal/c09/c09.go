// Package c09 decides C09: stores are safe under concurrent use.  Concurrent client goroutines
// drive a real store; every call is recorded at the client boundary on one logical clock and
// the history is checked with porcupine against M-mailbox, partitioned by mailbox.  Children run
// from the -race build; crashes, race reports and wedges are attributed by the parent.
package c09

import (
	"context"
	"errors"
	"fmt"
	"runtime"
	"sort"
	"strings"
	"sync"
	"sync/atomic"
	"time"
	"unsafe"

	"github.com/anishathalye/porcupine"
	"github.com/inbucket/inbucket/v3/pkg/config"
	"github.com/inbucket/inbucket/v3/pkg/extension"
	"github.com/inbucket/inbucket/v3/pkg/extension/event"
	"github.com/inbucket/inbucket/v3/pkg/storage"
	"github.com/inbucket/inbucket/v3/pkg/stringutil"
	"github.com/inbucket/inbucket/v3/pkg/verifhook"

	"verifharness/internal/fw"
	"verifharness/internal/sut"
)

func init() {
	fw.Register(&fw.Prop{
		ID:    "C09",
		Level: "exploration",
		Race:  true,
		Rule: "(a) stress histories: 2-6 client goroutines x 6-18 operations (add/get/latest/list/mark-seen/remove/purge/visit/retention scan) on 1-3 " +
			"mailboxes (incl. a pair sharing the file store's lock bucket) over six configurations (mem plain, cap, maxkb, cap+maxkb; file plain, cap), " +
			"GOMAXPROCS 2/4/16, seeded yields and sleeps injected at the verif hook points; every call recorded at the client boundary on a logical clock " +
			"and checked with porcupine against the ordered-mailbox model, partitioned by mailbox; (b) directed schedules that pause an AddMessage between " +
			"'visible' and 'registered with the size enforcer' (or a VisitMailboxes between directory levels) while another goroutine removes, purges or adds; " +
			"(c) delivery storms judged on completion and final invariants; (d) damaged: a file store in which 1-2 mailboxes' index files are damaged behind the store's back " +
			"(zero length, truncated, random bytes, garbage tail; before and/or during the concurrent phase) and keep being operated on (any outcome accepted) while 6-12 " +
			"clients read, list and deliver to 3-6 healthy mailboxes with truly overlapping cold index reads: every operation on a healthy mailbox must succeed, return only " +
			"that mailbox's messages and be linearizable; (e) churn: 2-5 goroutines, each the only user of its own mailbox, cycle neighbouring mailboxes (same level-1 " +
			"directory with different / equal 4th hash digit, same level-2 directory, the lock-bucket pair, an outsider) through deliver -> read back -> empty " +
			"(remove, purge, cap-1 eviction) on file and memory stores, optionally under a visiting goroutine: every operation succeeds and every result is " +
			"exactly what the owner's own sequence determines; (f) content through handles: every delivery carries bytes unique to it; the stress clients and the " +
			"directed stream 'handles' (obtain a handle by get/latest/list/visit -> the message leaves its mailbox by remove, purge, cap eviction, size eviction or " +
			"retention scan, or stays -> deliveries to other mailboxes -> read the handle; 8-30 rounds per case, six configurations, alone or next to a delivering " +
			"goroutine) read the source through every handle at once and again later, after other operations: each read returns exactly the bytes of the delivery " +
			"that received the handle's id, or an error - never another delivery's bytes, never a mix. " +
			"A history is non-trivial when it contains at least one pair of overlapping operations on the same mailbox; distinct by (config, multiset of " +
			"overlapping operation-kind pairs).",
		Assumptions: []string{
			"seen flags are judged on reads of one message by id (always placeable: the flag only goes from unseen to seen while the message exists) and at the final quiescent point, not inside list or 'latest' results: the memory store returns live message objects whose flag is read after the lookup",
			"evictions by the global size enforcer are modelled as separate 'remove if present' operations spanning [call of the add that created the id, observation of its deleted event]; whether the right message was evicted is C08's question",
			"the race detector only reports races that occur in the executions produced",
			"file-store histories run one store at a time per child process",
			"a handle whose message has left its mailbox may fail to read (the file store has deleted the file); such errors are counted, not judged",
		},
		MinObs: func(tier string) map[string]int64 {
			return map[string]int64{"storms": 30, "histories": 100, "overlapping_pairs": 2000, "porcupine_ok": 100, "directed_schedules": 8,
				"hook_hits_mem.add.visible": 50, "hook_hits_file.fs": 50, "hook_hits_file.visit.level": 20,
				// stream "damaged" (after C09-8): faults injected, operations that met the damage, healthy
				// operations after the first failure, healthy reads that overlapped another client's read
				"damaged_cases": 60, "damaged_faults": 60, "damaged_box_errors": 500, "damaged_healthy_ops_after_fault": 2000,
				"damaged_overlapping_reads": 2000,
				// stream "churn": create/empty cycles of neighbouring mailboxes; how often an emptying
				// overlapped another mailbox's first delivery
				"churn_cases": 30, "churn_rounds": 3000, "churn_empties": 3000, "churn_empty_overlaps_first_delivery": 2000,
				// content through handles (after C09-12): reads right after a handle was obtained, reads of
				// kept handles after other operations, and - in the directed stream - reads of handles
				// whose message had certainly left its mailbox, after later deliveries elsewhere
				"handle_reads": 10000, "handle_rereads": 25000, "handles_cases": 60, "handles_rereads_of_departed_after_delivery": 3000}
		},
		Run: run,
	})
}

// ---- recorded operations and the sequential model ------------------------------------------

type opIn struct {
	Kind    string // add get latest list seen remove purge evict
	Mailbox string
	ID      string
}

type opOut struct {
	ID    string   // add: id returned; latest: id found
	Found bool     // get/latest/seen/remove: the message existed
	Seen  bool     // get/latest: seen flag
	IDs   []string // list
}

// mstate is one mailbox of the model.  That ids are never handed out twice is checked over the
// whole history before porcupine runs (all ids returned by adds must be pairwise distinct per
// mailbox), which keeps the model state small.
type mstate struct {
	ids  []string
	seen map[string]bool
	cap  int
}

func (s mstate) clone() mstate {
	n := mstate{ids: append([]string(nil), s.ids...), seen: map[string]bool{}, cap: s.cap}
	for k, v := range s.seen {
		n.seen[k] = v
	}
	return n
}

func (s mstate) index(id string) int {
	for i, x := range s.ids {
		if x == id {
			return i
		}
	}
	return -1
}

func modelFor(cap int) porcupine.Model {
	return porcupine.Model{
		Partition: func(history []porcupine.Operation) [][]porcupine.Operation {
			m := map[string][]porcupine.Operation{}
			var names []string
			for _, o := range history {
				mb := o.Input.(opIn).Mailbox
				if _, ok := m[mb]; !ok {
					names = append(names, mb)
				}
				m[mb] = append(m[mb], o)
			}
			sort.Strings(names)
			var out [][]porcupine.Operation
			for _, n := range names {
				out = append(out, m[n])
			}
			return out
		},
		Init: func() interface{} { return mstate{seen: map[string]bool{}, cap: cap} },
		Step: func(state, input, output interface{}) (bool, interface{}) {
			s := state.(mstate)
			in := input.(opIn)
			out := output.(opOut)
			switch in.Kind {
			case "add":
				if out.ID == "" || s.index(out.ID) >= 0 {
					return false, s
				}
				n := s.clone()
				n.ids = append(n.ids, out.ID)
				if n.cap > 0 {
					for len(n.ids) > n.cap {
						delete(n.seen, n.ids[0])
						n.ids = n.ids[1:]
					}
				}
				return true, n
			case "get":
				i := s.index(in.ID)
				if i < 0 {
					return !out.Found, s
				}
				return out.Found && out.Seen == s.seen[in.ID], s
			case "latest":
				if len(s.ids) == 0 {
					return !out.Found, s
				}
				// Identity only: the seen flag of the returned (live) message object is read after
				// the lookup, when it may no longer be the latest (see Assumptions).
				last := s.ids[len(s.ids)-1]
				return out.Found && out.ID == last, s
			case "list":
				if len(out.IDs) != len(s.ids) {
					return false, s
				}
				for i := range s.ids {
					if s.ids[i] != out.IDs[i] {
						return false, s
					}
				}
				return true, s
			case "seen":
				if s.index(in.ID) < 0 {
					return !out.Found, s
				}
				if !out.Found {
					return false, s
				}
				if s.seen[in.ID] {
					return true, s
				}
				n := s.clone()
				n.seen[in.ID] = true
				return true, n
			case "remove":
				i := s.index(in.ID)
				if i < 0 {
					return !out.Found, s
				}
				if !out.Found {
					return false, s
				}
				n := s.clone()
				n.ids = append(n.ids[:i], n.ids[i+1:]...)
				delete(n.seen, in.ID)
				return true, n
			case "evict":
				i := s.index(in.ID)
				if i < 0 {
					return true, s
				}
				n := s.clone()
				n.ids = append(n.ids[:i], n.ids[i+1:]...)
				delete(n.seen, in.ID)
				return true, n
			case "purge":
				if len(s.ids) == 0 {
					return true, s
				}
				n := s.clone()
				n.ids = nil
				n.seen = map[string]bool{}
				return true, n
			}
			return false, s
		},
		Equal: func(a, b interface{}) bool {
			x, y := a.(mstate), b.(mstate)
			if len(x.ids) != len(y.ids) {
				return false
			}
			for i := range x.ids {
				if x.ids[i] != y.ids[i] || x.seen[x.ids[i]] != y.seen[y.ids[i]] {
					return false
				}
			}
			return true
		},
		DescribeOperation: func(input, output interface{}) string {
			return fmt.Sprintf("%+v -> %+v", input, output)
		},
	}
}

// recorder collects the history.  It must not add synchronisation between client goroutines
// (that would hide data races from the race detector: sync/atomic operations and mutexes are
// happens-before edges), so timestamps come from the monotonic clock - used only as an ordering
// source, never as a deadline - and every client appends to its own buffer, merged after join.
type recorder struct {
	base   time.Time
	mu     sync.Mutex
	ops    []porcupine.Operation
	errs   []string
	dupIDs []string
	// addCall remembers the call time of the add that produced (mailbox,id).
	addCall map[string]int64
	deleted map[string]int64 // (mailbox,id) -> logical time the deleted event was observed
	sighted map[string]int64 // (mailbox,id) -> latest call time of a read that saw the message
	// content (C09-12): every delivery's bytes and every read through a handle, merged from the clients
	sent        []sentMsg
	reads       []handleRead
	contentOnly bool // judge() stops before the linearizability check
}

func newRecorder() *recorder {
	return &recorder{base: time.Now(), addCall: map[string]int64{}, deleted: map[string]int64{}, sighted: map[string]int64{}}
}

func (r *recorder) now() int64 { return int64(time.Since(r.base)) }

// merge moves a client's private buffer into the history (call after the client stopped).
func (r *recorder) merge(c *client) {
	for _, o := range c.ops {
		r.add(o.ClientId, o.Input.(opIn), o.Call, o.Output.(opOut), o.Return)
	}
	c.ops = nil
	r.mu.Lock()
	r.sent = append(r.sent, c.sent...)
	r.reads = append(r.reads, c.reads...)
	r.mu.Unlock()
	c.sent, c.reads = nil, nil
}

func (r *recorder) add(client int, in opIn, call int64, out opOut, ret int64) {
	r.mu.Lock()
	r.ops = append(r.ops, porcupine.Operation{ClientId: client, Input: in, Call: call, Output: out, Return: ret})
	if in.Kind == "add" && out.ID != "" {
		k := in.Mailbox + "\x00" + out.ID
		if _, dup := r.addCall[k]; dup {
			r.dupIDs = append(r.dupIDs, k)
		}
		r.addCall[k] = call
	}
	// A read that saw the message proves it had not been evicted before the read was called.
	see := func(id string) {
		k := in.Mailbox + "\x00" + id
		if r.sighted[k] < call {
			r.sighted[k] = call
		}
	}
	switch in.Kind {
	case "list":
		for _, id := range out.IDs {
			see(id)
		}
	case "get", "latest":
		if out.Found {
			see(out.ID)
		}
	}
	r.mu.Unlock()
}

func (r *recorder) fail(format string, a ...any) {
	r.mu.Lock()
	if len(r.errs) < 10 {
		r.errs = append(r.errs, fmt.Sprintf(format, a...))
	}
	r.mu.Unlock()
}

// listen registers the deleted-event listener; events are delivered asynchronously, so drain()
// emits a sentinel and waits for it (per-listener FIFO) before the history is judged.
func (r *recorder) listen(host *extension.Host) (drain func(c *fw.Ctx) bool) {
	sentinel := make(chan struct{}, 4)
	host.Events.AfterMessageDeleted.AddListener("c09", func(m event.MessageMetadata) {
		if m.Mailbox == "\x00sentinel" {
			sentinel <- struct{}{}
			return
		}
		t := r.now()
		r.mu.Lock()
		k := m.Mailbox + "\x00" + m.ID
		if _, ok := r.deleted[k]; !ok {
			r.deleted[k] = t
		}
		r.mu.Unlock()
	})
	return func(c *fw.Ctx) bool {
		host.Events.AfterMessageDeleted.Emit(&event.MessageMetadata{Mailbox: "\x00sentinel"})
		ok, _ := c.Within(30*time.Second, func() { <-sentinel })
		// Listener invocations that were started before the sentinel's may still be running on a
		// tree without per-listener ordering; give them a logical chance to finish.
		for i := 0; i < 50; i++ {
			runtime.Gosched()
		}
		return ok
	}
}

// ---- client operations against the real store ----------------------------------------------

type client struct {
	id  int
	st  storage.Store
	rec *recorder
	ops []porcupine.Operation // private buffer, merged into rec after the client stopped

	// Content read through handles (added after seeded change C09-12, see content.go); all of it
	// private to the client's goroutine until merge.
	track bool         // read the source through every handle obtained, keep the handle, re-read later
	nadd  int          // serial of this client's deliveries
	nobs  int          // handles observed
	sent  []sentMsg    // deliveries that returned an id, with their exact bytes
	held  []heldMsg    // handles kept for later reads
	reads []handleRead // what was read through them
}

func (c *client) record(in opIn, call int64, out opOut, ret int64) {
	c.ops = append(c.ops, porcupine.Operation{ClientId: c.id, Input: in, Call: call, Output: out, Return: ret})
}

func notExist(err error) bool { return errors.Is(err, storage.ErrNotExist) }

func (c *client) Add(mailbox string, size int, date time.Time) string {
	// Bytes unique to this delivery (C09-12): what is read back under its id must be exactly these.
	body := c.nextBody(mailbox, size)
	d := sut.NewDelivery(mailbox, nil, nil, "s", date, []byte(body))
	t0 := c.rec.now()
	id, err := c.st.AddMessage(d)
	t1 := c.rec.now()
	if err != nil {
		c.rec.fail("AddMessage(%q): %v", mailbox, err)
		return ""
	}
	c.record(opIn{Kind: "add", Mailbox: mailbox}, t0, opOut{ID: id}, t1)
	c.sent = append(c.sent, sentMsg{mb: mailbox, id: id, body: body, ret: t1})
	return id
}

func (c *client) Get(mailbox, id string) {
	kind := "get"
	if id == "latest" {
		kind = "latest"
	}
	t0 := c.rec.now()
	m, err := c.st.GetMessage(mailbox, id)
	out := opOut{}
	if err == nil && m != nil {
		out.Found = true
		out.Seen = m.Seen()
		out.ID = m.ID()
	}
	t1 := c.rec.now()
	if err != nil && !notExist(err) {
		c.rec.fail("GetMessage(%q,%q): %v", mailbox, id, err)
		return
	}
	in := opIn{Kind: kind, Mailbox: mailbox}
	if kind == "get" {
		in.ID = id
	}
	c.record(in, t0, out, t1)
	if out.Found {
		// After the call returned, like every real consumer: read the content through the handle.
		c.observe(kind, m)
	}
}

func (c *client) List(mailbox string) []string {
	t0 := c.rec.now()
	ms, err := c.st.GetMessages(mailbox)
	var ids []string
	for _, m := range ms {
		ids = append(ids, m.ID())
	}
	t1 := c.rec.now()
	if err != nil {
		c.rec.fail("GetMessages(%q): %v", mailbox, err)
		return nil
	}
	c.record(opIn{Kind: "list", Mailbox: mailbox}, t0, opOut{IDs: ids}, t1)
	c.observeSome("list", ms)
	return ids
}

func (c *client) MarkSeen(mailbox, id string) {
	t0 := c.rec.now()
	err := c.st.MarkSeen(mailbox, id)
	t1 := c.rec.now()
	if err != nil && !notExist(err) {
		c.rec.fail("MarkSeen(%q,%q): %v", mailbox, id, err)
		return
	}
	c.record(opIn{Kind: "seen", Mailbox: mailbox, ID: id}, t0, opOut{Found: err == nil}, t1)
}

func (c *client) Remove(mailbox, id string) error {
	t0 := c.rec.now()
	err := c.st.RemoveMessage(mailbox, id)
	t1 := c.rec.now()
	if err != nil && !notExist(err) {
		c.rec.fail("RemoveMessage(%q,%q): %v", mailbox, id, err)
		return err
	}
	c.record(opIn{Kind: "remove", Mailbox: mailbox, ID: id}, t0, opOut{Found: err == nil}, t1)
	return err
}

func (c *client) Purge(mailbox string) {
	t0 := c.rec.now()
	err := c.st.PurgeMessages(mailbox)
	t1 := c.rec.now()
	if err != nil {
		c.rec.fail("PurgeMessages(%q): %v", mailbox, err)
		return
	}
	c.record(opIn{Kind: "purge", Mailbox: mailbox}, t0, opOut{}, t1)
}

// Visit records each callback as a list-read of that mailbox spanning (previous callback
// return, callback entry].
func (c *client) Visit(f func([]storage.Message) bool) error {
	prev := c.rec.now()
	err := c.st.VisitMailboxes(func(ms []storage.Message) bool {
		t1 := c.rec.now()
		if len(ms) > 0 {
			var ids []string
			for _, m := range ms {
				ids = append(ids, m.ID())
			}
			c.record(opIn{Kind: "list", Mailbox: ms[0].Mailbox()}, prev, opOut{IDs: ids}, t1)
			c.observeSome("visit", ms)
		}
		cont := true
		if f != nil {
			cont = f(ms)
		}
		prev = c.rec.now()
		return cont
	})
	if err != nil {
		c.rec.fail("VisitMailboxes: %v", err)
	}
	return err
}

// scanStore is the storage.Store handed to the real RetentionScanner: its visits and removes
// become ordinary client operations of the history.
type scanStore struct {
	storage.Store
	c *client
}

func (s scanStore) VisitMailboxes(f func([]storage.Message) bool) error { return s.c.Visit(f) }
func (s scanStore) RemoveMessage(mailbox, id string) error              { return s.c.Remove(mailbox, id) }

// ---- configurations ---------------------------------------------------------------------------

type cfg struct {
	name    string
	backend string
	cap     int
	maxkb   int
}

var configs = []cfg{
	{"mem-plain", "mem", 0, 0}, {"mem-cap", "mem", 3, 0}, {"mem-maxkb", "mem", 0, 4}, {"mem-cap-maxkb", "mem", 3, 4},
	{"file-plain", "file", 0, 0}, {"file-cap", "file", 3, 0},
}

var bucketPair [2]string

func init() {
	// Two mailbox names whose SHA-1 shares the first three hex digits (same file-store lock and
	// level-1 directory).
	seen := map[string]string{}
	for i := 0; ; i++ {
		n := fmt.Sprintf("pair%d", i)
		h := stringutil.HashMailboxName(n)[:3]
		if o, ok := seen[h]; ok {
			bucketPair = [2]string{o, n}
			return
		}
		seen[h] = n
	}
}

func newStore(c *fw.Ctx, cf cfg, host *extension.Host) storage.Store {
	sc := config.Storage{Type: "memory", Params: map[string]string{}, MailboxMsgCap: cf.cap}
	if cf.maxkb > 0 {
		sc.Params["maxkb"] = fmt.Sprint(cf.maxkb)
	}
	if cf.backend == "file" {
		sc.Type = "file"
		sc.Params["path"] = c.TempDir("c09fs")
	}
	st, err := sut.NewStore(cf.backend, sc, host)
	if err != nil {
		panic(err)
	}
	return st
}

// ---- run ------------------------------------------------------------------------------------

func run(c *fw.Ctx) {
	n := c.N(1200, 30000)
	c.Cases("stress", n, func(i int, r *fw.Rand) { stress(c, i, r) })
	c.Cases("directed", c.N(48, 480), func(i int, r *fw.Rand) { directed(c, i, r) })
	c.Cases("storm", c.N(120, 1800), func(i int, r *fw.Rand) { storm(c, i, r) })
	// Added after seeded change C09-8: concurrent traffic next to mailboxes whose index is damaged
	// behind the store's back (see damaged.go).
	c.Cases("damaged", c.N(96, 1600), func(i int, r *fw.Rand) { damaged(c, i, r) })
	// Create/empty cycles of neighbouring mailboxes, one owner each (see churn.go).
	c.Cases("churn", c.N(48, 960), func(i int, r *fw.Rand) { churn(c, i, r) })
	// Added after seeded change C09-12: content read through handles obtained earlier (see content.go).
	c.Cases("handles", c.N(96, 1440), func(i int, r *fw.Rand) { handles(c, i, r) })
	verifhook.Set(nil)
}

// Hook hit counters are striped by the caller's stack address so that goroutines (almost
// always) touch different atomics: an atomic shared by all goroutines inside the code under test
// would order their accesses and hide races.
const stripes = 256

var hookSites = []string{"mem.add.visible", "file.fs", "file.visit.level", "smtp.session.accepted"}
var hookCounts [4][stripes]struct {
	n atomic.Int64
	_ [56]byte
}

func stripe() int {
	var x byte
	return int((uintptr(unsafe.Pointer(&x)) >> 11) % stripes)
}

func countHook(site string) int64 {
	for i, s := range hookSites {
		if s == site {
			return hookCounts[i][stripe()].n.Add(1)
		}
	}
	return 0
}

func flushHookCounts(c *fw.Ctx) {
	for i, s := range hookSites {
		var n int64
		for j := range hookCounts[i] {
			n += hookCounts[i][j].n.Swap(0)
		}
		if n > 0 {
			c.Count("hook_hits_"+s, n)
		}
	}
}

func stress(c *fw.Ctx, idx int, r *fw.Rand) {
	cf := configs[idx%len(configs)]
	procs := []int{2, 4, 16}[(idx/len(configs))%3]
	old := runtime.GOMAXPROCS(procs)
	defer runtime.GOMAXPROCS(old)

	// Seeded perturbation at the hook points: yield or sleep a little.
	salt := r.Uint64()
	prob := uint64(r.Range(0, 3)) // 0: no injection, else 1/prob... see below
	verifhook.Set(func(site string, args ...string) {
		k := uint64(countHook(site))
		if prob == 0 {
			return
		}
		x := ((k+uint64(stripe())<<20)*0x9E3779B97F4A7C15 ^ salt) >> 33
		switch x % (4 * prob) {
		case 0:
			runtime.Gosched()
		case 1:
			time.Sleep(time.Duration(x%200) * time.Microsecond)
		}
	})
	defer verifhook.Set(nil)

	host := extension.NewHost()
	rec := newRecorder()
	drain := rec.listen(host)
	st := newStore(c, cf, host)

	nmb := r.Range(1, 3)
	boxes := []string{bucketPair[0], bucketPair[1], "solo"}[:nmb]
	if nmb == 1 && r.Bool() {
		boxes = []string{"solo"}
	}
	// Many short histories beat one enormous one: linearizability checking cost climbs steeply
	// with the number of concurrent operations per mailbox.
	nclients := r.Range(2, 6)
	nops := r.Range(6, 18)
	if nclients*nops > 40*nmb {
		nops = 40 * nmb / nclients
	}
	now := time.Now()
	type plan struct {
		kinds []int
		args  []uint64
	}
	plans := make([]plan, nclients)
	for ci := range plans {
		for k := 0; k < nops; k++ {
			// add get latest list seen remove purge visit scan
			// + reread: read handles obtained by earlier get/latest/list/visit operations again
			plans[ci].kinds = append(plans[ci].kinds, r.Weighted([]int{30, 10, 6, 12, 8, 14, 4, 5, 2, 9}))
			plans[ci].args = append(plans[ci].args, r.Uint64())
		}
	}
	var wg sync.WaitGroup
	start := make(chan struct{})
	clients := make([]*client, nclients)
	ok, dump := c.Within(40*time.Second, func() {
		for ci := 0; ci < nclients; ci++ {
			wg.Add(1)
			go func(ci int) {
				defer wg.Done()
				cl := &client{id: ci, st: st, rec: rec, track: true}
				defer func() { clients[ci] = cl }()
				var known []struct{ mb, id string } // ids this client has seen
				<-start
				for k, kind := range plans[ci].kinds {
					a := plans[ci].args[k]
					mb := boxes[int(a%uint64(len(boxes)))]
					pick := func() (string, string) {
						if len(known) == 0 || (a>>8)%7 == 0 {
							return mb, fmt.Sprint(1 + (a>>16)%5) // a guess: may or may not exist
						}
						e := known[int((a>>20)%uint64(len(known)))]
						return e.mb, e.id
					}
					switch kind {
					case 0:
						size := int(1 + (a>>12)%1500)
						date := now
						if (a>>40)%4 == 0 {
							date = now.Add(-3 * time.Hour) // expired for the retention scan
						}
						if id := cl.Add(mb, size, date); id != "" {
							known = append(known, struct{ mb, id string }{mb, id})
						}
					case 1:
						m, id := pick()
						cl.Get(m, id)
					case 2:
						cl.Get(mb, "latest")
					case 3:
						for _, id := range cl.List(mb) {
							if len(known) < 64 {
								known = append(known, struct{ mb, id string }{mb, id})
							}
						}
					case 4:
						m, id := pick()
						cl.MarkSeen(m, id)
					case 5:
						m, id := pick()
						_ = cl.Remove(m, id)
					case 6:
						cl.Purge(mb)
					case 7:
						_ = cl.Visit(nil)
					case 8:
						rs := storage.NewRetentionScanner(config.Storage{RetentionPeriod: time.Hour, RetentionSleep: 0}, scanStore{st, cl})
						if err := rs.DoScan(context.Background()); err != nil {
							rec.fail("retention DoScan: %v", err)
						}
					case 9:
						cl.reread(a>>20, 3)
					}
				}
				// Whatever this client still holds, read once more: the others are still running.
				cl.reread(0, 0)
			}(ci)
		}
		close(start)
		wg.Wait()
	})
	flushHookCounts(c)
	if !ok {
		c.Hang("store-ops", fmt.Sprintf("concurrent store operations did not complete (config %s)", cf.name), dump)
		return
	}
	for _, cl := range clients {
		if cl != nil {
			rec.merge(cl)
		}
	}
	if !drain(c) {
		c.Inconclusive("deleted-event listener did not drain")
		return
	}
	// Final quiescent observation by one more client.
	fin := &client{id: nclients, st: st, rec: rec, track: true}
	// Every handle any client kept is read once more now that everything has happened.
	for _, cl := range clients {
		if cl != nil {
			fin.rereadOf(cl)
		}
	}

	var total int64
	for _, mb := range boxes {
		fin.List(mb)
		ms, _ := st.GetMessages(mb)
		for _, m := range ms {
			total += m.Size()
			fin.Get(mb, m.ID())
		}
	}
	rec.merge(fin)
	judge(c, cf, rec, fmt.Sprintf("stress cfg=%s procs=%d clients=%d ops=%d boxes=%d", cf.name, procs, nclients, nops, nmb), total)
}

// storm: many goroutines deliver at full speed (with a little reading, removing and purging on
// the side) so that cap evictions, size evictions and removals keep colliding.  Histories are too
// large for the linearizability checker; decided here are completion (no deadlock), survival of
// the process, the race log, and invariants at the final quiescent point: ids pairwise distinct,
// every listed message was delivered and not removed by a client before the last delivery
// started, no more than the cap per mailbox, no more than the size limit in total, and without
// limits every delivery that nothing removed is present.
func storm(c *fw.Ctx, idx int, r *fw.Rand) {
	cf := configs[idx%len(configs)]
	procs := []int{2, 4, 16}[(idx/len(configs))%3]
	old := runtime.GOMAXPROCS(procs)
	defer runtime.GOMAXPROCS(old)
	verifhook.Set(func(site string, args ...string) { countHook(site) })
	defer verifhook.Set(nil)
	defer flushHookCounts(c)
	host := extension.NewHost()
	st := newStore(c, cf, host)
	boxes := []string{bucketPair[0], bucketPair[1], "solo"}[:r.Range(2, 3)]
	nwriters := r.Range(3, 8)
	nadds := r.Range(20, 70)
	if cf.backend == "file" {
		nadds = r.Range(10, 30)
	}
	withRemovals := r.Chance(1, 3)
	now := time.Now()
	type added struct{ mb, id string }
	addedBy := make([][]added, nwriters)
	removed := make([][]added, nwriters)
	purged := make([]bool, nwriters)
	var errs []string
	var emu sync.Mutex
	fail := func(format string, a ...any) {
		emu.Lock()
		if len(errs) < 5 {
			errs = append(errs, fmt.Sprintf(format, a...))
		}
		emu.Unlock()
	}
	seeds := make([]uint64, nwriters)
	for i := range seeds {
		seeds[i] = r.Uint64()
	}
	var wg sync.WaitGroup
	start := make(chan struct{})
	ok, dump := c.Within(40*time.Second, func() {
		for w := 0; w < nwriters; w++ {
			wg.Add(1)
			go func(w int) {
				defer wg.Done()
				lr := fw.NewRand(seeds[w], "storm")
				<-start
				for k := 0; k < nadds; k++ {
					mb := boxes[lr.Intn(len(boxes))]
					body := strings.Repeat("y", lr.Range(200, 1100))
					id, err := st.AddMessage(sut.NewDelivery(mb, nil, nil, "s", now, []byte(body)))
					if err != nil {
						fail("AddMessage(%q): %v", mb, err)
						continue
					}
					addedBy[w] = append(addedBy[w], added{mb, id})
					switch {
					case lr.Chance(1, 10):
						if _, err := st.GetMessages(mb); err != nil {
							fail("GetMessages(%q): %v", mb, err)
						}
					case lr.Chance(1, 12):
						if err := st.VisitMailboxes(func([]storage.Message) bool { return true }); err != nil {
							fail("VisitMailboxes: %v", err)
						}
					case withRemovals && lr.Chance(1, 6) && len(addedBy[w]) > 0:
						a := addedBy[w][lr.Intn(len(addedBy[w]))]
						if err := st.RemoveMessage(a.mb, a.id); err == nil {
							removed[w] = append(removed[w], a)
						} else if !notExist(err) {
							fail("RemoveMessage: %v", err)
						}
					case withRemovals && lr.Chance(1, 25):
						purged[w] = true
						if err := st.PurgeMessages(mb); err != nil {
							fail("PurgeMessages: %v", err)
						}
					}
				}
			}(w)
		}
		close(start)
		wg.Wait()
	})
	if !ok {
		c.Hang("store-ops", fmt.Sprintf("concurrent deliveries did not complete (config %s, %d writers x %d adds)", cf.name, nwriters, nadds), dump)
		return
	}
	desc := fmt.Sprintf("storm cfg=%s procs=%d writers=%d adds=%d boxes=%d removals=%v", cf.name, procs, nwriters, nadds, len(boxes), withRemovals)
	for _, e := range errs {
		key := "C09:op-error"
		if strings.Contains(e, "VisitMailboxes") {
			key = "C09:visit-error"
		}
		c.Violation(key, desc+": "+e, nil)
	}
	all := map[string]bool{}
	gone := map[string]bool{}
	anyPurge := false
	n := 0
	for w := range addedBy {
		for _, a := range addedBy[w] {
			k := a.mb + "\x00" + a.id
			if all[k] {
				c.Violation("C09:duplicate-id", fmt.Sprintf("%s: two deliveries to %q received the same id %q", desc, a.mb, a.id), nil)
			}
			all[k] = true
			n++
		}
		for _, a := range removed[w] {
			gone[a.mb+"\x00"+a.id] = true
		}
		anyPurge = anyPurge || purged[w]
	}
	var total int64
	present := 0
	for _, mb := range boxes {
		ms, err := st.GetMessages(mb)
		if err != nil {
			c.Violation("C09:op-error", desc+": final GetMessages: "+err.Error(), nil)
			return
		}
		seen := map[string]bool{}
		for _, m := range ms {
			k := mb + "\x00" + m.ID()
			total += m.Size()
			present++
			if seen[k] {
				c.Violation("C09:duplicate-id", fmt.Sprintf("%s: mailbox %q lists id %q twice", desc, mb, m.ID()), nil)
			}
			seen[k] = true
			if !all[k] {
				c.Violation("C09:phantom-message", fmt.Sprintf("%s: mailbox %q lists %q which no delivery returned", desc, mb, m.ID()), nil)
			}
			if gone[k] {
				c.Violation("C09:removed-message-present", fmt.Sprintf("%s: mailbox %q still lists %q after RemoveMessage succeeded", desc, mb, m.ID()), nil)
			}
		}
		if cf.cap > 0 && len(ms) > cf.cap {
			c.Violation("C09:cap-exceeded-at-rest", fmt.Sprintf("%s: mailbox %q lists %d messages, cap %d", desc, mb, len(ms), cf.cap), nil)
		}
	}
	if cf.maxkb > 0 && total > int64(cf.maxkb)*1024 {
		c.Violation("C09:size-limit-exceeded-at-rest", fmt.Sprintf("%s: %d bytes stored at rest, limit %d", desc, total, cf.maxkb*1024), nil)
	}
	if cf.cap == 0 && cf.maxkb == 0 && !anyPurge && present != n-len(gone) {
		c.Violation("C09:delivery-lost", fmt.Sprintf("%s: %d deliveries returned an id, %d were removed by clients, but %d are present", desc, n, len(gone), present), nil)
	}
	c.Count("storms", 1)
	c.Count("storm_deliveries", int64(n))
	c.NonTrivial(fmt.Sprintf("storm|%s|%d|%d|%v", cf.name, procs, nwriters, withRemovals))
}

// judge checks the recorded history.
func judge(c *fw.Ctx, cf cfg, rec *recorder, desc string, total int64) {
	rec.mu.Lock()
	ops := append([]porcupine.Operation(nil), rec.ops...)
	errs := append([]string(nil), rec.errs...)
	// Size-limit evictions: one synthetic 'remove if present' per deleted event.
	if cf.maxkb > 0 {
		end := rec.now() + 1
		for k, t := range rec.deleted {
			call, ok := rec.addCall[k]
			if !ok {
				continue
			}
			parts := strings.SplitN(k, "\x00", 2)
			if t > end {
				t = end
			}
			if sc := rec.sighted[k]; sc > call && sc < t {
				call = sc
			}
			ops = append(ops, porcupine.Operation{ClientId: 99, Input: opIn{Kind: "evict", Mailbox: parts[0], ID: parts[1]},
				Call: call, Output: opOut{}, Return: t})
		}
	}
	dups := append([]string(nil), rec.dupIDs...)
	sent := append([]sentMsg(nil), rec.sent...)
	reads := append([]handleRead(nil), rec.reads...)
	deleted := map[string]int64{}
	for k, t := range rec.deleted {
		deleted[k] = t
	}
	rec.mu.Unlock()
	// Content read through handles (added after seeded change C09-12, see content.go).
	judgeContent(c, cf, desc, sent, reads, deleted)
	for _, d := range dups {
		c.Violation("C09:duplicate-id", fmt.Sprintf("%s: two deliveries received the same id %q", desc, strings.ReplaceAll(d, "\x00", "/")), nil)
	}
	if !rec.contentOnly {
		c.Count("histories", 1)
		c.Count("operations", int64(len(ops)))
	}
	for _, e := range errs {
		key := "C09:op-error"
		if strings.Contains(e, "VisitMailboxes") || strings.Contains(e, "DoScan") {
			key = "C09:visit-error"
		}
		if strings.Contains(e, "accounting drift") {
			key = "C09:enforcer-accounting-drift"
		}
		c.Violation(key, desc+": "+e, nil)
	}
	if cf.maxkb > 0 && total > int64(cf.maxkb)*1024 {
		c.Violation("C09:size-limit-exceeded-at-rest", fmt.Sprintf("%s: %d bytes stored at the final quiescent point, limit %d", desc, total, cf.maxkb*1024), nil)
	}
	if rec.contentOnly {
		// Stream "handles": one goroutine in program order; what is judged is the content (above),
		// errors, ids and the size limit.  (With maxkb its many evictions, each an operation spanning
		// [add, deleted event], made the linearizability search time out for nothing.)
		return
	}
	// Overlap statistics.
	pairs, sig := overlaps(ops)
	c.Count("overlapping_pairs", int64(pairs))
	if pairs > 0 {
		c.NonTrivial(cf.name + "|" + sig)
	}
	res, info := porcupine.CheckOperationsVerbose(modelFor(cf.cap), ops, time.Duration(c.N(10, 40))*time.Second*time.Duration(c.Slow))
	switch res {
	case porcupine.Ok:
		c.Count("porcupine_ok", 1)
	case porcupine.Unknown:
		c.Count("porcupine_unknown", 1)
		c.Inconclusive("porcupine timed out on " + desc)
	case porcupine.Illegal:
		c.Count("porcupine_illegal", 1)
		_ = info
		c.Violation("C09:not-linearizable:"+cf.name, desc+": history is not linearizable against the ordered-mailbox model",
			map[string]any{"history": renderHistory(ops)})
	}
	if len(ops) > 0 {
		c.Sample(map[string]any{"case": desc, "history_head": renderHistory(ops[:min(len(ops), 12)])})
	}
}

func min(a, b int) int {
	if a < b {
		return a
	}
	return b
}

func renderHistory(ops []porcupine.Operation) []string {
	sort.Slice(ops, func(i, j int) bool { return ops[i].Call < ops[j].Call })
	var out []string
	for _, o := range ops {
		if len(out) >= 400 {
			out = append(out, "...")
			break
		}
		out = append(out, fmt.Sprintf("[%d,%d] c%d %+v -> %+v", o.Call, o.Return, o.ClientId, o.Input, o.Output))
	}
	return out
}

// overlaps counts pairs of operations on the same mailbox whose intervals intersect.
func overlaps(ops []porcupine.Operation) (int, string) {
	by := map[string][]porcupine.Operation{}
	for _, o := range ops {
		in := o.Input.(opIn)
		if in.Kind == "evict" {
			continue
		}
		by[in.Mailbox] = append(by[in.Mailbox], o)
	}
	n := 0
	kinds := map[string]bool{}
	for _, l := range by {
		sort.Slice(l, func(i, j int) bool { return l[i].Call < l[j].Call })
		for i := range l {
			for j := i + 1; j < len(l) && l[j].Call <= l[i].Return; j++ {
				n++
				a, b := l[i].Input.(opIn).Kind, l[j].Input.(opIn).Kind
				if a > b {
					a, b = b, a
				}
				kinds[a+"/"+b] = true
			}
		}
	}
	var ks []string
	for k := range kinds {
		ks = append(ks, k)
	}
	sort.Strings(ks)
	return n, strings.Join(ks, ",")
}

// ---- directed schedules ------------------------------------------------------------------------

// gate pauses the first hook call that matches and lets the test release it.
type gate struct {
	match   func(site string, args []string) bool
	reached chan struct{}
	release chan struct{}
	once    sync.Once
}

func newGate(match func(site string, args []string) bool) *gate {
	return &gate{match: match, reached: make(chan struct{}), release: make(chan struct{})}
}

func (g *gate) hook(site string, args ...string) {
	countHook(site)
	if g.match(site, args) {
		first := false
		g.once.Do(func() { first = true })
		if first {
			close(g.reached)
			<-g.release
		}
	}
}

func directed(c *fw.Ctx, idx int, r *fw.Rand) {
	kind := idx % 8
	defer verifhook.Set(nil)
	defer flushHookCounts(c)
	switch kind {
	case 0, 1, 2, 3:
		directedMem(c, kind, r)
	default:
		directedFile(c, kind, r)
	}
}

// directedMem pauses an AddMessage at mem.add.visible (message in its mailbox, not yet known to
// the size enforcer) while another client removes it / purges / adds.
func directedMem(c *fw.Ctx, kind int, r *fw.Rand) {
	cf := cfg{"mem-maxkb", "mem", 0, 4}
	if kind == 3 {
		cf = cfg{"mem-cap-maxkb", "mem", 2, 4}
	}
	name := []string{"remove-overtakes-registration", "purge-overtakes-registration", "add-evicts-during-registration", "cap-evicts-unregistered"}[kind]
	host := extension.NewHost()
	rec := newRecorder()
	drain := rec.listen(host)
	st := newStore(c, cf, host)
	a := &client{id: 0, st: st, rec: rec}
	b := &client{id: 1, st: st, rec: rec}
	now := time.Now()
	// An older live message that nothing ever removes: if the enforcer's account drifts upwards,
	// it is the first one to be evicted although the store is not over its limit.
	hdr := len("Subject: s\r\n\r\n")
	keeper := ""
	if kind != 2 {
		keeper = a.Add("keeper", 1024-hdr, now)
	}
	// Preceding history.
	// (Sizes are bounded so that keeper + history + the paused delivery + what the schedule adds
	// stay below the 4096-byte limit: the keeper may never be evicted legitimately.)
	for i := 0; i < r.Range(0, 2); i++ {
		a.Add("box", r.Range(100, 400), now)
	}
	target := "box"
	g := newGate(func(site string, args []string) bool { return site == "mem.add.visible" && args[0] == target })
	verifhook.Set(g.hook)
	done := make(chan string, 1)
	pausedSize := r.Range(200, 900)
	go func() { done <- a.Add(target, pausedSize, now) }()
	ok, dump := c.Within(30*time.Second, func() {
		<-g.reached
		verifhook.Set(func(site string, args ...string) { countHook(site) })
		// The message is visible now: find its id through the public interface.
		ids := b.List(target)
		if len(ids) == 0 {
			rec.fail("message not visible at mem.add.visible")
			close(g.release)
			<-done
			return
		}
		newID := ids[len(ids)-1]
		switch kind {
		case 0:
			_ = b.Remove(target, newID)
		case 1:
			b.Purge(target)
		case 2:
			// Fill the store so that this add must evict while the paused message is unregistered.
			for i := 0; i < 6; i++ {
				b.Add("other", 900, now)
			}
		case 3:
			// Two more adds push the paused, unregistered message out through the cap.
			b.Add(target, 300, now)
			b.Add(target, 300, now)
		}
		close(g.release)
		<-done
		// Afterwards the full capacity must still be usable: accounting must not have drifted.
		b.Purge(target)
		b.Purge("other")
		// Four messages of exactly 1024 bytes fill the empty 4096-byte store to the brim: they all
		// fit, unless the enforcer still counts even one byte of a message that is gone.
		// Fill the store to the brim with messages of exactly 1024 bytes (four, or three next to
		// the keeper): they all fit, unless the enforcer still counts even one byte of a message
		// that is gone - then the oldest live message (the keeper) is evicted.
		first := 0
		if keeper != "" {
			first = 1
		}
		var last string
		for i := first; i < 4; i++ {
			last = b.Add(fmt.Sprintf("fresh%d", i), 1024-hdr, now)
		}
		kept := 0
		for i := first; i < 4; i++ {
			kept += len(b.List(fmt.Sprintf("fresh%d", i)))
		}
		if keeper != "" {
			kept += len(b.List("keeper"))
		}
		if kept != 4 {
			rec.fail("after %s: the store holds exactly 4 x 1024 = 4096 bytes of deliveries nobody removed, but only %d of the 4 messages are retained (accounting drift)", name, kept)
		}
		b.Get("fresh3", last)
	})
	if !ok {
		select {
		case <-g.release:
		default:
			close(g.release)
		}
		c.Hang("directed-"+name, "directed schedule did not complete: "+name, dump)
		return
	}
	if !drain(c) {
		c.Inconclusive("deleted-event listener did not drain")
		return
	}
	c.Count("directed_schedules", 1)
	c.Count("directed:"+name, 1)
	var total int64
	for _, mb := range []string{"box", "other", "keeper", "fresh0", "fresh1", "fresh2", "fresh3"} {
		ms, _ := st.GetMessages(mb)
		for _, m := range ms {
			total += m.Size()
		}
		b.List(mb)
	}
	rec.merge(a)
	rec.merge(b)
	judge(c, cf, rec, "directed "+name, total)
}

// directedFile pauses a VisitMailboxes between directory levels while the directory it is about
// to open is emptied and removed (and optionally re-created).
func directedFile(c *fw.Ctx, kind int, r *fw.Rand) {
	cf := cfg{"file-plain", "file", 0, 0}
	level := []string{"1", "2", "3", "3"}[kind-4]
	name := "visit-paused-level" + level
	if kind == 7 {
		name += "-readd"
	}
	host := extension.NewHost()
	rec := newRecorder()
	st := newStore(c, cf, host)
	a := &client{id: 0, st: st, rec: rec}
	b := &client{id: 1, st: st, rec: rec}
	now := time.Now()
	boxes := []string{bucketPair[0], "solo", "zed"}
	for _, mb := range boxes {
		for i := 0; i < r.Range(1, 3); i++ {
			a.Add(mb, r.Range(10, 400), now)
		}
	}
	g := newGate(func(site string, args []string) bool { return site == "file.visit.level" && args[0] == level })
	verifhook.Set(g.hook)
	var verr error
	done := make(chan struct{})
	go func() { verr = a.Visit(nil); close(done) }()
	ok, dump := c.Within(30*time.Second, func() {
		<-g.reached
		verifhook.Set(func(site string, args ...string) { countHook(site) })
		// Empty every mailbox: all directories below the one being walked disappear.
		for _, mb := range boxes {
			b.Purge(mb)
		}
		if kind == 7 {
			b.Add("solo", 50, now)
		}
		close(g.release)
		<-done
	})
	if !ok {
		select {
		case <-g.release:
		default:
			close(g.release)
		}
		c.Hang("directed-"+name, "directed schedule did not complete: "+name, dump)
		return
	}
	_ = verr // recorded by Visit through rec.fail
	c.Count("directed_schedules", 1)
	c.Count("directed:"+name, 1)
	for _, mb := range boxes {
		b.List(mb)
	}
	rec.merge(a)
	rec.merge(b)
	judge(c, cf, rec, "directed "+name, 0)
}
