package c09

// Stream "churn" (added while re-validating seeded change C09-5, which the stress stream met in
// only about one history per quick run - a coin-flip detection).
//
// What was thin: the property names "mailboxes that share a lock bucket or hash directory", and
// the dangerous moments of such neighbours are the life-cycle edges - a mailbox becoming empty
// (the file store removes its directory and every empty parent level; the memory store releases
// the mailbox object) while a neighbour receives its FIRST delivery (which creates the same
// levels).  In stress these edges are rare: mailboxes are seldom emptied and seldom empty.
//
// What the stream does: 2-5 goroutines, each the only user of its own mailbox, drive that
// mailbox through many create/empty cycles at full speed: deliver 1-3 messages into the empty
// mailbox, read them back (list, get by id, latest, mark-seen + get), empty it again (remove
// one by one in random order, or purge, or - with a cap of 1 - let the next delivery evict).
// The mailboxes are neighbours: names whose hashes share the level-1 directory (3 hex digits,
// with different and with equal 4th digits), names that even share the level-2 directory
// (6 hex digits), plus an unrelated one.  An optional extra goroutine keeps visiting all mailboxes.
//
// Oracle: since nobody else touches a goroutine's mailbox, "explainable by some sequential
// order" pins every result exactly: every operation succeeds, a listing is exactly what the
// owner delivered and did not remove, in order (after the cap), ids are never reused within a
// mailbox, the seen flag is what the owner set.  The visitor's callbacks may only contain ids
// that were delivered to that mailbox, and VisitMailboxes must not fail.  No porcupine needed.

import (
	"fmt"
	"runtime"
	"sort"
	"strings"
	"sync"
	"time"

	"github.com/inbucket/inbucket/v3/pkg/extension"
	"github.com/inbucket/inbucket/v3/pkg/storage"
	"github.com/inbucket/inbucket/v3/pkg/stringutil"
	"github.com/inbucket/inbucket/v3/pkg/verifhook"

	"verifharness/internal/fw"
	"verifharness/internal/sut"
)

// Neighbour names, found once by a deterministic search.
var (
	sibDiff4 [2]string // same level-1 directory (hash[0:3]), different 4th digit
	sibSame4 [2]string // same level-1 directory, same 4th digit, different level-2 directory
	sibDeep  [2]string // same level-2 directory (hash[0:6])
)

func init() {
	by3 := map[string][]string{}
	by6 := map[string]string{}
	for i := 0; i < 400000 && (sibDiff4[0] == "" || sibSame4[0] == "" || sibDeep[0] == ""); i++ {
		n := fmt.Sprintf("sib%d", i)
		h := stringutil.HashMailboxName(n)
		if o, ok := by6[h[:6]]; ok && sibDeep[0] == "" {
			sibDeep = [2]string{o, n}
		}
		by6[h[:6]] = n
		if len(by3[h[:3]]) < 8 {
			for _, o := range by3[h[:3]] {
				ho := stringutil.HashMailboxName(o)
				if ho[:6] == h[:6] {
					continue
				}
				if ho[3] != h[3] && sibDiff4[0] == "" {
					sibDiff4 = [2]string{o, n}
				}
				if ho[3] == h[3] && sibSame4[0] == "" {
					sibSame4 = [2]string{o, n}
				}
			}
			by3[h[:3]] = append(by3[h[:3]], n)
		}
	}
}

var churnConfigs = []cfg{
	{"file-plain", "file", 0, 0}, {"file-cap1", "file", 1, 0}, {"file-plain", "file", 0, 0}, {"mem-plain", "mem", 0, 0},
	{"file-cap", "file", 3, 0}, {"mem-cap1", "mem", 1, 0},
}

type span struct{ call, ret int64 }

type churner struct {
	mb        string
	errs      []string
	rounds    int64
	empties   []span // operations that took the mailbox from non-empty to empty
	firsts    []span // deliveries into the empty mailbox
	delivered map[string]bool
	final     []string
}

func (w *churner) fail(format string, a ...any) {
	if len(w.errs) < 5 {
		w.errs = append(w.errs, fmt.Sprintf(format, a...))
	}
}

func churn(c *fw.Ctx, idx int, r *fw.Rand) {
	cf := churnConfigs[idx%len(churnConfigs)]
	procs := []int{2, 4, 16}[(idx/len(churnConfigs))%3]
	old := runtime.GOMAXPROCS(procs)
	defer runtime.GOMAXPROCS(old)
	verifhook.Set(func(site string, args ...string) { countHook(site) })
	defer verifhook.Set(nil)
	defer flushHookCounts(c)
	host := extension.NewHost()
	st := newStore(c, cf, host)

	// Which neighbours: one family, sometimes two, sometimes with an outsider.
	families := [][2]string{sibDiff4, sibSame4, sibDeep, bucketPair}
	var names []string
	fsel := r.Intn(len(families))
	names = append(names, families[fsel][0], families[fsel][1])
	if r.Chance(1, 3) {
		f2 := families[(fsel+1+r.Intn(len(families)-1))%len(families)]
		names = append(names, f2[0], f2[1])
	}
	if r.Chance(1, 3) {
		names = append(names, "outsider")
	}
	rounds := r.Range(25, 90)
	if cf.backend == "mem" {
		rounds *= 3
	}
	withVisitor := r.Chance(1, 3)
	now := time.Now()
	base := time.Now()
	clock := func() int64 { return int64(time.Since(base)) }
	ws := make([]*churner, len(names))
	seeds := make([]uint64, len(names))
	for i := range names {
		ws[i] = &churner{mb: names[i], delivered: map[string]bool{}}
		seeds[i] = r.Uint64()
	}
	var wg sync.WaitGroup
	start := make(chan struct{})
	stop := make(chan struct{})
	var visitErrs []string
	type seenIDs struct{ mb, id string }
	var visited []seenIDs
	visitorDone := make(chan struct{})
	ok, dump := c.Within(60*time.Second, func() {
		for i := range ws {
			wg.Add(1)
			go func(w *churner, seed uint64) {
				defer wg.Done()
				lr := fw.NewRand(seed, "churn")
				var model []string // ids in the mailbox, in order
				seen := map[string]bool{}
				add := func() {
					wasEmpty := len(model) == 0
					body := "Subject: s\r\n\r\n" + strings.Repeat("c", lr.Range(1, 400))
					t0 := clock()
					id, err := st.AddMessage(sut.NewDelivery(w.mb, nil, nil, "s", now, []byte(body)))
					t1 := clock()
					if err != nil {
						w.fail("AddMessage(%q): %v", w.mb, err)
						return
					}
					if w.delivered[id] {
						w.fail("AddMessage(%q) returned id %q a second time", w.mb, id)
					}
					w.delivered[id] = true
					if wasEmpty {
						w.firsts = append(w.firsts, span{t0, t1})
					}
					model = append(model, id)
					if cf.cap > 0 {
						for len(model) > cf.cap {
							if len(model) == 1+cf.cap && cf.cap == 1 {
								// the eviction emptied the mailbox before the new message went in
								w.empties = append(w.empties, span{t0, t1})
								w.firsts = append(w.firsts, span{t0, t1})
							}
							delete(seen, model[0])
							model = model[1:]
						}
					}
				}
				check := func(when string) {
					ms, err := st.GetMessages(w.mb)
					if err != nil {
						w.fail("GetMessages(%q) %s: %v", w.mb, when, err)
						return
					}
					var ids []string
					for _, m := range ms {
						ids = append(ids, m.ID())
						if m.Mailbox() != w.mb {
							w.fail("GetMessages(%q) %s: listing contains message %q of mailbox %q", w.mb, when, m.ID(), m.Mailbox())
						}
					}
					if strings.Join(ids, ",") != strings.Join(model, ",") {
						w.fail("GetMessages(%q) %s: listed [%s], but only its owner uses this mailbox and it holds [%s]",
							w.mb, when, strings.Join(ids, ","), strings.Join(model, ","))
					}
				}
				<-start
				for k := 0; k < rounds; k++ {
					w.rounds++
					for n := lr.Range(1, 3); n > 0; n-- {
						add()
					}
					if len(w.errs) > 0 {
						break
					}
					switch lr.Intn(4) {
					case 0:
						check("after delivery")
					case 1:
						m, err := st.GetMessage(w.mb, "latest")
						if err != nil || m == nil || m.ID() != model[len(model)-1] {
							got := "<nil>"
							if m != nil {
								got = m.ID()
							}
							w.fail("GetMessage(%q,latest): %v / %s, want %s", w.mb, err, got, model[len(model)-1])
						}
					case 2:
						id := model[lr.Intn(len(model))]
						if err := st.MarkSeen(w.mb, id); err != nil {
							w.fail("MarkSeen(%q,%q): %v", w.mb, id, err)
						} else {
							seen[id] = true
						}
						m, err := st.GetMessage(w.mb, id)
						if err != nil || m == nil || m.ID() != id || m.Seen() != seen[id] {
							w.fail("GetMessage(%q,%q) after MarkSeen: err=%v message=%v", w.mb, id, err, m != nil)
						}
					}
					// Empty it again (with a cap of 1 mostly leave that to the next delivery).
					if cf.cap == 1 && lr.Chance(3, 4) {
						continue
					}
					if lr.Chance(1, 3) {
						t0 := clock()
						err := st.PurgeMessages(w.mb)
						w.empties = append(w.empties, span{t0, clock()})
						if err != nil {
							w.fail("PurgeMessages(%q): %v", w.mb, err)
						}
						model = nil
					} else {
						for len(model) > 0 {
							j := lr.Intn(len(model))
							t0 := clock()
							err := st.RemoveMessage(w.mb, model[j])
							if len(model) == 1 {
								w.empties = append(w.empties, span{t0, clock()})
							}
							if err != nil {
								w.fail("RemoveMessage(%q,%q): %v", w.mb, model[j], err)
								break
							}
							model = append(model[:j], model[j+1:]...)
						}
					}
					if len(w.errs) > 0 {
						break
					}
					if lr.Chance(1, 4) {
						check("after emptying")
					}
				}
				// Leave something behind for the final check, half of the time.
				if len(w.errs) == 0 && len(model) == 0 && lr.Bool() {
					add()
				}
				w.final = model
			}(ws[i], seeds[i])
		}
		if withVisitor {
			go func() {
				defer close(visitorDone)
				<-start
				for {
					select {
					case <-stop:
						return
					default:
					}
					err := st.VisitMailboxes(func(ms []storage.Message) bool {
						for _, m := range ms {
							if len(visited) < 20000 {
								visited = append(visited, seenIDs{m.Mailbox(), m.ID()})
							}
						}
						return true
					})
					if err != nil && len(visitErrs) < 3 {
						visitErrs = append(visitErrs, err.Error())
					}
					runtime.Gosched()
				}
			}()
		} else {
			close(visitorDone)
		}
		close(start)
		wg.Wait()
		close(stop)
		<-visitorDone
	})
	if !ok {
		c.Hang("store-ops", fmt.Sprintf("mailbox create/empty cycles of neighbouring mailboxes did not complete (config %s)", cf.name), dump)
		return
	}
	desc := fmt.Sprintf("churn cfg=%s procs=%d mailboxes=%v rounds=%d visitor=%v", cf.name, procs, names, rounds, withVisitor)
	for _, w := range ws {
		for _, e := range w.errs {
			key := "C09:op-error"
			if strings.Contains(e, "listed [") || strings.Contains(e, "listing contains") || strings.Contains(e, "want ") || strings.Contains(e, "after MarkSeen") {
				key = "C09:churn-wrong-result"
			}
			if strings.Contains(e, "a second time") {
				key = "C09:duplicate-id"
			}
			c.Violation(key, desc+": "+e, nil)
		}
	}
	for _, e := range visitErrs {
		c.Violation("C09:visit-error", desc+": VisitMailboxes: "+e, nil)
	}
	byName := map[string]*churner{}
	for _, w := range ws {
		byName[w.mb] = w
	}
	for _, v := range visited {
		w := byName[v.mb]
		if w == nil {
			c.Violation("C09:phantom-message", fmt.Sprintf("%s: VisitMailboxes showed mailbox %q which nobody delivered to", desc, v.mb), nil)
			break
		}
		if !w.delivered[v.id] {
			c.Violation("C09:phantom-message", fmt.Sprintf("%s: VisitMailboxes showed %q in mailbox %q, which no delivery to it returned", desc, v.id, v.mb), nil)
			break
		}
	}
	// Final quiescent point.
	clean := true
	for _, w := range ws {
		if len(w.errs) > 0 {
			clean = false
		}
	}
	if clean && len(visitErrs) == 0 {
		for _, w := range ws {
			ms, err := st.GetMessages(w.mb)
			if err != nil {
				c.Violation("C09:op-error", fmt.Sprintf("%s: final GetMessages(%q): %v", desc, w.mb, err), nil)
				continue
			}
			var ids []string
			for _, m := range ms {
				ids = append(ids, m.ID())
			}
			if strings.Join(ids, ",") != strings.Join(w.final, ",") {
				c.Violation("C09:churn-wrong-result", fmt.Sprintf("%s: at rest mailbox %q lists [%s], its owner left [%s]", desc, w.mb,
					strings.Join(ids, ","), strings.Join(w.final, ",")), nil)
			}
		}
	}
	// Evidence: how often one mailbox's emptying overlapped a neighbour's first delivery.
	type ev struct {
		span
		who   int
		first bool
	}
	var evs []ev
	var rounds64, empties, firsts int64
	for i, w := range ws {
		rounds64 += w.rounds
		empties += int64(len(w.empties))
		firsts += int64(len(w.firsts))
		for _, s := range w.empties {
			evs = append(evs, ev{s, i, false})
		}
		for _, s := range w.firsts {
			evs = append(evs, ev{s, i, true})
		}
	}
	sort.Slice(evs, func(i, j int) bool { return evs[i].call < evs[j].call })
	var edge int64
	for i := range evs {
		for j := i + 1; j < len(evs) && evs[j].call <= evs[i].ret; j++ {
			if evs[i].who != evs[j].who && evs[i].first != evs[j].first {
				edge++
			}
		}
	}
	c.Count("churn_cases", 1)
	c.Count("churn_rounds", rounds64)
	c.Count("churn_empties", empties)
	c.Count("churn_first_deliveries", firsts)
	c.Count("churn_empty_overlaps_first_delivery", edge)
	c.Count("churn_visit_sightings", int64(len(visited)))
	if edge > 0 {
		c.NonTrivial(fmt.Sprintf("churn|%s|procs=%d|n=%d|family=%d|visitor=%v", cf.name, procs, len(names), fsel, withVisitor))
	}
}
