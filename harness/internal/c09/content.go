package c09

// Content read through message handles (added after seeded change C09-12, which recycled a removed
// message's source buffer through a sync.Pool: the next delivery - to ANY mailbox - overwrote the
// bytes a holder of the old handle was still going to read).
//
// What was never exercised: the histories recorded ids, seen flags and listings, but never the
// CONTENT of a message, and never used a handle (the storage.Message returned by GetMessage,
// GetMessages, VisitMailboxes) after other operations had happened.  Every real consumer does
// exactly that: the manager's GetMessage/SourceReader call Source() after the store call returned
// and the mailbox lock is dropped, a POP3 session RETRs from the listing it took at login.  The
// property demands results "explainable by some sequential order of the operations": a read of
// message (mailbox, id) that returns the bytes of another delivery - or a mix of two - has no such
// order, whatever happened to the message in between.
//
// What is added:
//   - every delivery made through client.Add carries bytes unique to it (client, serial, mailbox);
//   - a tracking client reads the source through every handle it obtains (get, latest, up to three
//     entries of each listing and of each visit callback) right away, keeps the handle, and reads
//     it again later: on dedicated "reread" operations between the others, when its plan is done,
//     and once more at the final quiescent point - after removals, evictions, purges, retention
//     scans and new deliveries by anybody;
//   - judge() compares every such read with the bytes of the delivery that returned this
//     (mailbox, id): it must be exactly those bytes, or an error (a message that has left its
//     mailbox may be unreadable: the file store has deleted the file).  Never another delivery's
//     bytes (key C09:handle-reads-other-delivery), never a mix (C09:handle-reads-garbled);
//   - stream "handles": the directed schedule obtain handle -> message leaves its mailbox (remove,
//     purge, cap eviction, size eviction, retention scan, or stays as a control) -> deliveries to
//     OTHER mailboxes -> read the handle, repeated 12-30 times per case on all six configurations,
//     alone or next to a goroutine that keeps delivering elsewhere.  Repetition matters: a
//     recycling scheme need not reuse a buffer every time (sync.Pool drops a quarter of its items
//     under the race detector and is per-P).
//
// Not demanded: that a handle stays readable after its message left the mailbox (errors are
// counted, not judged), and nothing about reads of ids that two deliveries received (that is
// C09:duplicate-id already).

import (
	"context"
	"fmt"
	"io"
	"sort"
	"strings"
	"sync"
	"time"

	"github.com/inbucket/inbucket/v3/pkg/config"
	"github.com/inbucket/inbucket/v3/pkg/extension"
	"github.com/inbucket/inbucket/v3/pkg/storage"
	"github.com/inbucket/inbucket/v3/pkg/verifhook"

	"verifharness/internal/fw"
)

const bodyHeader = "Subject: s\r\n\r\n"

// sentMsg is one delivery that returned an id, with the exact bytes handed to the store.
type sentMsg struct {
	mb, id, body string
	ret          int64 // logical time AddMessage returned
}

// heldMsg is a handle a client keeps after the call that produced it.
type heldMsg struct {
	mb, id, via string
	m           storage.Message
}

// handleRead is one read of the source through a handle.
type handleRead struct {
	mb, id, via string
	later       bool // not the read right after the handle was obtained
	body        string
	err         string
	t           int64 // logical time the read started
}

const maxHeld = 48

// payload returns exactly size bytes that name the delivery over and over.
func payload(serial, mailbox string, size int) string {
	if size <= 0 {
		return ""
	}
	token := serial + "#" + mailbox + "|"
	return strings.Repeat(token, size/len(token)+1)[:size]
}

// nextBody builds the source of this client's next delivery: the fixed header plus size bytes
// unique to (client, serial, mailbox).  The total length is the same as it always was
// (len(header) + size): the directed schedules depend on exact sizes.
func (c *client) nextBody(mailbox string, size int) string {
	c.nadd++
	return bodyHeader + payload(fmt.Sprintf("%d.%d", c.id, c.nadd), mailbox, size)
}

func readSource(m storage.Message) (string, error) {
	rc, err := m.Source()
	if err != nil {
		return "", err
	}
	b, err := io.ReadAll(rc)
	_ = rc.Close()
	if err != nil {
		return "", err
	}
	return string(b), nil
}

// observe reads the source through a handle just obtained and keeps the handle.
func (c *client) observe(via string, m storage.Message) {
	if !c.track || m == nil {
		return
	}
	h := heldMsg{mb: m.Mailbox(), id: m.ID(), via: via, m: m}
	c.readHeld(h, false)
	if len(c.held) < maxHeld {
		c.held = append(c.held, h)
	} else {
		c.held[c.nobs%maxHeld] = h
	}
	c.nobs++
}

// observeSome observes the first, the middle and the last entry of a listing.
func (c *client) observeSome(via string, ms []storage.Message) {
	if !c.track || len(ms) == 0 {
		return
	}
	idx := []int{0}
	if len(ms) > 2 {
		idx = append(idx, len(ms)/2)
	}
	if len(ms) > 1 {
		idx = append(idx, len(ms)-1)
	}
	for _, i := range idx {
		c.observe(via, ms[i])
	}
}

func (c *client) readHeld(h heldMsg, later bool) {
	rd := handleRead{mb: h.mb, id: h.id, via: h.via, later: later, t: c.rec.now()}
	body, err := readSource(h.m)
	if err != nil {
		rd.err = err.Error()
	} else {
		rd.body = body
	}
	c.reads = append(c.reads, rd)
}

// reread reads up to n of the kept handles again (all of them for n <= 0), starting at k.
func (c *client) reread(k uint64, n int) {
	if len(c.held) == 0 {
		return
	}
	if n <= 0 || n > len(c.held) {
		n = len(c.held)
	}
	for i := 0; i < n; i++ {
		c.readHeld(c.held[int((k+uint64(i))%uint64(len(c.held)))], true)
	}
}

// rereadOf reads the handles another (stopped) client kept.
func (c *client) rereadOf(o *client) {
	for _, h := range o.held {
		c.readHeld(h, true)
	}
}

func head(s string) string {
	if len(s) > 60 {
		return fmt.Sprintf("%q... (%d bytes)", s[:60], len(s))
	}
	return fmt.Sprintf("%q (%d bytes)", s, len(s))
}

// judgeContent compares every read through a handle with the delivery the handle names.
func judgeContent(c *fw.Ctx, cf cfg, desc string, sent []sentMsg, reads []handleRead, deleted map[string]int64) {
	if len(reads) == 0 {
		return
	}
	type exp struct {
		body string
		n    int
	}
	byKey := map[string]*exp{}
	byBody := map[string]string{}
	for _, s := range sent {
		k := s.mb + "\x00" + s.id
		if e := byKey[k]; e != nil {
			e.n++
		} else {
			byKey[k] = &exp{body: s.body, n: 1}
		}
		byBody[s.body] = s.mb + "/" + s.id
	}
	var now, later, errs, unjudged, afterDeleted, afterDeletedAndDelivery int64
	reported := map[string]bool{}
	for _, rd := range reads {
		k := rd.mb + "\x00" + rd.id
		if rd.later {
			later++
		} else {
			now++
		}
		if dt, ok := deleted[k]; ok && rd.t > dt {
			afterDeleted++
			for _, s := range sent {
				if s.ret > dt && s.ret < rd.t {
					afterDeletedAndDelivery++
					break
				}
			}
		}
		if rd.err != "" {
			errs++
			continue
		}
		e := byKey[k]
		if e == nil || e.n != 1 {
			// An id no delivery of this history returned (phantom), or one that two deliveries
			// received: judged elsewhere; there is no single expectation for its content.
			unjudged++
			continue
		}
		if rd.body == e.body {
			continue
		}
		when := "right after it was obtained"
		if rd.later {
			when = "some operations after it was obtained"
		}
		key := "C09:handle-reads-garbled"
		what := fmt.Sprintf("%s: the source read through a handle for %s/%s (from %s, read %s) is not what was delivered under that id: delivered %s, read %s",
			desc, rd.mb, rd.id, rd.via, when, head(e.body), head(rd.body))
		if other, ok := byBody[rd.body]; ok {
			key = "C09:handle-reads-other-delivery"
			what = fmt.Sprintf("%s: the source read through a handle for %s/%s (from %s, read %s) is the mail delivered as %s: delivered %s, read %s",
				desc, rd.mb, rd.id, rd.via, when, other, head(e.body), head(rd.body))
		}
		if !reported[key] {
			reported[key] = true
			c.Violation(key, what, map[string]any{"mailbox": rd.mb, "id": rd.id, "via": rd.via, "later": rd.later, "delivered": e.body, "read": rd.body})
		}
		c.Count("handle_reads_wrong", 1)
	}
	c.Count("handle_reads", now)
	c.Count("handle_rereads", later)
	c.Count("handle_read_errors", errs)
	c.Count("handle_reads_unjudged", unjudged)
	c.Count("handle_reads_after_deleted_event", afterDeleted)
	c.Count("handle_reads_after_deleted_event_and_delivery", afterDeletedAndDelivery)
}

// ---- stream "handles": the directed schedule -----------------------------------------------

var leaveKinds = []string{"remove", "purge", "cap-eviction", "size-eviction", "retention", "stays"}
var obtainKinds = []string{"get", "latest", "list", "visit"}

// handles repeats: deliver to a victim mailbox; obtain handles (get by id / latest / list / visit)
// and read them; make the message leave its mailbox; deliver to other mailboxes; read the handles
// obtained in this and in earlier rounds again.  One goroutine does all of it in program order
// (so the expected outcome of every step is known), optionally next to a second goroutine that
// keeps delivering to mailboxes of its own.
func handles(c *fw.Ctx, idx int, r *fw.Rand) {
	cf := configs[idx%len(configs)]
	background := (idx/len(configs))%2 == 1
	verifhook.Set(func(site string, args ...string) { countHook(site) })
	defer verifhook.Set(nil)
	defer flushHookCounts(c)
	host := extension.NewHost()
	rec := newRecorder()
	rec.contentOnly = true
	drain := rec.listen(host)
	st := newStore(c, cf, host)
	a := &client{id: 0, st: st, rec: rec, track: true}
	bg := &client{id: 1, st: st, rec: rec}
	rounds := r.Range(12, 30)
	if cf.backend == "file" {
		rounds = r.Range(8, 14)
	}
	type round struct {
		obtain, leave     string
		nvictim, nother   int
		sizes, otherSizes []int
		bgSizes           []int
	}
	plan := make([]round, rounds)
	for i := range plan {
		p := &plan[i]
		p.obtain = obtainKinds[r.Intn(len(obtainKinds))]
		for {
			p.leave = leaveKinds[r.Weighted([]int{30, 15, 15, 15, 10, 15})]
			if (p.leave == "cap-eviction" && cf.cap == 0) || (p.leave == "size-eviction" && cf.maxkb == 0) {
				continue
			}
			break
		}
		p.nvictim = r.Range(1, 3)
		for k := 0; k < p.nvictim; k++ {
			p.sizes = append(p.sizes, r.Range(200, 900))
		}
		p.nother = r.Range(1, 4)
		for k := 0; k < p.nother; k++ {
			// Mostly no larger than the victims (a recycled buffer is overwritten in place only when
			// the new content fits), sometimes larger.
			p.otherSizes = append(p.otherSizes, r.Range(20, 1000))
		}
		for k := 0; k < r.Range(1, 3); k++ {
			p.bgSizes = append(p.bgSizes, r.Range(20, 900))
		}
	}
	now := time.Now()
	old := now.Add(-3 * time.Hour)
	var departedRereads int64
	leaves := map[string]int64{}
	boxes := map[string]bool{}
	ok, dump := c.Within(60*time.Second, func() {
		var wg sync.WaitGroup
		if background {
			wg.Add(1)
			go func() {
				defer wg.Done()
				for i, p := range plan {
					for k, sz := range p.bgSizes {
						bg.Add(fmt.Sprintf("bg%d", (i+k)%3), sz, now)
					}
				}
			}()
		}
		type departed struct{ mb, id string }
		gone := map[departed]bool{}
		for i, p := range plan {
			vb := fmt.Sprintf("victim%d", i%3)
			boxes[vb] = true
			date := now
			if p.leave == "retention" {
				date = old
			}
			var ids []string
			for _, sz := range p.sizes {
				if id := a.Add(vb, sz, date); id != "" {
					ids = append(ids, id)
				}
			}
			if len(ids) == 0 {
				continue
			}
			// Obtain handles (each is read at once and kept).
			switch p.obtain {
			case "get":
				for _, id := range ids {
					a.Get(vb, id)
				}
			case "latest":
				a.Get(vb, "latest")
			case "list":
				a.List(vb)
			case "visit":
				_ = a.Visit(nil)
			}
			// The messages leave their mailbox.
			switch p.leave {
			case "remove":
				for _, id := range ids {
					if a.Remove(vb, id) == nil {
						gone[departed{vb, id}] = true
					}
				}
			case "purge":
				a.Purge(vb)
				for _, id := range ids {
					gone[departed{vb, id}] = true
				}
			case "cap-eviction":
				for k := 0; k < cf.cap; k++ {
					a.Add(vb, 100+k, now)
				}
				for _, id := range ids {
					gone[departed{vb, id}] = true
				}
			case "size-eviction":
				for k := 0; k < 5; k++ {
					a.Add("filler", 1000, now)
				}
				boxes["filler"] = true
			case "retention":
				rs := storage.NewRetentionScanner(config.Storage{RetentionPeriod: time.Hour, RetentionSleep: 0}, scanStore{st, a})
				if err := rs.DoScan(context.Background()); err != nil {
					rec.fail("retention DoScan: %v", err)
				}
			}
			leaves[p.leave]++
			// New deliveries, to other mailboxes.
			for k, sz := range p.otherSizes {
				ob := fmt.Sprintf("other%d", (i+k)%4)
				boxes[ob] = true
				a.Add(ob, sz, now)
			}
			// Read every kept handle again: this round's and earlier ones'.
			a.reread(0, 0)
			for _, h := range a.held {
				if gone[departed{h.mb, h.id}] {
					departedRereads++
				}
			}
		}
		wg.Wait()
	})
	if !ok {
		c.Hang("handles", fmt.Sprintf("directed handle schedule did not complete (config %s)", cf.name), dump)
		return
	}
	if !drain(c) {
		c.Inconclusive("deleted-event listener did not drain")
		return
	}
	fin := &client{id: 2, st: st, rec: rec, track: true}
	fin.rereadOf(a)
	for _, b := range []string{"bg0", "bg1", "bg2"} {
		if background {
			boxes[b] = true
		}
	}
	var total int64
	for mb := range boxes {
		ms, _ := st.GetMessages(mb)
		for _, m := range ms {
			total += m.Size()
		}
	}
	for _, mb := range sortedKeys(boxes) {
		fin.List(mb)
	}
	rec.merge(a)
	rec.merge(bg)
	rec.merge(fin)
	c.Count("handles_cases", 1)
	c.Count("handles_rounds", int64(rounds))
	c.Count("handles_rereads_of_departed_after_delivery", departedRereads)
	for k, n := range leaves {
		c.Count("handles_leave:"+k, n)
	}
	c.NonTrivial(fmt.Sprintf("handles|%s|bg=%v|%d", cf.name, background, rounds))
	judge(c, cf, rec, fmt.Sprintf("handles cfg=%s rounds=%d background=%v", cf.name, rounds, background), total)
}

func sortedKeys(m map[string]bool) []string {
	var ks []string
	for k := range m {
		ks = append(ks, k)
	}
	sort.Strings(ks)
	return ks
}
