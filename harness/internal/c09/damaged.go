package c09

// Stream "damaged" (added after seeded change C09-8).
//
// What was missing: every store the stress, storm and directed streams drive is in perfect
// health, so none of the file store's *error* paths ever ran next to concurrent traffic.  The
// property quantifies over all interleavings of concurrent clients; a client whose operation
// fails (because its mailbox's index.gob was left empty, cut short or overwritten - a power
// failure, a full disk, a foreign file) is still a client, and its failure must stay its own:
// the operations of every other client on every other mailbox must complete and return what
// the sequential model allows.  C09-8 released a pooled bufio.Reader twice on the
// undecodable-index path; afterwards two goroutines decoded two healthy indexes through one
// shared reader (spurious "corrupt mailbox" errors naming another mailbox's file, nil
// dereferences, slice-bounds panics).  The class is "state shared by all mailboxes of a store
// (reader pool, lock table, id generator, directory levels) is left inconsistent by an
// operation that failed".
//
// What the stream does: a file store with 3-6 healthy mailboxes (preloaded, so that every
// index read takes a while) and 1-2 mailboxes whose index file is damaged behind the store's
// back - zero length, truncated at a random offset, random bytes, a valid head with a garbage
// tail - before the concurrent phase, in the middle of it, or both.  6-12 client goroutines
// (GOMAXPROCS 4/8/16, released together) read, list and deliver to the healthy mailboxes; the
// file store caches nothing between operations, so every one of their calls is a cold index
// read and the reads of different clients really overlap.  1-3 more goroutines keep operating
// on the damaged mailboxes (list/get/add/mark-seen/remove/purge/visit and fresh damage); the
// healthy clients touch them now and then, too.
//
// Oracle: the outcome of an operation on a damaged mailbox is don't-care (counted only).  Every
// operation on a healthy mailbox must succeed (key op-error), every message it returns must
// belong to the mailbox asked for, and the history of the healthy mailboxes - preload, the
// concurrent phase, callbacks of the pollers' VisitMailboxes for healthy mailboxes, a final
// quiescent listing - must be linearizable against the ordered-mailbox model (porcupine,
// partitioned by mailbox, as in stress).  A VisitMailboxes may fail when it reaches a damaged
// mailbox, but not with an error that names the index file of a healthy one.  Crashes and race
// reports are attributed by the parent as everywhere else.
//
// Histories stay checkable because most healthy mailboxes are "static" in the concurrent phase
// (only reads: porcupine is linear there, so reads are not rationed) while the "live" ones get
// at most about 40 operations each.

import (
	"fmt"
	"os"
	"path/filepath"
	"runtime"
	"sort"
	"strings"
	"sync"
	"time"

	"github.com/inbucket/inbucket/v3/pkg/config"
	"github.com/inbucket/inbucket/v3/pkg/extension"
	"github.com/inbucket/inbucket/v3/pkg/storage"
	"github.com/inbucket/inbucket/v3/pkg/stringutil"
	"github.com/inbucket/inbucket/v3/pkg/verifhook"

	"verifharness/internal/fw"
	"verifharness/internal/sut"
)

// ownStore checks, for the healthy clients, that what a read returns belongs to the mailbox that
// was asked for (the file store takes the name from the index it decoded).  It adds no
// synchronisation on the success path.
type ownStore struct {
	storage.Store
	rec *recorder
}

func (s ownStore) GetMessages(mailbox string) ([]storage.Message, error) {
	ms, err := s.Store.GetMessages(mailbox)
	if err == nil {
		for _, m := range ms {
			if m == nil {
				s.rec.fail("GetMessages(%q): nil message in the listing", mailbox)
				return nil, fmt.Errorf("nil message")
			}
			if m.Mailbox() != mailbox {
				s.rec.fail("GetMessages(%q): listing contains message %q of mailbox %q", mailbox, m.ID(), m.Mailbox())
				break
			}
		}
	}
	return ms, err
}

func (s ownStore) GetMessage(mailbox, id string) (storage.Message, error) {
	m, err := s.Store.GetMessage(mailbox, id)
	if err == nil && m != nil {
		if m.Mailbox() != mailbox {
			s.rec.fail("GetMessage(%q,%q): returned message %q of mailbox %q", mailbox, id, m.ID(), m.Mailbox())
		} else if id != "latest" && m.ID() != id {
			s.rec.fail("GetMessage(%q,%q): returned message %q", mailbox, id, m.ID())
		}
	}
	return m, err
}

func indexPathOf(root, mailbox string) string {
	h := stringutil.HashMailboxName(mailbox)
	return filepath.Join(root, "mail", h[0:3], h[0:6], h, "index.gob")
}

var damageForms = []string{"zero", "truncated", "garbage", "garbage-tail"}

// damageIndex overwrites the index file in place, the way a crash or a foreign writer would: no
// temporary file, no rename, no lock.  Returns false when there is no index to damage.
func damageIndex(path, form string, salt uint64) bool {
	old, err := os.ReadFile(path)
	if err != nil {
		return false
	}
	lr := fw.NewRand(salt, "damage")
	switch form {
	case "zero":
		return os.Truncate(path, 0) == nil
	case "truncated":
		if len(old) < 2 {
			return os.Truncate(path, 0) == nil
		}
		return os.Truncate(path, int64(lr.Range(1, len(old)-1))) == nil
	case "garbage":
		return os.WriteFile(path, lr.Bytes(lr.Range(1, 300)), 0660) == nil
	default: // garbage-tail: the head (mailbox name, perhaps some messages) still decodes
		keep := 0
		if len(old) > 0 {
			keep = lr.Range(0, len(old)-1)
		}
		return os.WriteFile(path, append(append([]byte(nil), old[:keep]...), lr.Bytes(lr.Range(8, 200))...), 0660) == nil
	}
}

type dmgStat struct {
	errs, oks, faults int64
	firstErr          int64 // recorder time at which the first failing operation on a damaged mailbox returned
}

func (d *dmgStat) result(err error, t int64) {
	if err != nil && !notExist(err) {
		d.errs++
		if d.firstErr == 0 || t < d.firstErr {
			d.firstErr = t
		}
		return
	}
	d.oks++
}

// touchDamaged performs one operation on a damaged mailbox; whatever it returns is accepted.
// VisitMailboxes also passes healthy mailboxes: their callbacks are list-reads of the history.
func touchDamaged(cl *client, raw storage.Store, d *dmgStat, kind int, mb string, a uint64, now time.Time,
	healthy map[string]string, isDamaged map[string]bool) {
	var err error
	switch kind {
	case 0:
		_, err = raw.GetMessages(mb)
	case 1:
		_, err = raw.GetMessage(mb, fmt.Sprint(1+(a>>16)%5))
	case 2:
		_, err = raw.GetMessage(mb, "latest")
	case 3:
		body := "Subject: s\r\n\r\n" + strings.Repeat("z", int(1+(a>>12)%300))
		_, err = raw.AddMessage(sut.NewDelivery(mb, nil, nil, "s", now, []byte(body)))
	case 4:
		var ms []storage.Message
		if ms, err = raw.GetMessages(mb); err == nil && len(ms) > 0 {
			err = raw.MarkSeen(mb, ms[int((a>>20)%uint64(len(ms)))].ID())
		} else if err == nil {
			err = raw.MarkSeen(mb, "nosuch")
		}
	case 5:
		var ms []storage.Message
		if ms, err = raw.GetMessages(mb); err == nil && len(ms) > 0 {
			err = raw.RemoveMessage(mb, ms[int((a>>20)%uint64(len(ms)))].ID())
		} else if err == nil {
			err = raw.RemoveMessage(mb, "nosuch")
		}
	case 6:
		err = raw.PurgeMessages(mb)
	case 7:
		prev := cl.rec.now()
		err = raw.VisitMailboxes(func(ms []storage.Message) bool {
			t1 := cl.rec.now()
			if len(ms) > 0 && ms[0] != nil {
				name := ms[0].Mailbox()
				switch {
				case healthy[name] != "":
					var ids []string
					for _, m := range ms {
						if m == nil || m.Mailbox() != name {
							cl.rec.fail("VisitMailboxes: callback for %q contains a message of another mailbox", name)
							break
						}
						ids = append(ids, m.ID())
					}
					cl.record(opIn{Kind: "list", Mailbox: name}, prev, opOut{IDs: ids}, t1)
				case !isDamaged[name]:
					cl.rec.fail("VisitMailboxes: callback for a mailbox %q nobody delivered to", name)
				}
			}
			prev = cl.rec.now()
			return true
		})
		if err != nil {
			for name, p := range healthy {
				if strings.Contains(err.Error(), p) {
					cl.rec.fail("VisitMailboxes failed on the healthy mailbox %q: %v", name, err)
				}
			}
		}
	}
	d.result(err, cl.rec.now())
}

func damaged(c *fw.Ctx, idx int, r *fw.Rand) {
	cf := cfg{"file-plain", "file", 0, 0}
	if idx%4 == 3 {
		cf = cfg{"file-cap12", "file", 12, 0}
	}
	procs := []int{4, 8, 16}[(idx/4)%3]
	old := runtime.GOMAXPROCS(procs)
	defer runtime.GOMAXPROCS(old)
	verifhook.Set(func(site string, args ...string) { countHook(site) })
	defer verifhook.Set(nil)
	defer flushHookCounts(c)

	root := c.TempDir("c09dmg")
	defer os.RemoveAll(root)
	host := extension.NewHost()
	raw, err := sut.NewStore("file", config.Storage{Type: "file", Params: map[string]string{"path": root}, MailboxMsgCap: cf.cap}, host)
	if err != nil {
		panic(err)
	}
	rec := newRecorder()
	st := ownStore{raw, rec}

	// Mailboxes.
	dnames := []string{bucketPair[0], "broken"}
	if r.Bool() {
		dnames[0], dnames[1] = dnames[1], dnames[0]
	}
	dnames = dnames[:r.Range(1, 2)]
	pool := []string{"solo", "alpha", "bravo", "charlie", "delta", "echo"}
	var hnames []string
	for _, p := range r.Perm(len(pool))[:r.Range(3, 5)] {
		hnames = append(hnames, pool[p])
	}
	isDamaged := map[string]bool{}
	for _, d := range dnames {
		isDamaged[d] = true
		if d == bucketPair[0] && r.Bool() {
			hnames = append(hnames, bucketPair[1]) // shares lock and level-1 directory with a damaged mailbox
		}
	}
	healthy := map[string]string{} // name -> index path
	for _, h := range hnames {
		healthy[h] = indexPathOf(root, h)
	}
	// At least one healthy mailbox is static (reads only while the clients overlap).
	live := map[string]bool{}
	for _, h := range hnames[1:] {
		if r.Chance(2, 5) {
			live[h] = true
		}
	}
	now := time.Now()
	pre := &client{id: 0, st: st, rec: rec}
	preIDs := map[string][]string{}
	for _, h := range hnames {
		n := r.Range(6, 36)
		for i := 0; i < n; i++ {
			if id := pre.Add(h, r.Range(1, 200), now); id != "" {
				preIDs[h] = append(preIDs[h], id)
			}
		}
		if cf.cap > 0 && len(preIDs[h]) > cf.cap {
			preIDs[h] = preIDs[h][len(preIDs[h])-cf.cap:]
		}
	}
	for _, d := range dnames {
		for i := 0; i < r.Range(1, 4); i++ {
			body := "Subject: s\r\n\r\n" + strings.Repeat("d", r.Range(1, 200))
			if _, err := raw.AddMessage(sut.NewDelivery(d, nil, nil, "s", now, []byte(body))); err != nil {
				rec.fail("AddMessage(%q) before any damage: %v", d, err)
			}
		}
	}

	// The fault: before the clients start, while they run, or both.
	mode := []string{"before", "during", "both"}[r.Weighted([]int{5, 3, 2})]
	form := damageForms[r.Intn(len(damageForms))]
	var main dmgStat
	if mode != "during" {
		for i, d := range dnames {
			if mode == "both" && i > 0 {
				break // the second one is damaged by a poller
			}
			if damageIndex(indexPathOf(root, d), form, r.Uint64()) {
				main.faults++
			}
			// "After ONE read of the damaged mailbox": mostly exactly one operation here, sometimes
			// none (then the first one to meet the damage is a concurrent client).
			if r.Chance(3, 4) {
				touchDamaged(pre, raw, &main, r.Weighted([]int{6, 2, 2, 2, 1, 1, 1, 2}), d, r.Uint64(), now, healthy, isDamaged)
			}
		}
	}

	// Plans.
	nclients := r.Range(6, 12)
	npoll := r.Range(1, 3)
	type step struct {
		kind int // healthy clients: 0 list 1 get 2 latest 3 add 4 seen 5 remove 6 purge 7 touch a damaged mailbox
		mb   string
		a    uint64
	}
	liveBudget := map[string]int{}
	for h := range live {
		liveBudget[h] = 40
	}
	var statics []string
	for _, h := range hnames {
		if !live[h] {
			statics = append(statics, h)
		}
	}
	plans := make([][]step, nclients)
	for ci := range plans {
		nops := r.Range(15, 40)
		for k := 0; k < nops; k++ {
			s := step{kind: r.Weighted([]int{34, 24, 10, 10, 6, 6, 1, 9}), mb: hnames[r.Intn(len(hnames))], a: r.Uint64()}
			if s.kind == 7 {
				s.mb = dnames[r.Intn(len(dnames))]
			} else if live[s.mb] && liveBudget[s.mb] > 0 {
				liveBudget[s.mb]--
			} else {
				// A static mailbox, or a live one whose share is used up: a read of a static one.
				s.mb = statics[r.Intn(len(statics))]
				if s.kind > 2 {
					s.kind = int(s.a>>4) % 3
				}
			}
			plans[ci] = append(plans[ci], s)
		}
	}
	type pstep struct {
		kind int // 0-7 as touchDamaged, 8 fresh damage
		mb   string
		form string
		a    uint64
	}
	pplans := make([][]pstep, npoll)
	for pi := range pplans {
		nops := r.Range(10, 40)
		for k := 0; k < nops; k++ {
			pplans[pi] = append(pplans[pi], pstep{kind: r.Weighted([]int{30, 12, 8, 10, 5, 5, 5, 12, 8}),
				mb: dnames[r.Intn(len(dnames))], form: damageForms[r.Intn(len(damageForms))], a: r.Uint64()})
		}
	}
	if mode != "before" {
		// The first fault of the not yet damaged mailbox(es) happens somewhere inside poller 0's plan.
		for i, d := range dnames {
			if mode == "both" && i == 0 {
				continue
			}
			at := r.Intn(len(pplans[0]))
			pplans[0][at] = pstep{kind: 8, mb: d, form: form, a: r.Uint64()}
		}
	}

	clients := make([]*client, nclients+npoll)
	stats := make([]dmgStat, nclients+npoll)
	var wg sync.WaitGroup
	start := make(chan struct{})
	ok, dump := c.Within(60*time.Second, func() {
		for ci := 0; ci < nclients; ci++ {
			wg.Add(1)
			go func(ci int) {
				defer wg.Done()
				cl := &client{id: 1 + ci, st: st, rec: rec}
				ds := &stats[ci]
				defer func() { clients[ci] = cl }()
				var own []struct{ mb, id string }
				<-start
				for _, s := range plans[ci] {
					pick := func() string {
						ids := preIDs[s.mb]
						switch {
						case (s.a>>8)%9 == 0 || (len(ids) == 0 && len(own) == 0):
							return fmt.Sprint(1 + (s.a>>16)%5) // does not exist
						case len(own) > 0 && (s.a>>9)%3 == 0:
							e := own[int((s.a>>20)%uint64(len(own)))]
							if e.mb == s.mb {
								return e.id
							}
						}
						if len(ids) == 0 {
							return "nosuch"
						}
						return ids[int((s.a>>20)%uint64(len(ids)))]
					}
					switch s.kind {
					case 0:
						cl.List(s.mb)
					case 1:
						cl.Get(s.mb, pick())
					case 2:
						cl.Get(s.mb, "latest")
					case 3:
						if id := cl.Add(s.mb, int(1+(s.a>>12)%300), now); id != "" {
							own = append(own, struct{ mb, id string }{s.mb, id})
						}
					case 4:
						cl.MarkSeen(s.mb, pick())
					case 5:
						_ = cl.Remove(s.mb, pick())
					case 6:
						cl.Purge(s.mb)
					case 7:
						touchDamaged(cl, raw, ds, int(s.a>>4)%7, s.mb, s.a, now, healthy, isDamaged)
					}
				}
			}(ci)
		}
		for pi := 0; pi < npoll; pi++ {
			wg.Add(1)
			go func(pi int) {
				defer wg.Done()
				cl := &client{id: 1 + nclients + pi, st: st, rec: rec}
				ds := &stats[nclients+pi]
				defer func() { clients[nclients+pi] = cl }()
				<-start
				for _, s := range pplans[pi] {
					if s.kind == 8 {
						if damageIndex(indexPathOf(root, s.mb), s.form, s.a) {
							ds.faults++
						}
						continue
					}
					touchDamaged(cl, raw, ds, s.kind, s.mb, s.a, now, healthy, isDamaged)
				}
			}(pi)
		}
		close(start)
		wg.Wait()
	})
	if !ok {
		c.Hang("store-ops", fmt.Sprintf("concurrent store operations next to a damaged mailbox did not complete (config %s)", cf.name), dump)
		return
	}
	// Evidence: how much of the healthy traffic really overlapped, and how much came after the fault.
	tot := main
	for i := range stats {
		tot.errs += stats[i].errs
		tot.oks += stats[i].oks
		tot.faults += stats[i].faults
		if f := stats[i].firstErr; f != 0 && (tot.firstErr == 0 || f < tot.firstErr) {
			tot.firstErr = f
		}
	}
	type iv struct {
		call, ret int64
		client    int
	}
	var reads []iv
	var healthyOps, afterFault int64
	for ci, cl := range clients {
		if cl == nil {
			continue
		}
		for _, o := range cl.ops {
			in := o.Input.(opIn)
			healthyOps++
			if tot.firstErr != 0 && o.Call > tot.firstErr {
				afterFault++
			}
			// (the pollers' visit callbacks are list-reads with long, padded intervals: not counted
			// as evidence of overlap)
			if ci < nclients && (in.Kind == "list" || in.Kind == "get" || in.Kind == "latest") {
				reads = append(reads, iv{o.Call, o.Return, o.ClientId})
			}
		}
		rec.merge(cl)
	}
	rec.merge(pre)
	sort.Slice(reads, func(i, j int) bool { return reads[i].call < reads[j].call })
	var overlapping int64
	maxDepth := 0
	for i := range reads {
		depth := 1
		hit := false
		for j := i + 1; j < len(reads) && reads[j].call <= reads[i].ret; j++ {
			if reads[j].client != reads[i].client {
				hit = true
				depth++
			}
		}
		if hit {
			overlapping++
		}
		if depth > maxDepth {
			maxDepth = depth
		}
	}
	c.Count("damaged_cases", 1)
	c.Count("damaged_mode:"+mode, 1)
	c.Count("damaged_form:"+form, 1)
	c.Count("damaged_faults", tot.faults)
	c.Count("damaged_box_errors", tot.errs)
	c.Count("damaged_box_ok", tot.oks)
	c.Count("damaged_healthy_ops", healthyOps)
	c.Count("damaged_healthy_ops_after_fault", afterFault)
	c.Count("damaged_overlapping_reads", overlapping)
	c.Max("max_damaged_read_depth", int64(maxDepth))

	// Final quiescent observation of the healthy mailboxes.
	fin := &client{id: 1 + nclients + npoll, st: st, rec: rec}
	for _, h := range hnames {
		for _, id := range fin.List(h) {
			fin.Get(h, id)
		}
	}
	rec.merge(fin)
	if tot.errs > 0 && overlapping > 0 {
		c.NonTrivial(fmt.Sprintf("damaged|%s|%s|%s|procs=%d|damaged=%d|live=%d", cf.name, mode, form, procs, len(dnames), len(live)))
	}
	judge(c, cf, rec, fmt.Sprintf("damaged cfg=%s procs=%d mode=%s form=%s damaged=%v healthy=%v live=%d clients=%d pollers=%d",
		cf.name, procs, mode, form, dnames, hnames, len(live), nclients, npoll), 0)
}
