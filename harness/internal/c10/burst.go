package c10

// Stream "burst" (added after seeded change C10-11).
//
// Every other stream of this check reads a reopened store SEQUENTIALLY: one goroutine lists
// mailbox after mailbox.  A real server that comes up on a full store is not read like that: the
// web UI and REST clients list a mailbox, POP3 sessions log in and STAT, monitors fetch "latest"
// and the retention scanner walks VisitMailboxes - all at once, and before any mail has arrived.
// The statement ("after the server is stopped and started again ... every mailbox lists the same
// messages ... and all operations continue to work on the reopened store") does not care how many
// clients look first, so whatever a store loads lazily at its first access must be loaded
// correctly when the first accesses are CONCURRENT READS.  (The seeded change kept one shared
// mailbox object per hash and loaded its index under the read lock only: two first readers built
// the message list together - listings of 85 or 1588 messages instead of 400, index-out-of-range
// panics - and the next index write made the garbage durable.)
//
// A case: a file store is filled directly (2-4 mailboxes, one or two of them with 100-400
// messages so that reading an index takes a while; some messages marked seen, some removed) and
// then goes through many rounds of
//
//	reopen (new store object on the path; in a quarter of the cases a FRESH PROCESS, epoch.go)
//	-> the first thing that happens on the new object: 4-16 readers, released together, each doing
//	   1-3 reads (GetMessages, GetMessage by id, "latest", a missing id, VisitMailboxes), most of
//	   them starting on the same "hot" mailbox; EVERY reader must see exactly the model (ids in
//	   order, metadata, sizes, seen flags; content for some)
//	-> the same object read once more sequentially (a garbled list that the readers themselves
//	   happened not to see is still garbled now)
//	-> 1-3 writes (mark-seen / remove / delivery incl. cap eviction / purge of a small mailbox),
//	   each judged and followed by a full comparison as in C07
//	-> reopen, everything read back sequentially: what the writes persisted is the model.
//
// GOMAXPROCS is at least 4.  The check runs on the plain binary: verdicts come from what the
// readers were given, never from race reports.  How many first reads really overlapped is
// scheduling and only counted.

import (
	"fmt"
	"net/mail"
	"os"
	"path/filepath"
	"runtime"
	"sort"
	"strings"
	"sync"
	"sync/atomic"

	"github.com/inbucket/inbucket/v3/pkg/extension"
	"github.com/inbucket/inbucket/v3/pkg/storage"

	"verifharness/internal/c07"
	"verifharness/internal/fw"
	"verifharness/internal/model"
	"verifharness/internal/sut"
)

const burstNeverID = "20010101T000000-0000"

// readStep is one read of a concurrent reader; messages are selected by position, resolved
// against the model when the step runs.
type readStep struct {
	Kind    string // list | get | get-missing | latest | visit
	Box     string
	Sel     int
	Content bool // list / visit: also read and compare every message body
}

func (s readStep) String() string {
	t := s.Kind
	if s.Kind != "visit" {
		t += "(" + fw.Q(fw.Trunc(s.Box, 24)) + ")"
	}
	if s.Content {
		t += "+content"
	}
	return t
}

// burstPlan is what the readers of one round do.
type burstPlan struct {
	Round   int
	Hot     string
	Readers [][]readStep
}

func genBurst(r *fw.Rand, round int, boxes, big []string) *burstPlan {
	p := &burstPlan{Round: round}
	if r.Chance(5, 6) {
		p.Hot = big[r.Intn(len(big))]
	} else {
		p.Hot = boxes[r.Intn(len(boxes))]
	}
	n := r.Range(4, 16)
	// a tenth of the rounds are the retention scanner's and the monitor's view only
	visitOnly := r.Chance(1, 10)
	sameKind := ""
	if r.Chance(1, 4) {
		sameKind = r.Pick([]string{"list", "list", "get", "latest"})
	}
	kind := func() string {
		switch w := r.Intn(12); {
		case w == 0:
			return "visit"
		case w <= 6:
			return "list"
		case w <= 8:
			return "get"
		case w == 9:
			return "get-missing"
		}
		return "latest"
	}
	for i := 0; i < n; i++ {
		first := readStep{Kind: kind(), Box: p.Hot, Sel: r.Intn(1 << 20), Content: r.Chance(1, 8)}
		if sameKind != "" {
			first.Kind = sameKind
		}
		if visitOnly {
			first.Kind = "visit"
		} else if r.Chance(1, 6) {
			first.Box = boxes[r.Intn(len(boxes))]
		}
		steps := []readStep{first}
		for k := r.Intn(3); k > 0; k-- {
			steps = append(steps, readStep{Kind: kind(), Box: boxes[r.Intn(len(boxes))], Sel: r.Intn(1 << 20), Content: r.Chance(1, 8)})
		}
		p.Readers = append(p.Readers, steps)
	}
	return p
}

// run executes one read on the reader's private executor (which shares the - now read-only -
// model with the case's executor) and judges it with the shared comparators.
func (s readStep) run(er *c07.Exec) {
	switch s.Kind {
	case "list":
		er.Boxes = []string{s.Box}
		touched := "\x00none"
		if s.Content {
			touched = s.Box
		}
		er.Step++
		er.VerifyAll("concurrent-list", touched, false)
	case "get":
		er.Boxes = nil
		er.Apply(&c07.Op{Kind: c07.OpGet, Box: s.Box, Which: c07.SelLive, Sel: s.Sel, Never: burstNeverID})
	case "get-missing":
		er.Boxes = nil
		er.Apply(&c07.Op{Kind: c07.OpGet, Box: s.Box, Which: c07.SelNever, Never: burstNeverID})
	case "latest":
		er.Boxes = nil
		er.Apply(&c07.Op{Kind: c07.OpLatest, Box: s.Box})
	case "visit":
		er.Step++
		er.Visit(0, s.Content)
	}
}

// burstRound releases the readers of p together on e.Store, which nothing has touched yet, and
// afterwards reads everything once more sequentially.  Refutations end up in e.Fails.
func burstRound(e *c07.Exec, p *burstPlan) {
	if runtime.GOMAXPROCS(0) < 4 {
		runtime.GOMAXPROCS(4)
	}
	n := len(p.Readers)
	readers := make([]*c07.Exec, n)
	var ready, done sync.WaitGroup
	start := make(chan struct{})
	var inflight, maxIn int32
	for i := 0; i < n; i++ {
		er := c07.NewExec(e.Prop, e.Backend, e.Config, e.Store, e.M.Cap, 0, nil)
		er.M = e.M
		er.Removed = e.Removed
		er.Step = e.Step
		readers[i] = er
		ready.Add(1)
		done.Add(1)
		go func(er *c07.Exec, steps []readStep) {
			defer done.Done()
			ready.Done()
			<-start
			for k, s := range steps {
				if k == 0 {
					cur := atomic.AddInt32(&inflight, 1)
					for {
						m := atomic.LoadInt32(&maxIn)
						if cur <= m || atomic.CompareAndSwapInt32(&maxIn, m, cur) {
							break
						}
					}
				}
				s.run(er)
				if k == 0 {
					atomic.AddInt32(&inflight, -1)
				}
				if er.Dead() {
					return
				}
			}
		}(er, p.Readers[i])
	}
	ready.Wait()
	close(start)
	done.Wait()

	hotLen := len(e.M.List(p.Hot))
	e.Counts["rounds"]++
	e.Counts["readers"] += int64(n)
	if int64(n) > e.Counts["max_burst_readers"] {
		e.Counts["max_burst_readers"] = int64(n)
	}
	if int64(maxIn) > e.Counts["max_burst_first_reads_in_flight"] {
		e.Counts["max_burst_first_reads_in_flight"] = int64(maxIn)
	}
	if maxIn >= 2 {
		e.Counts["rounds_with_overlapping_first_reads"]++
	}
	onHot := 0
	for _, steps := range p.Readers {
		if steps[0].Kind == "visit" || steps[0].Box == p.Hot {
			onHot++
		}
		for _, s := range steps {
			e.Counts["read:"+s.Kind]++
		}
	}
	e.Counts["first_reads_reaching_hot_mailbox"] += int64(onHot)
	e.Counts["hot_mailbox_messages"] += int64(hotLen)
	if hotLen >= 100 && onHot >= 2 {
		e.Counts["rounds_2plus_first_reads_on_mailbox_of_100plus"]++
	}
	var plan []string
	for i, steps := range p.Readers {
		var ss []string
		for _, s := range steps {
			ss = append(ss, s.String())
		}
		plan = append(plan, fmt.Sprintf("reader %d: %s", i, strings.Join(ss, ", ")))
	}
	for i, er := range readers {
		for _, k := range []string{"listings_compared", "messages_compared", "visited_mailboxes_compared", "missing_lookups"} {
			e.Counts["reader_"+k] += er.Counts[k]
		}
		for _, f := range er.Fails {
			f.What = fmt.Sprintf("round %d: %d readers released together as the first accesses to the reopened store (hot mailbox %s, %d messages), reader %d [%s]: %s",
				p.Round, n, fw.Q(fw.Trunc(p.Hot, 40)), hotLen, i, strings.Join(plan[i:i+1], ""), f.What)
			if f.Detail == nil {
				f.Detail = map[string]any{}
			}
			f.Detail["round"] = p.Round
			f.Detail["readers"] = plan
			f.Detail["history_before"] = tail(e.Trace, 30)
			e.Fails = append(e.Fails, f)
		}
	}
	if e.Dead() {
		return
	}
	// the same store object once more, one reader
	e.Step++
	e.Trace = append(e.Trace, fmt.Sprintf("-- round %d: %d concurrent first readers done, sequential read --", p.Round, n))
	if e.VerifyAll("after-concurrent-first-reads", "", false) {
		e.Visit(0, false)
	}
}

func tail(t []string, n int) []string {
	if len(t) > n {
		t = t[len(t)-n:]
	}
	return append([]string{}, t...)
}

// genWrites: what happens to the store after the readers: 1-3 mutations, the first one in the
// hot mailbox.
func genWrites(r *fw.Rand, boxes []string, isBig map[string]bool, hot, nonce string) []*c07.Op {
	var ops []*c07.Op
	n := r.Range(1, 3)
	for i := 0; i < n; i++ {
		box := hot
		if i > 0 || r.Chance(1, 5) {
			box = boxes[r.Intn(len(boxes))]
		}
		op := &c07.Op{Box: box, Which: c07.SelLive, Sel: r.Intn(1 << 20), Never: burstNeverID}
		switch w := r.Intn(10); {
		case w <= 2:
			op.Kind = c07.OpSeen
		case w <= 5:
			op.Kind = c07.OpRemove
		case w == 6 && !isBig[box]:
			op.Kind = c07.OpPurge
		default:
			op.Kind = c07.OpAdd
			op.Msg = c07.GenMsg(r, fmt.Sprintf("%s-w%d", nonce, i), r.Range(40, 600), false)
		}
		ops = append(ops, op)
	}
	return ops
}

// fillDirect delivers straight through the Store interface (the executor's Apply compares the
// whole state after every operation, which is quadratic in the mailbox size) and keeps the model.
func fillDirect(e *c07.Exec, r *fw.Rand, sizes map[string]int, nonce string) {
	var order []string
	for _, b := range e.Boxes {
		for k := 0; k < sizes[b]; k++ {
			order = append(order, b)
		}
	}
	for i, j := range r.Perm(len(order)) {
		if i < j {
			order[i], order[j] = order[j], order[i]
		}
	}
	bad := func(class, what string) {
		e.Fails = append(e.Fails, c07.Fail{Key: e.Prop + ":" + e.Backend + ":fill:" + class, What: "[" + e.Config + "] while filling the store: " + what,
			Detail: map[string]any{"config": e.Config}})
	}
	for k, box := range order {
		size := r.Range(40, 300)
		if r.Chance(1, 60) {
			size = r.Range(5000, 30000)
		}
		sp := c07.GenMsg(r, fmt.Sprintf("%s-%d", nonce, k), size, false)
		from := sp.From
		to := make([]*mail.Address, len(sp.To))
		for i := range sp.To {
			a := sp.To[i]
			to[i] = &a
		}
		id, err := e.Store.AddMessage(sut.NewDelivery(box, &from, to, sp.Subject, sp.Date, sp.Body))
		if err != nil {
			bad("add-error", fmt.Sprintf("AddMessage(%s, %d bytes): %v", fw.Q(box), len(sp.Body), err))
			return
		}
		if !e.M.FreshID(box, id) {
			bad("id-reused", fmt.Sprintf("AddMessage(%s) returned id %s a second time", fw.Q(box), fw.Q(id)))
			return
		}
		ev, _ := e.M.Add(&model.Msg{ID: id, Mailbox: box, From: sut.AddrString(&from), To: sut.AddrStrings(to), Subject: sp.Subject,
			Date: sp.Date, Size: int64(len(sp.Body)), Source: string(sp.Body)})
		for _, x := range ev {
			e.Removed[x.Msg.Mailbox] = append(e.Removed[x.Msg.Mailbox], x.Msg.ID)
		}
		e.Counts["fill_adds"]++
		l := e.M.List(box)
		switch w := r.Intn(16); {
		case w <= 2: // some messages have been looked at
			m := l[r.Intn(len(l))]
			if err := e.Store.MarkSeen(box, m.ID); err != nil {
				bad("seen-error", fmt.Sprintf("MarkSeen(%s,%s): %v", fw.Q(box), m.ID, err))
				return
			}
			e.M.MarkSeen(box, m.ID)
			e.Counts["fill_marked_seen"]++
		case w == 3 && len(l) > 1: // some deleted
			m := l[r.Intn(len(l))]
			if err := e.Store.RemoveMessage(box, m.ID); err != nil {
				bad("remove-error", fmt.Sprintf("RemoveMessage(%s,%s): %v", fw.Q(box), m.ID, err))
				return
			}
			e.M.Remove(box, m.ID)
			e.Removed[box] = append(e.Removed[box], m.ID)
			e.Counts["fill_removed"]++
		}
	}
	e.Step++
	e.Trace = append(e.Trace, fmt.Sprintf("-- filled: %d deliveries, %d marked seen, %d removed --", e.Counts["fill_adds"], e.Counts["fill_marked_seen"], e.Counts["fill_removed"]))
	if e.VerifyAll("after-fill", "", true) {
		e.Visit(0, false)
	}
}

func runBurst(c *fw.Ctx, idx int, r *fw.Rand) {
	restartMode := idx%4 == 3
	names := c07.PickNames(r, r.Range(2, 4))
	boxes := c07.BoxTexts(names)
	sizes := map[string]int{}
	isBig := map[string]bool{}
	var big []string
	maxBig := 0
	for i, b := range boxes {
		switch {
		case i == 0:
			sizes[b] = r.Range(150, 400)
		case i == 1 && r.Bool():
			sizes[b] = r.Range(120, 220)
		default:
			sizes[b] = r.Range(1, 12)
		}
		if sizes[b] >= 100 {
			isBig[b] = true
			big = append(big, b)
			if sizes[b] > maxBig {
				maxBig = sizes[b]
			}
		}
	}
	// a third of the stores run with a cap that the biggest mailbox has reached (about: the fill
	// removes a few), so that deliveries after the readers evict
	cap := 0
	if r.Chance(1, 3) {
		cap = maxBig - maxBig/16
	}
	rounds := r.Range(6, 12)
	if restartMode {
		rounds = r.Range(3, 5)
	}
	dir := c.TempDir("c10burst")
	defer os.RemoveAll(dir)
	store := filepath.Join(dir, "store")
	if err := os.MkdirAll(store, 0o755); err != nil {
		panic(err)
	}
	// added after seeded change C10-13: every third store has a hostile-but-legal directory
	// name / spelling (paths.go)
	store, pathLabel, oddPath := pickStorePath(c, "burst", idx, 3, dir, store)
	sc := storageCfg(store, cap, 0)
	open := func() (storage.Store, error) { return sut.NewStore("file", sc, extension.NewHost()) }
	st, err := open()
	if err != nil {
		panic(err)
	}
	backend := "file-burst"
	mode := "inproc"
	if restartMode {
		backend, mode = "file-burst-restart", "restart"
	}
	desc := fmt.Sprintf("burst/%s/cap=%d/boxes=%d/biggest=%d", mode, cap, len(boxes), maxBig)
	if oddPath {
		backend += "-oddpath"
		desc += fmt.Sprintf("/path(%s)=%q", pathLabel, store)
	}
	e := c07.NewExec("C10", backend, desc, st, cap, 0, boxes)
	e.ContentEvery = 8
	nonce := fmt.Sprintf("c10b-%d", idx)
	fillDirect(e, r, sizes, nonce)

	counts := map[string]int64{}
	writeKinds := map[string]bool{}
	maxReaders := 0
	roundsDone := 0
	merge := func(m map[string]int64) {
		for k, v := range m {
			if strings.HasPrefix(k, "max_") {
				if v > counts[k] {
					counts[k] = v
				}
			} else {
				counts[k] += v
			}
		}
	}
	var fails []c07.Fail
	for round := 1; round <= rounds && !e.Dead() && len(fails) == 0; round++ {
		plan := genBurst(r, round, boxes, big)
		writes := genWrites(r, boxes, isBig, plan.Hot, fmt.Sprintf("%s-r%d", nonce, round))
		if len(plan.Readers) > maxReaders {
			maxReaders = len(plan.Readers)
		}
		for _, w := range writes {
			writeKinds[w.Kind] = true
		}
		if restartMode {
			// the round runs in a fresh process: open, readers, sequential read, writes, exit
			in := &epochIn{Dir: store, Cap: cap, Boxes: boxes, Desc: desc, Backend: backend, State: e.Export(), Ops: writes, Burst: plan}
			out, ok := runEpoch(c, dir, round, in)
			if !ok {
				return
			}
			merge(out.Counts)
			for _, f := range out.Fails {
				fails = append(fails, c07.Fail{Key: f.Key, What: f.What, Detail: map[string]any{"detail": f.Detail, "round": round, "last_operations": tail(out.Trace, 40)}})
			}
			if len(fails) > 0 {
				break
			}
			// and another one reads everything back sequentially
			in = &epochIn{Dir: store, Cap: cap, Boxes: boxes, Desc: desc, Backend: backend, State: out.State}
			out2, ok := runEpoch(c, dir, round, in)
			if !ok {
				return
			}
			merge(out2.Counts)
			for _, f := range out2.Fails {
				fails = append(fails, c07.Fail{Key: f.Key, What: fmt.Sprintf("process after round %d (concurrent first readers, then %d write(s), then exit): %s", round, len(writes), f.What),
					Detail: map[string]any{"detail": f.Detail, "round": round, "last_operations": tail(out.Trace, 40)}})
			}
			counts["reopens_after_write"]++
			merge(e.Counts)
			ne := c07.NewExec("C10", backend, desc, nil, cap, 0, boxes)
			ne.Import(out2.State)
			ne.Trace = out2.Trace
			e = ne
			roundsDone++
			continue
		}
		st, err := open()
		if err != nil {
			e.Fails = append(e.Fails, c07.Fail{Key: "C10:" + backend + ":reopen:error", What: fmt.Sprintf("constructing a store on the existing path failed: %v", err)})
			break
		}
		e.Store = st
		e.NoteReopen("reopen")
		e.Trace = append(e.Trace, fmt.Sprintf("-- round %d: new store object, %d concurrent first readers --", round, len(plan.Readers)))
		burstRound(e, plan)
		for _, w := range writes {
			if e.Dead() {
				break
			}
			e.Apply(w)
			e.Counts["writes_after_first_reads"]++
		}
		if e.Dead() {
			break
		}
		st, err = open()
		if err != nil {
			e.Fails = append(e.Fails, c07.Fail{Key: "C10:" + backend + ":reopen:error", What: fmt.Sprintf("constructing a store on the existing path failed: %v", err)})
			break
		}
		e.Store = st
		e.NoteReopen("reopen")
		e.Step++
		e.Trace = append(e.Trace, "-- new store object, sequential read --")
		e.Counts["reopens_after_write"]++
		if e.VerifyAll("after-reopen", "", round%4 == 0) {
			e.Visit(0, false)
		}
		roundsDone++
	}
	for _, f := range fails {
		c.Violation(f.Key, f.What, f.Detail)
	}
	if restartMode {
		for k, v := range counts {
			if strings.HasPrefix(k, "max_") {
				c.Max(k, v)
			} else {
				c.Count("burst/"+k, v)
			}
		}
		c.Count("burst/restart_mode_rounds", int64(roundsDone))
	}
	c07.Report(c, e, "burst/")
	c.Count("burst/rounds_completed", int64(roundsDone))
	if oddPath {
		c.Count("burst/oddpath_rounds", int64(roundsDone))
		if roundsDone > 0 {
			c.NonTrivial(fmt.Sprintf("burst-oddpath|%s|%s", mode, pathLabel))
		}
	}
	if roundsDone > 0 {
		var wk []string
		for k := range writeKinds {
			wk = append(wk, k)
		}
		sort.Strings(wk)
		c.NonTrivial(fmt.Sprintf("burst|%s|cap=%v|boxes=%d|big=%d|rounds=%d|readers<=%d|writes=%s", mode, cap > 0, len(boxes), len(big), roundsDone/4, maxReaders/4, strings.Join(wk, ",")))
	}
	c.Sample(map[string]any{"mode": desc, "rounds": roundsDone, "sizes": sizes, "counts": e.Counts, "restart_counts": counts})
}
