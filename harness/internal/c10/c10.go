// Package c10 decides C10: the file store is durable - after a restart on the same storage path
// every mailbox shows exactly the mail that was there, and all operations keep working.
//
// Two reopen modes.  "inproc": a new file Store object is constructed on the same path inside
// the running process (after every operation for short histories, at 1-6 seeded points for long
// ones).  "restart": the history is cut into epochs and every epoch is executed by a FRESH
// PROCESS (this binary re-executed with VERIF_C10_EPOCH set, see epoch.go), back to back, so
// that consecutive processes usually share a wall-clock second.  After every reopen/restart the
// complete state read through the new Store must equal the reference model, and all later
// operations - deliveries, cap eviction, retention scans - must keep conforming.  Generator and
// executor are shared with C07 (internal/c07).
package c10

import (
	"fmt"
	"os"
	"sort"
	"strings"
	"time"

	"github.com/inbucket/inbucket/v3/pkg/config"
	"github.com/inbucket/inbucket/v3/pkg/extension"
	"github.com/inbucket/inbucket/v3/pkg/storage"

	"verifharness/internal/c07"
	"verifharness/internal/fw"
	"verifharness/internal/sut"
)

func init() {
	fw.Register(&fw.Prop{
		ID:    "C10",
		Level: "exploration",
		Rule: "C07/C08-style histories (add / get / latest / list / mark-seen / remove / purge / visit / retention scan; cap in " +
			"{0,2,3,10}; 1-5 mailbox names incl. names sharing the hash prefix directories) on the real file store with reopen points. " +
			"Stream inproc: short histories (8-25 ops) reopen after EVERY operation, long ones (60-300 ops) at 1-6 seeded points; " +
			"reopen = new file store object on the same path.  Stream restart: histories of 3-6 epochs, each epoch (3-20 ops, starting " +
			"with deliveries) executed by a fresh OS process, one right after the other.  After every reopen/restart every mailbox " +
			"(order, ids, from/to/subject/date, seen, size, content) and VisitMailboxes are compared with the reference model; every " +
			"later operation is judged as in C07/C08; a retention scan must remove exactly the messages of the old date class.  " +
			"A case is non-trivial when a non-empty state went through a reopen/restart; distinct by (mode, cap, kinds of mutation " +
			"that preceded a reopen, other features reached).  Stream burst (24 / 360 cases): a store filled with 2-4 mailboxes (one or two of " +
			"100-400 messages) goes through 6-12 rounds of: reopen (new store object; every fourth case a fresh process per round), then as the " +
			"FIRST accesses 4-16 concurrent readers released together (GetMessages, GetMessage by id / latest / missing id, VisitMailboxes; most " +
			"start on the same mailbox), each of which must see exactly the model; a sequential read of the same object; 1-3 writes; reopen and " +
			"sequential read.  GOMAXPROCS >= 4; verdicts from results only.  Store path: every 4th inproc, 3rd restart and 3rd burst case " +
			"configures a hostile-but-legal path (directory name with glob classes / wildcards / unclosed brackets / backslashes / braces / " +
			"regexp / shell / space / percent / unicode / control / dot / colon / long / invalid-UTF-8 names, possibly as a non-final component; " +
			"spelled with a trailing slash, doubled slash, ./ or x/../ component, or relative to the working directory); same oracle, " +
			"findings under back-end *-oddpath.",
		Assumptions: []string{
			"a restart is a process that exits normally after its last store call returned and a new process that constructs file.New on the same path (crashes are C11)",
			"message dates are either 1971-2015 or 2100-2200 and the retention period is 1h..1y, so the cut-off computed from the machine clock (assumed to lie in 2021..2098) is never within years of a message date",
			"ids of messages deleted before a restart may be handed out again by the next process (the store cannot know them); within one process ids are never reused; an id of a LIVE message must never be handed out again",
			"whether two epochs share a wall-clock second is read off the ids the store returned and only counted",
			"any directory name the OS accepts is a legal storage path; '$' is left out because the store documents it as a stand-in for ':'; the working directory does not change between processes of one history (relative paths)",
		},
		MinObs: func(tier string) map[string]int64 {
			k := int64(1)
			if tier == "thorough" {
				k = 12
			}
			return map[string]int64{
				"distinct_nontrivial":                                            100 * k,
				"inproc/reopens_nonempty":                                        2000 * k,
				"inproc/messages_across_reopen":                                  10000 * k,
				"inproc/feat:reopen-after-add":                                   500 * k,
				"inproc/feat:reopen-after-mark-seen":                             100 * k,
				"inproc/feat:reopen-after-remove":                                100 * k,
				"inproc/feat:reopen-after-remove-last-message":                   50 * k,
				"inproc/feat:reopen-after-purge":                                 50 * k,
				"inproc/feat:reopen-after-cap-eviction":                          100 * k,
				"inproc/feat:reopen-after-retention-scan":                        30 * k,
				"inproc/scan_expired":                                            200 * k,
				"inproc/scan_retained":                                           200 * k,
				"inproc/evict:cap":                                               500 * k,
				"restart/process_restarts":                                       200 * k,
				"restart/restarts_nonempty":                                      150 * k,
				"restart/messages_across_restart":                                1000 * k,
				"restart/feat:restart-after-add":                                 150 * k,
				"restart/feat:restart-after-mark-seen":                           30 * k,
				"restart/feat:restart-after-remove":                              30 * k,
				"restart/feat:restart-after-purge":                               10 * k,
				"restart/adds_in_same_second_as_live_message_of_earlier_process": 100 * k,
				"restart/op:add":                                                 1000 * k,
				// stream burst: concurrent readers as the first accesses to a reopened store
				"burst/rounds":  100 * k,
				"burst/readers": 500 * k,
				"burst/rounds_2plus_first_reads_on_mailbox_of_100plus": 50 * k,
				"burst/rounds_with_overlapping_first_reads":            30 * k,
				"burst/restart_mode_rounds":                            15 * k,
				"burst/reader_messages_compared":                       20000 * k,
				"burst/writes_after_first_reads":                       100 * k,
				"burst/reopens_after_write":                            100 * k,
				// hostile-but-legal store paths (paths.go, after seeded change C10-13)
				"inproc/path_cases":                       150 * k,
				"inproc/path_glob_or_backslash":           60 * k,
				"inproc/path:glob-class":                  8 * k,
				"inproc/oddpath_reopens_nonempty":         300 * k,
				"inproc/oddpath_messages_across_reopen":   2000 * k,
				"restart/path_cases":                      30 * k,
				"restart/path_glob_or_backslash":          8 * k,
				"restart/oddpath_restarts_nonempty":       60 * k,
				"restart/oddpath_messages_across_restart": 300 * k,
				"burst/oddpath_rounds":                    20 * k,
			}
		},
		ChildTimeout: func(tier string) time.Duration {
			if tier == "thorough" {
				return 150 * time.Minute
			}
			return 25 * time.Minute
		},
		Run: run,
	})
}

var caps = []int{0, 2, 3, 10, 0, 2}
var periods = []time.Duration{time.Hour, 24 * time.Hour, 168 * time.Hour, 8760 * time.Hour}

var inprocWeights = c07.Weights{Add: 40, Get: 8, Latest: 5, List: 4, Seen: 12, Remove: 18, Purge: 5, Visit: 6}
var restartWeights = c07.Weights{Add: 42, Get: 6, Latest: 4, List: 3, Seen: 14, Remove: 20, Purge: 5, Visit: 4}

func clockUsable() bool {
	y := time.Now().Year()
	return y >= 2021 && y <= 2098
}

func run(c *fw.Ctx) {
	if !clockUsable() {
		c.Note("machine clock outside 2021..2098: retention scans are left out of the histories")
	}
	c.Cases("inproc", c.N(800, 12000), func(i int, r *fw.Rand) {
		ok, dump := c.Within(10*time.Minute, func() { runInproc(c, i, r) })
		if !ok {
			c.Hang("store-operation", "an in-process reopen history did not finish within the watchdog", dump)
		}
	})
	c.Cases("restart", c.N(120, 2000), func(i int, r *fw.Rand) {
		runRestart(c, i, r)
	})
	c.Cases("service", c.N(40, 600), func(i int, r *fw.Rand) { runService(c, i, r) })
	c.Cases("burst", c.N(24, 360), func(i int, r *fw.Rand) {
		ok, dump := c.Within(10*time.Minute, func() { runBurst(c, i, r) })
		if !ok {
			c.Hang("store-operation", "a history with concurrent first readers after a reopen did not finish within the watchdog", dump)
		}
	})
}

func storageCfg(dir string, cap int, period time.Duration) config.Storage {
	return config.Storage{Type: "file", Params: map[string]string{"path": dir}, MailboxMsgCap: cap,
		RetentionPeriod: period, RetentionSleep: 0}
}

// insertSpecials puts reopen and scan operations into a generated sequence.
func insertSpecials(r *fw.Rand, ops []*c07.Op, everyOp bool, reopens, scans int) []*c07.Op {
	at := map[int][]string{}
	for i := 0; i < scans; i++ {
		p := r.Range(1, len(ops))
		at[p] = append(at[p], c07.OpScan)
	}
	if !everyOp {
		for i := 0; i < reopens; i++ {
			p := r.Range(1, len(ops))
			at[p] = append(at[p], c07.OpReopen)
		}
	}
	var out []*c07.Op
	for i, op := range ops {
		out = append(out, op)
		for _, k := range at[i+1] {
			out = append(out, &c07.Op{Kind: k})
			if k == c07.OpScan && everyOp {
				out = append(out, &c07.Op{Kind: c07.OpReopen})
			}
		}
		if everyOp {
			out = append(out, &c07.Op{Kind: c07.OpReopen})
		}
	}
	return out
}

func sigFeats(e *c07.Exec) string {
	var fs []string
	for f := range e.Feats {
		if strings.HasPrefix(f, "reopen-") || strings.HasPrefix(f, "restart-") || strings.HasPrefix(f, "scan-") ||
			f == "cap-eviction" || f == "readd-after-purge" || f == "remove-twice" || f == "seen-twice" || f == "remove-middle" {
			fs = append(fs, f)
		}
	}
	sort.Strings(fs)
	return strings.Join(fs, ",")
}

func runInproc(c *fw.Ctx, idx int, r *fw.Rand) {
	short := idx%2 == 0
	cap := caps[r.Intn(len(caps))]
	period := periods[r.Intn(len(periods))]
	names := c07.PickNames(r, r.Range(1, 5))
	boxes := c07.BoxTexts(names)
	var nops, reopens, scans int
	if short {
		nops = r.Range(8, 25)
		scans = r.Intn(2)
	} else {
		nops = r.Range(60, 300)
		reopens = r.Range(1, 6)
		scans = r.Intn(3)
	}
	if !clockUsable() {
		scans = 0
	}
	ops := c07.GenOps(r, names, nops, inprocWeights, fmt.Sprintf("c10i-%d", idx), nil, true)
	ops = insertSpecials(r, ops, short, reopens, scans)

	dir := c.TempDir("c10fs")
	defer os.RemoveAll(dir)
	// added after seeded change C10-13: every fourth history runs on a store directory with a
	// hostile-but-legal name / spelling (paths.go); findings of those get the back-end "file-oddpath"
	storePath, pathLabel, oddPath := pickStorePath(c, "inproc", idx, 4, dir, dir)
	sc := storageCfg(storePath, cap, period)
	// A third of the histories are restarted with a DIFFERENT message cap each time (an
	// administrator lowering or raising INBUCKET_STORAGE_MAILBOXMSGCAP between runs): what is
	// on disk must still be shown in full, and the next delivery to a mailbox brings it within
	// the new cap by evicting its oldest messages.
	changeCap := r.Chance(1, 3)
	capSalt := r.Uint64()
	nOpen := 0
	var e *c07.Exec
	open := func() (storage.Store, error) {
		cfg := sc
		if changeCap && nOpen > 0 {
			cfg.MailboxMsgCap = caps[int((capSalt>>(uint(nOpen%16)*3))%uint64(len(caps)))]
			if e != nil {
				e.M.Cap = cfg.MailboxMsgCap
				if cfg.MailboxMsgCap != cap {
					e.Counts["reopens_with_changed_cap"]++
				}
			}
		}
		nOpen++
		return sut.NewStore("file", cfg, extension.NewHost())
	}
	st, err := open()
	if err != nil {
		panic(err)
	}
	desc := fmt.Sprintf("inproc/cap=%d/period=%v/changecap=%v", cap, period, changeCap)
	backend := "file"
	if oddPath {
		backend = "file-oddpath"
		desc += fmt.Sprintf("/path(%s)=%q", pathLabel, storePath)
	}
	e = c07.NewExec("C10", backend, desc, st, cap, 0, boxes)
	e.Open = open
	e.QuietReopen = true
	e.ScanCfg = sc
	e.ContentEvery = 8
	for _, op := range ops {
		e.Apply(op)
		if e.Dead() {
			break
		}
	}
	if !e.Dead() {
		e.Apply(&c07.Op{Kind: c07.OpReopen})
	}
	c07.Report(c, e, "inproc/")
	if oddPath {
		c.Count("inproc/oddpath_reopens_nonempty", e.Counts["reopens_nonempty"])
		c.Count("inproc/oddpath_messages_across_reopen", e.Counts["messages_across_reopen"])
		if e.Counts["reopens_nonempty"] > 0 {
			c.NonTrivial(fmt.Sprintf("inproc-oddpath|%s|short=%v", pathLabel, short))
		}
	}
	if e.Counts["reopens_nonempty"] > 0 {
		kind := "long"
		if short {
			kind = "short"
		}
		c.NonTrivial(fmt.Sprintf("inproc-%s|cap=%d|boxes=%d|%s", kind, cap, len(boxes), sigFeats(e)))
	}
	c.Sample(map[string]any{"mode": desc, "path": pathLabel, "short": short, "ops": len(ops), "counts": e.Counts})
}
