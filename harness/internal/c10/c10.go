// Package c10 will hold the check for property C10.
package c10
