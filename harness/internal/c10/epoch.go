package c10

// Real restarts: every epoch of a history runs in a fresh OS process.  The check re-executes its
// own binary with VERIF_C10_EPOCH=<file>; the init() below notices the variable before main()
// starts, runs the epoch (open a file store on the given path, compare the complete state with
// the model handed over, apply the operations with the shared executor, write model + findings
// back) and exits.  The id counter of the file store therefore restarts with every epoch, as it
// does when inbucket is restarted.

import (
	"bytes"
	"encoding/gob"
	"encoding/json"
	"fmt"
	"os"
	"os/exec"
	"path/filepath"
	"sort"
	"strings"
	"time"

	"github.com/inbucket/inbucket/v3/pkg/extension"
	"github.com/inbucket/inbucket/v3/pkg/storage"
	"github.com/rs/zerolog"

	"verifharness/internal/c07"
	"verifharness/internal/fw"
	"verifharness/internal/sut"
)

const epochEnv = "VERIF_C10_EPOCH"

type epochIn struct {
	Dir    string
	Cap    int
	Period time.Duration
	Boxes  []string
	Desc   string
	First  bool // no earlier process has used the path
	State  c07.State
	Ops    []*c07.Op
	// stream burst (burst.go): the finding-key back-end name of the stream, and the concurrent
	// readers that are the first accesses this process makes to the store
	Backend string
	Burst   *burstPlan
}

type failOut struct {
	Key, What, Detail string
}

type epochOut struct {
	Done   bool
	State  c07.State
	Fails  []failOut
	Counts map[string]int64
	Feats  map[string]bool
	Trace  []string
}

func init() {
	if p := os.Getenv(epochEnv); p != "" {
		epochMain(p)
		os.Exit(0)
	}
}

func readGob(path string, v any) error {
	f, err := os.Open(path)
	if err != nil {
		return err
	}
	defer f.Close()
	return gob.NewDecoder(f).Decode(v)
}

func writeGob(path string, v any) error {
	var b bytes.Buffer
	if err := gob.NewEncoder(&b).Encode(v); err != nil {
		return err
	}
	if err := os.WriteFile(path+".tmp", b.Bytes(), 0o644); err != nil {
		return err
	}
	return os.Rename(path+".tmp", path)
}

// epochMain is the body of an epoch process.
func epochMain(path string) {
	if os.Getenv("VERIF_SUT_LOG") == "" {
		zerolog.SetGlobalLevel(zerolog.Disabled)
	}
	var in epochIn
	if err := readGob(path, &in); err != nil {
		fmt.Fprintln(os.Stderr, "HARNESS: epoch input:", err)
		os.Exit(3)
	}
	sc := storageCfg(in.Dir, in.Cap, in.Period)
	open := func() (storage.Store, error) { return sut.NewStore("file", sc, extension.NewHost()) }
	st, err := open()
	var e *c07.Exec
	backend := "file-restart"
	if in.Backend != "" {
		backend = in.Backend
	}
	if err != nil {
		e = c07.NewExec("C10", backend, in.Desc, nil, in.Cap, 0, in.Boxes)
		e.Fails = append(e.Fails, c07.Fail{Key: "C10:" + backend + ":open-error", What: fmt.Sprintf("file.New on the existing path failed: %v", err)})
	} else {
		e = c07.NewExec("C10", backend, in.Desc, st, in.Cap, 0, in.Boxes)
		e.Open = open
		e.ScanCfg = sc
		e.QuietReopen = true
		e.Import(in.State)
		if !in.First {
			e.Counts["process_restarts"]++
			if e.M.Count() > 0 {
				e.Counts["restarts_nonempty"]++
			}
			e.Counts["messages_across_restart"] += int64(e.M.Count())
			e.NoteReopen("restart")
			e.Trace = append(e.Trace, "-- new process --")
			if in.Burst != nil {
				// the first accesses of this process are concurrent readers (burst.go)
				e.ContentEvery = 8
				burstRound(e, in.Burst)
				e.Counts["writes_after_first_reads"] += int64(len(in.Ops))
			} else if len(in.Ops) > 0 && (len(in.Ops)+len(in.Boxes))%3 == 0 {
				// a third of the restarted processes go straight on with the history
				e.Counts["restarts_without_immediate_read"]++
			} else if e.VerifyAll("after-restart", "", true) {
				e.Visit(0, true)
			}
		}
		for _, op := range in.Ops {
			if e.Dead() {
				break
			}
			e.Apply(op)
		}
	}
	out := epochOut{Done: true, State: e.Export(), Counts: e.Counts, Feats: e.Feats, Trace: e.Trace}
	for _, f := range e.Fails {
		d, _ := json.Marshal(f.Detail)
		out.Fails = append(out.Fails, failOut{f.Key, f.What, string(d)})
	}
	if err := writeGob(path+".out", &out); err != nil {
		fmt.Fprintln(os.Stderr, "HARNESS: epoch output:", err)
		os.Exit(3)
	}
}

// runEpoch executes one epoch in a fresh process.  ok=false means the case cannot continue.
func runEpoch(c *fw.Ctx, work string, n int, in *epochIn) (out *epochOut, ok bool) {
	inPath := filepath.Join(work, fmt.Sprintf("epoch-%d.gob", n))
	if err := writeGob(inPath, in); err != nil {
		panic(err)
	}
	defer os.Remove(inPath)
	defer os.Remove(inPath + ".out")
	exe := c.SelfExe
	if exe == "" {
		exe = os.Args[0]
	}
	cmd := exec.Command(exe)
	cmd.Env = append(os.Environ(), epochEnv+"="+inPath)
	var buf bytes.Buffer
	cmd.Stdout, cmd.Stderr = &buf, &buf
	if err := cmd.Start(); err != nil {
		panic(fmt.Sprintf("cannot start epoch process %s: %v", exe, err))
	}
	done := make(chan error, 1)
	go func() { done <- cmd.Wait() }()
	var werr error
	select {
	case werr = <-done:
	case <-time.After(2 * time.Minute * time.Duration(c.Slow)):
		_ = cmd.Process.Kill()
		<-done
		c.Hang("restart-epoch", fmt.Sprintf("the process executing epoch %d (%d operations on the file store) did not finish", n, len(in.Ops)), buf.String())
		return nil, false
	}
	var o epochOut
	rerr := readGob(inPath+".out", &o)
	if werr != nil || rerr != nil || !o.Done {
		text := buf.String()
		if strings.Contains(text, "panic:") || strings.Contains(text, "fatal error:") {
			// The store died inside the epoch process.  Die the same way, with its trace, so
			// that the parent attributes the crash to this case.
			fmt.Fprintf(os.Stderr, "epoch process of case %s crashed:\n%s\n", c.CurCase(), text)
			os.Exit(2)
		}
		panic(fmt.Sprintf("epoch process failed without a crash trace: wait=%v read=%v output=%s", werr, rerr, fw.Trunc(text, 2000)))
	}
	return &o, true
}

func runRestart(c *fw.Ctx, idx int, r *fw.Rand) {
	cap := caps[r.Intn(len(caps))]
	period := periods[r.Intn(len(periods))]
	names := c07.PickNames(r, r.Range(1, 3))
	boxes := c07.BoxTexts(names)
	nEpochs := r.Range(3, 6)
	dir := c.TempDir("c10rs")
	defer os.RemoveAll(dir)
	store := filepath.Join(dir, "store")
	if err := os.MkdirAll(store, 0o755); err != nil {
		panic(err)
	}
	desc := fmt.Sprintf("restart/cap=%d/period=%v", cap, period)
	// added after seeded change C10-13: every third history runs on a store directory with a
	// hostile-but-legal name / spelling (paths.go); every process of the history is configured
	// with that same string
	backend := ""
	store, pathLabel, oddPath := pickStorePath(c, "restart", idx, 3, dir, store)
	if oddPath {
		backend = "file-restart-oddpath"
		desc += fmt.Sprintf("/path(%s)=%q", pathLabel, store)
	}
	counts := map[string]int64{}
	feats := map[string]bool{}
	var state c07.State
	var lastTrace []string
	failed := false
	nonempty := int64(0)
	for ep := 0; ep <= nEpochs && !failed; ep++ {
		var ops []*c07.Op
		if ep < nEpochs {
			nonce := fmt.Sprintf("c10r-%d-e%d", idx, ep)
			// Every process starts with deliveries into the first mailbox: its id counter starts
			// at 0 again, and the mailbox usually still holds what the previous process put there.
			ops = c07.GenOps(r, names[:1], r.Range(1, 3), c07.Weights{Add: 1}, nonce+"h", nil, true)
			ops = append(ops, c07.GenOps(r, names, r.Range(2, 17), restartWeights, nonce, nil, true)...)
			scans, reopens := 0, 0
			if clockUsable() && r.Chance(1, 5) {
				scans = 1
			}
			if r.Chance(1, 6) {
				reopens = 1
			}
			ops = insertSpecials(r, ops, false, reopens, scans)
		} // the last process only reads the state back
		in := &epochIn{Dir: store, Cap: cap, Period: period, Boxes: boxes, Desc: desc, First: ep == 0, State: state, Ops: ops, Backend: backend}
		out, ok := runEpoch(c, dir, ep, in)
		if !ok {
			return
		}
		for k, v := range out.Counts {
			counts[k] += v
		}
		for f := range out.Feats {
			feats[f] = true
		}
		for _, f := range out.Fails {
			var detail map[string]any
			_ = json.Unmarshal([]byte(f.Detail), &detail)
			if detail == nil {
				detail = map[string]any{}
			}
			detail["epoch"] = ep
			detail["epochs"] = nEpochs
			c.Violation(f.Key, fmt.Sprintf("epoch %d of %d: %s", ep+1, nEpochs+1, f.What), detail)
			failed = true
		}
		state = out.State
		lastTrace = out.Trace
		nonempty = out.Counts["restarts_nonempty"] + nonempty
	}
	for k, v := range counts {
		c.Count("restart/"+k, v)
	}
	if oddPath {
		c.Count("restart/oddpath_restarts_nonempty", nonempty)
		c.Count("restart/oddpath_messages_across_restart", counts["messages_across_restart"])
		if nonempty > 0 {
			c.NonTrivial(fmt.Sprintf("restart-oddpath|%s", pathLabel))
		}
	}
	if nonempty > 0 {
		var fs []string
		for f := range feats {
			if strings.HasPrefix(f, "reopen-") || strings.HasPrefix(f, "restart-") || strings.HasPrefix(f, "scan-") || f == "cap-eviction" {
				fs = append(fs, f)
			}
		}
		sort.Strings(fs)
		c.NonTrivial(fmt.Sprintf("restart|cap=%d|boxes=%d|epochs=%d|%s", cap, len(boxes), nEpochs, strings.Join(fs, ",")))
	}
	c.Sample(map[string]any{"mode": desc, "path": pathLabel, "epochs": nEpochs, "counts": counts, "last_epoch_trace": lastTrace})
}
