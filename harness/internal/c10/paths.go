package c10

// Hostile-but-legal storage paths (added after seeded change C10-13).
//
// The property is stated for "the same storage path", whatever that path is: the path is an
// operator setting (INBUCKET_STORAGE_PARAMS path:...), and any directory name the operating system
// accepts is a legal value.  Until this round every stream used os.MkdirTemp names only
// ([A-Za-z0-9] and '/'), so nothing ever showed that the store treats its path as an OPAQUE
// string: code that puts the path into a glob pattern, a regular expression, a format string, a
// URL, a shell line, or that compares it textually with a cleaned/absolute form, works on every
// plain path and loses or hides the mail on the others - typically only at start-up, i.e. only
// visible after a restart.  A fraction of the cases of the streams inproc, restart and burst now
// run on a store directory whose name is drawn from the classes below, optionally configured
// with a trailing slash, a doubled slash, a "/./" or "sub/../" component, or relative to the
// working directory.  Nothing in the oracle changes: the state read after every reopen/restart
// must equal the model, exactly as on a plain path.
//
// The name is drawn from a PRNG stream of its own (c.Rand("path-"+stream, idx)), so the
// histories of the existing cases are unchanged and --only replays pick the same path.
//
// Not used: '$' (getMailPath documents that '$' in the setting stands for ':'), NUL and '/'
// inside a name (not accepted by the OS), names over 255 bytes.

import (
	"os"
	"path/filepath"
	"strings"

	"verifharness/internal/fw"
)

type pathClass struct {
	name  string
	names []string
}

var pathClasses = []pathClass{
	// filepath.Match / glob syntax: character classes, wildcards, escapes, malformed patterns
	{"glob-class", []string{"inbucket[test]", "data[0-9]", "[a]", "store[!x]", "m[a-c]il[^z]", "[[]x]"}},
	{"glob-wild", []string{"st*re", "mail?", "*", "??", "a*[b]?c"}},
	{"glob-unclosed", []string{"store[1", "a[", "x[]", "b[a-", "]x["}},
	{"backslash", []string{`in\bucket`, `a\[b\]`, `trail\`, `\\unc\share`, `d\*`}},
	{"brace", []string{"{a,b}", "x{1..3}", "}{"}},
	// regular-expression syntax
	{"regexp", []string{"a.b+(c)|d", "^store$", "x{2}", "(unclosed", "a)b", "w+\\d", ".*"}},
	// shell / quoting
	{"shell", []string{"it's", `say "hi"`, "a;b&c|d", "x>y<z", "`id`", "a!b#c~", "-rf", "~", "a=b,c", "#hash"}},
	{"space", []string{"my store dir", " lead", "trail ", "a  b", " "}},
	// format strings and URL escapes
	{"percent", []string{"100%done", "%s%d%v", "%20", "%", "%!(EXTRA)", "%2Fetc", "a%00b"}},
	{"unicode", []string{"почта", "ストア", "café", "café", "📬mail", "ß-İ-ǅ", "a b", "‮abc"}},
	{"control", []string{"tab\there", "line\nbreak", "cr\rx", "bell\x07", "\x7f"}},
	{"dots", []string{".hidden", "...", "a..b", "x.", "..x", "store.d", "mail", "index.gob", "x.raw"}},
	{"colon", []string{"c:store", "a:b:c", ":"}},
	{"long", []string{strings.Repeat("long-directory-name-", 10) + "[x]", strings.Repeat("é", 100)}},
	{"invalid-utf8", []string{"bad\xffutf8", "\xc3("}},
}

// hostilePath creates a store directory with a hostile name under parent and returns the path to
// CONFIGURE (which may spell that directory with a trailing slash, redundant components or
// relative to the working directory) and labels for the evidence.  ok=false: the file system
// refused the name (counted, the caller uses a plain path).
func hostilePath(r *fw.Rand, parent string) (cfgPath, class, form string, ok bool) {
	pc := pathClasses[r.Intn(len(pathClasses))]
	// half of all hostile cases take the glob / backslash classes: the ones that Go's own
	// path/filepath API interprets
	if r.Chance(1, 2) {
		pc = pathClasses[r.Intn(4)]
	}
	name := pc.names[r.Intn(len(pc.names))]
	dir := filepath.Join(parent, name)
	form = "plain"
	// sometimes the hostile component is not the last one
	nested := r.Chance(1, 4)
	if nested {
		dir = filepath.Join(dir, "store")
	}
	if err := os.MkdirAll(dir, 0o755); err != nil {
		return "", pc.name, "", false
	}
	cfgPath = dir
	switch r.Intn(8) {
	case 0:
		cfgPath, form = dir+"/", "trailing-slash"
	case 1:
		cfgPath, form = filepath.Dir(dir)+"//"+filepath.Base(dir), "double-slash"
	case 2:
		cfgPath, form = filepath.Dir(dir)+"/./"+filepath.Base(dir), "dot-component"
	case 3:
		if err := os.MkdirAll(filepath.Join(filepath.Dir(dir), "sub dir"), 0o755); err == nil {
			cfgPath, form = filepath.Dir(dir)+"/sub dir/../"+filepath.Base(dir), "dotdot-component"
		}
	case 4:
		if wd, err := os.Getwd(); err == nil {
			if rel, err := filepath.Rel(wd, dir); err == nil && !filepath.IsAbs(rel) {
				cfgPath, form = rel, "relative"
			}
		}
	}
	if nested {
		form += "+nested"
	}
	// the configured spelling must name the directory just made (harness self-check)
	a, err1 := os.Stat(cfgPath)
	b, err2 := os.Stat(dir)
	if err1 != nil || err2 != nil || !os.SameFile(a, b) {
		return "", pc.name, "", false
	}
	return cfgPath, pc.name, form, true
}

// pickStorePath decides whether case idx of a stream runs on a hostile path (one case in `every`)
// and returns the path to configure.  plain is the path the stream used before.
func pickStorePath(c *fw.Ctx, stream string, idx, every int, parent, plain string) (cfgPath, label string, hostile bool) {
	if idx%every != every-1 {
		return plain, "plain", false
	}
	r := c.Rand("path-"+stream, idx)
	p, class, form, ok := hostilePath(r, parent)
	if !ok {
		c.Count(stream+"/path_name_refused_by_os:"+class, 1)
		return plain, "plain", false
	}
	c.Count(stream+"/path_cases", 1)
	c.Count(stream+"/path:"+class, 1)
	if strings.HasPrefix(class, "glob-") || class == "backslash" {
		c.Count(stream+"/path_glob_or_backslash", 1)
	}
	c.Count(stream+"/path_form:"+strings.TrimSuffix(form, "+nested"), 1)
	return p, class + "/" + form, true
}
