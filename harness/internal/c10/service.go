package c10

import (
	"bufio"
	"context"
	"fmt"
	"net"
	"os"
	"strings"
	"time"

	"github.com/gorilla/mux"
	"github.com/inbucket/inbucket/v3/pkg/config"
	"github.com/inbucket/inbucket/v3/pkg/extension"
	"github.com/inbucket/inbucket/v3/pkg/server"
	"github.com/inbucket/inbucket/v3/pkg/server/web"
	"github.com/inbucket/inbucket/v3/pkg/storage"
	"github.com/inbucket/inbucket/v3/pkg/storage/file"
	"github.com/inbucket/inbucket/v3/pkg/storage/mem"

	"verifharness/internal/fw"
	"verifharness/internal/sut"
)

// service: the statement speaks of the SERVER being stopped and started again, so this stream
// restarts the whole assembly (server.FullAssembly + Services.Start, shut down the way
// cmd/inbucket/main.go does) on the same storage path: mail is delivered over real SMTP, some of
// it is marked seen / removed through the store, a POP3 session marks a message with DELE and is
// still connected when shutdown is requested (it then just closes: no QUIT, nothing committed).
// After the second lifecycle has started AND been shut down again (so that whatever start-up
// work exists has finished), a plain file store opened on the path must show exactly what the
// model holds.  Retention is disabled (period 0) or far longer than the age of the mail.

func init() {
	storage.Constructors["memory"] = mem.New
	storage.Constructors["file"] = file.New
}

type lineClient struct {
	conn net.Conn
	r    *bufio.Reader
	wd   time.Duration
}

func dialLine(addr string, wd time.Duration) (*lineClient, error) {
	c, err := sut.DialTCP(addr, wd)
	if err != nil {
		return nil, err
	}
	return &lineClient{conn: c, r: bufio.NewReader(c), wd: wd}, nil
}

func (l *lineClient) readLine() (string, error) {
	_ = l.conn.SetReadDeadline(time.Now().Add(l.wd))
	s, err := l.r.ReadString('\n')
	return strings.TrimRight(s, "\r\n"), err
}

// smtpReply reads one (possibly multi-line) reply and returns its code.
func (l *lineClient) smtpReply() (int, error) {
	for {
		s, err := l.readLine()
		if err != nil {
			return 0, err
		}
		if len(s) >= 4 && s[3] == ' ' {
			var code int
			fmt.Sscanf(s[:3], "%d", &code)
			return code, nil
		}
	}
}

func (l *lineClient) send(line string) error {
	_ = l.conn.SetWriteDeadline(time.Now().Add(l.wd))
	_, err := l.conn.Write([]byte(line + "\r\n"))
	return err
}

type lifecycle struct {
	svc     *server.Services
	cancel  context.CancelFunc
	stopped bool
}

func startLifecycle(c *fw.Ctx, conf *config.Root, wd time.Duration) (*lifecycle, error) {
	web.Router = mux.NewRouter()
	svc, err := server.FullAssembly(conf)
	if err != nil {
		return nil, err
	}
	ctx, cancel := context.WithCancel(context.Background())
	ready := make(chan struct{})
	svc.Start(ctx, func() { close(ready) })
	select {
	case <-ready:
	case <-time.After(wd):
		cancel()
		return nil, fmt.Errorf("watchdog: services did not report ready")
	}
	return &lifecycle{svc: svc, cancel: cancel}, nil
}

// stop is main.go's shutdown sequence; false = watchdog.
func (lc *lifecycle) stop(c *fw.Ctx) bool {
	if lc.stopped {
		return true
	}
	lc.stopped = true
	lc.cancel()
	ok, _ := c.Within(30*time.Second, func() {
		lc.svc.SMTPServer.Drain()
		lc.svc.POP3Server.Drain()
		lc.svc.RetentionScanner.Join()
	})
	return ok
}

func runService(c *fw.Ctx, idx int, r *fw.Rand) {
	dir := c.TempDir("c10svc")
	defer os.RemoveAll(dir)
	conf := sut.DefaultConf()
	conf.Lua = config.Lua{Path: ""}
	conf.Web.UIDir = c.TempDir("c10ui")
	defer os.RemoveAll(conf.Web.UIDir)
	conf.Web.GreetingFile = conf.Web.UIDir + "/greeting.html"
	conf.Storage.Type = "file"
	conf.Storage.Params = map[string]string{"path": dir}
	conf.Storage.RetentionPeriod = []time.Duration{0, 0, 24 * time.Hour, 1000 * time.Hour}[idx%4]
	conf.Storage.RetentionSleep = time.Millisecond
	conf.Storage.MailboxMsgCap = []int{0, 50}[(idx/4)%2]
	wd := 20 * time.Second * time.Duration(c.Slow)
	desc := fmt.Sprintf("service/retention=%v/cap=%d", conf.Storage.RetentionPeriod, conf.Storage.MailboxMsgCap)
	inconclusive := func(what string, err error) {
		if err != nil {
			what += ": " + err.Error()
		}
		c.Inconclusive(desc + ": " + what)
	}

	lc, err := startLifecycle(c, conf, wd)
	if err != nil {
		inconclusive("first start", err)
		return
	}
	defer lc.stop(c)
	// Deliveries over SMTP.
	boxes := []string{"alpha", "beta", "gamma"}[:r.Range(1, 3)]
	want := map[string][]string{} // mailbox -> subjects in arrival order
	sm, err := dialLine(lc.svc.SMTPServer.VerifAddr().String(), wd)
	if err != nil {
		inconclusive("SMTP connect", err)
		return
	}
	step := func(l *lineClient, line string, code int) bool {
		if line != "" {
			if err := l.send(line); err != nil {
				inconclusive("SMTP write", err)
				return false
			}
		}
		got, err := l.smtpReply()
		if err != nil || got != code {
			inconclusive(fmt.Sprintf("SMTP %q answered %d, wanted %d", line, got, code), err)
			return false
		}
		return true
	}
	if !step(sm, "", 220) || !step(sm, "EHLO svc.test", 250) {
		return
	}
	n := r.Range(3, 9)
	for i := 0; i < n; i++ {
		mb := boxes[r.Intn(len(boxes))]
		subj := fmt.Sprintf("svc-%d-%d", idx, i)
		if !step(sm, "MAIL FROM:<s@sender.test>", 250) || !step(sm, "RCPT TO:<"+mb+"@inbucket.test>", 250) ||
			!step(sm, "DATA", 354) || !step(sm, "Subject: "+subj+"\r\n\r\nbody "+subj+"\r\n.", 250) {
			return
		}
		want[mb] = append(want[mb], subj)
	}
	_ = sm.send("QUIT")
	_, _ = sm.smtpReply()
	_ = sm.conn.Close()

	// A POP3 session marks the first message of a mailbox and stays connected.
	target := boxes[0]
	var pop *lineClient
	if len(want[target]) > 0 {
		pop, err = dialLine(lc.svc.POP3Server.VerifAddr().String(), wd)
		if err != nil {
			inconclusive("POP3 connect", err)
			return
		}
		for _, l := range []string{"", "USER " + target, "PASS x", "DELE 1"} {
			if l != "" {
				if err := pop.send(l); err != nil {
					inconclusive("POP3 write", err)
					return
				}
			}
			s, err := pop.readLine()
			if err != nil || !strings.HasPrefix(s, "+OK") {
				inconclusive(fmt.Sprintf("POP3 %q answered %q", l, s), err)
				return
			}
		}
		c.Count("service_pop3_sessions_with_mark_open_at_shutdown", 1)
	}
	// Shutdown requested while the POP3 session is open; the client then drops the connection
	// (no QUIT).  Drain can only return after that.
	lc.cancel()
	if pop != nil {
		go func() {
			time.Sleep(50 * time.Millisecond)
			_ = pop.conn.Close()
		}()
	}
	if !lc.stop(c) {
		c.Hang("service-shutdown", desc+": main.go's shutdown sequence did not return although every session has ended", "")
		return
	}

	// Second lifecycle on the same path: started, then shut down again.
	lc2, err := startLifecycle(c, conf, wd)
	if err != nil {
		inconclusive("second start", err)
		return
	}
	if !lc2.stop(c) {
		c.Hang("service-shutdown", desc+": second shutdown did not return", "")
		return
	}
	// What is on disk now, read through a plain store object.
	st, err := sut.NewStore("file", conf.Storage, extension.NewHost())
	if err != nil {
		c.Violation("C10:service:store-unreadable-after-restart", desc+": "+err.Error(), nil)
		return
	}
	for _, mb := range boxes {
		ms, err := st.GetMessages(mb)
		if err != nil {
			c.Violation("C10:service:store-unreadable-after-restart", fmt.Sprintf("%s: GetMessages(%q): %v", desc, mb, err), nil)
			return
		}
		var got []string
		for _, m := range ms {
			got = append(got, m.Subject())
		}
		if strings.Join(got, ",") != strings.Join(want[mb], ",") {
			key := "C10:service:after-restart:wrong-messages"
			if len(got) < len(want[mb]) {
				key = "C10:service:after-restart:message-lost"
			}
			c.Violation(key, fmt.Sprintf("%s: after stopping and starting the server again mailbox %q lists %v, before the stop it held %v (nothing was removed; a POP3 session had DELE-marked message 1 of %q but never sent QUIT)",
				desc, mb, got, want[mb], target), nil)
			return
		}
	}
	c.Count("service_restarts", 1)
	c.Count("service_messages_across_restart", int64(n))
	c.NonTrivial(fmt.Sprintf("service|%v|%d|%d", conf.Storage.RetentionPeriod, conf.Storage.MailboxMsgCap, len(boxes)))
}
