// Package c11 will hold the check for property C11.
package c11
