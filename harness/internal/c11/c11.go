// Package c11 decides C11: a crash at any point of a file-store update leaves every mailbox
// readable.  The file store keeps all its state on disk and every operation builds a fresh mbox
// object that re-reads the index, so the directory tree as it stands at an instant IS the
// post-crash state had the process died at that instant.  Crash states are produced three ways:
//
//	(A) in-process: at every `file.fs` hook the store directory is copied; partial states a real
//	    death can leave between two hooks are synthesised from those copies (prefixes of the file
//	    being written, prefixes of permutations of what os.RemoveAll deletes, partially made or
//	    removed parent directories);
//	(B) real death at a hook: a victim process SIGKILLs itself at the n-th hook, for every n;
//	(C) real death inside library calls: a victim process under strace is SIGKILLed before its
//	    N-th write/openat/unlinkat/renameat/mkdirat, for every N the operation performs.
//
// Every crash state is judged by a fresh Store opened on it (oracle.go).
package c11

import (
	"fmt"
	"os"
	"path/filepath"
	"sort"
	"strings"
	"sync"
	"time"

	"github.com/inbucket/inbucket/v3/pkg/config"
	"github.com/inbucket/inbucket/v3/pkg/extension"
	"github.com/inbucket/inbucket/v3/pkg/storage"
	"github.com/inbucket/inbucket/v3/pkg/verifhook"

	"verifharness/internal/fw"
	"verifharness/internal/sut"
)

var kinds = []string{"add-new", "add-existing", "add-cap-evict", "add-cap1", "add-cap-multi", "mark-seen",
	"remove-middle", "remove-last", "purge-1", "purge-3", "purge-10", "retention"}

var hookSteps = []string{"add.create-raw", "add.raw-closed", "index.create-tmp", "index.before-rename",
	"index.renamed", "remove.raw", "rmdir.index", "rmdir.removeall", "rmdir.parents", "mkdir"}

func init() {
	if os.Getenv(victimEnv) != "" {
		victimMain() // never returns
	}
	fw.Register(&fw.Prop{
		ID:    "C11",
		Level: "fault_enumeration",
		Rule: "cases = 12 operation kinds (add to new / existing mailbox, add with cap eviction of 1, cap=1 eviction emptying the mailbox, " +
			"multi-message cap eviction after a cap reduction, mark-seen, remove middle, remove last, purge of 1/3/10, real retention scan " +
			"removing via RemoveMessage) x 8 (quick) / 40 (thorough) seeded histories: 0-12 random ops on target + bucket-sharing neighbour " +
			"(same 3 or 6 hex digits of the name hash) + third mailbox, then fix-up ops for the kind; bodies <4 KiB, 4-20 KiB, >64 KiB; a " +
			"60-75 message target (index > 4 KiB) in a third of the eligible cases; five reader shapes for the body under test. Histories " +
			"are SAMPLED, so the run as a whole is not exhaustive. Enumerated COMPLETELY per case: (A) every file.fs hook point the " +
			"operation passes (tree copied at the hook); (B) a real self-SIGKILL in a separate process at every n-th hook (quick: first 6 " +
			"histories per kind, thorough: all); (C) a real SIGKILL via strace before every N-th write/openat/unlinkat/renameat/mkdirat (and " +
			"pwrite64/open/creat/unlink/rmdir/rename/renameat2/mkdir/truncate/ftruncate where used) executed between the start and end " +
			"markers, N from a dry run (quick: first 3 histories per kind, thorough: first 24; above 96 calls of one name an even sample of " +
			"96). SAMPLED between hooks: prefixes of the file being written at 0, 1, 4096k-1, 4096k, 4096k+1, len-1 and 7 evenly spaced " +
			"lengths; for os.RemoveAll every distinct removed-set along name order, reverse, index-first, index-last and 4 seeded " +
			"permutations (all prefixes up to 16 entries, 14 prefixes above); partially made / removed parent directories. Oracle per crash " +
			"state: fresh file Store on the tree; VisitMailboxes and GetMessages succeed and agree; bystander mailboxes equal the model " +
			"(ids, order, metadata, seen, content); target listing equals a state reachable by completing a prefix of the operation's " +
			"logical steps (pre, evicted-j / removed-j, post); every listed message's Source() yields exactly Size() bytes equal to what " +
			"was stored; then AddMessage to the target succeeds and is listed and readable with the survivors (cap applied). A case is " +
			"non-trivial when >=3 crash states were judged; distinct by (kind, big index, body class, reader shape, neighbour level, " +
			"neighbour present, set of hook steps reached). Stream `restart` (48 quick / 400 thorough episodes, SAMPLED): crash and restart " +
			"in FRESH processes within one wall-clock second - process 1 delivers 1-3 complete messages to a mailbox and dies by SIGKILL " +
			"in one more delivery (at one of its 5 hook steps, after k body bytes, or not at all); process 2, released at once, opens the " +
			"same store path and delivers 1-2 messages (one shorter than the interrupted one); both start their id counter at 0000. The " +
			"harness then opens the store: the complete messages listed first and in order, the interrupted one complete or absent, then " +
			"process 2's; ids distinct; every content exactly the bytes of its delivery; VisitMailboxes agrees. Whether the two processes " +
			"shared a second is read from the ids and counted, never assumed.",
		Assumptions: []string{
			"process death only (SIGKILL): completed write(2)/rename(2)/unlink(2) calls persist in order; power-loss reordering is out of scope",
			"the on-disk tree at an instant is the post-crash state: the file store caches nothing across operations (each call builds a new mbox and re-reads index.gob)",
			"orphan .raw files, empty directories and a leftover index.gob.tmp are invisible to readers and not judged",
			"an add that triggers cap eviction may be observed after any number of its evictions (each eviction is its own logical step)",
			"restart stream: ids are opaque (only distinctness within the mailbox is demanded); their timestamp prefix is read for evidence only; the wait for the beginning of a wall-clock second is scheduling, no clock value enters a verdict",
			"partial write(2) of a regular file is modelled at page granularity only in the synthesised states; strace kills land on syscall boundaries",
		},
		MinObs: minObs,
		// Generous: the check is bound by file-system metadata operations and process spawns,
		// both of which slow down a lot on a loaded machine.
		ChildTimeout: func(tier string) time.Duration {
			if tier == "thorough" {
				return 120 * time.Minute
			}
			return 25 * time.Minute
		},
		Run: run,
	})
}

// mustReach lists, per kind, the hook steps a healthy run of that kind always passes.
var mustReach = map[string]string{
	"add-new":       "mkdir add.create-raw add.raw-closed index.create-tmp index.before-rename index.renamed",
	"add-existing":  "add.create-raw add.raw-closed index.create-tmp index.before-rename index.renamed",
	"add-cap-evict": "remove.raw add.create-raw add.raw-closed index.create-tmp index.before-rename index.renamed",
	"add-cap1":      "rmdir.index rmdir.removeall rmdir.parents mkdir add.create-raw add.raw-closed index.create-tmp index.before-rename index.renamed",
	"add-cap-multi": "remove.raw add.create-raw add.raw-closed index.create-tmp index.before-rename index.renamed",
	"mark-seen":     "index.create-tmp index.before-rename index.renamed",
	"remove-middle": "index.create-tmp index.before-rename index.renamed remove.raw",
	"remove-last":   "rmdir.index rmdir.removeall rmdir.parents",
	"purge-1":       "rmdir.index rmdir.removeall rmdir.parents",
	"purge-3":       "rmdir.index rmdir.removeall rmdir.parents",
	"purge-10":      "rmdir.index rmdir.removeall rmdir.parents",
	"retention":     "index.create-tmp index.before-rename index.renamed remove.raw rmdir.index rmdir.removeall rmdir.parents",
}

func minObs(tier string) map[string]int64 {
	m := map[string]int64{"crash_states_hook": 300, "crash_states_synth": 500, "crash_states_selfkill": 100,
		"add_body_gt64k": 1, "add_body_4k_64k": 1, "big_index_cases": 3,
		"index_gt_4096_bytes": 3, "neighbour_level2_cases": 3}
	// restart stream: episodes judged, and among them those in which the restarted process really
	// delivered within the wall-clock second of the dead one (read from the ids) - in general, after
	// 2+ complete deliveries, and with an orphan content file longer than the next delivery.
	m["restart_episodes"], m["restart_same_second"] = 30, 10
	m["restart_same_second_2plus_complete"], m["restart_same_second_orphan_longer_than_next"] = 4, 3
	if tier == "thorough" {
		m["restart_episodes"], m["restart_same_second"] = 300, 100
		m["restart_same_second_2plus_complete"], m["restart_same_second_orphan_longer_than_next"] = 40, 30
		m["crash_states_hook"] = 3000
		m["crash_states_synth"] = 5000
		m["crash_states_selfkill"] = 1000
	}
	for _, s := range hookSteps {
		m["step:"+s] = 1
	}
	for _, k := range kinds {
		m["states:"+k] = 20
		for _, s := range strings.Fields(mustReach[k]) {
			m["pair:"+k+"/"+s] = 1
		}
	}
	if straceUsable() {
		m["crash_states_strace"] = 200
		m["strace_kills_in_op"] = 150
		if tier == "thorough" {
			m["crash_states_strace"] = 3000
			m["strace_kills_in_op"] = 2500
			for _, k := range kinds {
				m["strace_states:"+k] = 20
			}
		}
	}
	return m
}

func run(c *fw.Ctx) {
	perKind := c.N(8, 40)
	n := len(kinds) * perKind
	c.Cases("crash", n, func(i int, r *fw.Rand) {
		k := &caseRun{c: c, r: r, idx: i, kind: kinds[i%len(kinds)], variant: i / len(kinds)}
		k.run()
	})
	// Crash and restart in fresh processes within one wall-clock second (restart.go).
	c.Cases("restart", c.N(48, 400), func(i int, r *fw.Rand) {
		e := &restartRun{c: c, r: r, idx: i}
		e.run()
	})
}

// caseRun is one (kind, history) case.
type caseRun struct {
	c       *fw.Ctx
	r       *fw.Rand
	idx     int
	kind    string
	variant int

	scratch string
	fast    string
	dir     string // live store directory
	hist    storage.Store
	model   map[string][]*mmsg
	nHist   int
	histLog []string

	target, neigh, other string
	neighLevel           int
	cap                  int
	bigIndex             bool
	op                   *opSpec
	recovery             *msgSpec
	exp                  *expect

	stepsSeen map[string]bool
	nStates   int
	nHooks    int
	indexMax  int64
}

func (k *caseRun) summary() string {
	return fmt.Sprintf("kind=%s target=%s neigh=%s(l%d,%d msgs) other=%s(%d msgs) cap=%d hist=%d pre=%d", k.kind, k.target,
		k.neigh, k.neighLevel, len(k.model[k.neigh]), k.other, len(k.model[k.other]), k.cap, k.nHist, len(k.model[k.target]))
}

func (k *caseRun) newStore(dir string, cap int) storage.Store {
	st, err := sut.NewStore("file", config.Storage{Type: "file", Params: map[string]string{"path": dir},
		MailboxMsgCap: cap}, extension.NewHost())
	if err != nil {
		panic(fmt.Sprintf("c11: cannot open file store on %s: %v", dir, err))
	}
	return st
}

func (k *caseRun) run() {
	c := k.c
	k.scratch = c.TempDir("c11-")
	defer os.RemoveAll(k.scratch)
	// The live store and the part (A) snapshots go to a memory file system when there is one (the
	// thousands of tree copies are metadata-bound on a disk file system).  The victims of parts
	// (B) and (C) stay on the regular scratch file system, whose readdir order is hash-based.
	k.fast = fastScratch(k.scratch)
	defer os.RemoveAll(k.fast)
	k.dir = filepath.Join(k.fast, "live")
	must(os.MkdirAll(k.dir, 0o770))
	k.model = map[string][]*mmsg{}
	k.stepsSeen = map[string]bool{}
	k.hist = k.newStore(k.dir, 0)

	if err := k.generate(); err != nil {
		c.Count("history_failed", 1)
		c.Inconclusive("preceding history could not be built: " + err.Error())
		return
	}
	k.exp = k.buildExpect()

	// Which real-death parts run for this case.
	doKill := true
	doStrace := straceUsable()
	if c.Quick() {
		// quick: strace on the first three histories of every kind, self-kill on the first six.
		doStrace = doStrace && k.variant < 3
		doKill = k.variant < 6
	} else {
		doStrace = doStrace && k.variant < 24
	}
	pre := ""
	if doKill || doStrace {
		pre = filepath.Join(k.scratch, "pre")
		must(copyTree(k.dir, pre))
	}
	if !straceUsable() {
		c.Count("strace_unavailable", 1)
		c.Note("strace is not usable here (not installed or ptrace denied): part (C) skipped, parts (A) and (B) ran")
	}

	// Part (A).
	opErr := k.partA()
	if opErr != nil {
		c.Count("op_failed_in_process", 1)
		c.Inconclusive(fmt.Sprintf("operation under test failed without any crash (%s): %v", k.summary(), opErr))
		return
	}
	// The completed operation is a crash point too (death right after the call returned).
	k.judgeCopy(k.dir, "completed", "after the operation returned", "final")

	// Parts (B) and (C).
	if doKill {
		k.partB(pre)
	}
	if doStrace {
		k.partC(pre)
	}

	c.Count("cases:"+k.kind, 1)
	if k.bigIndex {
		c.Count("big_index_cases", 1)
	}
	if k.indexMax > 4096 {
		c.Count("index_gt_4096_bytes", 1)
	}
	if k.neighLevel == 2 {
		c.Count("neighbour_level2_cases", 1)
	}
	if len(k.model[k.neigh]) > 0 {
		c.Count("neighbour_present_cases", 1)
	}
	c.Max("max_states_one_case", int64(k.nStates))
	var steps []string
	for s := range k.stepsSeen {
		steps = append(steps, s)
		c.Count("pair:"+k.kind+"/"+s, 1)
	}
	sort.Strings(steps)
	if k.nStates >= 3 {
		bodyClass, reader := "-", -1
		if k.op.Msg != nil {
			bodyClass, reader = sizeClass(k.op.Msg.BodyLen), k.op.Reader
		}
		c.NonTrivial(fmt.Sprintf("%s|big=%v|body=%s|rd=%d|nl=%d|np=%v|%s", k.kind, k.bigIndex, bodyClass, reader,
			k.neighLevel, len(k.model[k.neigh]) > 0, strings.Join(steps, ",")))
	}
	c.Sample(map[string]any{"case": k.summary(), "op": k.op.brief(), "crash_states": k.nStates, "hooks": k.nHooks,
		"steps": steps, "candidates": k.exp.candNames()})
}

// partA runs the operation in-process with the snapshotting hook installed.
func (k *caseRun) partA() error {
	opStore := k.newStore(k.dir, k.cap)
	busy := false
	var prevStep, prevPath string
	verifhook.Set(func(site string, args ...string) {
		if site != "file.fs" || busy || len(args) < 2 {
			return
		}
		busy = true
		defer func() { busy = false }()
		step, path := args[0], args[1]
		k.nHooks++
		k.stepsSeen[step] = true
		k.c.Count("step:"+step, 1)
		if strings.HasSuffix(path, "index.gob") || strings.HasSuffix(path, "index.gob.tmp") {
			if fi, err := os.Stat(path); err == nil && fi.Size() > k.indexMax {
				k.indexMax = fi.Size()
			}
		}
		// The state exactly at the hook.
		k.judgeCopy(k.dir, "hook:"+step, fmt.Sprintf("at hook #%d %s (%s)", k.nHooks, step, k.rel(path)), "hook")
		// States between the previous hook and this one.
		if strings.Contains(prevStep, "create") {
			k.synthPrefixes(prevStep, prevPath)
		}
		switch step {
		case "rmdir.removeall":
			k.synthRemoveAll(path)
		case "rmdir.parents":
			k.synthParents(path)
		case "mkdir":
			k.synthMkdir(path)
		}
		prevStep, prevPath = step, path
	})
	defer verifhook.Set(nil)
	_, err := execOp(opStore, k.op)
	return err
}

func (k *caseRun) rel(path string) string {
	if r, err := filepath.Rel(k.dir, path); err == nil {
		return r
	}
	return path
}

// judgeCopy copies src to a scratch directory, lets mutate (if any) derive the crash state, and
// judges it.
func (k *caseRun) judgeCopy(src, site, what, origin string, mutate ...func(dir string) error) {
	snap := filepath.Join(k.fast, "snap")
	_ = os.RemoveAll(snap)
	must(copyTree(src, snap))
	for _, m := range mutate {
		if err := m(snap); err != nil {
			panic(fmt.Sprintf("c11: cannot synthesise crash state (%s): %v", what, err))
		}
	}
	k.judge(snap, site, what, origin)
	_ = os.RemoveAll(snap)
}

var shmSweep sync.Once

// fastScratch returns a fresh directory on /dev/shm, or under fallback when that is unusable.
// Directories left behind by dead processes of earlier runs are swept once per process.
func fastScratch(fallback string) string {
	const root = "/dev/shm"
	shmSweep.Do(func() {
		old, _ := filepath.Glob(filepath.Join(root, "verif-c11-*"))
		for _, d := range old {
			parts := strings.Split(filepath.Base(d), "-")
			if len(parts) < 3 {
				continue
			}
			if _, err := os.Stat("/proc/" + parts[2]); os.IsNotExist(err) {
				_ = os.RemoveAll(d)
			}
		}
	})
	if d, err := os.MkdirTemp(root, fmt.Sprintf("verif-c11-%d-", os.Getpid())); err == nil {
		return d
	}
	d := filepath.Join(fallback, "fast")
	must(os.MkdirAll(d, 0o770))
	return d
}

func must(err error) {
	if err != nil {
		panic("c11: " + err.Error())
	}
}

func sizeClass(n int) string {
	switch {
	case n > 65536:
		return ">64k"
	case n > 4096:
		return "4k-64k"
	case n == 4096:
		return "=4096"
	}
	return "<4k"
}
