package c11

import (
	"bytes"
	"context"
	"crypto/sha1"
	"encoding/hex"
	"fmt"
	"io"
	"net/mail"
	"strings"
	"sync"
	"time"

	"github.com/inbucket/inbucket/v3/pkg/config"
	"github.com/inbucket/inbucket/v3/pkg/extension/event"
	"github.com/inbucket/inbucket/v3/pkg/message"
	"github.com/inbucket/inbucket/v3/pkg/storage"

	"verifharness/internal/fw"
)

// msgSpec describes a message completely; the content is a pure function of (BodySeed, BodyLen),
// so a victim process can rebuild it from a small job file.
type msgSpec struct {
	Mailbox  string   `json:"mailbox"`
	FromName string   `json:"from_name"`
	From     string   `json:"from"`
	To       []string `json:"to"`
	Subject  string   `json:"subject"`
	DateUnix int64    `json:"date_unix"`
	BodySeed uint64   `json:"body_seed"`
	BodyLen  int      `json:"body_len"`
}

// opSpec is one store operation (used for histories, the operation under test and victim jobs).
type opSpec struct {
	Kind       string   `json:"kind"` // add | seen | remove | purge | retention
	Mailbox    string   `json:"mailbox"`
	ID         string   `json:"id,omitempty"`
	Msg        *msgSpec `json:"msg,omitempty"`
	Reader     int      `json:"reader,omitempty"`
	CutoffUnix int64    `json:"cutoff_unix,omitempty"`
}

func (o *opSpec) brief() string {
	switch o.Kind {
	case "add":
		return fmt.Sprintf("add %d bytes (reader shape %d) to %s", o.Msg.BodyLen, o.Reader, o.Mailbox)
	case "retention":
		return "retention scan, cutoff " + time.Unix(o.CutoffUnix, 0).UTC().Format("2006-01-02")
	}
	return fmt.Sprintf("%s %s %s", o.Kind, o.Mailbox, o.ID)
}

// mmsg is a message of the reference model.
type mmsg struct {
	ID   string
	Spec *msgSpec
	Seen bool
	body []byte
}

func (m *mmsg) content() []byte {
	if m.body == nil {
		m.body = genBody(m.Spec.BodySeed, m.Spec.BodyLen)
	}
	return m.body
}

const bodyAlphabet = "abcdefghijklmnopqrstuvwxyzABCDEFGHIJKLMNOPQRSTUVWXYZ0123456789 .,;:-_=+/"

// genBody returns exactly n bytes of CRLF-broken text determined by seed.
func genBody(seed uint64, n int) []byte {
	b := make([]byte, n)
	s := seed | 1
	col := 0
	for i := 0; i < n; i++ {
		if col >= 76 && i+1 < n {
			b[i], b[i+1] = '\r', '\n'
			i++
			col = 0
			continue
		}
		s = s*6364136223846793005 + 1442695040888963407
		b[i] = bodyAlphabet[(s>>33)%uint64(len(bodyAlphabet))]
		col++
	}
	return b
}

// chunkReader hands out at most n bytes per Read (a network-like source) and hides WriterTo.
type chunkReader struct {
	b []byte
	n int
}

func (c *chunkReader) Read(p []byte) (int, error) {
	if len(c.b) == 0 {
		return 0, io.EOF
	}
	n := c.n
	if n > len(p) {
		n = len(p)
	}
	if n > len(c.b) {
		n = len(c.b)
	}
	copy(p, c.b[:n])
	c.b = c.b[n:]
	return n, nil
}

const nReaderShapes = 5

// makeReader builds the source reader handed to AddMessage.  The shape decides how the store's
// io.Copy splits the body into write(2) calls.
func makeReader(shape int, body []byte) io.Reader {
	switch shape {
	case 1: // as StoreManager.Deliver does: generated header lines followed by the received bytes
		cut := 61
		if cut > len(body) {
			cut = len(body)
		}
		return io.MultiReader(strings.NewReader(string(body[:cut])), bytes.NewReader(body[cut:]))
	case 2: // plain io.Reader: 32 KiB copy buffer
		return struct{ io.Reader }{bytes.NewReader(body)}
	case 3:
		return &chunkReader{b: body, n: 4096}
	case 4:
		return &chunkReader{b: body, n: 1460}
	}
	return bytes.NewReader(body) // one WriteTo
}

func addrOf(name, addr string) *mail.Address { return &mail.Address{Name: name, Address: addr} }

func delivery(s *msgSpec, shape int) *message.Delivery {
	var to []*mail.Address
	for _, t := range s.To {
		to = append(to, addrOf("", t))
	}
	body := genBody(s.BodySeed, s.BodyLen)
	return &message.Delivery{
		Meta: event.MessageMetadata{Mailbox: s.Mailbox, From: addrOf(s.FromName, s.From), To: to,
			Date: time.Unix(s.DateUnix, 0).UTC(), Subject: s.Subject, Size: int64(len(body))},
		Reader: makeReader(shape, body),
	}
}

// execOp performs one operation on a real store.
func execOp(st storage.Store, op *opSpec) (string, error) {
	switch op.Kind {
	case "add":
		return st.AddMessage(delivery(op.Msg, op.Reader))
	case "seen":
		return "", st.MarkSeen(op.Mailbox, op.ID)
	case "remove":
		return "", st.RemoveMessage(op.Mailbox, op.ID)
	case "purge":
		return "", st.PurgeMessages(op.Mailbox)
	case "retention":
		// The real scanner: VisitMailboxes + RemoveMessage for every message older than the cutoff.
		// All generated dates are years away from the cutoff, so time.Now() cannot change the result.
		period := time.Since(time.Unix(op.CutoffUnix, 0))
		rs := storage.NewRetentionScanner(config.Storage{RetentionPeriod: period, RetentionSleep: 0}, st)
		return "", rs.DoScan(context.Background())
	}
	return "", fmt.Errorf("unknown op kind %q", op.Kind)
}

// ---- mailbox names with shared hash buckets ----

type namePool struct {
	all    []string
	byL1   map[string][]string
	pairs2 [][2]string // names sharing the first 6 hex digits
}

var (
	poolOnce sync.Once
	pool     namePool
)

func hashOf(name string) string {
	h := sha1.Sum([]byte(name))
	return hex.EncodeToString(h[:])
}

func names() *namePool {
	poolOnce.Do(func() {
		pool.byL1 = map[string][]string{}
		byL2 := map[string]string{}
		for i := 0; i < 40000; i++ {
			n := fmt.Sprintf("mb%d", i)
			h := hashOf(n)
			pool.all = append(pool.all, n)
			pool.byL1[h[:3]] = append(pool.byL1[h[:3]], n)
			if o, ok := byL2[h[:6]]; ok {
				pool.pairs2 = append(pool.pairs2, [2]string{o, n})
			} else {
				byL2[h[:6]] = n
			}
		}
	})
	return &pool
}

// pickNames chooses the target, a neighbour sharing the level-1 (3 hex) or level-2 (6 hex)
// directory, and a third mailbox elsewhere.
func (k *caseRun) pickNames() {
	p := names()
	r := k.r
	if len(p.pairs2) > 0 && k.variant%2 == 1 {
		pr := p.pairs2[r.Intn(len(p.pairs2))]
		if r.Bool() {
			pr[0], pr[1] = pr[1], pr[0]
		}
		k.target, k.neigh, k.neighLevel = pr[0], pr[1], 2
	} else {
		for {
			k.target = p.all[r.Intn(len(p.all))]
			h := hashOf(k.target)
			var cands []string
			for _, n := range p.byL1[h[:3]] {
				if n != k.target && hashOf(n)[:6] != h[:6] {
					cands = append(cands, n)
				}
			}
			if len(cands) > 0 {
				k.neigh, k.neighLevel = cands[r.Intn(len(cands))], 1
				break
			}
		}
	}
	for {
		k.other = p.all[r.Intn(len(p.all))]
		if hashOf(k.other)[:3] != hashOf(k.target)[:3] {
			break
		}
	}
}

// ---- history generation ----

const (
	freshBase   = 1420070400 // 2015-01-01
	expiredBase = 662688000  // 1991-01-01
	cutoffUnix  = 1104537600 // 2005-01-01
)

func (k *caseRun) newSpec(mb string, size int, expired bool) *msgSpec {
	r := k.r
	base := int64(freshBase)
	if expired {
		base = expiredBase
	}
	nto := r.Range(1, 3)
	var to []string
	for i := 0; i < nto; i++ {
		to = append(to, r.Letters(r.Range(1, 8), "abcdefghijklmnop")+"@rcpt.test")
	}
	return &msgSpec{Mailbox: mb, FromName: r.Pick([]string{"", "Some One", "Ünï Cødé", "a, \"b\""}),
		From: r.Letters(r.Range(1, 10), "abcdefghijklmnopqrstuvwxyz.") + "@from.test", To: to,
		Subject:  runeLetters(r, r.Range(0, 40), []rune("abcdefghij KLMNOP 0123456789 üé€")),
		DateUnix: base + int64(r.Intn(5*365*86400)), BodySeed: r.Uint64(), BodyLen: size}
}

// runeLetters draws n runes (the result is always valid UTF-8, so it survives a JSON job file).
func runeLetters(r *fw.Rand, n int, alphabet []rune) string {
	out := make([]rune, n)
	for i := range out {
		out[i] = alphabet[r.Intn(len(alphabet))]
	}
	return string(out)
}

func (k *caseRun) histSize() int {
	switch k.r.Weighted([]int{80, 15, 5}) {
	case 1:
		return k.r.Range(4097, 20000)
	case 2:
		return k.r.Range(65537, 100000)
	}
	return k.r.Range(0, 1500)
}

// hAdd adds through the history store (no cap) and the model.
func (k *caseRun) hAdd(mb string, size int, expired bool) error {
	spec := k.newSpec(mb, size, expired)
	id, err := execOp(k.hist, &opSpec{Kind: "add", Mailbox: mb, Msg: spec, Reader: k.r.Intn(nReaderShapes)})
	if err != nil {
		return fmt.Errorf("history add to %s: %w", mb, err)
	}
	for _, m := range k.model[mb] {
		if m.ID == id {
			return fmt.Errorf("history add to %s returned the id %s of a live message", mb, id)
		}
	}
	k.model[mb] = append(k.model[mb], &mmsg{ID: id, Spec: spec})
	k.logHist(fmt.Sprintf("add %s <- %s (%d bytes, seed %d)", mb, id, size, spec.BodySeed))
	k.nHist++
	return nil
}

func (k *caseRun) hRemove(mb string, i int) error {
	l := k.model[mb]
	if _, err := execOp(k.hist, &opSpec{Kind: "remove", Mailbox: mb, ID: l[i].ID}); err != nil {
		return fmt.Errorf("history remove %s/%s: %w", mb, l[i].ID, err)
	}
	k.model[mb] = append(append([]*mmsg{}, l[:i]...), l[i+1:]...)
	k.logHist(fmt.Sprintf("remove %s/%s", mb, l[i].ID))
	k.nHist++
	return nil
}

func (k *caseRun) hSeen(mb string, i int) error {
	m := k.model[mb][i]
	if _, err := execOp(k.hist, &opSpec{Kind: "seen", Mailbox: mb, ID: m.ID}); err != nil {
		return fmt.Errorf("history mark-seen %s/%s: %w", mb, m.ID, err)
	}
	m.Seen = true
	k.logHist(fmt.Sprintf("seen %s/%s", mb, m.ID))
	k.nHist++
	return nil
}

func (k *caseRun) hPurge(mb string) error {
	if _, err := execOp(k.hist, &opSpec{Kind: "purge", Mailbox: mb}); err != nil {
		return fmt.Errorf("history purge %s: %w", mb, err)
	}
	delete(k.model, mb)
	k.logHist("purge " + mb)
	k.nHist++
	return nil
}

func (k *caseRun) logHist(s string) {
	if len(k.histLog) < 150 {
		k.histLog = append(k.histLog, s)
	}
}

// setLen brings the mailbox to exactly n messages.
func (k *caseRun) setLen(mb string, n int) error {
	for len(k.model[mb]) > n {
		if err := k.hRemove(mb, k.r.Intn(len(k.model[mb]))); err != nil {
			return err
		}
	}
	for len(k.model[mb]) < n {
		if err := k.hAdd(mb, k.histSize(), false); err != nil {
			return err
		}
	}
	return nil
}

// generate builds the preceding history (executing it) and the operation under test.
func (k *caseRun) generate() error {
	r := k.r
	k.pickNames()
	boxes := []string{k.neigh, k.other}
	if k.kind != "add-new" {
		boxes = append(boxes, k.target, k.target)
	}
	// Random part: 0-12 operations.
	for n := r.Range(0, 12); n > 0; n-- {
		mb := boxes[r.Intn(len(boxes))]
		l := k.model[mb]
		what := r.Weighted([]int{60, 12, 20, 8})
		if len(l) == 0 {
			what = 0
		}
		var err error
		switch what {
		case 0:
			err = k.hAdd(mb, k.histSize(), false)
		case 1:
			err = k.hSeen(mb, r.Intn(len(l)))
		case 2:
			err = k.hRemove(mb, r.Intn(len(l)))
		case 3:
			err = k.hPurge(mb)
		}
		if err != nil {
			return err
		}
	}
	// Big index: 60-75 small messages so that index.gob exceeds one bufio chunk.
	bigOK := map[string]bool{"add-existing": true, "add-cap-evict": true, "add-cap-multi": true, "mark-seen": true,
		"remove-middle": true, "retention": true}
	k.bigIndex = bigOK[k.kind] && k.variant%3 == 2
	if k.bigIndex && k.kind != "retention" {
		for n := r.Range(60, 75); n > 0; n-- {
			if err := k.hAdd(k.target, r.Range(0, 300), false); err != nil {
				return err
			}
		}
	}
	T := k.target
	// Body of an add under test: the size classes and reader shapes rotate with the variant.
	addOp := func() *opSpec {
		sizes := []int{r.Range(0, 1500), r.Range(65537, 150000), 4096, r.Range(4097, 30000), 4097, r.Range(8192, 8193), 0, 65536}
		size := sizes[(k.variant+k.idx)%len(sizes)]
		switch sizeClass(size) {
		case ">64k":
			k.c.Count("add_body_gt64k", 1)
		case "4k-64k":
			k.c.Count("add_body_4k_64k", 1)
		}
		return &opSpec{Kind: "add", Mailbox: T, Msg: k.newSpec(T, size, false), Reader: (k.variant + k.idx/len(kinds)) % nReaderShapes}
	}
	var err error
	switch k.kind {
	case "add-new":
		k.op = addOp()
	case "add-existing":
		if len(k.model[T]) == 0 {
			err = k.setLen(T, r.Range(1, 3))
		}
		k.op = addOp()
	case "add-cap-evict":
		if k.bigIndex {
			k.cap = len(k.model[T])
		} else {
			k.cap = []int{2, 3, 5, 8}[r.Intn(4)]
			err = k.setLen(T, k.cap)
		}
		k.op = addOp()
	case "add-cap1":
		k.cap = 1
		err = k.setLen(T, 1)
		k.op = addOp()
	case "add-cap-multi":
		// The store is reopened with a smaller cap than the mailbox holds (configuration change
		// between restarts): the add evicts 2-5 messages one by one.
		extra := r.Range(1, 4)
		if k.bigIndex {
			k.cap = len(k.model[T]) - extra
		} else {
			k.cap = []int{1, 1, 2, 3}[r.Intn(4)]
			err = k.setLen(T, k.cap+extra)
		}
		k.op = addOp()
	case "mark-seen":
		if len(k.model[T]) == 0 {
			err = k.setLen(T, r.Range(1, 4))
		}
		if err == nil {
			var unseen []int
			for i, m := range k.model[T] {
				if !m.Seen {
					unseen = append(unseen, i)
				}
			}
			if len(unseen) == 0 {
				err = k.hAdd(T, k.histSize(), false)
				unseen = []int{len(k.model[T]) - 1}
			}
			if err == nil {
				k.op = &opSpec{Kind: "seen", Mailbox: T, ID: k.model[T][unseen[r.Intn(len(unseen))]].ID}
			}
		}
	case "remove-middle":
		if len(k.model[T]) < 3 {
			err = k.setLen(T, r.Range(3, 6))
		}
		if err == nil {
			k.op = &opSpec{Kind: "remove", Mailbox: T, ID: k.model[T][r.Range(1, len(k.model[T])-2)].ID}
		}
	case "remove-last":
		err = k.setLen(T, 1)
		if err == nil {
			k.op = &opSpec{Kind: "remove", Mailbox: T, ID: k.model[T][0].ID}
		}
	case "purge-1", "purge-3", "purge-10":
		n := map[string]int{"purge-1": 1, "purge-3": 3, "purge-10": 10}[k.kind]
		err = k.setLen(T, n)
		k.op = &opSpec{Kind: "purge", Mailbox: T}
	case "retention":
		// The target is rebuilt with a chosen pattern of expired and fresh messages; every other
		// mailbox holds fresh messages only, so the scan removes from the target alone.
		if len(k.model[T]) > 0 {
			err = k.hPurge(T)
		}
		n := r.Range(2, 6)
		if k.bigIndex {
			n = r.Range(60, 70)
		}
		allExpired := k.variant%3 == 0
		anyExpired := false
		for i := 0; i < n && err == nil; i++ {
			exp := allExpired || r.Chance(1, 2) || (i == n-1 && !anyExpired)
			if k.bigIndex {
				exp = r.Chance(1, 12) || (i == n-1 && !anyExpired)
			}
			anyExpired = anyExpired || exp
			size := k.histSize()
			if k.bigIndex {
				size = r.Range(0, 300)
			}
			err = k.hAdd(T, size, exp)
		}
		k.op = &opSpec{Kind: "retention", Mailbox: T, CutoffUnix: cutoffUnix}
	}
	if err != nil {
		return err
	}
	k.recovery = k.newSpec(T, r.Range(1, 5000), false)
	return nil
}

// ---- expected post-crash states ----

// emsg is a message the oracle expects; ID "" stands for "any id not used by the target before".
type emsg struct {
	ID   string
	M    *mmsg
	Seen bool
}

type cand struct {
	Name string
	List []emsg
}

type expect struct {
	Target  string
	Others  map[string][]emsg
	Cands   []cand
	Cap     int
	NewMsg  *mmsg // the message added by the operation under test, if any
	Recover *mmsg
}

func (e *expect) candNames() []string {
	var n []string
	for _, c := range e.Cands {
		n = append(n, fmt.Sprintf("%s(%d)", c.Name, len(c.List)))
	}
	return n
}

func asExpected(l []*mmsg) []emsg {
	out := make([]emsg, len(l))
	for i, m := range l {
		out[i] = emsg{ID: m.ID, M: m, Seen: m.Seen}
	}
	return out
}

// buildExpect derives, from the model's pre-state and the operation, every target listing that is
// reachable by completing a prefix of the operation's logical steps.
func (k *caseRun) buildExpect() *expect {
	e := &expect{Target: k.target, Others: map[string][]emsg{}, Cap: k.cap,
		Recover: &mmsg{Spec: k.recovery}}
	for mb, l := range k.model {
		if mb != k.target && len(l) > 0 {
			e.Others[mb] = asExpected(l)
		}
	}
	pre := asExpected(k.model[k.target])
	e.Cands = append(e.Cands, cand{"pre", pre})
	switch k.op.Kind {
	case "add":
		e.NewMsg = &mmsg{Spec: k.op.Msg}
		ev := 0
		if k.cap > 0 && len(pre) >= k.cap {
			ev = len(pre) - k.cap + 1
		}
		for j := 1; j <= ev; j++ {
			e.Cands = append(e.Cands, cand{fmt.Sprintf("evicted-%d", j), pre[j:]})
		}
		post := append(append([]emsg{}, pre[ev:]...), emsg{ID: "", M: e.NewMsg})
		e.Cands = append(e.Cands, cand{"post", post})
	case "seen":
		post := append([]emsg{}, pre...)
		for i := range post {
			if post[i].ID == k.op.ID {
				post[i].Seen = true
			}
		}
		e.Cands = append(e.Cands, cand{"post", post})
	case "remove":
		var post []emsg
		for _, m := range pre {
			if m.ID != k.op.ID {
				post = append(post, m)
			}
		}
		e.Cands = append(e.Cands, cand{"post", post})
	case "purge":
		e.Cands = append(e.Cands, cand{"post", nil})
	case "retention":
		cur := pre
		j := 0
		for {
			idx := -1
			for i, m := range cur {
				if m.M.Spec.DateUnix < k.op.CutoffUnix {
					idx = i
					break
				}
			}
			if idx < 0 {
				break
			}
			j++
			cur = append(append([]emsg{}, cur[:idx]...), cur[idx+1:]...)
			e.Cands = append(e.Cands, cand{fmt.Sprintf("removed-%d", j), cur})
		}
		e.Cands[len(e.Cands)-1].Name = "post"
	}
	return e
}
