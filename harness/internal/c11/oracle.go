package c11

import (
	"bytes"
	"fmt"
	"io"
	"strings"
	"time"

	"github.com/inbucket/inbucket/v3/pkg/storage"

	"verifharness/internal/fw"
	"verifharness/internal/sut"
)

// judge decides one crash state.  dir is a private copy of the crashed store directory (it is
// modified by the final AddMessage).  site is the stable name of the crash point class; origin is
// hook | synth | selfkill | strace | final.
func (k *caseRun) judge(dir, site, what, origin string) {
	c := k.c
	k.nStates++
	switch origin {
	case "hook", "synth", "selfkill", "strace":
		c.Count("crash_states_"+origin, 1)
	}
	if origin == "strace" {
		c.Count("strace_states:"+k.kind, 1)
	}
	c.Count("states:"+k.kind, 1)
	listing := dirListing(dir)
	e := k.exp
	fail := func(failure, msg string) {
		c.Violation("C11:"+failure+"/"+phaseOf(site), fmt.Sprintf("%s; crash [%s] %s: %s", k.summary(), site, what, msg),
			map[string]any{"kind": k.kind, "site": site, "crash": what, "op": k.op, "cap": k.cap, "failure": msg,
				"crashed_directory": listing, "acceptable_target_states": e.candNames(), "case": k.summary(),
				"preceding_history": k.histLog})
	}

	st := k.newStore(dir, e.Cap)

	// 1. The whole store can be visited.
	visited := map[string][]string{}
	err := st.VisitMailboxes(func(ms []storage.Message) bool {
		for _, m := range ms {
			visited[m.Mailbox()] = append(visited[m.Mailbox()], m.ID())
		}
		return true
	})
	if err != nil {
		fail("visit-fails", "VisitMailboxes: "+err.Error())
		return
	}

	// 2. Every bystander mailbox equals the model.
	for mb, want := range e.Others {
		got, err := st.GetMessages(mb)
		if err != nil {
			fail("bystander-unreadable", fmt.Sprintf("GetMessages(%q): %v", mb, err))
			return
		}
		if msg := matchList(got, want, mb); msg != "" {
			fail("bystander-changed", fmt.Sprintf("mailbox %q (not touched by the operation): %s", mb, msg))
			return
		}
		if msg := readAll(got, want); msg != "" {
			fail("bystander-content", fmt.Sprintf("mailbox %q (not touched by the operation): %s", mb, msg))
			return
		}
		if strings.Join(visited[mb], ",") != strings.Join(idsOf(got), ",") {
			fail("visit-disagrees", fmt.Sprintf("mailbox %q: VisitMailboxes lists %v, GetMessages %v", mb, visited[mb], idsOf(got)))
			return
		}
	}

	// 3. The target is in one of the acceptable states.
	got, err := st.GetMessages(e.Target)
	if err != nil {
		fail("target-unreadable", fmt.Sprintf("GetMessages(%q): %v", e.Target, err))
		return
	}
	matched := -1
	var why []string
	for i, cd := range e.Cands {
		msg := matchList(got, cd.List, e.Target)
		if msg == "" {
			matched = i
			break
		}
		why = append(why, cd.Name+": "+msg)
	}
	if matched < 0 {
		fail("target-neither-before-nor-after", fmt.Sprintf("mailbox %q lists %v which is no state of the operation (%s)",
			e.Target, idsOf(got), fw.Trunc(strings.Join(why, " | "), 900)))
		return
	}
	cd := e.Cands[matched]
	c.Count("target_state:"+candClass(cd.Name), 1)
	if msg := readAll(got, cd.List); msg != "" {
		fail("listed-message-unreadable", fmt.Sprintf("mailbox %q is in state %q but %s", e.Target, cd.Name, msg))
		return
	}
	if strings.Join(visited[e.Target], ",") != strings.Join(idsOf(got), ",") {
		fail("visit-disagrees", fmt.Sprintf("mailbox %q: VisitMailboxes lists %v, GetMessages %v", e.Target, visited[e.Target], idsOf(got)))
		return
	}
	for mb, ids := range visited {
		if mb != e.Target && e.Others[mb] == nil && len(ids) > 0 {
			fail("phantom-mailbox", fmt.Sprintf("VisitMailboxes reports mailbox %q with %d messages that the model does not have", mb, len(ids)))
			return
		}
	}

	// 4. The store accepts new mail for the affected mailbox.
	survivors := make([]emsg, len(got))
	used := map[string]bool{}
	for i, m := range got {
		survivors[i] = emsg{ID: m.ID(), M: cd.List[i].M, Seen: cd.List[i].Seen}
		used[m.ID()] = true
	}
	newID, err := st.AddMessage(delivery(e.Recover.Spec, 0))
	if err != nil {
		fail("add-after-crash-fails", fmt.Sprintf("mailbox %q in state %q: AddMessage after restart: %v", e.Target, cd.Name, err))
		return
	}
	if used[newID] {
		fail("add-after-crash-wrong", fmt.Sprintf("AddMessage after restart returned id %s, which a surviving message uses", newID))
		return
	}
	want := append(survivors, emsg{ID: newID, M: e.Recover})
	if e.Cap > 0 {
		for len(want) > e.Cap {
			want = want[1:]
		}
	}
	got2, err := st.GetMessages(e.Target)
	if err != nil {
		fail("add-after-crash-wrong", fmt.Sprintf("GetMessages(%q) after the post-restart delivery: %v", e.Target, err))
		return
	}
	if msg := matchList(got2, want, e.Target); msg != "" {
		fail("add-after-crash-wrong", fmt.Sprintf("mailbox %q (state %q) after the post-restart delivery: %s", e.Target, cd.Name, msg))
		return
	}
	if msg := readAll(got2, want); msg != "" {
		fail("add-after-crash-wrong", fmt.Sprintf("mailbox %q (state %q) after the post-restart delivery: %s", e.Target, cd.Name, msg))
		return
	}
	if err := st.VisitMailboxes(func([]storage.Message) bool { return true }); err != nil {
		fail("add-after-crash-wrong", "VisitMailboxes after the post-restart delivery: "+err.Error())
		return
	}
}

// phaseOf maps a crash site (hook step, synthesised state, killed syscall) to the phase of the
// update it interrupts; finding keys are (failure class, phase), the exact site is in the text.
func phaseOf(site string) string {
	s := site[strings.IndexByte(site, ':')+1:]
	switch {
	case s == "completed":
		return "after-completion"
	case strings.HasPrefix(s, "mkdir"):
		return "during-dir-create"
	case strings.HasPrefix(s, "add.") || s == "raw-prefix" || s == "openat(raw,create)" || s == "write(raw)":
		return "during-body-write"
	case strings.HasPrefix(s, "index.") || s == "index-prefix" || strings.HasPrefix(s, "rename") ||
		strings.HasPrefix(s, "write(index") || (strings.HasPrefix(s, "openat(index") && strings.HasSuffix(s, ",create)")):
		return "during-index-write"
	case strings.HasPrefix(s, "remove.") || strings.HasPrefix(s, "rmdir") || strings.HasPrefix(s, "unlink") ||
		s == "removeall-partial" || s == "parents-partial":
		return "during-unlink"
	}
	return "between-mutations"
}

func candClass(name string) string {
	if i := strings.IndexByte(name, '-'); i > 0 {
		return name[:i]
	}
	return name
}

func idsOf(ms []storage.Message) []string {
	out := make([]string, len(ms))
	for i, m := range ms {
		out[i] = m.ID()
	}
	return out
}

// matchList compares a listing with an expected list (ids, order, metadata, seen flag).  An
// expected id "" accepts any id the listing does not use twice: ids are opaque, and a fresh
// process may legitimately hand out the id of a message the same operation has just evicted.
func matchList(got []storage.Message, want []emsg, mailbox string) string {
	if len(got) != len(want) {
		return fmt.Sprintf("%d messages listed, expected %d", len(got), len(want))
	}
	seen := map[string]bool{}
	for i, g := range got {
		w := want[i]
		if seen[g.ID()] {
			return fmt.Sprintf("id %s listed twice", g.ID())
		}
		seen[g.ID()] = true
		if w.ID != "" && g.ID() != w.ID {
			return fmt.Sprintf("position %d holds id %s, expected %s", i, g.ID(), w.ID)
		}
		s := w.M.Spec
		if g.Mailbox() != mailbox {
			return fmt.Sprintf("message %s reports mailbox %q", g.ID(), g.Mailbox())
		}
		if from := sut.AddrString(g.From()); from != sut.AddrString(addrOf(s.FromName, s.From)) {
			return fmt.Sprintf("message %s From=%s, expected %s", g.ID(), from, sut.AddrString(addrOf(s.FromName, s.From)))
		}
		var to []string
		for _, t := range g.To() {
			if t == nil {
				to = append(to, "<nil>")
			} else {
				to = append(to, t.Address)
			}
		}
		if strings.Join(to, ",") != strings.Join(s.To, ",") {
			return fmt.Sprintf("message %s To=%v, expected %v", g.ID(), to, s.To)
		}
		if g.Subject() != s.Subject {
			return fmt.Sprintf("message %s Subject=%q, expected %q", g.ID(), g.Subject(), s.Subject)
		}
		if !g.Date().Equal(time.Unix(s.DateUnix, 0)) {
			return fmt.Sprintf("message %s Date=%v, expected %v", g.ID(), g.Date(), time.Unix(s.DateUnix, 0).UTC())
		}
		if g.Size() != int64(s.BodyLen) {
			return fmt.Sprintf("message %s Size()=%d, expected %d", g.ID(), g.Size(), s.BodyLen)
		}
		if g.Seen() != w.Seen {
			return fmt.Sprintf("message %s seen=%v, expected %v", g.ID(), g.Seen(), w.Seen)
		}
	}
	return ""
}

// readAll opens every listed message and compares the full content.
func readAll(got []storage.Message, want []emsg) string {
	for i, g := range got {
		rc, err := g.Source()
		if err != nil {
			return fmt.Sprintf("listed message %s cannot be opened: %v", g.ID(), err)
		}
		b, err := io.ReadAll(rc)
		_ = rc.Close()
		if err != nil {
			return fmt.Sprintf("listed message %s cannot be read: %v", g.ID(), err)
		}
		if int64(len(b)) != g.Size() {
			return fmt.Sprintf("listed message %s has %d bytes of content but Size()=%d", g.ID(), len(b), g.Size())
		}
		if !bytes.Equal(b, want[i].M.content()) {
			return fmt.Sprintf("listed message %s has %d bytes that differ from what was stored", g.ID(), len(b))
		}
	}
	return ""
}
