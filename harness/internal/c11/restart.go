package c11

// Stream "restart" (added after seeded changes C11-11 and C11-12).
//
// The "crash" stream judges every crash state with a store object opened inside the harness child
// (oracle.go, step 4 "the store accepts new mail").  That process has handed out hundreds of ids
// long before and time has moved on, so the post-restart delivery can never be offered an id the
// crashed process used.  A real restart is different: file-store ids are "<second>-<4-digit
// process-wide counter>", a fresh process starts again at 0000, and a supervisor restarts a crashed
// server within milliseconds - so the restarted process's first ids COINCIDE with the ids the dead
// process handed out in that second: ids of completely delivered messages (still listed) and the
// id of the orphan content file of the interrupted delivery (not listed, but on disk).  The
// property demands that every message not touched by the interrupted operation keeps its full
// content and that the store accepts new mail for the mailbox afterwards; both are at stake exactly
// in that window, and nothing in C11 ever reached it.
//
// Here the whole episode runs in fresh processes (the victim re-execution of victim.go):
//
//	process 1 (fresh counter) delivers n = 1..3 complete messages to the target mailbox and starts
//	  one more delivery that dies by SIGKILL at a drawn point: at one of the file.fs hook steps of
//	  that delivery, after k bytes of its body were handed to the store, or not at all (control);
//	process 2 (fresh counter again), released the moment process 1 is gone, opens the store on the
//	  same path, delivers 1-2 further messages (one of them shorter than the interrupted one) to
//	  the same mailbox and exits.
//
// Both processes are started beforehand and wait on their stdin, so that "restart" costs
// microseconds; the harness releases process 1 shortly after the beginning of a wall-clock second.
// That is scheduling only: whether the two processes' ids really share their timestamp prefix is
// read from the ids afterwards and counted (MinObs restart_same_second), never assumed, and no
// clock value takes part in a verdict.
//
// Oracle (a Store opened by the harness on the directory afterwards): the mailbox lists the n
// complete messages first and in order, then the interrupted one (complete) or not at all - it
// must be there when process 1 was not killed -, then process 2's messages; ids pairwise distinct;
// every listed message's content is EXACTLY the bytes of the delivery that created it (Size()
// bytes, no foreign tail); VisitMailboxes succeeds, agrees, and reports no other mailbox.

import (
	"context"
	"encoding/json"
	"fmt"
	"io"
	"os"
	"os/exec"
	"path/filepath"
	"strings"
	"syscall"
	"time"

	"github.com/inbucket/inbucket/v3/pkg/storage"
	"github.com/inbucket/inbucket/v3/pkg/verifhook"

	"verifharness/internal/fw"
)

// killSteps are the hook steps of a delivery to an existing mailbox without cap.
var killSteps = []string{"add.create-raw", "add.raw-closed", "index.create-tmp", "index.before-rename", "index.renamed"}

// seqJob is what a victim of the restart stream executes: wait for the go signal, open the store,
// deliver Ops completely, then (if Last is set) start one more delivery that may die on the way.
type seqJob struct {
	Ops       []*opSpec `json:"ops"`
	Last      *opSpec   `json:"last,omitempty"`
	KillStep  string    `json:"kill_step,omitempty"` // die when the last delivery reaches this file.fs step
	KillBytes int       `json:"kill_bytes"`          // >=0: die after this many body bytes of the last delivery
	IDsFile   string    `json:"ids_file"`            // one line per AddMessage that returned: the id
}

func killSelf() {
	_ = syscall.Kill(os.Getpid(), syscall.SIGKILL)
	select {}
}

// dyingReader hands out the first `left` bytes of b in chunks and kills the process when asked
// for more.  It has no WriteTo, so the store's copy loop writes every chunk to the content file
// before it asks for the next one: at the time of death exactly `left` bytes are on disk.
type dyingReader struct {
	b     []byte
	left  int
	chunk int
}

func (d *dyingReader) Read(p []byte) (int, error) {
	if d.left <= 0 {
		killSelf()
	}
	n := d.chunk
	if n > len(p) {
		n = len(p)
	}
	if n > d.left {
		n = d.left
	}
	copy(p, d.b[:n])
	d.b, d.left = d.b[n:], d.left-n
	return n, nil
}

// seqVictim runs inside a victim process (see victimMain); it never returns.
func seqVictim(j *job) {
	s := j.Seq
	// Tell the harness that start-up is over, then wait to be released.
	_, _ = os.Stdout.Write([]byte{'R'})
	var one [1]byte
	_, _ = os.Stdin.Read(one[:])
	st := openVictimStore(j)
	ids, err := os.OpenFile(s.IDsFile, os.O_WRONLY|os.O_CREATE|os.O_APPEND, 0o644)
	if err != nil {
		fmt.Fprintln(os.Stderr, "c11 victim: cannot open ids file:", err)
		os.Exit(5)
	}
	for i, op := range s.Ops {
		id, err := execOp(st, op)
		if err != nil {
			fmt.Fprintf(os.Stderr, "c11 victim: delivery %d failed: %v\n", i, err)
			os.Exit(4)
		}
		_, _ = ids.WriteString(id + "\n")
	}
	if s.Last != nil {
		if s.KillStep != "" {
			verifhook.Set(func(site string, args ...string) {
				if site == "file.fs" && len(args) > 0 && args[0] == s.KillStep {
					killSelf()
				}
			})
		}
		d := delivery(s.Last.Msg, s.Last.Reader)
		if s.KillBytes >= 0 {
			d.Reader = &dyingReader{b: genBody(s.Last.Msg.BodySeed, s.Last.Msg.BodyLen), left: s.KillBytes, chunk: 1460}
		}
		id, err := st.AddMessage(d)
		if err != nil {
			fmt.Fprintln(os.Stderr, "c11 victim: last delivery failed:", err)
			os.Exit(4)
		}
		_, _ = ids.WriteString(id + "\n")
	}
	os.Exit(0)
}

// ---- harness side ----

type restartRun struct {
	c   *fw.Ctx
	r   *fw.Rand
	idx int

	scratch, dir string
	mailbox      string
	n            int     // complete deliveries of process 1
	first        []*mmsg // them
	inter        *mmsg   // the interrupted delivery
	second       []*mmsg // process 2's deliveries
	killClass    string  // hook step | "body" | "none"
	killBytes    int     // for "body"
	shortIdx     int     // which of process 2's messages is the short one
	readers      [3]int  // reader shapes: process 1 complete, interrupted, process 2
	orphan       string  // name and size of an unlisted content file seen between the two processes
	orphanSize   int64
	ids1, ids2   []string
	p1, p2       victimResult
	releaseDelay time.Duration
}

func (e *restartRun) summary() string {
	kill := e.killClass
	if kill == "body" {
		kill = fmt.Sprintf("body after %d of %d bytes", e.killBytes, e.inter.Spec.BodyLen)
	}
	var l2 []string
	for _, m := range e.second {
		l2 = append(l2, fmt.Sprint(m.Spec.BodyLen))
	}
	return fmt.Sprintf("mailbox=%s process 1: %d complete deliveries then one of %d bytes killed at [%s]; process 2 (fresh, same store path): deliveries of %s bytes",
		e.mailbox, e.n, e.inter.Spec.BodyLen, kill, strings.Join(l2, ", "))
}

func (e *restartRun) spec(size int, tag string) *msgSpec {
	k := &caseRun{r: e.r}
	s := k.newSpec(e.mailbox, size, false)
	// A subject that is unique within the episode, so that a listing position is attributed to the
	// delivery that created it by metadata alone.
	s.Subject = tag + " " + s.Subject
	return s
}

func (e *restartRun) generate() {
	r := e.r
	p := names()
	e.mailbox = p.all[r.Intn(len(p.all))]
	e.n = r.Range(1, 3)
	for i := 0; i < e.n; i++ {
		e.first = append(e.first, &mmsg{Spec: e.spec(r.Range(1, 6000), fmt.Sprintf("p1-%d", i))})
	}
	interLen := r.Range(2000, 40000)
	e.inter = &mmsg{Spec: e.spec(interLen, "p1-interrupted")}
	switch w := r.Weighted([]int{4, 5, 1}); w {
	case 0:
		e.killClass = "body"
		e.killBytes = r.Range(0, interLen)
		if r.Chance(1, 6) {
			e.killBytes = []int{0, 1, 4096, interLen - 1, interLen}[r.Intn(5)]
		}
	case 1:
		e.killClass = killSteps[r.Intn(len(killSteps))]
		e.killBytes = -1
	default:
		e.killClass = "none"
		e.killBytes = -1
	}
	m := r.Range(1, 2)
	e.shortIdx = r.Intn(m)
	for i := 0; i < m; i++ {
		size := r.Range(0, 2*interLen)
		if i == e.shortIdx {
			size = r.Range(0, interLen/4)
		}
		e.second = append(e.second, &mmsg{Spec: e.spec(size, fmt.Sprintf("p2-%d", i))})
	}
	for i := range e.readers {
		e.readers[i] = r.Intn(nReaderShapes)
	}
}

func (e *restartRun) jobs() (*job, *job) {
	j1 := &seqJob{KillBytes: -1, IDsFile: filepath.Join(e.scratch, "p1.ids")}
	for _, m := range e.first {
		j1.Ops = append(j1.Ops, &opSpec{Kind: "add", Mailbox: e.mailbox, Msg: m.Spec, Reader: e.readers[0]})
	}
	j1.Last = &opSpec{Kind: "add", Mailbox: e.mailbox, Msg: e.inter.Spec, Reader: e.readers[1]}
	switch e.killClass {
	case "body":
		j1.KillBytes = e.killBytes
	case "none":
	default:
		j1.KillStep = e.killClass
	}
	j2 := &seqJob{KillBytes: -1, IDsFile: filepath.Join(e.scratch, "p2.ids")}
	for _, m := range e.second {
		j2.Ops = append(j2.Ops, &opSpec{Kind: "add", Mailbox: e.mailbox, Msg: m.Spec, Reader: e.readers[2]})
	}
	return &job{Path: e.dir, Seq: j1}, &job{Path: e.dir, Seq: j2}
}

// held is a started victim that waits for its go signal.
type held struct {
	cmd    *exec.Cmd
	stdin  io.WriteCloser
	stdout io.ReadCloser
	stderr strings.Builder
}

func (e *restartRun) start(ctx context.Context, j *job, name string) (*held, error) {
	jobPath := filepath.Join(e.scratch, name+".json")
	b, err := json.Marshal(j)
	must(err)
	must(os.WriteFile(jobPath, b, 0o644))
	h := &held{cmd: exec.CommandContext(ctx, e.c.SelfExe)}
	h.cmd.Env = victimEnviron(jobPath)
	h.cmd.Stderr = &h.stderr
	if h.stdin, err = h.cmd.StdinPipe(); err != nil {
		return nil, err
	}
	if h.stdout, err = h.cmd.StdoutPipe(); err != nil {
		return nil, err
	}
	if err := h.cmd.Start(); err != nil {
		return nil, err
	}
	return h, nil
}

// ready waits until the victim has finished its start-up and blocks on stdin.
func (h *held) ready() error {
	var one [1]byte
	if _, err := io.ReadFull(h.stdout, one[:]); err != nil {
		return fmt.Errorf("victim did not report ready: %v %s", err, fw_trunc(h.stderr.String()))
	}
	return nil
}

func (h *held) release() { _ = h.stdin.Close() }

func (h *held) wait(ctx context.Context) victimResult {
	err := h.cmd.Wait()
	res := waitResult(err, h.stderr.String())
	res.timedOut = ctx.Err() != nil
	return res
}

func (h *held) abort() {
	if h == nil || h.cmd.Process == nil {
		return
	}
	_ = h.cmd.Process.Kill()
	_ = h.cmd.Wait()
}

func readLines(path string) []string {
	b, err := os.ReadFile(path)
	if err != nil {
		return nil
	}
	return strings.Fields(string(b))
}

func idSecond(id string) string {
	if i := strings.LastIndexByte(id, '-'); i > 0 {
		return id[:i]
	}
	return id
}

func (e *restartRun) mailboxDir() string {
	h := hashOf(e.mailbox)
	return filepath.Join(e.dir, "mail", h[:3], h[:6], h)
}

func (e *restartRun) run() {
	c := e.c
	e.scratch = c.TempDir("c11r-")
	defer os.RemoveAll(e.scratch)
	e.dir = filepath.Join(e.scratch, "store")
	must(os.MkdirAll(e.dir, 0o770))
	e.generate()

	ctx, cancel := context.WithTimeout(context.Background(), time.Duration(c.Slow)*2*time.Minute)
	defer cancel()
	j1, j2 := e.jobs()
	h1, err := e.start(ctx, j1, "job1")
	if err == nil {
		defer h1.abort()
	}
	var h2 *held
	if err == nil {
		if h2, err = e.start(ctx, j2, "job2"); err == nil {
			defer h2.abort()
		}
	}
	if err == nil {
		err = h1.ready()
	}
	if err == nil {
		err = h2.ready()
	}
	if err != nil {
		c.Count("restart_spawn_failed", 1)
		c.Inconclusive("restart episode: victims could not be started: " + err.Error())
		return
	}

	// Scheduling only: release process 1 in the first half of a wall-clock second, so that the
	// restarted process most likely runs within the same second.  Nothing below depends on it.
	if now := time.Now(); now.Nanosecond() > 500_000_000 {
		time.Sleep(time.Duration(1_000_000_000-now.Nanosecond()) + 2*time.Millisecond)
	}
	h1.release()
	e.p1 = h1.wait(ctx)
	// Look at the mailbox directory as the dead process left it (evidence, and the detail of a finding).
	ents, _ := os.ReadDir(e.mailboxDir())
	h2.release()
	e.p2 = h2.wait(ctx)

	if e.p1.timedOut || e.p2.timedOut {
		c.Inconclusive("restart episode: a victim timed out: " + e.summary())
		return
	}
	wantKilled := e.killClass != "none"
	if e.p1.killed != wantKilled || (!wantKilled && e.p1.exitCode != 0) {
		// A delivery of process 1 failed without any crash before it, or the kill point was never
		// reached: the episode did not take place as drawn.
		c.Count("restart_p1_unexpected_end", 1)
		c.Inconclusive(fmt.Sprintf("restart episode: process 1 ended with exit %d killed=%v (%s): %s", e.p1.exitCode, e.p1.killed, e.summary(), fw_trunc(e.p1.stderr)))
		return
	}
	e.ids1, e.ids2 = readLines(filepath.Join(e.scratch, "p1.ids")), readLines(filepath.Join(e.scratch, "p2.ids"))
	if len(e.ids1) < e.n {
		c.Count("restart_p1_unexpected_end", 1)
		c.Inconclusive(fmt.Sprintf("restart episode: process 1 reported %d of %d complete deliveries (%s)", len(e.ids1), e.n, e.summary()))
		return
	}
	listedBefore := map[string]bool{}
	for _, id := range e.ids1 {
		listedBefore[id+".raw"] = true
	}
	for _, en := range ents {
		if strings.HasSuffix(en.Name(), ".raw") && !listedBefore[en.Name()] {
			if fi, err := en.Info(); err == nil {
				e.orphan, e.orphanSize = en.Name(), fi.Size()
			}
		}
	}
	e.judge()
}

func (e *restartRun) judge() {
	c := e.c
	listing := dirListing(e.dir)
	fail := func(failure, msg string) {
		c.Violation("C11:restart/"+failure+"/"+e.killPhase(), e.summary()+": "+msg,
			map[string]any{"mailbox": e.mailbox, "complete_deliveries_process1": e.n, "kill": e.killClass, "kill_bytes": e.killBytes,
				"interrupted": e.inter.Spec, "process1": specsOf(e.first), "process2": specsOf(e.second), "reader_shapes": e.readers,
				"ids_returned_process1": e.ids1, "ids_returned_process2": e.ids2, "orphan_after_process1": e.orphan,
				"orphan_size": e.orphanSize, "process2_exit": e.p2.exitCode, "process2_stderr": fw_trunc(e.p2.stderr),
				"failure": msg, "directory": listing})
	}

	// The store accepts new mail after the restart.
	if e.p2.killed || e.p2.exitCode != 0 {
		fail("add-after-restart-fails", fmt.Sprintf("process 2 ended with exit %d: %s", e.p2.exitCode, fw_trunc(e.p2.stderr)))
		return
	}
	if len(e.ids2) != len(e.second) {
		c.Inconclusive(fmt.Sprintf("restart episode: process 2 reported %d of %d deliveries (%s)", len(e.ids2), len(e.second), e.summary()))
		return
	}

	k := &caseRun{c: c}
	st := k.newStore(e.dir, 0)
	visited := map[string][]string{}
	if err := st.VisitMailboxes(func(ms []storage.Message) bool {
		for _, m := range ms {
			visited[m.Mailbox()] = append(visited[m.Mailbox()], m.ID())
		}
		return true
	}); err != nil {
		fail("visit-fails", "VisitMailboxes: "+err.Error())
		return
	}
	got, err := st.GetMessages(e.mailbox)
	if err != nil {
		fail("mailbox-unreadable", fmt.Sprintf("GetMessages(%q): %v", e.mailbox, err))
		return
	}

	// Acceptable listings: with or without the interrupted delivery (it must be there when the
	// process was not killed: its AddMessage returned).
	var base, with []emsg
	for _, m := range e.first {
		base = append(base, emsg{M: m})
	}
	with = append(append(with, base...), emsg{M: e.inter})
	for _, m := range e.second {
		base, with = append(base, emsg{M: m}), append(with, emsg{M: m})
	}
	cands := []cand{{"interrupted-complete", with}}
	if e.killClass != "none" {
		cands = append(cands, cand{"interrupted-absent", base})
	}
	var chosen *cand
	var why []string
	for i := range cands {
		msg := matchList(got, cands[i].List, e.mailbox)
		if msg == "" {
			chosen = &cands[i]
			break
		}
		why = append(why, cands[i].Name+": "+msg)
	}
	if chosen == nil {
		failure := "wrong-listing"
		if hasDup(idsOf(got)) {
			failure = "id-listed-twice"
		}
		fail(failure, fmt.Sprintf("the mailbox lists %v, which is neither acceptable outcome (%s)", idsOf(got), fw.Trunc(strings.Join(why, " | "), 900)))
		return
	}
	if msg := readAll(got, chosen.List); msg != "" {
		fail("wrong-content", fmt.Sprintf("listing is %q (%v) but %s", chosen.Name, idsOf(got), msg))
		return
	}
	if strings.Join(visited[e.mailbox], ",") != strings.Join(idsOf(got), ",") {
		fail("visit-disagrees", fmt.Sprintf("VisitMailboxes lists %v, GetMessages %v", visited[e.mailbox], idsOf(got)))
		return
	}
	for mb, ids := range visited {
		if mb != e.mailbox && len(ids) > 0 {
			fail("phantom-mailbox", fmt.Sprintf("VisitMailboxes reports mailbox %q with %d messages; nothing was delivered to it", mb, len(ids)))
			return
		}
	}
	// The ids the two processes were given back are the ids listed.
	ids := idsOf(got)
	if strings.Join(ids[:e.n], ",") != strings.Join(e.ids1[:e.n], ",") ||
		strings.Join(ids[len(ids)-len(e.ids2):], ",") != strings.Join(e.ids2, ",") {
		fail("returned-id-not-listed", fmt.Sprintf("AddMessage returned %v to process 1 and %v to process 2, the mailbox lists %v", e.ids1, e.ids2, ids))
		return
	}

	// Evidence: did the restarted process really work within the second of the dead one?
	c.Count("restart_episodes", 1)
	c.Count("restart_kill:"+e.killClass, 1)
	c.Count("restart_outcome:"+chosen.Name, 1)
	// A content file process 1 left behind and nothing lists: the orphan of the interrupted delivery.
	orphan := e.orphan != "" && chosen.Name == "interrupted-absent"
	same := idSecond(e.ids1[e.n-1]) == idSecond(e.ids2[0])
	if same {
		c.Count("restart_same_second", 1)
		if e.n >= 2 {
			c.Count("restart_same_second_2plus_complete", 1)
		}
		if !strings.HasSuffix(e.ids2[0], "-0000") {
			// The fresh counter's first value was refused because the dead process had used it.
			c.Count("restart_same_second_id_skipped", 1)
		}
		if orphan && idSecond(e.orphan) == idSecond(e.ids2[0]) {
			c.Count("restart_same_second_orphan", 1)
			if e.orphanSize > int64(e.second[0].Spec.BodyLen) {
				c.Count("restart_same_second_orphan_longer_than_next", 1)
			}
		}
	} else {
		c.Count("restart_other_second", 1)
	}
	if orphan {
		c.Count("restart_orphan_left", 1)
	}
	c.NonTrivial(fmt.Sprintf("restart|n=%d|kill=%s|m=%d|short=%d|same=%v|orphan=%v|%s", e.n, e.killClass, len(e.second),
		e.shortIdx, same, orphan, chosen.Name))
	if e.idx < 8 {
		c.Sample(map[string]any{"restart": e.summary(), "ids_process1": e.ids1, "ids_process2": e.ids2, "orphan": e.orphan,
			"orphan_size": e.orphanSize, "outcome": chosen.Name, "same_second": same})
	}
}

// killPhase names the phase of the interrupted delivery for the finding key.
func (e *restartRun) killPhase() string {
	switch {
	case e.killClass == "none":
		return "no-crash"
	case e.killClass == "body" || strings.HasPrefix(e.killClass, "add."):
		return "during-body-write"
	}
	return "during-index-write"
}

func specsOf(l []*mmsg) []*msgSpec {
	out := make([]*msgSpec, len(l))
	for i, m := range l {
		out[i] = m.Spec
	}
	return out
}

func hasDup(ids []string) bool {
	seen := map[string]bool{}
	for _, id := range ids {
		if seen[id] {
			return true
		}
		seen[id] = true
	}
	return false
}
