package c11

import (
	"fmt"
	"io"
	"io/fs"
	"os"
	"path/filepath"
	"sort"
	"strings"
)

// copyTree is `cp -a src dst` for the regular files and directories of a store.
func copyTree(src, dst string) error {
	return filepath.WalkDir(src, func(p string, d fs.DirEntry, err error) error {
		if err != nil {
			return err
		}
		rel, err := filepath.Rel(src, p)
		if err != nil {
			return err
		}
		target := filepath.Join(dst, rel)
		if d.IsDir() {
			return os.MkdirAll(target, 0o770)
		}
		if !d.Type().IsRegular() {
			return nil
		}
		in, err := os.Open(p)
		if err != nil {
			return err
		}
		defer in.Close()
		out, err := os.OpenFile(target, os.O_CREATE|os.O_WRONLY|os.O_TRUNC, 0o660)
		if err != nil {
			return err
		}
		if _, err := io.Copy(out, in); err != nil {
			_ = out.Close()
			return err
		}
		return out.Close()
	})
}

// dirListing renders the tree (relative paths with sizes) for violation details.
func dirListing(dir string) []string {
	var out []string
	_ = filepath.WalkDir(dir, func(p string, d fs.DirEntry, err error) error {
		if err != nil || p == dir {
			return nil
		}
		rel, _ := filepath.Rel(dir, p)
		if d.IsDir() {
			out = append(out, rel+"/")
		} else if fi, err := d.Info(); err == nil {
			out = append(out, fmt.Sprintf("%s %d", rel, fi.Size()))
		}
		return nil
	})
	if len(out) > 400 {
		out = append(out[:400], fmt.Sprintf("... %d more", len(out)-400))
	}
	return out
}

// prefixLengths lists the partial lengths judged for a file of the given final size: the
// boundaries at which a bufio.Writer hands 4096-byte chunks to write(2) (and the page boundaries
// at which the kernel can cut a larger write short when SIGKILL arrives), their neighbours, and
// a few evenly spaced lengths.  The full length is the next hook's own state.
func prefixLengths(size int64) []int64 {
	set := map[int64]bool{0: true, 1: true, size - 1: true}
	for b := int64(4096); b < size+4096; b += 4096 {
		set[b-1], set[b], set[b+1] = true, true, true
	}
	for i := int64(1); i < 8; i++ {
		set[size*i/8] = true
	}
	var out []int64
	for l := range set {
		if l >= 0 && l < size {
			out = append(out, l)
		}
	}
	sort.Slice(out, func(i, j int) bool { return out[i] < out[j] })
	return out
}

func synthName(step string) string {
	if strings.HasPrefix(step, "add.") {
		return "raw-prefix"
	}
	return "index-prefix"
}

// synthPrefixes judges the states in which the file created at the previous hook (step, path) has
// been written only partially.  It is called at the following hook, when the file is complete.
func (k *caseRun) synthPrefixes(step, path string) {
	fi, err := os.Stat(path)
	if err != nil || !fi.Mode().IsRegular() {
		return
	}
	rel := k.rel(path)
	for _, l := range prefixLengths(fi.Size()) {
		l := l
		k.judgeCopy(k.dir, "synth:"+synthName(step), fmt.Sprintf("after %s with %d of %d bytes of %s written", step, l, fi.Size(), rel),
			"synth", func(dir string) error { return os.Truncate(filepath.Join(dir, rel), l) })
	}
}

// synthRemoveAll judges the states os.RemoveAll(path) can be killed in: it deletes the entries
// in readdir order, which is unspecified, then the directory itself.
func (k *caseRun) synthRemoveAll(path string) {
	ents, err := os.ReadDir(path)
	if err != nil {
		return
	}
	var names []string
	for _, e := range ents {
		names = append(names, e.Name())
	}
	sort.Strings(names)
	n := len(names)
	if n == 0 {
		return
	}
	var orders [][]string
	rev := make([]string, n)
	for i, s := range names {
		rev[n-1-i] = s
	}
	orders = append(orders, names, rev)
	// index first / index last, when an index is (still) there.
	for i, s := range names {
		if s == "index.gob" {
			rest := append(append([]string{}, names[:i]...), names[i+1:]...)
			orders = append(orders, append([]string{s}, rest...), append(append([]string{}, rest...), s))
		}
	}
	for p := 0; p < 4; p++ {
		o := make([]string, n)
		for i, j := range k.r.Perm(n) {
			o[i] = names[j]
		}
		orders = append(orders, o)
	}
	rel := k.rel(path)
	done := map[string]bool{}
	for oi, o := range orders {
		var cuts []int
		if n <= 16 {
			for j := 1; j <= n; j++ {
				cuts = append(cuts, j)
			}
		} else {
			set := map[int]bool{1: true, 2: true, 3: true, n - 2: true, n - 1: true, n: true}
			for len(set) < 14 {
				set[k.r.Range(1, n)] = true
			}
			for j := range set {
				cuts = append(cuts, j)
			}
			sort.Ints(cuts)
		}
		for _, j := range cuts {
			gone := append([]string{}, o[:j]...)
			sort.Strings(gone)
			key := strings.Join(gone, ",")
			if done[key] {
				continue // the state depends on the set removed, not on the order
			}
			done[key] = true
			first := o[:j]
			k.judgeCopy(k.dir, "synth:removeall-partial", fmt.Sprintf("inside RemoveAll(%s), order #%d, after deleting %d of %d entries %v",
				rel, oi, j, n, brief(first)), "synth", func(dir string) error {
				for _, name := range first {
					if err := os.RemoveAll(filepath.Join(dir, rel, name)); err != nil {
						return err
					}
				}
				return nil
			})
		}
	}
}

func brief(l []string) []string {
	if len(l) > 6 {
		return append(append([]string{}, l[:6]...), fmt.Sprintf("...+%d", len(l)-6))
	}
	return l
}

func isEmptyDir(p string) bool {
	ents, err := os.ReadDir(p)
	return err == nil && len(ents) == 0
}

// synthParents judges the state between the two removeDirIfEmpty calls that follow the removal
// of the mailbox directory (path): level-2 directory gone, level-1 still there.
func (k *caseRun) synthParents(path string) {
	l2 := filepath.Dir(path)
	if !isEmptyDir(l2) {
		return
	}
	rel := k.rel(l2)
	k.judgeCopy(k.dir, "synth:parents-partial", "after removing the empty level-2 directory "+rel+" but not its parent", "synth",
		func(dir string) error { return os.Remove(filepath.Join(dir, rel)) })
}

// synthMkdir judges the states inside os.MkdirAll(path): some of the missing ancestors made.
func (k *caseRun) synthMkdir(path string) {
	l2 := filepath.Dir(path)
	l1 := filepath.Dir(l2)
	for _, d := range []string{l1, l2} {
		if _, err := os.Stat(d); err == nil {
			continue
		}
		rel := k.rel(d)
		k.judgeCopy(k.dir, "synth:mkdir-partial", "inside MkdirAll, directories made up to "+rel, "synth",
			func(dir string) error { return os.MkdirAll(filepath.Join(dir, rel), 0o770) })
	}
}
