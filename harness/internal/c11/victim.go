package c11

import (
	"bufio"
	"context"
	"encoding/json"
	"fmt"
	"os"
	"os/exec"
	"path/filepath"
	"regexp"
	"runtime"
	"sort"
	"strings"
	"sync"
	"syscall"
	"time"

	"github.com/rs/zerolog"

	"github.com/inbucket/inbucket/v3/pkg/config"
	"github.com/inbucket/inbucket/v3/pkg/extension"
	"github.com/inbucket/inbucket/v3/pkg/storage"
	"github.com/inbucket/inbucket/v3/pkg/storage/file"
	"github.com/inbucket/inbucket/v3/pkg/verifhook"
)

const (
	victimEnv = "VERIF_C11_VICTIM"
	markStart = "/nonexistent/VERIF-MARK"
	markEnd   = "/nonexistent/VERIF-END"
)

// job is what a victim process executes: open the store, mark, run one operation, mark, exit.
type job struct {
	Path       string  `json:"path"`
	Cap        int     `json:"cap"`
	Op         *opSpec `json:"op"`
	KillAtHook int     `json:"kill_at_hook"`  // >0: SIGKILL itself when the n-th file.fs hook is reached
	Seq        *seqJob `json:"seq,omitempty"` // restart stream (restart.go): a sequence of deliveries instead of Op
}

// victimMain runs inside the vcheck binary when VERIF_C11_VICTIM names a job file.  It is
// called from this package's init, on the main thread, before anything else of the harness runs.
func victimMain() {
	runtime.LockOSThread()
	zerolog.SetGlobalLevel(zerolog.Disabled)
	b, err := os.ReadFile(os.Getenv(victimEnv))
	if err != nil {
		fmt.Fprintln(os.Stderr, "c11 victim: cannot read job:", err)
		os.Exit(5)
	}
	var j job
	if err := json.Unmarshal(b, &j); err != nil {
		fmt.Fprintln(os.Stderr, "c11 victim: bad job:", err)
		os.Exit(5)
	}
	if j.Seq != nil {
		seqVictim(&j) // never returns
	}
	st := openVictimStore(&j)
	if j.KillAtHook > 0 {
		n := 0
		verifhook.Set(func(site string, args ...string) {
			if site != "file.fs" {
				return
			}
			n++
			if n == j.KillAtHook {
				if len(args) > 0 {
					_ = os.WriteFile(j.Path+".killed-at", []byte(args[0]), 0o644)
				}
				_ = syscall.Kill(os.Getpid(), syscall.SIGKILL)
				select {}
			}
		})
	}
	_, _ = os.Open(markStart)
	_, err = execOp(st, j.Op)
	_, _ = os.Open(markEnd)
	if err != nil {
		fmt.Fprintln(os.Stderr, "c11 victim: operation failed:", err)
		os.Exit(4)
	}
	os.Exit(0)
}

func openVictimStore(j *job) storage.Store {
	st, err := file.New(config.Storage{Type: "file", Params: map[string]string{"path": j.Path}, MailboxMsgCap: j.Cap},
		extension.NewHost())
	if err != nil {
		fmt.Fprintln(os.Stderr, "c11 victim: cannot open store:", err)
		os.Exit(5)
	}
	return st
}

// ---- strace availability ----

var (
	straceOnce sync.Once
	straceOK   bool
)

var traceSet = "write,openat,unlinkat,renameat,mkdirat,?pwrite64,?open,?creat,?unlink,?rmdir,?rename,?renameat2,?mkdir,?truncate,?ftruncate"

// straceUsable reports whether strace can trace and kill a child here (installed, ptrace allowed).
func straceUsable() bool {
	straceOnce.Do(func() {
		if os.Getenv("VERIF_C11_NO_STRACE") != "" {
			return
		}
		path, err := exec.LookPath("strace")
		if err != nil {
			return
		}
		tr, err := exec.LookPath("true")
		if err != nil {
			return
		}
		ctx, cancel := context.WithTimeout(context.Background(), 30*time.Second)
		defer cancel()
		// The probe must end with the tracee killed by the injected signal.
		cmd := exec.CommandContext(ctx, path, "-f", "-o", os.DevNull, "-e", "trace="+traceSet,
			"-e", "inject=openat:signal=SIGKILL:when=1", tr)
		err = cmd.Run()
		if ee, ok := err.(*exec.ExitError); ok {
			if ws, ok := ee.Sys().(syscall.WaitStatus); ok && (ws.Signaled() && ws.Signal() == syscall.SIGKILL || ws.ExitStatus() == 137) {
				straceOK = true
			}
		}
	})
	return straceOK
}

// ---- running victims ----

type victimResult struct {
	killed   bool
	exitCode int
	stderr   string
	timedOut bool
}

func (k *caseRun) runVictim(j *job, strace []string) victimResult {
	jobPath := filepath.Join(k.scratch, "job.json")
	b, err := json.Marshal(j)
	must(err)
	must(os.WriteFile(jobPath, b, 0o644))
	ctx, cancel := context.WithTimeout(context.Background(), time.Duration(k.c.Slow)*2*time.Minute)
	defer cancel()
	var cmd *exec.Cmd
	if strace != nil {
		cmd = exec.CommandContext(ctx, "strace", append(strace, k.c.SelfExe)...)
	} else {
		cmd = exec.CommandContext(ctx, k.c.SelfExe)
	}
	cmd.Env = victimEnviron(jobPath)
	var errBuf strings.Builder
	cmd.Stderr = &errBuf
	err = cmd.Run()
	if ctx.Err() != nil {
		return victimResult{stderr: errBuf.String(), timedOut: true}
	}
	return waitResult(err, errBuf.String())
}

// victimEnviron is the environment of a victim process executing the job file.
func victimEnviron(jobPath string) []string {
	var env []string
	for _, e := range os.Environ() {
		if !strings.HasPrefix(e, "GOMAXPROCS=") && !strings.HasPrefix(e, "GORACE=") && !strings.HasPrefix(e, "GOTRACEBACK=") {
			env = append(env, e)
		}
	}
	return append(env, "GOMAXPROCS=1", victimEnv+"="+jobPath)
}

// waitResult classifies how a victim ended from the error of cmd.Run / cmd.Wait.
func waitResult(err error, stderr string) victimResult {
	res := victimResult{stderr: stderr}
	if ee, ok := err.(*exec.ExitError); ok {
		if ws, ok := ee.Sys().(syscall.WaitStatus); ok {
			if ws.Signaled() {
				res.killed = ws.Signal() == syscall.SIGKILL
				res.exitCode = 128 + int(ws.Signal())
			} else {
				res.exitCode = ws.ExitStatus()
				res.killed = res.exitCode == 137
			}
		}
	} else if err != nil {
		res.exitCode = -1
		res.stderr += " " + err.Error()
	}
	return res
}

// freshVictimDir re-creates the victim's store directory as a copy of the pre-state.
func (k *caseRun) freshVictimDir(pre string) string {
	vdir := filepath.Join(k.scratch, "victim")
	_ = os.RemoveAll(vdir)
	_ = os.Remove(vdir + ".killed-at")
	must(copyTree(pre, vdir))
	return vdir
}

// partB: a real process executes the operation on a copy of the pre-state and SIGKILLs itself at
// the n-th hook, for every n the in-process run reached.
func (k *caseRun) partB(pre string) {
	for n := 1; n <= k.nHooks; n++ {
		vdir := k.freshVictimDir(pre)
		res := k.runVictim(&job{Path: vdir, Cap: k.cap, Op: k.op, KillAtHook: n}, nil)
		if res.timedOut {
			k.c.Inconclusive(fmt.Sprintf("self-kill victim timed out (%s, hook %d)", k.summary(), n))
			continue
		}
		step := "?"
		if b, err := os.ReadFile(vdir + ".killed-at"); err == nil {
			step = string(b)
		}
		if !res.killed {
			// The victim's run had fewer hooks than the in-process one, or it failed.
			k.c.Count("selfkill_not_killed", 1)
			if res.exitCode != 0 {
				k.c.Inconclusive(fmt.Sprintf("self-kill victim exited %d without crash (%s, hook %d): %s", res.exitCode, k.summary(), n, res.stderr))
				continue
			}
			step = "completed"
		}
		k.judge(vdir, "selfkill:"+step, fmt.Sprintf("real SIGKILL at hook #%d (%s) in a separate process", n, step), "selfkill")
	}
	_ = os.RemoveAll(filepath.Join(k.scratch, "victim"))
}

// ---- strace trace parsing ----

var sysRE = regexp.MustCompile(`^(\d+)\s+([a-z0-9_]+)\(`)

type traceInfo struct {
	pre, post map[string]int // syscall entries before the start marker (inclusive) / inside the operation
	mark, end bool
	killLine  string // the syscall that was about to execute when the process was killed
	killInOp  bool
}

func parseTrace(path string) (*traceInfo, error) {
	f, err := os.Open(path)
	if err != nil {
		return nil, err
	}
	defer f.Close()
	ti := &traceInfo{pre: map[string]int{}, post: map[string]int{}}
	sc := bufio.NewScanner(f)
	sc.Buffer(make([]byte, 1<<20), 1<<20)
	unfLine, unfInOp := "", false
	for sc.Scan() {
		l := sc.Text()
		m := sysRE.FindStringSubmatch(l)
		if m == nil {
			continue
		}
		name := m[2]
		if strings.Contains(l, markEnd) {
			ti.end = true
		}
		switch {
		case ti.end:
		case ti.mark:
			ti.post[name]++
		default:
			ti.pre[name]++
		}
		if strings.Contains(l, markStart) {
			ti.mark = true
		}
		if strings.HasSuffix(l, "= ?") {
			ti.killLine = l[len(m[1]):]
			ti.killInOp = ti.mark && !ti.end
		} else if strings.HasSuffix(l, "<unfinished ...>") {
			unfLine, unfInOp = l[len(m[1]):], ti.mark && !ti.end
		}
	}
	if ti.killLine == "" {
		ti.killLine, ti.killInOp = unfLine, unfInOp
	}
	return ti, sc.Err()
}

var (
	quotedRE = regexp.MustCompile(`"([^"]*)"`)
	fdPathRE = regexp.MustCompile(`<([^>]*)>`)
	hexRE    = regexp.MustCompile(`^[0-9a-f]+$`)
)

// killSite names the syscall a victim was killed before, with the class of the file it concerns.
func killSite(line string) string {
	line = strings.TrimSpace(line)
	i := strings.IndexByte(line, '(')
	if i < 0 {
		return "unknown"
	}
	name := line[:i]
	p := ""
	switch name {
	case "write", "pwrite64", "ftruncate":
		if m := fdPathRE.FindStringSubmatch(line); m != nil {
			p = m[1]
		}
	case "renameat", "renameat2", "rename":
		if ms := quotedRE.FindAllStringSubmatch(line, 2); len(ms) == 2 {
			p = ms[1][1] // the destination
		}
	default:
		if m := quotedRE.FindStringSubmatch(line); m != nil {
			p = m[1]
		}
	}
	flags := ""
	if strings.HasPrefix(name, "open") {
		switch {
		case strings.Contains(line, "O_CREAT"):
			flags = ",create"
		case strings.Contains(line, "O_DIRECTORY"):
			flags = ",dir"
		default:
			flags = ",read"
		}
	}
	if name == "unlinkat" && strings.Contains(line, "AT_REMOVEDIR") {
		flags = ",rmdir"
	}
	return name + "(" + pathClass(p) + flags + ")"
}

func pathClass(p string) string {
	b := filepath.Base(p)
	switch {
	case p == "":
		return "?"
	case strings.HasSuffix(b, ".raw"):
		return "raw"
	case b == "index.gob.tmp":
		return "index.tmp"
	case b == "index.gob":
		return "index"
	case hexRE.MatchString(b) && len(b) == 40:
		return "mailbox-dir"
	case hexRE.MatchString(b) && len(b) == 6:
		return "level2-dir"
	case hexRE.MatchString(b) && len(b) == 3:
		return "level1-dir"
	case b == "mail":
		return "mail-dir"
	}
	return "other"
}

// partC: a real process executes the operation on a copy of the pre-state under strace and is
// SIGKILLed before its N-th syscall of each mutating name, for every N inside the operation.
func (k *caseRun) partC(pre string) {
	c := k.c
	trace := filepath.Join(k.scratch, "trace.txt")
	base := []string{"-f", "-y", "-o", trace, "-e", "trace=" + traceSet}

	// Dry run: count the operation's syscalls per name.
	vdir := k.freshVictimDir(pre)
	res := k.runVictim(&job{Path: vdir, Cap: k.cap, Op: k.op}, base)
	if res.timedOut || res.exitCode != 0 {
		c.Count("strace_dry_run_failed", 1)
		c.Inconclusive(fmt.Sprintf("strace dry run failed (%s): exit %d timeout=%v %s", k.summary(), res.exitCode, res.timedOut, fw_trunc(res.stderr)))
		return
	}
	dry, err := parseTrace(trace)
	if err != nil || !dry.mark || !dry.end {
		c.Count("strace_dry_run_failed", 1)
		c.Inconclusive(fmt.Sprintf("strace dry run shows no markers (%s): %v", k.summary(), err))
		return
	}
	k.judge(vdir, "strace:completed", "victim under strace ran to completion (dry run)", "final")

	var sysNames []string
	for n := range dry.post {
		sysNames = append(sysNames, n)
	}
	sort.Strings(sysNames)
	for _, name := range sysNames {
		total := dry.post[name]
		c.Max("max_"+name+"_calls_in_one_operation", int64(total))
		// Every N inside the operation; above 96 calls an evenly spaced sample that keeps both ends.
		var ns []int
		if total <= 96 {
			for i := 1; i <= total; i++ {
				ns = append(ns, i)
			}
		} else {
			c.Count("strace_points_sampled_cases", 1)
			seen := map[int]bool{}
			for i := 0; i < 96; i++ {
				n := 1 + i*(total-1)/95
				if !seen[n] {
					seen[n] = true
					ns = append(ns, n)
				}
			}
		}
		for _, i := range ns {
			when := dry.pre[name] + i
			vdir := k.freshVictimDir(pre)
			args := append(append([]string{}, base...), "-e", fmt.Sprintf("inject=%s:signal=SIGKILL:when=%d", name, when))
			res := k.runVictim(&job{Path: vdir, Cap: k.cap, Op: k.op}, args)
			if res.timedOut {
				c.Inconclusive(fmt.Sprintf("strace victim timed out (%s, %s #%d)", k.summary(), name, i))
				continue
			}
			site := "strace:" + name
			what := fmt.Sprintf("real SIGKILL before %s call #%d of %d of the operation", name, i, total)
			if res.killed {
				ti, err := parseTrace(trace)
				if err == nil && ti.killLine != "" {
					ks := killSite(ti.killLine)
					site = "strace:" + ks
					what += ": " + fw_trunc(strings.TrimSpace(ti.killLine))
					if ti.killInOp {
						c.Count("strace_kills_in_op", 1)
						c.Count("kill:"+ks, 1)
					} else {
						c.Count("strace_kills_outside_op", 1)
					}
				} else {
					c.Count("strace_kill_site_unparsed", 1)
				}
			} else {
				// The count drifted and the N-th call never happened: the run completed.
				c.Count("strace_not_killed", 1)
				if res.exitCode != 0 {
					c.Inconclusive(fmt.Sprintf("strace victim exited %d without being killed (%s, %s #%d): %s", res.exitCode, k.summary(), name, i, fw_trunc(res.stderr)))
					continue
				}
				site, what = "strace:completed", what+" (never reached; victim completed)"
			}
			k.judge(vdir, site, what, "strace")
		}
	}
	_ = os.RemoveAll(filepath.Join(k.scratch, "victim"))
	_ = os.Remove(trace)
}

func fw_trunc(s string) string {
	if len(s) > 300 {
		return s[:300] + "..."
	}
	return s
}
