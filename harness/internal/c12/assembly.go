package c12

import (
	"context"
	"fmt"
	"runtime"
	"time"

	"github.com/inbucket/inbucket/v3/pkg/config"
	"github.com/inbucket/inbucket/v3/pkg/server"

	"verifharness/internal/fw"
	"verifharness/internal/sut"
)

// Stream "assembly" (added after seeded change C12-12).  "The scan, and the scanner's run loop,
// stop promptly when shutdown is requested" is a statement about the scanner as the program runs
// it, and the program observes the stop through RetentionScanner.Join(), the last step of
// cmd/inbucket/main.go's shutdown (cancel; SMTP Drain; POP3 Drain; Join).  The other streams
// start the scanner themselves (rs.Start in a goroutine of the harness), so nothing ever
// exercised WHO starts it and WHEN: the scanner inbucket really runs is the one
// server.FullAssembly builds and server.Services.Start launches next to the listeners, and
// shutdown may be requested at any moment of that start-up - in particular before start-up has
// completed, or when it never completes because a listener cannot be opened (address in use:
// the service reports on Services.Notify() and main.go shuts down).  Whatever the start-up got
// to, once shutdown is requested Join must return.
//
// One case is one complete assembly: FullAssembly(conf), Services.Start(ctx, ready), then
//
//	healthy       all three listeners on free ports; the context is cancelled immediately after
//	              Start returned, after 0-400 scheduler yields, as soon as ready was reported, or
//	              a little after that;
//	start-failed  the address of one listener (SMTP, POP3 or web) is held by a listener of the
//	              harness; the context is cancelled when Notify() has delivered the error (what
//	              main.go does) or - a signal during start-up - after 0-400 yields without
//	              waiting for it;
//
// followed by main.go's sequence.  Retention is disabled (period 0: Start closes the channel at
// once) or enabled (the run loop sits in its one-minute wait), memory or file store.
//
// Oracle (bounded progress only): Join returns after the context was cancelled.  The two Drain
// calls are made because main.go makes them and because a Drain that overtakes a listener's
// start-up changes what that start-up does; a Drain that does not return is C19's subject, it is
// counted and reported inconclusive here, and Join is still called and judged.
//
// pkg/server/web keeps its server, listener, router and configuration in package variables: two
// assemblies in one process race with each other there, which the race detector reports and which
// is no behaviour of inbucket.  The stream therefore has exactly one case per child process
// (c.NBatch cases), and nothing else in this check touches pkg/server/web.
func runAssembly(c *fw.Ctx, idx int, r *fw.Rand) {
	failed := idx%2 == 1
	which := "none"
	moment := []string{"after-start-returned", "yields", "at-ready", "after-ready"}[(idx/2)%4]
	if failed {
		which = []string{"pop3", "smtp", "web"}[(idx/2)%3]
		moment = "at-notify"
		if r.Chance(1, 3) {
			moment = "yields"
		}
	}
	backend := backends[r.Intn(2)]
	retention := r.Bool()
	yields := r.Intn(401)

	conf := sut.DefaultConf()
	conf.Lua = config.Lua{Path: ""}
	conf.Web.UIDir = c.TempDir("c12ui")
	conf.Web.GreetingFile = conf.Web.UIDir + "/greeting.html"
	if retention {
		conf.Storage.RetentionPeriod = time.Duration(r.Range(1, 2000)) * time.Hour
		conf.Storage.RetentionSleep = []time.Duration{0, 50 * time.Millisecond}[r.Intn(2)]
	}
	if backend == "file" {
		conf.Storage.Type = "file"
		conf.Storage.Params = map[string]string{"path": c.TempDir("c12asm")}
	}
	if failed {
		l, err := sut.ListenLoopback()
		if err != nil {
			c.Inconclusive("the machine has no free port for a listener")
			return
		}
		defer l.Close()
		switch which {
		case "pop3":
			conf.POP3.Addr = l.Addr().String()
		case "smtp":
			conf.SMTP.Addr = l.Addr().String()
		case "web":
			conf.Web.Addr = l.Addr().String()
		}
	}
	variant := "healthy"
	if failed {
		variant = "start-failed"
	}
	desc := fmt.Sprintf("assembly/%s/%s/cancel %s/%s/retention=%v", variant, which, moment, backend, retention)
	detail := map[string]any{"variant": variant, "occupied_listener": which, "cancel_moment": moment, "yields": yields,
		"backend": backend, "retention_period": conf.Storage.RetentionPeriod.String(), "retention_sleep": conf.Storage.RetentionSleep.String()}

	svc, err := server.FullAssembly(conf)
	if err != nil {
		panic(err)
	}
	ctx, cancel := context.WithCancel(context.Background())
	defer cancel()
	ready := make(chan struct{})
	svc.Start(ctx, func() { close(ready) })

	wd := 30 * time.Second * time.Duration(c.Slow)
	switch moment {
	case "after-start-returned":
	case "yields":
		for y := 0; y < yields; y++ {
			runtime.Gosched()
		}
	case "at-ready", "after-ready":
		select {
		case <-ready:
		case err := <-svc.Notify():
			c.Inconclusive(fmt.Sprintf("%s: a service failed to start although every address was free: %v", desc, err))
			return
		case <-time.After(wd):
			c.Inconclusive(desc + ": Services.Start reported neither ready nor a failure")
			return
		}
		if moment == "after-ready" {
			time.Sleep(time.Duration(r.Intn(20)) * time.Millisecond) // no part of the verdict
		}
	case "at-notify":
		select {
		case err := <-svc.Notify():
			if err == nil {
				c.Inconclusive(desc + ": Notify() yielded nil")
				return
			}
			detail["start_error"] = err.Error()
		case <-ready:
			c.Inconclusive(desc + ": ready was reported although the address of one listener is occupied")
			return
		case <-time.After(wd):
			c.Inconclusive(desc + ": Services.Start reported neither ready nor a failure")
			return
		}
	}
	// Evidence only: had start-up completed when shutdown was requested?
	readyAtCancel := false
	select {
	case <-ready:
		readyAtCancel = true
	default:
	}
	// main.go from here on.
	cancel()
	for _, st := range []struct {
		name string
		f    func()
	}{{"smtp", svc.SMTPServer.Drain}, {"pop3", svc.POP3Server.Drain}} {
		if ok, _ := c.Within(20*time.Second, st.f); !ok {
			// Not the scanner: counted, not judged under C12 (see C19 startfail / full).
			c.Count("assembly_drain_not_returned:"+st.name, 1)
			c.Inconclusive(fmt.Sprintf("%s: %s Drain did not return after cancel although no session was ever open (C19's subject); Join is judged regardless", desc, st.name))
		}
	}
	ok, dump := c.Within(20*time.Second, svc.RetentionScanner.Join)
	if !ok {
		detail["ready_when_cancelled"] = readyAtCancel
		name := "assembly-join:" + variant
		if !failed && !readyAtCancel {
			name = "assembly-join:cancel-before-ready"
		}
		what := "all listeners started"
		if failed {
			what = "the " + which + " listener could not be opened (address in use)"
		}
		c.Hang(name, fmt.Sprintf("%s: services built by server.FullAssembly and started by Services.Start (%s; ready reported before cancel: %v); "+
			"the context was cancelled and SMTP Drain, POP3 Drain were called as in cmd/inbucket/main.go, but RetentionScanner.Join() does not return: "+
			"the scanner's run loop is not seen to stop after shutdown was requested", desc, what, readyAtCancel), dump)
		return
	}
	c.Count("assembly_cases", 1)
	c.Count("assembly_join_returned:"+variant, 1)
	if !readyAtCancel {
		c.Count("assembly_cancelled_before_ready", 1)
	}
	if retention {
		c.Count("assembly_join_returned_retention_enabled", 1)
	}
	c.NonTrivial(fmt.Sprintf("assembly|%s|%s|%s|%s|retention=%v", variant, which, moment, backend, retention))
	c.Sample(map[string]any{"stream": "assembly", "variant": variant, "occupied_listener": which, "cancel_moment": moment,
		"ready_when_cancelled": readyAtCancel, "backend": backend, "retention": retention})
}
