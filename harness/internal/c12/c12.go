// Package c12 will hold the check for property C12.
package c12
