// Package c12 decides C12: a retention scan removes exactly the expired messages and nothing
// else, on both real back ends, also while clients deliver, remove and purge; a period of zero
// disables retention; scan and run loop stop when the context is cancelled.
//
// The real storage.RetentionScanner runs against the real mem and file stores.  Message dates are
// placed at least ten minutes away from the cut-off, so the wall clock read inside DoScan cannot
// change which messages are expired.  Streams:
//
//	seq     sequential scans over generated populations; store compared with the model
//	inject  client operations executed at chosen steps of the scan (k-th visited mailbox; on the
//	        file store also between the directory levels of VisitMailboxes) - deterministic races
//	race    scans racing with 1-4 client goroutines; verdict from a logical clock
//	cancel  context cancelled at every k-th visit and every k-th RemoveMessage
//	start   Start with period 0; Start with a positive period cancelled before its first scan
//	loop    the run loop performs a real scan after its one-minute delay, then is cancelled between scans or mid-scan
//	fault, received, cancel0: see fault.go, received.go
//	listener   (tail of cancel0) scans purging 150-400 messages while an after.message_deleted listener
//	        does not return (listener.go)
//	sizelimit  scans of a full memory store with maxkb while deliveries force evictions (sizelimit.go)
//	assembly   the scanner as server.Services.Start runs it: shutdown requested at any moment of the
//	        start-up of a full assembly, also one whose listener cannot be opened (assembly.go)
//
// Every stream draws its store configuration from pickConf (conf.go): file stores under hostile
// directory names, memory stores with a size limit.
package c12

import (
	"context"
	"errors"
	"fmt"
	"runtime"
	"sort"
	"strconv"
	"sync"
	"sync/atomic"
	"time"

	"github.com/inbucket/inbucket/v3/pkg/config"
	"github.com/inbucket/inbucket/v3/pkg/storage"
	"github.com/inbucket/inbucket/v3/pkg/verifhook"

	"verifharness/internal/fw"
	"verifharness/internal/sut"
)

func init() {
	fw.Register(&fw.Prop{
		ID:    "C12",
		Level: "exploration",
		Race:  true,
		Rule: "populations of 1-40 mailboxes x 0-15 messages (dates = now - period -/+ 10min..30d, never nearer the cut-off; periods 1h..90d) " +
			"on mem and file; streams: seq (1-3 DoScan rounds with client changes between, store == model minus expired), inject (purge/remove/deliver " +
			"executed at the k-th visited mailbox and, on file, between VisitMailboxes directory levels), race (1-4 client goroutines deliver young/old, " +
			"remove, purge whole mailboxes while 1-3 scans run; verdict by logical clock, then one quiet scan and exact comparison), cancel (context " +
			"cancelled at every k-th visit / k-th RemoveMessage, RetentionSleep 20ms), start (period 0; positive period cancelled before first scan), " +
			"loop (real run-loop scan after the one-minute delay, cancelled between scans or while the scan is parked mid-way), " +
			"sizelimit (memory store with maxkb 4-32 KiB filled to 85-110%, 1-3 scans while 1-4 clients deliver messages forcing evictions, released at the scan's k-th RemoveMessage; " +
			"young mail demanded only where the limit provably cannot evict it), " +
			"assembly (one server.FullAssembly + Services.Start per child process: all listeners healthy and the context cancelled right after Start returned / after 0-400 yields / at ready / after ready, " +
			"or the address of the SMTP, POP3 or web listener occupied and the context cancelled at Notify() or after 0-400 yields; then SMTP Drain, POP3 Drain as in main.go and RetentionScanner.Join must return; " +
			"retention disabled or enabled, mem or file). Store configurations: half of the file stores under hostile directory names " +
			"([ ] \\ * ? { } ~ % $ spaces unicode leading dot/dash, 200-byte component), a third of the memory stores with a roomy maxkb. Non-trivial: a scan that had >=1 expired and >=1 unexpired message " +
			"(distinct by back end, period class, size buckets, stream-specific step).",
		Assumptions: []string{
			"message dates are >= 10 minutes away from the cut-off, and a case finishes within 10 minutes of reading the clock, so time.Now() inside DoScan cannot change the expected result",
			"DoScan is never called with period 0 (the documented way to disable retention is the guard in Start)",
			"under cancellation only 'no further mailbox is visited', 'DoScan/Start/Join return' and 'no unexpired message is lost' are demanded; partial progress is not",
			"messages delivered while a scan runs must survive if unexpired and are don't-care if expired; client operations overlapping an add on the logical clock make that message don't-care",
			"a failing AddMessage of a racing client is counted, not judged (C09)",
			"assembly stream: only the return of RetentionScanner.Join after cancel is judged; a Drain that does not return is counted and left to C19",
		},
		MinObs: func(tier string) map[string]int64 {
			m := map[string]int64{
				"expired_removed": 500, "unexpired_kept": 500,
				"seq_scans:mem": 20, "seq_scans:file": 20,
				"inject_ops_during_scan": 50, "inject_level_hook_ops": 5,
				"race_cases:mem": 10, "race_cases:file": 10, "race_client_ops_overlapping_scan": 50,
				"race_purges_overlapping_scan": 5,
				"cancel_points:visit":          20, "cancel_points:remove": 20, "cancel_stopped_early": 20,
				"start_zero_returned": 2, "start_cancel_returned": 2,
				"distinct_nontrivial": 60,
				// store configurations (after C12-9, C12-10)
				"file_stores_hostile_path": 100, "file_stores_glob_meta_path": 30, "seq_scans_hostile_path": 20,
				"mem_stores_with_roomy_size_limit": 50,
				"sizelimit_cases":                  20, "sizelimit_evictions": 100, "sizelimit_deliveries_overlapping_scan": 40,
				"sizelimit_young_demanded": 100,
			}
			// the scanner as Services.Start runs it (after C12-12): one assembly per child process
			m["assembly_join_returned:healthy"] = 2
			m["assembly_join_returned:start-failed"] = 2
			m["loop_scans_observed"] = 1
			m["loop_mid_scan_cancels"] = 1
			// scans with a stuck after.message_deleted listener and 150-400 expired messages (after C12-13)
			m["listener_scans_returned:mem"] = 2
			m["listener_scans_returned:file"] = 2
			m["listener_cancelled_mid_scan"] = 2
			m["listener_expired_purged"] = 600
			m["listener_events_entered_while_stuck"] = 1
			if tier == "thorough" {
				m["loop_scans_observed"] = 2
				m["assembly_join_returned:healthy"] = 4
				m["assembly_join_returned:start-failed"] = 4
				m["loop_mid_scan_cancels"] = 2
			}
			return m
		},
		Run: run,
	})
}

var backends = []string{"mem", "file"}

func run(c *fw.Ctx) {
	c.Cases("seq", c.N(240, 5000), func(i int, r *fw.Rand) { runSeq(c, i, r) })
	c.Cases("inject", c.N(240, 4000), func(i int, r *fw.Rand) { runInject(c, i, r) })
	c.Cases("race", c.N(240, 4000), func(i int, r *fw.Rand) { runRace(c, i, r) })
	c.Cases("cancel", c.N(12, 200), func(i int, r *fw.Rand) { runCancel(c, i, r) })
	c.Cases("start", c.N(16, 64), func(i int, r *fw.Rand) { runStart(c, i, r) })
	c.Cases("fault", c.N(60, 900), func(i int, r *fw.Rand) { runFault(c, i, r) })
	c.Cases("received", c.N(120, 2400), func(i int, r *fw.Rand) { runReceived(c, i, r) })
	// The tail of cancel0 is the "listener" scenario (listener.go, after C12-13); the cases before it
	// keep the indices, and so the populations, they always had.
	nCancel0 := c.N(24, 400)
	c.Cases("cancel0", nCancel0+c.N(4, 16), func(i int, r *fw.Rand) {
		if i < nCancel0 {
			runCancel0(c, i, r)
		} else {
			runListener(c, i-nCancel0, r)
		}
	})
	c.Cases("sizelimit", c.N(64, 1200), func(i int, r *fw.Rand) { runSizeLimit(c, i, r) })
	// exactly one full assembly per child process: pkg/server/web is a process singleton (assembly.go)
	c.Cases("assembly", c.NBatch, func(i int, r *fw.Rand) { runAssembly(c, i, r) })
	c.Cases("loop", c.N(2, 8), func(i int, r *fw.Rand) { runLoop(c, i, r) })
}

// scanOnce runs DoScan under a watchdog.  It returns false when the case must be abandoned.
func scanOnce(c *fw.Ctx, rs *storage.RetentionScanner, ctx context.Context, stream string) (err error, ok bool) {
	ok, dump := c.Within(90*time.Second, func() { err = rs.DoScan(ctx) })
	if !ok {
		c.Hang("doscan-return:"+stream, "DoScan did not return", dump)
		return nil, false
	}
	return err, true
}

func expectSimple(m *pmsg) int {
	if m.Old {
		return mustGone
	}
	return mustStay
}

func dropExpired(model map[string][]*pmsg) (removed, kept int) {
	for n, l := range model {
		var k []*pmsg
		for _, m := range l {
			if m.Old {
				removed++
			} else {
				k = append(k, m)
			}
		}
		kept += len(k)
		if len(k) == 0 {
			delete(model, n)
		} else {
			model[n] = k
		}
	}
	return
}

// ---------------------------------------------------------------------------------------------
// seq

func runSeq(c *fw.Ctx, idx int, r *fw.Rand) {
	backend := backends[idx%2]
	spec := genPop(r, 1, 40, 15, false)
	sc := pickConf(c, "seq", idx, backend)
	st, _, err := newStore(c, backend, sc)
	if err != nil {
		panic(err)
	}
	now := time.Now()
	model, err := instantiate(st, &spec, now)
	if err != nil {
		c.Inconclusive("population could not be stored: " + err.Error())
		return
	}
	all := map[string]bool{}
	for _, b := range spec.Boxes {
		all[b.Name] = true
	}
	allNames := func() []string {
		var n []string
		for k := range all {
			n = append(n, k)
		}
		sort.Strings(n)
		return n
	}
	detail := map[string]any{"backend": backend, "store_conf": sc, "period": spec.Period.String(), "population": spec}
	pre, err := sut.Snapshot(st, allNames(), true)
	if err != nil {
		c.Inconclusive("store unreadable before the scan: " + err.Error())
		return
	}
	if vs := judge(pre, model, func(*pmsg) int { return mustStay }, false); len(vs) > 0 {
		c.Inconclusive("store differs from what was delivered before any scan: " + vs[0].what)
		return
	}
	w := &wrapStore{Store: st}
	rs := storage.NewRetentionScanner(config.Storage{RetentionPeriod: spec.Period, RetentionSleep: 0}, w)
	rounds := r.Range(1, 3)
	for round := 0; round < rounds; round++ {
		old, young := 0, 0
		for _, l := range model {
			for _, m := range l {
				if m.Old {
					old++
				} else {
					young++
				}
			}
		}
		serr, ok := scanOnce(c, rs, context.Background(), "seq")
		if !ok {
			return
		}
		c.Count("seq_scans:"+backend, 1)
		if sc.hostile() {
			c.Count("seq_scans_hostile_path", 1)
		}
		if sc.MaxKB > 0 {
			c.Count("seq_scans_roomy_size_limit", 1)
		}
		if serr != nil {
			c.Violation("C12:scan-error:seq", fmt.Sprintf("DoScan on a quiet %s store returned %v", backend, serr), detail)
			return
		}
		snap, err := sut.Snapshot(st, allNames(), true)
		if err != nil {
			c.Violation("C12:store-unreadable-after-scan:seq", fmt.Sprintf("%s store after DoScan: %v", backend, err), detail)
			return
		}
		if vs := judge(snap, model, expectSimple, false); len(vs) > 0 {
			_, rem := w.snapshot()
			d := map[string]any{"round": round, "remove_calls": tail(rem, 40)}
			for k, v := range detail {
				d[k] = v
			}
			report(c, "seq", vs, d)
			return
		}
		removed, kept := dropExpired(model)
		c.Count("expired_removed", int64(removed))
		c.Count("unexpired_kept", int64(kept))
		if old > 0 && young > 0 {
			c.NonTrivial(fmt.Sprintf("seq|%s|%s|boxes=%s|old=%s|young=%s|round=%d", backend, spec.PClass,
				bucket(len(spec.Boxes)), bucket(old), bucket(young), round))
			// The store configuration the exact comparison was made under (after C12-9 / C12-10).
			c.NonTrivial("seq-conf|" + backend + "|" + sc.sig())
			if sc.globMeta() {
				c.Count("seq_exact_scans_glob_meta_path", 1)
			}
		}
		if round == 0 {
			c.Sample(map[string]any{"stream": "seq", "backend": backend, "period": spec.Period.String(),
				"mailboxes": len(spec.Boxes), "expired": old, "unexpired": young, "removed": removed})
		}
		if round+1 == rounds {
			break
		}
		// Client activity between scans: new mail (both sides of the cut-off), explicit removals.
		nops := r.Range(0, 12)
		for k := 0; k < nops; k++ {
			switch r.Weighted([]int{6, 2, 1}) {
			case 0:
				name := ""
				if r.Bool() || len(spec.Boxes) == 0 {
					name = "n" + r.Letters(r.Range(2, 6), "abcdefghijklmnopqrstuvwxyz")
				} else {
					name = spec.Boxes[r.Intn(len(spec.Boxes))].Name
				}
				all[name] = true
				ms := genMsg(r, spec.Period)
				ms.Seen = false
				pm, err := addOne(st, name, ms, now, spec.Period)
				if err != nil {
					c.Inconclusive("AddMessage failed between scans: " + err.Error())
					return
				}
				model[name] = append(model[name], pm)
			case 1:
				ns := names(model)
				if len(ns) == 0 {
					continue
				}
				n := ns[r.Intn(len(ns))]
				j := r.Intn(len(model[n]))
				if err := st.RemoveMessage(n, model[n][j].ID); err != nil {
					c.Inconclusive("RemoveMessage failed between scans: " + err.Error())
					return
				}
				model[n] = append(append([]*pmsg{}, model[n][:j]...), model[n][j+1:]...)
				if len(model[n]) == 0 {
					delete(model, n)
				}
			case 2:
				ns := names(model)
				if len(ns) == 0 {
					continue
				}
				n := ns[r.Intn(len(ns))]
				if err := st.PurgeMessages(n); err != nil {
					c.Inconclusive("PurgeMessages failed between scans: " + err.Error())
					return
				}
				delete(model, n)
			}
		}
	}
}

func tail[T any](l []T, n int) []T {
	if len(l) > n {
		return l[len(l)-n:]
	}
	return l
}

// ---------------------------------------------------------------------------------------------
// inject: client operations at chosen steps of the scan, on the scanner's own goroutine.

type injOp struct {
	Kind string  `json:"kind"` // purge | remove | deliver
	Box  string  `json:"box"`
	Idx  int     `json:"idx,omitempty"` // remove: index into the mailbox's pre-population
	Msg  msgSpec `json:"msg,omitempty"`
}

type trigger struct {
	Site string  `json:"site"` // visit | level
	At   int     `json:"at"`   // ordinal of the visit / of the level point, from 1
	Ops  []injOp `json:"ops"`
}

// tracked is the model's record of one message in the inject and race streams.
type tracked struct {
	*pmsg
	addCall, addRet int64 // logical clock; 0 for the pre-population
	duringScan      bool
	removedOK       bool // a client RemoveMessage returned nil
	removeUnclear   bool // a client RemoveMessage returned an error other than not-exist
	purgedAfter     bool // a purge of its mailbox was called after the add had returned
	purgeMaybe      bool // a purge of its mailbox overlapped the add
}

func runInject(c *fw.Ctx, idx int, r *fw.Rand) {
	backend := backends[idx%2]
	useLevel := backend == "file" && (idx/2)%2 == 0
	spec := genPop(r, 2, 16, 8, useLevel)
	sc := pickConf(c, "inject", idx, backend)
	st, _, err := newStore(c, backend, sc)
	if err != nil {
		panic(err)
	}
	now := time.Now()
	model0, err := instantiate(st, &spec, now)
	if err != nil {
		c.Inconclusive("population could not be stored: " + err.Error())
		return
	}
	boxes := map[string][]*tracked{}
	allNames := map[string]bool{}
	for _, b := range spec.Boxes {
		allNames[b.Name] = true
	}
	for n, l := range model0 {
		for _, m := range l {
			boxes[n] = append(boxes[n], &tracked{pmsg: m})
		}
	}
	// Plan.
	nb := len(spec.Boxes)
	maxAt := nb
	site := "visit"
	if useLevel {
		site = "level"
		maxAt = 3 * nb
	}
	var plan []trigger
	ntr := r.Range(1, 4)
	for t := 0; t < ntr; t++ {
		tr := trigger{Site: site, At: r.Range(1, maxAt)}
		if r.Chance(1, 3) {
			tr.At = 1
		}
		nops := r.Range(1, 4)
		for k := 0; k < nops; k++ {
			b := spec.Boxes[r.Intn(nb)]
			switch r.Weighted([]int{5, 2, 3}) {
			case 0:
				tr.Ops = append(tr.Ops, injOp{Kind: "purge", Box: b.Name})
			case 1:
				if len(b.Msgs) > 0 {
					tr.Ops = append(tr.Ops, injOp{Kind: "remove", Box: b.Name, Idx: r.Intn(len(b.Msgs))})
				}
			case 2:
				name := b.Name
				if r.Bool() {
					name = "i" + r.Letters(r.Range(2, 6), "abcdefghijklmnopqrstuvwxyz")
				}
				ms := genMsg(r, spec.Period)
				ms.Seen = false
				tr.Ops = append(tr.Ops, injOp{Kind: "deliver", Box: name, Msg: ms})
			}
		}
		plan = append(plan, tr)
	}
	detail := map[string]any{"backend": backend, "store_conf": sc, "period": spec.Period.String(), "population": spec, "plan": plan}

	var opErrs []string
	executed := 0
	levelOps := 0
	pre := map[string][]*pmsg{}
	for n, l := range model0 {
		pre[n] = append([]*pmsg{}, l...)
	}
	exec := func(ops []injOp, level bool) {
		for _, op := range ops {
			executed++
			if level {
				levelOps++
			}
			switch op.Kind {
			case "purge":
				if err := st.PurgeMessages(op.Box); err != nil {
					opErrs = append(opErrs, "purge "+op.Box+": "+err.Error())
					for _, m := range boxes[op.Box] {
						m.purgeMaybe = true
					}
					continue
				}
				for _, m := range boxes[op.Box] {
					m.purgedAfter = true
				}
			case "remove":
				if op.Idx >= len(pre[op.Box]) {
					continue
				}
				target := pre[op.Box][op.Idx]
				err := st.RemoveMessage(op.Box, target.ID)
				for _, m := range boxes[op.Box] {
					if m.pmsg == target {
						switch {
						case err == nil:
							m.removedOK = true
						case !errors.Is(err, storage.ErrNotExist):
							m.removeUnclear = true
							opErrs = append(opErrs, "remove "+op.Box+"/"+target.ID+": "+err.Error())
						}
					}
				}
			case "deliver":
				pm, err := addOne(st, op.Box, op.Msg, now, spec.Period)
				if err != nil {
					opErrs = append(opErrs, "deliver "+op.Box+": "+err.Error())
					continue
				}
				allNames[op.Box] = true
				boxes[op.Box] = append(boxes[op.Box], &tracked{pmsg: pm, duringScan: true})
			}
		}
	}

	// In half of the cases a young message is also delivered into the very mailbox whose snapshot
	// the scanner is about to process (the window between snapshot and removal): it must survive
	// whatever the scanner decides about the snapshot.
	deliverHere := r.Bool()
	detail["deliver_into_visited_mailbox"] = deliverHere
	w := &wrapStore{Store: st}
	if !useLevel {
		w.onVisit = func(k int, ms []storage.Message) {
			for _, tr := range plan {
				if tr.At == k {
					exec(tr.Ops, false)
				}
			}
			if deliverHere && len(ms) > 0 {
				name := ms[0].Mailbox()
				pm, err := addOne(st, name, msgSpec{Old: false, Delta: minDelta, Subject: fmt.Sprintf("here-%d", k)}, now, spec.Period)
				if err != nil {
					opErrs = append(opErrs, "deliver-here "+name+": "+err.Error())
					return
				}
				executed++
				allNames[name] = true
				boxes[name] = append(boxes[name], &tracked{pmsg: pm, duringScan: true})
			}
		}
	} else {
		points := 0
		verifhook.Set(func(site string, args ...string) {
			if site != "file.visit.level" {
				return
			}
			points++
			for _, tr := range plan {
				if tr.At == points {
					exec(tr.Ops, true)
				}
			}
		})
	}
	rs := storage.NewRetentionScanner(config.Storage{RetentionPeriod: spec.Period, RetentionSleep: 0}, w)
	serr, ok := scanOnce(c, rs, context.Background(), "inject")
	verifhook.Set(nil)
	w.mu.Lock()
	w.onVisit = nil
	w.mu.Unlock()
	if !ok {
		return
	}
	c.Count("inject_ops_during_scan", int64(executed))
	c.Count("inject_level_hook_ops", int64(levelOps))
	detail["op_errors"] = opErrs
	if serr != nil {
		c.Violation("C12:scan-error:inject", fmt.Sprintf("DoScan on the %s store returned %v while a client emptied mailboxes during the scan", backend, serr), detail)
		return
	}
	for _, e := range opErrs {
		_ = e
		c.Count("inject_client_op_errors", 1)
	}
	want := map[string][]*pmsg{}
	info := map[*pmsg]*tracked{}
	for n, l := range boxes {
		for _, m := range l {
			want[n] = append(want[n], m.pmsg)
			info[m.pmsg] = m
		}
	}
	var sorted []string
	for n := range allNames {
		sorted = append(sorted, n)
	}
	sort.Strings(sorted)
	expect := func(final bool) func(*pmsg) int {
		return func(m *pmsg) int {
			t := info[m]
			switch {
			case t.removedOK || t.purgedAfter:
				return mustGone
			case m.Old && (!t.duringScan || final):
				return mustGone
			case t.removeUnclear || t.purgeMaybe:
				return dontCare
			case !m.Old:
				return mustStay
			}
			return dontCare
		}
	}
	snap, err := sut.Snapshot(st, sorted, true)
	if err != nil {
		c.Violation("C12:store-unreadable-after-scan:inject", fmt.Sprintf("%s store after DoScan: %v", backend, err), detail)
		return
	}
	if vs := judge(snap, want, expect(false), false); len(vs) > 0 {
		report(c, "inject", vs, detail)
		return
	}
	// A second, undisturbed scan: now every expired message must be gone.
	serr, ok = scanOnce(c, rs, context.Background(), "inject")
	if !ok {
		return
	}
	if serr != nil {
		c.Violation("C12:scan-error:inject", fmt.Sprintf("second DoScan on the %s store returned %v", backend, serr), detail)
		return
	}
	snap, err = sut.Snapshot(st, sorted, true)
	if err != nil {
		c.Violation("C12:store-unreadable-after-scan:inject", fmt.Sprintf("%s store after DoScan: %v", backend, err), detail)
		return
	}
	if vs := judge(snap, want, expect(true), false); len(vs) > 0 {
		report(c, "inject-final", vs, detail)
		return
	}
	gone, stay := 0, 0
	for _, t := range info {
		switch expect(true)(t.pmsg) {
		case mustGone:
			if t.Old {
				gone++
			}
		case mustStay:
			stay++
		}
	}
	c.Count("expired_removed", int64(gone))
	c.Count("unexpired_kept", int64(stay))
	if executed > 0 && gone > 0 && stay > 0 {
		kinds := map[string]bool{}
		for _, tr := range plan {
			for _, op := range tr.Ops {
				kinds[op.Kind] = true
			}
		}
		var ks []string
		for k := range kinds {
			ks = append(ks, k)
		}
		sort.Strings(ks)
		c.NonTrivial(fmt.Sprintf("inject|%s|%s|%s|boxes=%s|ops=%v|first=%d", backend, site, spec.PClass, bucket(nb), ks, plan[0].At))
	}
	c.Sample(map[string]any{"stream": "inject", "backend": backend, "site": site, "plan": plan, "executed_ops": executed})
}

// ---------------------------------------------------------------------------------------------
// race: real goroutines.

type clientOp struct {
	Kind   string  `json:"kind"`
	Box    string  `json:"box"`
	Msg    msgSpec `json:"msg,omitempty"`
	target *tracked
	Yields int `json:"yields"`
	// outcome
	ID    string `json:"id,omitempty"`
	Call  int64  `json:"call"`
	Ret   int64  `json:"ret"`
	Err   string `json:"err,omitempty"`
	nx    bool   // error was ErrNotExist
	added *tracked
}

func runRace(c *fw.Ctx, idx int, r *fw.Rand) {
	backend := backends[idx%2]
	spec := genPop(r, 2, 14, 8, backend == "file" && r.Chance(1, 3))
	sc := pickConf(c, "race", idx, backend)
	st, _, err := newStore(c, backend, sc)
	if err != nil {
		panic(err)
	}
	now := time.Now()
	model0, err := instantiate(st, &spec, now)
	if err != nil {
		c.Inconclusive("population could not be stored: " + err.Error())
		return
	}
	boxes := map[string][]*tracked{}
	allNames := map[string]bool{}
	var prepop []*tracked
	for _, b := range spec.Boxes {
		allNames[b.Name] = true
	}
	for _, n := range names(model0) {
		for _, m := range model0[n] {
			t := &tracked{pmsg: m}
			boxes[n] = append(boxes[n], t)
			prepop = append(prepop, t)
		}
	}
	sleep := []time.Duration{0, 0, 20 * time.Microsecond, 200 * time.Microsecond, time.Millisecond}[r.Intn(5)]
	nscans := r.Range(1, 3)
	nclients := r.Range(1, 4)
	plans := make([][]*clientOp, nclients)
	for j := range plans {
		nops := r.Range(4, 30)
		for k := 0; k < nops; k++ {
			op := &clientOp{Yields: r.Intn(4)}
			b := spec.Boxes[r.Intn(len(spec.Boxes))]
			switch r.Weighted([]int{5, 3, 3}) {
			case 0:
				op.Kind = "deliver"
				op.Box = b.Name
				if r.Chance(1, 3) {
					op.Box = "r" + strconv.Itoa(j) + r.Letters(r.Range(1, 4), "abcdefghijklmnopqrstuvwxyz")
				}
				op.Msg = genMsg(r, spec.Period)
				op.Msg.Seen = false
			case 1:
				op.Kind = "remove"
				if len(prepop) == 0 {
					op.Kind = "purge"
					op.Box = b.Name
					break
				}
				op.target = prepop[r.Intn(len(prepop))]
				op.Box = op.target.Mailbox
			case 2:
				op.Kind = "purge"
				op.Box = b.Name
			}
			plans[j] = append(plans[j], op)
		}
	}
	detail := map[string]any{"backend": backend, "store_conf": sc, "period": spec.Period.String(), "population": spec,
		"clients": nclients, "scans": nscans, "retention_sleep": sleep.String()}

	var clock atomic.Int64
	tick := func() int64 { return clock.Add(1) }
	start := make(chan struct{})
	var wg sync.WaitGroup
	w := &wrapStore{Store: st}
	rs := storage.NewRetentionScanner(config.Storage{RetentionPeriod: spec.Period, RetentionSleep: sleep}, w)
	type scanRec struct {
		Call, Ret int64
		Err       string
	}
	scans := make([]scanRec, nscans)
	wg.Add(1)
	go func() {
		defer wg.Done()
		<-start
		for s := 0; s < nscans; s++ {
			scans[s].Call = tick()
			if err := rs.DoScan(context.Background()); err != nil {
				scans[s].Err = err.Error()
			}
			scans[s].Ret = tick()
		}
	}()
	for j := 0; j < nclients; j++ {
		ops := plans[j]
		wg.Add(1)
		go func() {
			defer wg.Done()
			<-start
			for _, op := range ops {
				for y := 0; y < op.Yields; y++ {
					runtime.Gosched()
				}
				switch op.Kind {
				case "deliver":
					op.Call = tick()
					pm, err := addOne(st, op.Box, op.Msg, now, spec.Period)
					op.Ret = tick()
					if err != nil {
						op.Err = err.Error()
						continue
					}
					op.ID = pm.ID
					op.added = &tracked{pmsg: pm, addCall: op.Call, addRet: op.Ret}
				case "remove":
					op.ID = op.target.ID
					op.Call = tick()
					err := st.RemoveMessage(op.Box, op.target.ID)
					op.Ret = tick()
					if err != nil {
						op.Err = err.Error()
						op.nx = errors.Is(err, storage.ErrNotExist)
					}
				case "purge":
					op.Call = tick()
					err := st.PurgeMessages(op.Box)
					op.Ret = tick()
					if err != nil {
						op.Err = err.Error()
					}
				}
			}
		}()
	}
	ok, dump := c.Within(120*time.Second, func() {
		close(start)
		wg.Wait()
	})
	if !ok {
		c.Hang("race-finish", "scan and clients did not finish", dump)
		return
	}
	c.Count("race_cases:"+backend, 1)

	// Merge the logs into the model.
	addFailed := 0
	overlap, purgeOverlap := 0, 0
	var log []*clientOp
	for _, ops := range plans {
		for _, op := range ops {
			log = append(log, op)
			if op.added != nil {
				boxes[op.Box] = append(boxes[op.Box], op.added)
				allNames[op.Box] = true
			}
			if op.Kind == "deliver" && op.Err != "" {
				addFailed++
			}
			for _, s := range scans {
				if op.Call < s.Ret && op.Ret > s.Call {
					overlap++
					if op.Kind == "purge" {
						purgeOverlap++
					}
					break
				}
			}
		}
	}
	sort.Slice(log, func(i, j int) bool { return log[i].Call < log[j].Call })
	detail["client_log"] = tail(log, 80)
	detail["scan_log"] = scans
	c.Count("race_client_ops", int64(len(log)))
	c.Count("race_client_ops_overlapping_scan", int64(overlap))
	c.Count("race_purges_overlapping_scan", int64(purgeOverlap))
	c.Count("race_add_failed", int64(addFailed))
	for _, op := range log {
		switch op.Kind {
		case "remove":
			switch {
			case op.Err == "":
				op.target.removedOK = true
			case !op.nx:
				op.target.removeUnclear = true
			}
		case "purge":
			for _, t := range boxes[op.Box] {
				switch {
				case op.Err == "" && op.Call > t.addRet:
					t.purgedAfter = true
				case op.Ret > t.addCall:
					t.purgeMaybe = true
				}
			}
		}
	}
	for _, s := range scans {
		if s.Err != "" {
			c.Violation("C12:scan-error:race", fmt.Sprintf("DoScan on the %s store returned %q while clients delivered, removed and purged", backend, s.Err), detail)
			return
		}
	}
	lastScanCall := scans[len(scans)-1].Call
	want := map[string][]*pmsg{}
	info := map[*pmsg]*tracked{}
	for n, l := range boxes {
		// The arrival order of concurrent deliveries is not known; order verdicts are dropped below.
		for _, t := range l {
			want[n] = append(want[n], t.pmsg)
			info[t.pmsg] = t
		}
	}
	expect := func(final bool) func(*pmsg) int {
		return func(m *pmsg) int {
			t := info[m]
			switch {
			case t.removedOK || t.purgedAfter:
				return mustGone
			case m.Old && (final || t.addRet < lastScanCall):
				return mustGone
			case t.removeUnclear || t.purgeMaybe:
				return dontCare
			case !m.Old:
				return mustStay
			}
			return dontCare
		}
	}
	var sorted []string
	for n := range allNames {
		sorted = append(sorted, n)
	}
	sort.Strings(sorted)
	snap, err := sut.Snapshot(st, sorted, true)
	if err != nil {
		c.Violation("C12:store-unreadable-after-scan:race", fmt.Sprintf("%s store after the race: %v", backend, err), detail)
		return
	}
	if vs := dropOrder(judge(snap, want, expect(false), addFailed > 0)); len(vs) > 0 {
		report(c, "race", vs, detail)
		return
	}
	// One quiet scan: afterwards the store is exactly the surviving unexpired messages.
	serr, ok := scanOnce(c, rs, context.Background(), "race")
	if !ok {
		return
	}
	if serr != nil {
		c.Violation("C12:scan-error:race-final", fmt.Sprintf("quiet DoScan on the %s store after the race returned %v", backend, serr), detail)
		return
	}
	snap, err = sut.Snapshot(st, sorted, true)
	if err != nil {
		c.Violation("C12:store-unreadable-after-scan:race", fmt.Sprintf("%s store after the final scan: %v", backend, err), detail)
		return
	}
	if vs := dropOrder(judge(snap, want, expect(true), addFailed > 0)); len(vs) > 0 {
		report(c, "race-final", vs, detail)
		return
	}
	gone, stay := 0, 0
	for _, t := range info {
		switch expect(true)(t.pmsg) {
		case mustGone:
			if t.Old {
				gone++
			}
		case mustStay:
			stay++
		}
	}
	c.Count("expired_removed", int64(gone))
	c.Count("unexpired_kept", int64(stay))
	if overlap > 0 && gone > 0 && stay > 0 {
		c.NonTrivial(fmt.Sprintf("race|%s|%s|clients=%d|scans=%d|sleep=%s|overlap=%s|purges=%s", backend, spec.PClass,
			nclients, nscans, sleep, bucket(overlap), bucket(purgeOverlap)))
	}
	c.Sample(map[string]any{"stream": "race", "backend": backend, "clients": nclients, "scans": nscans,
		"client_ops": len(log), "ops_overlapping_scan": overlap, "expired_removed": gone, "unexpired_kept": stay})
}

// dropOrder removes order verdicts: with concurrent clients the arrival order inside a mailbox is
// not known to the harness.
func dropOrder(vs []verdict) []verdict {
	var out []verdict
	for _, v := range vs {
		if v.key != "C12:order-changed" {
			out = append(out, v)
		}
	}
	return out
}

// ---------------------------------------------------------------------------------------------
// cancel

func runCancel(c *fw.Ctx, idx int, r *fw.Rand) {
	backend := backends[idx%2]
	spec := genPop(r, 2, 10, 5, false)
	sc := pickConf(c, "cancel", idx, backend)
	// Dry run to learn the number of visits and RemoveMessage calls of a complete scan.
	V, R, _, ok := cancelRun(c, backend, sc, &spec, "", 0, 0, 0)
	if !ok {
		return
	}
	// step runs one cancellation point.  DoScan chooses between ctx.Done() and its sleep timer in a
	// select; a goroutine that loses the processor for longer than the sleep between creating the
	// timer and evaluating the select may legitimately take the timer branch once.  A further visit
	// is therefore reported only if it shows again with a 10x and a 100x longer sleep.
	step := func(kind string, k int) bool {
		var last func()
		for _, sleep := range []time.Duration{20 * time.Millisecond, 200 * time.Millisecond, 2 * time.Second} {
			_, _, suspect, ok := cancelRun(c, backend, sc, &spec, kind, k, V, sleep)
			if !ok {
				return false
			}
			if suspect == nil {
				if last != nil {
					c.Count("cancel_extra_visit_not_reproduced", 1)
				}
				return true
			}
			last = suspect
		}
		last()
		return false
	}
	for k := 1; k <= V; k++ {
		if !step("visit", k) {
			return
		}
	}
	for k := 1; k <= R; k++ {
		if !step("remove", k) {
			return
		}
	}
	c.Sample(map[string]any{"stream": "cancel", "backend": backend, "visits_of_full_scan": V, "removes_of_full_scan": R})
}

// cancelRun stores the population afresh and scans it, cancelling at the k-th step of the kind.
func cancelRun(c *fw.Ctx, backend string, sc storeConf, spec *popSpec, kind string, k, fullVisits int, sleep time.Duration) (visits, removes int, suspect func(), ok bool) {
	st, _, err := newStore(c, backend, sc)
	if err != nil {
		panic(err)
	}
	now := time.Now()
	model, err := instantiate(st, spec, now)
	if err != nil {
		c.Inconclusive("population could not be stored: " + err.Error())
		return 0, 0, nil, false
	}
	ctx, cancel := context.WithCancel(context.Background())
	defer cancel()
	w := &wrapStore{Store: st}
	cancelledAtVisit := 0
	switch kind {
	case "visit":
		w.onVisit = func(n int, _ []storage.Message) {
			if n == k {
				cancelledAtVisit = n
				cancel()
			}
		}
	case "remove":
		w.onRemove = func(n int, _, _ string) {
			if n == k {
				w.mu.Lock()
				cancelledAtVisit = len(w.visits)
				w.mu.Unlock()
				cancel()
			}
		}
	}
	rs := storage.NewRetentionScanner(config.Storage{RetentionPeriod: spec.Period, RetentionSleep: sleep}, w)
	var serr error
	fin, dump := c.Within(90*time.Second, func() { serr = rs.DoScan(ctx) })
	detail := map[string]any{"backend": backend, "store_conf": sc, "period": spec.Period.String(), "population": spec, "cancel_at": kind, "k": k,
		"retention_sleep": sleep.String()}
	if !fin {
		c.Hang("doscan-return:cancel", fmt.Sprintf("DoScan did not return after the context was cancelled at %s %d", kind, k), dump)
		return 0, 0, nil, false
	}
	vis, rem := w.snapshot()
	if kind == "" {
		return len(vis), len(rem), nil, true
	}
	c.Count("cancel_points:"+kind, 1)
	if serr != nil {
		c.Count("cancel_scan_returned_error", 1)
	}
	detail["visits"] = vis
	detail["cancelled_in_visit"] = cancelledAtVisit
	if cancelledAtVisit == 0 {
		c.Inconclusive(fmt.Sprintf("cancel step %s %d was not reached", kind, k))
		return len(vis), len(rem), nil, true
	}
	if len(vis) > cancelledAtVisit {
		more := len(vis) - cancelledAtVisit
		return len(vis), len(rem), func() {
			c.Violation("C12:visit-after-cancel:"+kind, fmt.Sprintf("%s: context cancelled inside visit %d (at %s %d) but the scan went on to visit %d mailbox(es) more (also with RetentionSleep %s)",
				backend, cancelledAtVisit, kind, k, more, sleep), detail)
		}, true
	}
	// Nothing unexpired may be lost; mailboxes never visited are untouched.
	visited := map[string]bool{}
	for _, n := range vis {
		visited[n] = true
	}
	var all []string
	for _, b := range spec.Boxes {
		all = append(all, b.Name)
	}
	snap, err := sut.Snapshot(st, all, true)
	if err != nil {
		c.Violation("C12:store-unreadable-after-scan:cancel", fmt.Sprintf("%s store after a cancelled DoScan: %v", backend, err), detail)
		return len(vis), len(rem), nil, true
	}
	vs := judge(snap, model, func(m *pmsg) int {
		if !m.Old || !visited[m.Mailbox] {
			return mustStay
		}
		return dontCare
	}, false)
	if len(vs) > 0 {
		report(c, "cancel", vs, detail)
		return len(vis), len(rem), nil, true
	}
	total := fullVisits
	if cancelledAtVisit < total {
		c.Count("cancel_stopped_early", 1)
		c.NonTrivial(fmt.Sprintf("cancel|%s|%s|k=%d|visit=%d/%d", backend, kind, k, cancelledAtVisit, total))
	}
	return len(vis), len(rem), nil, true
}

// ---------------------------------------------------------------------------------------------
// start

func runStart(c *fw.Ctx, idx int, r *fw.Rand) {
	backend := backends[idx%2]
	variant := []string{"zero", "cancel"}[(idx/2)%2]
	spec := genPop(r, 1, 8, 6, false)
	sc := pickConf(c, "start", idx, backend)
	st, _, err := newStore(c, backend, sc)
	if err != nil {
		panic(err)
	}
	now := time.Now()
	model, err := instantiate(st, &spec, now)
	if err != nil {
		c.Inconclusive("population could not be stored: " + err.Error())
		return
	}
	var all []string
	for _, b := range spec.Boxes {
		all = append(all, b.Name)
	}
	detail := map[string]any{"backend": backend, "store_conf": sc, "variant": variant, "population": spec}
	ctx, cancel := context.WithCancel(context.Background())
	defer cancel()
	stay := func(*pmsg) int { return mustStay }
	switch variant {
	case "zero":
		// Very old messages and period 0: nothing may ever be deleted, Start returns at once.
		rs := storage.NewRetentionScanner(config.Storage{RetentionPeriod: 0, RetentionSleep: 0}, st)
		returned := make(chan struct{})
		go func() {
			rs.Start(ctx)
			close(returned)
		}()
		budget := 15 * time.Second * time.Duration(c.Slow)
		select {
		case <-returned:
		case <-time.After(budget):
			buf := make([]byte, 1<<20)
			n := runtime.Stack(buf, true)
			c.Hang("start-period-zero", "Start with retention period 0 did not return", string(buf[:n]))
			// Give a run loop that ignores the period its one-minute delay, to see what it deletes.
			select {
			case <-returned:
			case <-time.After(75*time.Second - 15*time.Second):
			}
			snap, err := sut.Snapshot(st, all, true)
			if err == nil {
				if vs := judge(snap, model, stay, false); len(vs) > 0 {
					for i := range vs {
						vs[i].key = "C12:period-zero-deleted"
					}
					report(c, "start", vs, detail)
				}
			}
			return
		}
		if ok, dump := c.Within(15*time.Second, rs.Join); !ok {
			c.Hang("join-period-zero", "Join did not return after Start with period 0 returned", dump)
			return
		}
		c.Count("start_zero_returned", 1)
		snap, err := sut.Snapshot(st, all, true)
		if err != nil {
			c.Violation("C12:store-unreadable-after-scan:start", err.Error(), detail)
			return
		}
		if vs := judge(snap, model, stay, false); len(vs) > 0 {
			for i := range vs {
				vs[i].key = "C12:period-zero-deleted"
			}
			report(c, "start", vs, detail)
			return
		}
		c.NonTrivial(fmt.Sprintf("start|zero|%s|boxes=%s", backend, bucket(len(spec.Boxes))))
	case "cancel":
		rs := storage.NewRetentionScanner(config.Storage{RetentionPeriod: spec.Period, RetentionSleep: 0}, st)
		returned := make(chan struct{})
		go func() {
			rs.Start(ctx)
			close(returned)
		}()
		yields := r.Intn(200)
		for y := 0; y < yields; y++ {
			runtime.Gosched()
		}
		cancel()
		ok, dump := c.Within(10*time.Second, func() {
			<-returned
			rs.Join()
		})
		if !ok {
			c.Hang("start-cancel", "Start/Join did not return after the context was cancelled before the first scan", dump)
			return
		}
		c.Count("start_cancel_returned", 1)
		snap, err := sut.Snapshot(st, all, true)
		if err != nil {
			c.Violation("C12:store-unreadable-after-scan:start", err.Error(), detail)
			return
		}
		vs := judge(snap, model, func(m *pmsg) int {
			if m.Old {
				return dontCare
			}
			return mustStay
		}, false)
		if len(vs) > 0 {
			report(c, "start-cancel", vs, detail)
			return
		}
		c.NonTrivial(fmt.Sprintf("start|cancel|%s|yields=%s", backend, bucket(yields)))
	}
	c.Sample(map[string]any{"stream": "start", "backend": backend, "variant": variant})
}

// ---------------------------------------------------------------------------------------------
// loop (thorough): the run loop performs its first scan one minute after Start.

func runLoop(c *fw.Ctx, idx int, r *fw.Rand) {
	// Odd cases cancel while the scan is in progress (parked in its per-mailbox sleep); even
	// cases cancel between scans.
	midScan := idx%2 == 1
	backend := backends[(idx/2)%2]
	spec := genPop(r, 3, 12, 8, false)
	sc := pickConf(c, "loop", idx, backend)
	st, _, err := newStore(c, backend, sc)
	if err != nil {
		panic(err)
	}
	now := time.Now()
	model, err := instantiate(st, &spec, now)
	if err != nil {
		c.Inconclusive("population could not be stored: " + err.Error())
		return
	}
	old, _ := spec.counts()
	if old == 0 {
		pm, err := addOne(st, spec.Boxes[0].Name, msgSpec{Old: true, Delta: minDelta, Subject: "old"}, now, spec.Period)
		if err != nil {
			c.Inconclusive(err.Error())
			return
		}
		model[pm.Mailbox] = append(model[pm.Mailbox], pm)
	}
	var all []string
	for _, b := range spec.Boxes {
		all = append(all, b.Name)
	}
	detail := map[string]any{"backend": backend, "store_conf": sc, "population": spec}
	ctx, cancel := context.WithCancel(context.Background())
	defer cancel()
	w := &wrapStore{Store: st}
	sleep := time.Millisecond
	if midScan {
		sleep = 10 * time.Minute // the scan parks after its first mailbox until it is cancelled
	}
	rs := storage.NewRetentionScanner(config.Storage{RetentionPeriod: spec.Period, RetentionSleep: sleep}, w)
	returned := make(chan struct{})
	go func() {
		rs.Start(ctx)
		close(returned)
	}()
	// Wait (watchdog only) until one complete scan has visited the store.
	deadline := time.Now().Add(150 * time.Second * time.Duration(c.Slow))
	seen := false
	for time.Now().Before(deadline) {
		vis, _ := w.snapshot()
		if len(vis) > 0 {
			seen = true
			break
		}
		time.Sleep(200 * time.Millisecond)
	}
	if !seen {
		cancel()
		c.Inconclusive("the run loop did not start a scan within the watchdog")
		return
	}
	if !midScan {
		time.Sleep(2 * time.Second) // lets the scan in progress finish; the verdict below does not depend on it
	}
	cancel()
	ok, dump := c.Within(10*time.Second, func() {
		<-returned
		rs.Join()
	})
	if !ok {
		if midScan {
			c.Hang("loop-cancel-mid-scan", "Start/Join did not return after the context was cancelled while a scan was in progress", dump)
		} else {
			c.Hang("loop-cancel", "Start/Join did not return after the context was cancelled between scans", dump)
		}
		return
	}
	if midScan {
		c.Count("loop_mid_scan_cancels", 1)
	}
	snap, err := sut.Snapshot(st, all, true)
	if err != nil {
		c.Violation("C12:store-unreadable-after-scan:loop", err.Error(), detail)
		return
	}
	vis, _ := w.snapshot()
	visitedNames := map[string]bool{}
	for _, n := range vis {
		visitedNames[n] = true
	}
	complete := true
	for n := range model {
		if !visitedNames[n] {
			complete = false
		}
	}
	vs := judge(snap, model, func(m *pmsg) int {
		if !m.Old {
			return mustStay
		}
		if complete {
			return mustGone
		}
		return dontCare
	}, false)
	if len(vs) > 0 {
		report(c, "loop", vs, detail)
		return
	}
	if complete {
		c.Count("loop_scans_observed", 1)
		c.NonTrivial("loop|" + backend)
	}
}
