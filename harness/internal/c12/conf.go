package c12

import (
	"path/filepath"
	"sort"
	"strconv"
	"strings"

	"github.com/inbucket/inbucket/v3/pkg/storage"

	"verifharness/internal/fw"
	"verifharness/internal/sut"
)

// Store configurations (added after seeded changes C12-9 and C12-10).
//
// The property is quantified over configurations, and until round 5 every store of this check
// was built from one configuration: a file store under a plain os.MkdirTemp name, a memory store
// without a size limit.  Two parameters of the real stores are operator supplied and change which
// code the scan runs through:
//
//   - the file store's `path`: VisitMailboxes rediscovers the mailboxes from that directory, so
//     whatever the walk does with the path string (pattern matching, quoting, URL or printf
//     handling, environment expansion) decides whether the scan sees any mail at all.  Half of the
//     file stores of every stream now live under one or two directory levels with names that are
//     legal on the platform but hostile to such handling (glob and shell metacharacters, spaces,
//     percent escapes, '$', unicode, leading dots and dashes, a 200 byte component).  inbucket
//     itself maps '$' to ':' in the parameter (getMailPath, for Windows drive letters), creates the
//     directory with os.MkdirAll and from then on uses plain os calls: every such name is within
//     what the unchanged tree supports, so the oracles are exactly what they were.
//   - the memory store's `maxkb`: with it every AddMessage, RemoveMessage and PurgeMessages goes
//     through the size enforcer's goroutine.  A third of the memory stores of every stream get a
//     limit far above anything a case stores (nothing is ever evicted, oracles unchanged); the
//     `sizelimit` stream (sizelimit.go) runs scans on stores that are full.
type storeConf struct {
	PathTail    string   `json:"path_tail,omitempty"` // file: directories below the scratch directory, "" = plain
	PathClasses []string `json:"path_classes,omitempty"`
	MaxKB       int      `json:"maxkb,omitempty"` // mem: 0 = no size limit
}

type pathAtom struct{ class, text string }

var hostileAtoms = []pathAtom{
	{"bracket", "inbucket[prod]"}, {"bracket", "a]b[c"}, {"bracket", "["}, {"bracket", "]"},
	{"bracket", "[0-9a-f]"}, {"bracket", "[!x]"}, {"bracket", "[^x]"}, {"bracket", "v[1]"},
	{"backslash", "back\\slash"}, {"backslash", "\\"}, {"backslash", "trail\\"}, {"backslash", "\\[x\\]"},
	{"star", "star*"}, {"star", "*"}, {"quest", "quest?"}, {"quest", "???"},
	{"brace", "{brace}"}, {"brace", "{a,b}"},
	{"tilde", "~"}, {"tilde", "~root"},
	{"percent", "%41"}, {"percent", "%s%d%v"}, {"percent", "%2F%00"},
	{"dollar", "$HOME"}, {"dollar", "a$b"}, {"dollar", "${x}"},
	{"space", "with space"}, {"space", " lead"}, {"space", "trail "}, {"space", "tab\there"},
	{"unicode", "почта-メール-✉"}, {"unicode", "é-üñí"}, {"unicode", "\U0001F4EC"},
	{"dot", ".hidden"}, {"dot", "..dots"}, {"dot", "..."}, {"dot", "end."},
	{"dash", "-dash"}, {"dash", "--flag=x"},
	{"shell", "semi;colon"}, {"shell", "amp&ersand"}, {"shell", "pipe|"}, {"shell", "quote'"}, {"shell", "dq\""},
	{"shell", "back`tick"}, {"shell", "hash#"}, {"shell", "bang!"}, {"shell", "paren(s)"}, {"shell", "lt<gt>"},
	{"punct", "at@"}, {"punct", "eq="}, {"punct", "comma,"}, {"punct", "plus+"}, {"punct", "colon:"}, {"punct", "caret^"},
	{"long", strings.Repeat("L", 200)},
}

// globMeta are the classes whose characters are special to path pattern matching.
var globMeta = map[string]bool{"bracket": true, "backslash": true, "star": true, "quest": true, "brace": true}

// pickConf chooses the store configuration of a case.  It draws from its own deterministic stream
// for (seed, property, stream, index), so the populations and plans of the existing streams are
// what they were before configurations were varied, and --only stream#i replays the same store.
func pickConf(c *fw.Ctx, stream string, idx int, backend string) storeConf {
	r := c.Rand("conf:"+stream, idx)
	var sc storeConf
	switch backend {
	case "file":
		if !r.Bool() {
			return sc
		}
		classes := map[string]bool{}
		var comps []string
		for i, n := 0, r.Range(1, 2); i < n; i++ {
			a := hostileAtoms[r.Intn(len(hostileAtoms))]
			name := a.text
			classes[a.class] = true
			if a.class != "long" && r.Chance(1, 3) {
				b := hostileAtoms[r.Intn(len(hostileAtoms))]
				if b.class != "long" {
					// "." + ".." and the like could build a path element with a meaning; join with a letter.
					name += "x" + b.text
					classes[b.class] = true
				}
			}
			if name == "..." || strings.Trim(name, ".") == "" {
				name = "...x"
			}
			comps = append(comps, name)
		}
		if r.Chance(1, 3) {
			comps = append(comps, "data")
		}
		sc.PathTail = filepath.Join(comps...)
		if r.Chance(1, 6) {
			sc.PathTail += "/" // a trailing separator is what shell completion leaves behind
			classes["trailing-slash"] = true
		}
		for k := range classes {
			sc.PathClasses = append(sc.PathClasses, k)
		}
		sort.Strings(sc.PathClasses)
	case "mem":
		if r.Chance(1, 3) {
			sc.MaxKB = 1 << 20 // 1 GiB: the enforcer takes part in every operation, nothing is ever evicted
		}
	}
	return sc
}

func (sc storeConf) hostile() bool { return sc.PathTail != "" }

func (sc storeConf) globMeta() bool {
	for _, k := range sc.PathClasses {
		if globMeta[k] {
			return true
		}
	}
	return false
}

// sig is the configuration's part of a non-trivial signature.
func (sc storeConf) sig() string {
	switch {
	case sc.PathTail != "":
		return "path=" + strings.Join(sc.PathClasses, "+")
	case sc.MaxKB > 0:
		return "maxkb"
	}
	return "plain"
}

// newStore builds a real store of the back end with the case's configuration.
func newStore(c *fw.Ctx, backend string, sc storeConf) (storage.Store, *sut.Env, error) {
	st, env, _, err := newStoreAt(c, backend, sc)
	return st, env, err
}

// newStoreAt is newStore; it also returns the directory in which the file store keeps its mail
// (what inbucket makes of the path parameter: '$' becomes ':', "mail" is appended).
func newStoreAt(c *fw.Ctx, backend string, sc storeConf) (storage.Store, *sut.Env, string, error) {
	conf := sut.DefaultConf()
	mailDir := ""
	switch backend {
	case "file":
		base := c.TempDir("c12fs")
		path := base
		if sc.PathTail != "" {
			// Not created here: the store creates what it is configured with.
			path = base + "/" + sc.PathTail
			c.Count("file_stores_hostile_path", 1)
			if sc.globMeta() {
				c.Count("file_stores_glob_meta_path", 1)
			}
			for _, k := range sc.PathClasses {
				c.Count("file_stores_path_class:"+k, 1)
			}
		}
		conf.Storage.Type = "file"
		conf.Storage.Params = map[string]string{"path": path}
		mailDir = filepath.Join(strings.ReplaceAll(path, "$", ":"), "mail")
	case "mem":
		if sc.MaxKB > 0 {
			conf.Storage.Params = map[string]string{"maxkb": strconv.Itoa(sc.MaxKB)}
			c.Count("mem_stores_with_roomy_size_limit", 1)
		}
	}
	env, err := sut.NewEnv(conf, backend)
	if err != nil {
		return nil, nil, "", err
	}
	return env.Store, env, mailDir, nil
}
