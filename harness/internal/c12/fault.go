package c12

import (
	"context"
	"fmt"
	"os"
	"path/filepath"
	"time"

	"github.com/inbucket/inbucket/v3/pkg/config"
	"github.com/inbucket/inbucket/v3/pkg/storage"
	"github.com/inbucket/inbucket/v3/pkg/stringutil"

	"verifharness/internal/fw"
	"verifharness/internal/sut"
)

// fault: one expired message of the file store has lost its content file (the kind of damage an
// interrupted purge or an operator leaves behind).  Removing it fails, but that must stay that
// message's problem: every other expired message in every mailbox is still removed by the same
// scan and nothing young is lost.  The damaged message itself is don't-care.
func runFault(c *fw.Ctx, idx int, r *fw.Rand) {
	spec := genPop(r, 3, 14, 8, false)
	sc := pickConf(c, "fault", idx, "file")
	st, _, mailDir, err := newStoreAt(c, "file", sc)
	if err != nil {
		panic(err)
	}
	now := time.Now()
	model, err := instantiate(st, &spec, now)
	if err != nil {
		c.Inconclusive("population could not be stored: " + err.Error())
		return
	}
	// Pick the victims: expired messages, at most one per mailbox, in one to three mailboxes.
	var victims []*pmsg
	nv := r.Range(1, 3)
	for _, n := range names(model) {
		if len(victims) >= nv {
			break
		}
		for _, m := range model[n] {
			if m.Old && r.Chance(1, 2) {
				victims = append(victims, m)
				break
			}
		}
	}
	if len(victims) == 0 {
		return // nothing expired in this population: trivial
	}
	damaged := map[*pmsg]bool{}
	for _, v := range victims {
		h := stringutil.HashMailboxName(v.Mailbox)
		raw := filepath.Join(mailDir, h[0:3], h[0:6], h, v.ID+".raw")
		if err := os.Remove(raw); err != nil {
			c.Inconclusive("cannot damage the store as planned: " + err.Error())
			return
		}
		damaged[v] = true
	}
	old, _ := spec.counts()
	detail := map[string]any{"store_conf": sc, "period": spec.Period.String(), "population": spec, "content_files_removed": len(victims)}
	rs := storage.NewRetentionScanner(config.Storage{RetentionPeriod: spec.Period, RetentionSleep: 0}, st)
	if _, ok := scanOnce(c, rs, context.Background(), "fault"); !ok {
		return
	}
	snap, err := sut.Snapshot(st, names(model), true)
	if err != nil {
		c.Violation("C12:store-unreadable-after-scan:fault", err.Error(), detail)
		return
	}
	vs := judge(snap, model, func(m *pmsg) int {
		switch {
		case damaged[m]:
			return dontCare
		case m.Old:
			return mustGone
		}
		return mustStay
	}, false)
	vs = dropOrder(vs)
	if len(vs) > 0 {
		report(c, "fault", vs, detail)
		return
	}
	c.Count("fault_scans", 1)
	if old > len(victims) {
		c.NonTrivial(fmt.Sprintf("fault|%d|%s", len(victims), bucket(old)))
	}
}
