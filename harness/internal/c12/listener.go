package c12

import (
	"context"
	"fmt"
	"sync/atomic"
	"time"

	"github.com/inbucket/inbucket/v3/pkg/config"
	"github.com/inbucket/inbucket/v3/pkg/extension/event"
	"github.com/inbucket/inbucket/v3/pkg/storage"

	"verifharness/internal/fw"
	"verifharness/internal/sut"
)

// Scenario "listener" (added after seeded change C12-13; runs as the tail of stream cancel0, whose
// own cases keep their indices): every other stream scans stores nobody listens to.  A real
// installation has extensions attached - a Lua after.message_deleted handler posting to a remote
// service is the usual one - and the after-events are asynchronous by contract: a handler that is
// slow, or has not returned at all, is no business of the operation that emitted the event.  The
// statement says what a scan deletes and that it stops at shutdown "in every mailbox of either
// back-end"; it makes no exception for how many messages expired at once or for who listens.
//
// Here a listener registered on the extension host's AfterMessageDeleted blocks on a gate that is
// opened only at the end of the case, and 150-400 expired messages (with a few unexpired ones) in
// 1-5 mailboxes are purged:
//
//	complete  DoScan(background context) must return and leave exactly the unexpired messages
//	cancel    the context is cancelled inside the k-th RemoveMessage; DoScan must return, nothing
//	          unexpired may be lost; a second, uncancelled DoScan (the listener still has not
//	          returned) must return and leave exactly the unexpired messages
//
// A DoScan that does not return is reported under the one key doscan-return:listener whatever
// the back end, variant or count.  Whether and when the events reach the listener is not judged
// (counted only).  The check is built with -race; the number of these cases is kept small.
func runListener(c *fw.Ctx, idx int, r *fw.Rand) {
	backend := backends[idx%2]
	variant := []string{"complete", "cancel"}[(idx/2)%2]

	var spec popSpec
	spec.Period, spec.PClass = genPeriod(r)
	nb := r.Range(1, 5)
	for b := 0; b < nb; b++ {
		spec.Boxes = append(spec.Boxes, boxSpec{Name: fmt.Sprintf("lsn%d%s", b, r.Letters(r.Range(1, 5), "abcdefghijklmnopqrstuvwxyz"))})
	}
	nOld, nYoung := r.Range(150, 400), r.Range(3, 20)
	put := func(old bool) {
		bi := r.Intn(nb)
		if r.Chance(2, 3) {
			bi = 0 // most of the mail in one mailbox: one visit alone purges more than any queue bound in sight
		}
		m := genMsg(r, spec.Period)
		m.Old = old
		if !old && m.Delta > spec.Period {
			m.Delta = spec.Period
		}
		m.Seen = false
		if len(m.Body) > 40 {
			m.Body = m.Body[:40]
		}
		spec.Boxes[bi].Msgs = append(spec.Boxes[bi].Msgs, m)
	}
	for i := 0; i < nOld; i++ {
		put(true)
	}
	for i := 0; i < nYoung; i++ {
		put(false)
	}
	for bi, b := range spec.Boxes {
		// the unexpired messages arrive among the expired ones, not after them
		perm := r.Perm(len(b.Msgs))
		ms := make([]msgSpec, len(b.Msgs))
		for i, j := range perm {
			ms[i] = b.Msgs[j]
		}
		spec.Boxes[bi].Msgs = ms
		for range ms {
			spec.Order = append(spec.Order, bi)
		}
	}
	perm := r.Perm(len(spec.Order))
	o := make([]int, len(spec.Order))
	for i, j := range perm {
		o[i] = spec.Order[j]
	}
	spec.Order = o
	k := r.Range(1, nOld) // cancel variant: the RemoveMessage call inside which the context is cancelled

	sc := pickConf(c, "listener", idx, backend)
	st, env, err := newStore(c, backend, sc)
	if err != nil {
		panic(err)
	}
	gate := make(chan struct{})
	defer close(gate) // also lets an abandoned scan go
	var entered, done atomic.Int64
	env.ExtHost.Events.AfterMessageDeleted.AddListener("c12-stuck-listener", func(event.MessageMetadata) {
		entered.Add(1)
		<-gate
		done.Add(1)
	})
	now := time.Now()
	model, err := instantiate(st, &spec, now)
	if err != nil {
		c.Inconclusive("population could not be stored: " + err.Error())
		return
	}
	var all []string
	for _, b := range spec.Boxes {
		all = append(all, b.Name)
	}
	detail := map[string]any{"backend": backend, "store_conf": sc, "variant": variant, "period": spec.Period.String(),
		"mailboxes": nb, "expired": nOld, "unexpired": nYoung, "listener": "AfterMessageDeleted listener that has not returned"}

	w := &wrapStore{Store: st}
	rs := storage.NewRetentionScanner(config.Storage{RetentionPeriod: spec.Period, RetentionSleep: 0}, w)
	scan := func(ctx context.Context, what string) (error, bool) {
		var serr error
		ok, dump := c.Within(20*time.Second, func() { serr = rs.DoScan(ctx) })
		if !ok {
			_, rem := w.snapshot()
			c.Hang("doscan-return:listener", fmt.Sprintf("%s, %s: DoScan did not return %s; %d expired messages in %d mailboxes, %d RemoveMessage calls made, an after.message_deleted listener has not returned from its first event",
				backend, variant, what, nOld, nb, len(rem)), dump)
			return nil, false
		}
		return serr, true
	}

	if variant == "cancel" {
		ctx, cancel := context.WithCancel(context.Background())
		defer cancel()
		w.onRemove = func(n int, _, _ string) {
			if n == k {
				cancel()
			}
		}
		detail["cancelled_in_remove"] = k
		if _, ok := scan(ctx, fmt.Sprintf("after the context was cancelled inside RemoveMessage call %d", k)); !ok {
			return
		}
		w.mu.Lock()
		w.onRemove = nil
		w.mu.Unlock()
		_, rem := w.snapshot()
		if len(rem) < k {
			c.Inconclusive(fmt.Sprintf("listener: RemoveMessage call %d was not reached", k))
			return
		}
		c.Count("listener_cancelled_mid_scan", 1)
		c.Max("max_listener_removes_after_cancel", int64(len(rem)-k))
		snap, err := sut.Snapshot(st, all, true)
		if err != nil {
			c.Violation("C12:store-unreadable-after-scan:listener", fmt.Sprintf("%s store after a cancelled DoScan: %v", backend, err), detail)
			return
		}
		vs := judge(snap, model, func(m *pmsg) int {
			if m.Old {
				return dontCare
			}
			return mustStay
		}, false)
		if len(vs) > 0 {
			report(c, "listener-cancel", vs, detail)
			return
		}
	}
	serr, ok := scan(context.Background(), "(context never cancelled)")
	if !ok {
		return
	}
	c.Count("listener_scans_returned:"+backend, 1)
	if serr != nil {
		c.Violation("C12:scan-error:listener", fmt.Sprintf("DoScan on a quiet %s store with a stuck after.message_deleted listener returned %v", backend, serr), detail)
		return
	}
	snap, err := sut.Snapshot(st, all, true)
	if err != nil {
		c.Violation("C12:store-unreadable-after-scan:listener", fmt.Sprintf("%s store after DoScan: %v", backend, err), detail)
		return
	}
	if vs := judge(snap, model, expectSimple, false); len(vs) > 0 {
		_, rem := w.snapshot()
		detail["remove_calls"] = tail(rem, 40)
		report(c, "listener", vs, detail)
		return
	}
	removed, kept := dropExpired(model)
	c.Count("listener_expired_purged", int64(removed))
	c.Count("listener_unexpired_kept", int64(kept))
	c.Count("expired_removed", int64(removed))
	c.Count("unexpired_kept", int64(kept))
	c.Max("max_listener_expired_in_one_scan", int64(nOld))
	// Evidence only: the listener really was in the way (its goroutine is started by the first Emit).
	for i := 0; i < 500 && entered.Load() == 0; i++ {
		time.Sleep(10 * time.Millisecond)
	}
	c.Count("listener_events_entered_while_stuck", entered.Load())
	c.Count("listener_events_returned_while_stuck", done.Load())
	c.NonTrivial(fmt.Sprintf("listener|%s|%s|boxes=%d|old=%s", backend, variant, nb, bucket(nOld)))
	c.Sample(map[string]any{"stream": "cancel0/listener", "backend": backend, "variant": variant, "mailboxes": nb, "expired": nOld, "unexpired": nYoung})
}
