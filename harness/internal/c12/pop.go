package c12

import (
	"fmt"
	"net/mail"
	"sort"
	"strconv"
	"strings"
	"sync"
	"time"

	"github.com/inbucket/inbucket/v3/pkg/storage"
	"github.com/inbucket/inbucket/v3/pkg/stringutil"

	"verifharness/internal/fw"
	"verifharness/internal/sut"
)

// msgSpec is one generated message: which side of the cut-off it lies on and how far away.
type msgSpec struct {
	Old     bool          `json:"old"`
	Delta   time.Duration `json:"delta"` // distance from the cut-off, always >= 10 minutes
	Subject string        `json:"subject"`
	Body    string        `json:"-"`
	Seen    bool          `json:"seen,omitempty"`
}

// boxSpec is one generated mailbox.
type boxSpec struct {
	Name  string    `json:"name"`
	Msgs  []msgSpec `json:"msgs"`
	Ghost bool      `json:"ghost,omitempty"` // no messages, but the mailbox was used once (add + remove)
}

// popSpec is a whole generated population; a pure function of the case's PRNG stream.
type popSpec struct {
	Period time.Duration `json:"period"`
	PClass string        `json:"period_class"`
	Boxes  []boxSpec     `json:"boxes"`
	Order  []int         `json:"-"` // insertion order as a sequence of box indices
}

// pmsg is a message as the harness's model knows it.
type pmsg struct {
	Mailbox string
	ID      string
	Old     bool
	Date    time.Time
	Subject string
	Body    string
	Seen    bool
}

const minDelta = 10 * time.Minute
const maxDelta = 30 * 24 * time.Hour

func genPeriod(r *fw.Rand) (time.Duration, string) {
	switch r.Weighted([]int{2, 4, 4, 4, 1}) {
	case 0:
		return time.Hour, "1h"
	case 1:
		return time.Hour + time.Duration(r.Intn(23*3600))*time.Second, "1h-24h"
	case 2:
		return 24*time.Hour + time.Duration(r.Intn(6*24*3600))*time.Second, "1d-7d"
	case 3:
		return 7*24*time.Hour + time.Duration(r.Intn(83*24*3600))*time.Second, "7d-90d"
	}
	return 90 * 24 * time.Hour, "90d"
}

func genDelta(r *fw.Rand) time.Duration {
	switch r.Weighted([]int{2, 4, 4, 4, 1}) {
	case 0:
		return minDelta
	case 1:
		return minDelta + time.Duration(r.Intn(50*60))*time.Second
	case 2:
		return time.Hour + time.Duration(r.Intn(23*3600))*time.Second
	case 3:
		return 24*time.Hour + time.Duration(r.Intn(29*24*3600))*time.Second
	}
	return maxDelta
}

func genMsg(r *fw.Rand, period time.Duration) msgSpec {
	m := msgSpec{Old: r.Bool(), Delta: genDelta(r)}
	if !m.Old && m.Delta > period && r.Bool() {
		m.Delta = period // received just now; otherwise the date lies in the future, which is younger still
	}
	m.Subject = "s" + r.Letters(r.Range(1, 12), "abcdefghijklmnopqrstuvwxyz0123456789")
	m.Body = r.Letters(r.Range(0, 120), "abcdefghijklmnopqrstuvwxyz \n")
	m.Seen = r.Chance(1, 6)
	return m
}

// collidePool holds groups of mailbox names whose hashed directory names share the first three hex
// digits (the first directory level of the file store) but differ in the first six (the second).
var collidePool struct {
	once   sync.Once
	groups [][]string
}

func collideGroups() [][]string {
	collidePool.once.Do(func() {
		by := map[string][]string{}
		for i := 0; i < 6000; i++ {
			n := "g" + strconv.Itoa(i)
			h := stringutil.HashMailboxName(n)
			by[h[:3]] = append(by[h[:3]], n)
		}
		keys := make([]string, 0, len(by))
		for k := range by {
			keys = append(keys, k)
		}
		sort.Strings(keys)
		for _, k := range keys {
			if len(by[k]) >= 2 {
				collidePool.groups = append(collidePool.groups, by[k])
			}
		}
	})
	return collidePool.groups
}

// genPop generates a population with nb mailboxes of 0..maxMsgs messages.
func genPop(r *fw.Rand, minBoxes, maxBoxes, maxMsgs int, collide bool) popSpec {
	var p popSpec
	p.Period, p.PClass = genPeriod(r)
	nb := r.Range(minBoxes, maxBoxes)
	names := map[string]bool{}
	var pending []string
	if collide {
		gs := collideGroups()
		g := gs[r.Intn(len(gs))]
		k := r.Range(2, 3)
		if k > len(g) {
			k = len(g)
		}
		pending = append(pending, g[:k]...)
	}
	for len(p.Boxes) < nb {
		var name string
		if len(pending) > 0 {
			name, pending = pending[0], pending[1:]
		} else {
			name = r.Letters(r.Range(2, 9), "abcdefghijklmnopqrstuvwxyz0123456789")
		}
		if names[name] {
			continue
		}
		names[name] = true
		b := boxSpec{Name: name}
		nm := r.Range(0, maxMsgs)
		if r.Chance(1, 8) {
			nm = 0
		}
		for j := 0; j < nm; j++ {
			b.Msgs = append(b.Msgs, genMsg(r, p.Period))
		}
		if nm == 0 {
			b.Ghost = r.Bool()
		}
		p.Boxes = append(p.Boxes, b)
	}
	// Insertion order: messages of different mailboxes interleave.
	for bi, b := range p.Boxes {
		for range b.Msgs {
			p.Order = append(p.Order, bi)
		}
	}
	perm := r.Perm(len(p.Order))
	o := make([]int, len(p.Order))
	for i, j := range perm {
		o[i] = p.Order[j]
	}
	p.Order = o
	return p
}

func (p *popSpec) counts() (old, young int) {
	for _, b := range p.Boxes {
		for _, m := range b.Msgs {
			if m.Old {
				old++
			} else {
				young++
			}
		}
	}
	return
}

func dateOf(now time.Time, period time.Duration, m msgSpec) time.Time {
	cut := now.Add(-period)
	if m.Old {
		return cut.Add(-m.Delta)
	}
	return cut.Add(m.Delta)
}

var fromAddr = &mail.Address{Name: "Sender", Address: "sender@origin.test"}

func source(subject, body string) []byte {
	return []byte("From: sender@origin.test\r\nSubject: " + subject + "\r\n\r\n" + body + "\r\n")
}

// addOne stores one message in the real store and returns the model's record of it.
func addOne(st storage.Store, mailbox string, m msgSpec, now time.Time, period time.Duration) (*pmsg, error) {
	d := dateOf(now, period, m)
	to := []*mail.Address{{Address: mailbox + "@inbucket.test"}}
	id, err := st.AddMessage(sut.NewDelivery(mailbox, fromAddr, to, m.Subject, d, source(m.Subject, m.Body)))
	if err != nil {
		return nil, err
	}
	return &pmsg{Mailbox: mailbox, ID: id, Old: m.Old, Date: d, Subject: m.Subject, Body: m.Body}, nil
}

// instantiate stores the population and returns the model (mailbox -> messages, oldest first).
func instantiate(st storage.Store, p *popSpec, now time.Time) (map[string][]*pmsg, error) {
	model := map[string][]*pmsg{}
	next := make([]int, len(p.Boxes))
	for _, bi := range p.Order {
		b := &p.Boxes[bi]
		ms := b.Msgs[next[bi]]
		next[bi]++
		pm, err := addOne(st, b.Name, ms, now, p.Period)
		if err != nil {
			return nil, fmt.Errorf("AddMessage(%q): %w", b.Name, err)
		}
		if ms.Seen {
			if err := st.MarkSeen(b.Name, pm.ID); err != nil {
				return nil, fmt.Errorf("MarkSeen(%q,%q): %w", b.Name, pm.ID, err)
			}
			pm.Seen = true
		}
		model[b.Name] = append(model[b.Name], pm)
	}
	for _, b := range p.Boxes {
		if b.Ghost {
			pm, err := addOne(st, b.Name, msgSpec{Old: false, Delta: minDelta, Subject: "ghost"}, now, p.Period)
			if err != nil {
				return nil, fmt.Errorf("AddMessage(%q): %w", b.Name, err)
			}
			if err := st.RemoveMessage(b.Name, pm.ID); err != nil {
				return nil, fmt.Errorf("RemoveMessage(%q,%q): %w", b.Name, pm.ID, err)
			}
		}
	}
	return model, nil
}

// expectation of one message at the final observation.
const (
	mustGone = iota
	mustStay
	dontCare
)

// judge compares a snapshot with per-message expectations.  want maps mailbox -> messages in
// arrival order; exp tells what is demanded of each.  It returns a list of (key, what).
type verdict struct{ key, what string }

func judge(snap map[string][]sut.MsgSnap, want map[string][]*pmsg, exp func(*pmsg) int, allowUnknown bool) []verdict {
	var out []verdict
	names := map[string]bool{}
	for n := range snap {
		names[n] = true
	}
	for n := range want {
		names[n] = true
	}
	sorted := make([]string, 0, len(names))
	for n := range names {
		sorted = append(sorted, n)
	}
	sort.Strings(sorted)
	for _, n := range sorted {
		have := map[string]sut.MsgSnap{}
		pos := map[string]int{}
		for i, s := range snap[n] {
			if _, dup := have[s.ID]; dup {
				out = append(out, verdict{"C12:duplicate-id", fmt.Sprintf("mailbox %q lists id %q twice", n, s.ID)})
			}
			have[s.ID] = s
			pos[s.ID] = i
		}
		known := map[string]bool{}
		last := -1
		for _, m := range want[n] {
			known[m.ID] = true
			s, present := have[m.ID]
			e := exp(m)
			switch {
			case present && e == mustGone:
				out = append(out, verdict{"C12:expired-kept", fmt.Sprintf("mailbox %q message %q dated %s (old=%v) is still stored", n, m.ID, m.Date.Format(time.RFC3339), m.Old)})
			case !present && e == mustStay:
				out = append(out, verdict{"C12:young-removed", fmt.Sprintf("mailbox %q message %q dated %s (old=%v) is gone", n, m.ID, m.Date.Format(time.RFC3339), m.Old)})
			}
			if present {
				if pos[m.ID] < last {
					out = append(out, verdict{"C12:order-changed", fmt.Sprintf("mailbox %q message %q moved before an older one", n, m.ID)})
				}
				last = pos[m.ID]
				if what := sameContent(s, m, n); what != "" {
					out = append(out, verdict{"C12:kept-message-changed", fmt.Sprintf("mailbox %q message %q: %s", n, m.ID, what)})
				}
			}
		}
		if !allowUnknown {
			for _, s := range snap[n] {
				if !known[s.ID] {
					out = append(out, verdict{"C12:unknown-message", fmt.Sprintf("mailbox %q holds message %q that was never delivered there", n, s.ID)})
				}
			}
		}
	}
	return out
}

func sameContent(s sut.MsgSnap, m *pmsg, listedUnder string) string {
	if s.Mailbox != listedUnder {
		return fmt.Sprintf("Mailbox()=%q", s.Mailbox)
	}
	if !s.Date.Equal(m.Date) {
		return fmt.Sprintf("date %s, delivered with %s", s.Date.Format(time.RFC3339Nano), m.Date.Format(time.RFC3339Nano))
	}
	if s.Subject != m.Subject {
		return fmt.Sprintf("subject %q, delivered with %q", s.Subject, m.Subject)
	}
	if s.Seen != m.Seen {
		return fmt.Sprintf("seen=%v, expected %v", s.Seen, m.Seen)
	}
	if s.SrcErr != "" {
		return "source unreadable: " + s.SrcErr
	}
	if s.Source != string(source(m.Subject, m.Body)) {
		return "source differs from what was delivered"
	}
	return ""
}

func names(model map[string][]*pmsg) []string {
	var n []string
	for k := range model {
		n = append(n, k)
	}
	sort.Strings(n)
	return n
}

func bucket(n int) string {
	switch {
	case n == 0:
		return "0"
	case n == 1:
		return "1"
	case n <= 4:
		return "2-4"
	case n <= 16:
		return "5-16"
	case n <= 64:
		return "17-64"
	}
	return "65+"
}

func report(c *fw.Ctx, stream string, vs []verdict, detail map[string]any) {
	seen := map[string]bool{}
	for _, v := range vs {
		k := v.key + ":" + stream
		if seen[k] {
			continue
		}
		seen[k] = true
		var all []string
		for _, w := range vs {
			if w.key == v.key && len(all) < 8 {
				all = append(all, w.what)
			}
		}
		d := map[string]any{"all": all}
		for kk, vv := range detail {
			d[kk] = vv
		}
		c.Violation(k, strings.Join(all[:1], "")+fmt.Sprintf(" (%d such)", countKey(vs, v.key)), d)
	}
}

func countKey(vs []verdict, k string) int {
	n := 0
	for _, v := range vs {
		if v.key == k {
			n++
		}
	}
	return n
}
