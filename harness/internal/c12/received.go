package c12

import (
	"context"
	"fmt"
	"time"

	"github.com/inbucket/inbucket/v3/pkg/config"
	"github.com/inbucket/inbucket/v3/pkg/policy"
	"github.com/inbucket/inbucket/v3/pkg/storage"

	"verifharness/internal/fw"
	"verifharness/internal/sut"
)

// Stream "received" (added after seeded change C12-5): the age the statement speaks of is the
// time a message has been held, whatever the message says about itself.  Besides a stored
// population with chosen ages, mail is received through StoreManager.Deliver - the way SMTP
// hands it over - with Date: headers that lie (decades old, in the future, malformed, absent).
// Every period generated is at least an hour, the mail was received while this case ran: it is
// younger than the period by a margin of hours and must survive the scan; the expired part of
// the population must still go.

var dateHeaders = []string{
	"", // no Date header at all
	"Date: Mon, 01 Jan 1990 00:00:00 +0000\r\n",
	"Date: Tue, 15 Nov 1994 08:12:31 -0500\r\n",
	"Date: Sat, 01 Jan 2000 12:00:00 +0000 (UTC)\r\n",
	"Date: Thu, 01 Jan 1970 00:00:00 +0000\r\n",
	"Date: Wed, 31 Dec 1969 23:59:59 +0000\r\n",
	"Date: Fri, 01 Jan 2100 00:00:00 +0000\r\n",
	"Date: 1 Jan 2015 00:00 +0000\r\n",
	"Date: yesterday\r\n",
	"Date: \r\n",
	"date: Mon, 02 Jan 2006 15:04:05 -0700\r\n",
	"DATE: Mon, 02 Jan 2006 15:04:05 MST\r\n",
	"Resent-Date: Mon, 01 Jan 1990 00:00:00 +0000\r\nDate: Mon, 01 Jan 1990 00:00:00 +0000\r\n",
}

func runReceived(c *fw.Ctx, idx int, r *fw.Rand) {
	backend := []string{"mem", "file"}[idx%2]
	spec := genPop(r, 1, 8, 5, false)
	sc := pickConf(c, "received", idx, backend)
	st, env, err := newStore(c, backend, sc)
	if err != nil {
		panic(err)
	}
	now := time.Now()
	model, err := instantiate(st, &spec, now)
	if err != nil {
		c.Inconclusive("population could not be stored: " + err.Error())
		return
	}
	orig, err := env.Policy.ParseOrigin("sender@origin.test")
	if err != nil {
		panic(err)
	}
	type rcv struct{ mailbox, subject, header string }
	var received []rcv
	boxes := names(model)
	boxes = append(boxes, "rcvd-only")
	for i, n := 0, r.Range(1, 6); i < n; i++ {
		mb := boxes[r.Intn(len(boxes))]
		rc, err := env.Policy.NewRecipient(mb + "@inbucket.test")
		if err != nil {
			continue // a generated population name that is no valid local part: not this stream's matter
		}
		// Recipient policy decides the mailbox name; ask it rather than assume.
		h := dateHeaders[(idx/2+i)%len(dateHeaders)]
		subj := fmt.Sprintf("rcvd-%d-%d", idx, i)
		src := []byte("From: sender@origin.test\r\n" + h + "Subject: " + subj + "\r\n\r\nreceived just now\r\n")
		if err := env.Manager.Deliver(orig, []*policy.Recipient{rc}, "Received: from c12.test", src); err != nil {
			c.Inconclusive("Deliver failed: " + err.Error())
			return
		}
		received = append(received, rcv{rc.Mailbox, subj, h})
	}
	detail := map[string]any{"backend": backend, "store_conf": sc, "period": spec.Period.String(), "population": spec, "received": received}
	rs := storage.NewRetentionScanner(config.Storage{RetentionPeriod: spec.Period, RetentionSleep: 0}, st)
	if _, ok := scanOnce(c, rs, context.Background(), "received"); !ok {
		return
	}
	extra := names(model)
	for _, rv := range received {
		extra = append(extra, rv.mailbox)
	}
	snap, err := sut.Snapshot(st, extra, true)
	if err != nil {
		c.Violation("C12:store-unreadable-after-scan:received", err.Error(), detail)
		return
	}
	for _, rv := range received {
		found := false
		for _, m := range snap[rv.mailbox] {
			found = found || m.Subject == rv.subject
		}
		if !found {
			c.Violation("C12:young-removed:received", fmt.Sprintf("%s, period %v: a message received during this case (header %q) is gone after the scan; it has been held for seconds",
				backend, spec.Period, rv.header), detail)
			return
		}
	}
	vs := judge(snap, model, func(m *pmsg) int {
		if m.Old {
			return mustGone
		}
		return mustStay
	}, true)
	vs = dropOrder(vs)
	if len(vs) > 0 {
		report(c, "received", vs, detail)
		return
	}
	c.Count("received_scans", 1)
	c.Count("received_messages_with_lying_date", int64(len(received)))
	if len(received) > 0 {
		c.NonTrivial(fmt.Sprintf("received|%s|%d|%d", backend, len(received), (idx/2)%len(dateHeaders)))
	}
}

// Stream "cancel0" (added after seeded change C19-6): RetentionSleep 0 is a legal setting (it is
// what the harness itself uses everywhere else), and a scan running with it must stop at a
// shutdown request like any other.  DoScan decides between ctx.Done() and its (zero) sleep timer
// in a select; when both are ready Go picks one at random, so a few further mailboxes may be
// visited - each with probability 1/2 at most.  With 60+ mailboxes still ahead, more than 40
// further visits (probability below 2^-40 on a correct tree) means the scan no longer looks at
// the context at all.
func runCancel0(c *fw.Ctx, idx int, r *fw.Rand) {
	backend := backends[idx%2]
	spec := genPop(r, 130, 180, 2, false)
	nBoxes := 0
	for _, b := range spec.Boxes {
		if len(b.Msgs) > 0 {
			nBoxes++
		}
	}
	if nBoxes < 70 {
		c.Count("cancel0_population_too_small", 1)
		return
	}
	k := r.Range(1, nBoxes-60)
	sc := pickConf(c, "cancel0", idx, backend)
	visits, _, _, ok := cancelRun(c, backend, sc, &spec, "visit", k, nBoxes, 0)
	if !ok {
		return
	}
	c.Count("cancel0_scans", 1)
	c.Max("cancel0_max_visits_after_cancel", int64(visits-k))
	if extra := visits - k; extra > 40 {
		c.Violation("C12:visit-after-cancel:sleep0", fmt.Sprintf("%s, RetentionSleep 0: context cancelled inside visit %d of %d, the scan visited %d further mailboxes (and removed what was expired in them)",
			backend, k, nBoxes, extra), map[string]any{"backend": backend, "period": spec.Period.String(), "mailboxes": nBoxes, "cancelled_in_visit": k, "visits": visits})
		return
	}
	c.NonTrivial(fmt.Sprintf("cancel0|%s|%s", backend, bucket(k)))
}
