package c12

import (
	"context"
	"fmt"
	"runtime"
	"sort"
	"strconv"
	"sync"
	"sync/atomic"
	"time"

	"github.com/inbucket/inbucket/v3/pkg/config"
	"github.com/inbucket/inbucket/v3/pkg/storage"

	"verifharness/internal/fw"
	"verifharness/internal/sut"
)

// Stream "sizelimit" (added after seeded change C12-10): the memory store with a size limit
// (maxkb) that is full while the scan runs.  With maxkb every delivery, every removal and every
// purge is a rendez-vous with the store's single size-enforcer goroutine, and a delivery that takes
// the store over the limit makes that goroutine evict the store's oldest messages - which are the
// expired ones, in the very mailboxes the scan is emptying at that moment.  Scan and enforcer then
// work on the same mailbox from two sides; no stream before configured maxkb at all.
//
// A case fills a store of 4-32 KiB to 85-110 % of its limit, oldest mail first and mostly expired,
// spread over one to five mailboxes.  Then, for one to three rounds, a scan runs while one to four
// client goroutines deliver messages big enough to force (multiple) evictions; the clients are
// released when the scan makes its k-th RemoveMessage call, so that deliveries, evictions and the
// scan's removals meet in the mailbox holding the oldest mail.  Between rounds more expired mail is
// stored quietly.  A last quiet scan follows.
//
// Oracle.  Bounded progress: scan and deliveries finish (c.Within; a wedge becomes deadlock
// evidence).  After each round every expired message stored before that round's scan began is gone
// - whether the scan or the size limit took it; after the last scan every expired message is gone.
// An unexpired message may legitimately be evicted by the size limit, so it is demanded only
// where the limit provably cannot have taken it: the enforcer evicts strictly in the order in
// which deliveries reached it and only while the bytes it accounts exceed the limit, and what it
// accounts when message X is the oldest is at most the size of X plus everything delivered after
// X.  Deliveries made one after the other reach it in that order; of deliveries made concurrently
// the order is not known, so all of them count as "after" each other.  If that sum is within the
// limit X is never evicted and must be present if unexpired; otherwise X is don't-care.
type slMsg struct {
	*pmsg
	size    int64
	phase   int   // deliveries of a higher phase reached the enforcer later
	seq     int   // position inside a sequential phase; -1 in a concurrent phase
	addRet  int64 // logical clock when AddMessage returned (concurrent phases)
	present bool
}

type slOp struct {
	Box    string `json:"box"`
	Old    bool   `json:"old"`
	Body   int    `json:"body_bytes"`
	Yields int    `json:"yields"`
	Call   int64  `json:"call"`
	Ret    int64  `json:"ret"`
	ID     string `json:"id,omitempty"`
	Err    string `json:"err,omitempty"`
	pm     *pmsg
}

func runSizeLimit(c *fw.Ctx, idx int, r *fw.Rand) {
	maxKB := []int{4, 8, 16, 32}[r.Intn(4)]
	limit := int64(maxKB) * 1024
	period, pclass := genPeriod(r)
	conf := sut.DefaultConf()
	conf.Storage.Params = map[string]string{"maxkb": strconv.Itoa(maxKB)}
	env, err := sut.NewEnv(conf, "mem")
	if err != nil {
		panic(err)
	}
	st := env.Store
	now := time.Now()

	nb := []int{1, 1, 1, 2, 2, 2, 3, 3, 5}[r.Intn(9)]
	boxNames := make([]string, nb)
	for i := range boxNames {
		boxNames[i] = "h" + strconv.Itoa(i) + r.Letters(r.Range(1, 4), "abcdefghijklmnopqrstuvwxyz")
	}
	const letters = "abcdefghijklmnopqrstuvwxyz \n"
	var all []*slMsg
	want := map[string][]*pmsg{}
	info := map[*pmsg]*slMsg{}
	record := func(pm *pmsg, phase, seq int, ret int64) *slMsg {
		m := &slMsg{pmsg: pm, size: int64(len(source(pm.Subject, pm.Body))), phase: phase, seq: seq, addRet: ret}
		all = append(all, m)
		want[pm.Mailbox] = append(want[pm.Mailbox], pm)
		info[pm] = m
		return m
	}
	nsubj := 0
	mkSpec := func(old bool, body int) msgSpec {
		nsubj++
		ms := msgSpec{Old: old, Delta: genDelta(r), Subject: "z" + strconv.Itoa(nsubj), Body: r.Letters(body, letters)}
		if !old && ms.Delta > period {
			ms.Delta = period
		}
		return ms
	}

	// Phase 0: fill the store, oldest mail first.  The first part is mostly expired, the rest
	// mostly young.
	fillPct := []int64{85, 95, 100, 100, 110}[r.Intn(5)]
	expPct := int64(r.Range(30, 60))
	smallMax := int(limit / 40) // 100-800 byte bodies: many messages per store
	var stored int64
	seq := 0
	for stored*100 < limit*fillPct {
		old := stored*100 < limit*expPct
		if r.Chance(1, 9) {
			old = !old
		}
		pm, err := addOne(st, boxNames[r.Intn(nb)], mkSpec(old, r.Range(10, smallMax)), now, period)
		if err != nil {
			c.Inconclusive("population could not be stored: " + err.Error())
			return
		}
		m := record(pm, 0, seq, 0)
		seq++
		stored += m.size
	}

	detail := map[string]any{"backend": "mem", "maxkb": maxKB, "period": period.String(), "mailboxes": boxNames,
		"fill_percent": fillPct, "expired_percent": expPct, "prepopulation_messages": len(all)}

	// bound is the most the enforcer can account while m is the oldest message it knows.
	bound := func(m *slMsg) int64 {
		var s int64
		for _, y := range all {
			if y.phase > m.phase || (y.phase == m.phase && (m.seq < 0 || y.seq >= m.seq)) {
				s += y.size
			}
		}
		return s
	}
	snapAll := func() (map[string][]sut.MsgSnap, error) {
		names := make([]string, 0, len(want))
		for n := range want {
			names = append(names, n)
		}
		sort.Strings(names)
		snap, err := sut.Snapshot(st, names, true)
		if err != nil {
			return nil, err
		}
		for _, m := range all {
			m.present = false
		}
		for n, l := range snap {
			byID := map[string]*slMsg{}
			for _, pm := range want[n] {
				byID[pm.ID] = info[pm]
			}
			for _, s := range l {
				if m := byID[s.ID]; m != nil {
					m.present = true
				}
			}
		}
		return snap, nil
	}

	w := &wrapStore{Store: st}
	rs := storage.NewRetentionScanner(config.Storage{RetentionPeriod: period, RetentionSleep: 0}, w)
	var clock atomic.Int64
	tick := func() int64 { return clock.Add(1) }
	rounds := r.Range(1, 3)
	overlapTotal, overtaken, scanRemoved := 0, 0, 0
	type roundLog struct {
		Round     int     `json:"round"`
		ReleaseAt int     `json:"clients_released_at_remove_call"`
		ScanCall  int64   `json:"scan_call"`
		ScanRet   int64   `json:"scan_ret"`
		Ops       []*slOp `json:"client_ops"`
	}
	var logs []roundLog
	detail["rounds"] = &logs
	for round := 0; round < rounds; round++ {
		if round > 0 {
			// More mail has expired since the previous scan (stored quietly, one after the other).
			phase := 2 * round
			budget := limit / 8
			var used int64
			for k := 0; used < budget; k++ {
				pm, err := addOne(st, boxNames[r.Intn(nb)], mkSpec(!r.Chance(1, 6), r.Range(10, smallMax)), now, period)
				if err != nil {
					c.Inconclusive("AddMessage failed between scans: " + err.Error())
					return
				}
				used += record(pm, phase, k, 0).size
			}
		}
		phase := 2*round + 1
		// Client plans: messages large enough to need several evictions each.
		nclients := r.Range(1, 4)
		budget := limit / int64([]int{8, 4, 4, 2}[r.Intn(4)])
		bigMax := int(limit / 8)
		plans := make([][]*slOp, nclients)
		var planned int64
		for planned < budget {
			j := r.Intn(nclients)
			op := &slOp{Box: boxNames[r.Intn(nb)], Old: r.Chance(1, 6), Body: r.Range(smallMax, bigMax), Yields: r.Intn(4)}
			if r.Chance(1, 8) {
				op.Box = "n" + strconv.Itoa(j) + r.Letters(2, "abcdefghijklmnopqrstuvwxyz")
			}
			plans[j] = append(plans[j], op)
			planned += int64(op.Body) + 60
		}
		specs := make([][]msgSpec, nclients)
		for j, ops := range plans {
			for _, op := range ops {
				specs[j] = append(specs[j], mkSpec(op.Old, op.Body))
			}
		}
		releaseAt := r.Range(0, 6) // 0: together with the scan
		rl := roundLog{Round: round, ReleaseAt: releaseAt}
		for _, ops := range plans {
			rl.Ops = append(rl.Ops, ops...)
		}

		start := make(chan struct{})
		release := make(chan struct{})
		var once sync.Once
		open := func() { once.Do(func() { close(release) }) }
		_, removesBefore := w.snapshot()
		base := len(removesBefore)
		w.mu.Lock()
		w.onRemove = func(k int, _, _ string) {
			if k-base >= releaseAt {
				open()
			}
		}
		w.mu.Unlock()
		var wg sync.WaitGroup
		var scanErr error
		var scanCall, scanRet int64
		wg.Add(1)
		go func() {
			defer wg.Done()
			<-start
			if releaseAt == 0 {
				open()
			}
			scanCall = tick()
			scanErr = rs.DoScan(context.Background())
			scanRet = tick()
			open() // a scan with fewer removals than planned: the clients still run
		}()
		for j := 0; j < nclients; j++ {
			ops, sp := plans[j], specs[j]
			wg.Add(1)
			go func() {
				defer wg.Done()
				<-release
				for k, op := range ops {
					for y := 0; y < op.Yields; y++ {
						runtime.Gosched()
					}
					op.Call = tick()
					pm, err := addOne(st, op.Box, sp[k], now, period)
					op.Ret = tick()
					if err != nil {
						op.Err = err.Error()
						continue
					}
					op.ID = pm.ID
					op.pm = pm
				}
			}()
		}
		ok, dump := c.Within(20*time.Second, func() {
			close(start)
			wg.Wait()
		})
		if !ok {
			c.Hang("sizelimit-scan-and-deliveries", fmt.Sprintf("memory store with maxkb=%d, full: a retention scan and %d delivering client(s) did not finish (round %d, clients released at the scan's RemoveMessage call %d)",
				maxKB, nclients, round, releaseAt), dump)
			return
		}
		w.mu.Lock()
		w.onRemove = nil
		w.mu.Unlock()
		rl.ScanCall, rl.ScanRet = scanCall, scanRet
		logs = append(logs, rl)
		if scanErr != nil {
			c.Violation("C12:scan-error:sizelimit", fmt.Sprintf("DoScan on a full memory store (maxkb=%d) returned %v while clients delivered", maxKB, scanErr), detail)
			return
		}
		overlap := 0
		for _, op := range rl.Ops {
			if op.Err != "" {
				c.Inconclusive("AddMessage failed during the scan: " + op.Err)
				return
			}
			record(op.pm, phase, -1, op.Ret)
			if op.Call < scanRet && op.Ret > scanCall {
				overlap++
			}
		}
		overlapTotal += overlap
		_, rem := w.snapshot()
		for _, rc := range rem[base:] {
			if rc.Err == "" {
				scanRemoved++
			} else {
				overtaken++ // the size limit took it between the scan's snapshot and its removal
			}
		}
		// Quiet moment: what must be gone, what must still be there.
		snap, err := snapAll()
		if err != nil {
			c.Violation("C12:store-unreadable-after-scan:sizelimit", err.Error(), detail)
			return
		}
		vs := dropOrder(judge(snap, want, func(pm *pmsg) int {
			m := info[pm]
			switch {
			case pm.Old && (m.phase < phase || m.addRet < scanCall):
				return mustGone
			case pm.Old:
				return dontCare
			case bound(m) <= limit:
				return mustStay
			}
			return dontCare
		}, false))
		if len(vs) > 0 {
			report(c, "sizelimit", vs, detail)
			return
		}
	}
	// A last, undisturbed scan: nothing expired is left, whenever it arrived.
	serr, ok := scanOnce(c, rs, context.Background(), "sizelimit")
	if !ok {
		return
	}
	if serr != nil {
		c.Violation("C12:scan-error:sizelimit", fmt.Sprintf("quiet DoScan on the memory store (maxkb=%d) returned %v", maxKB, serr), detail)
		return
	}
	snap, err := snapAll()
	if err != nil {
		c.Violation("C12:store-unreadable-after-scan:sizelimit", err.Error(), detail)
		return
	}
	gone, stay, free := 0, 0, 0
	vs := dropOrder(judge(snap, want, func(pm *pmsg) int {
		switch {
		case pm.Old:
			gone++
			return mustGone
		case bound(info[pm]) <= limit:
			stay++
			return mustStay
		}
		free++
		return dontCare
	}, false))
	if len(vs) > 0 {
		report(c, "sizelimit-final", vs, detail)
		return
	}
	_, rem := w.snapshot()
	removedByScan := 0
	for _, rc := range rem {
		if rc.Err == "" {
			removedByScan++
		}
	}
	missing := 0
	for _, m := range all {
		if !m.present {
			missing++
		}
	}
	evicted := missing - removedByScan // every message that left was taken by the scan or by the limit
	c.Count("sizelimit_cases", 1)
	c.Count("sizelimit_scans", int64(rounds+1))
	c.Count("sizelimit_deliveries_overlapping_scan", int64(overlapTotal))
	c.Count("sizelimit_evictions", int64(evicted))
	c.Count("sizelimit_scan_removals_overtaken_by_eviction", int64(overtaken))
	c.Count("sizelimit_young_demanded", int64(stay))
	c.Count("sizelimit_young_left_to_the_limit", int64(free))
	c.Count("expired_removed", int64(gone))
	c.Count("unexpired_kept", int64(stay))
	if overlapTotal > 0 && evicted > 0 && scanRemoved > 0 && stay > 0 {
		c.NonTrivial(fmt.Sprintf("sizelimit|maxkb=%d|%s|boxes=%d|rounds=%d|fill=%d|overlap=%s|evicted=%s|overtaken=%s", maxKB, pclass, nb, rounds,
			fillPct, bucket(overlapTotal), bucket(evicted), bucket(overtaken)))
	}
	c.Sample(map[string]any{"stream": "sizelimit", "maxkb": maxKB, "mailboxes": nb, "rounds": rounds, "messages": len(all),
		"removed_by_scan": removedByScan, "evicted_by_limit": evicted, "deliveries_overlapping_scan": overlapTotal,
		"young_demanded": stay, "young_left_to_the_limit": free})
}
