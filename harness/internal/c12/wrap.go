package c12

import (
	"sync"

	"github.com/inbucket/inbucket/v3/pkg/storage"
)

// wrapStore is the store handed to the retention scanner: it forwards everything to the real
// store and records, at the boundary between scanner and store, which mailboxes the scan visited
// and which messages it asked to remove.  Callbacks run on the scanner's goroutine before the call
// is forwarded; they may cancel a context or perform client operations on the real store.
type wrapStore struct {
	storage.Store
	mu       sync.Mutex
	visits   []string // mailbox name of each visit ("" for an empty message list)
	removes  []removeCall
	onVisit  func(k int, msgs []storage.Message) // k counts from 1
	onRemove func(k int, mailbox, id string)     // k counts from 1
}

type removeCall struct {
	Mailbox string `json:"mailbox"`
	ID      string `json:"id"`
	Visit   int    `json:"visit"` // number of visits begun when the call was made
	Err     string `json:"err,omitempty"`
}

func (w *wrapStore) VisitMailboxes(f func([]storage.Message) bool) error {
	return w.Store.VisitMailboxes(func(ms []storage.Message) bool {
		name := ""
		if len(ms) > 0 {
			name = ms[0].Mailbox()
		}
		w.mu.Lock()
		w.visits = append(w.visits, name)
		k := len(w.visits)
		cb := w.onVisit
		w.mu.Unlock()
		if cb != nil {
			cb(k, ms)
		}
		return f(ms)
	})
}

func (w *wrapStore) RemoveMessage(mailbox, id string) error {
	w.mu.Lock()
	w.removes = append(w.removes, removeCall{Mailbox: mailbox, ID: id, Visit: len(w.visits)})
	k := len(w.removes)
	cb := w.onRemove
	w.mu.Unlock()
	if cb != nil {
		cb(k, mailbox, id)
	}
	err := w.Store.RemoveMessage(mailbox, id)
	if err != nil {
		w.mu.Lock()
		w.removes[k-1].Err = err.Error()
		w.mu.Unlock()
	}
	return err
}

func (w *wrapStore) snapshot() (visits []string, removes []removeCall) {
	w.mu.Lock()
	defer w.mu.Unlock()
	return append([]string(nil), w.visits...), append([]removeCall(nil), w.removes...)
}
