// Package c13 will hold the check for property C13.
package c13
