// Package c13 decides C13: a POP3 session is a stable snapshot of the mailbox taken at login, and
// its deletions are committed only by QUIT.  Real POP3 sessions (QConn -> startSession -> real
// store) are driven one command line at a time with sequences from a grammar while the harness
// adds and removes messages in the same mailbox directly through the store.  The oracle is the
// reference model M-pop3 over observed replies plus the store contents after the session ended.
// Stream "interfere" (interfere.go) drives the histories in which another party empties the
// logged-in mailbox (purge, or every message removed) and it is delivered to again before the
// session ends.
package c13

import (
	"fmt"
	"net/mail"
	"os"
	"regexp"
	"sort"
	"strconv"
	"strings"
	"time"

	"verifharness/internal/fw"
	"verifharness/internal/gen"
	"verifharness/internal/sut"
)

func init() {
	fw.Register(&fw.Prop{
		ID:    "C13",
		Level: "exploration",
		Rule: "stream 'session': mailbox 'main' with 0-8 messages (0 B - 100 KiB, with and without final newline, dot lines) plus a second mailbox, " +
			"on both back ends; 5-40 command lines per session from a progress-biased grammar: USER/PASS/APOP in every order and arity, " +
			"STAT/LIST/UIDL/DELE/RETR/TOP with no, valid, deleted, 0, negative, n+1, non-numeric, 2^31-1, 2^31, 2^32+1, 2^63, 2^64, signed, zero-padded, extra and " +
			"double-spaced arguments, RSET, NOOP, CAPA, STLS, unknown verbs, empty and 1 MiB lines, mixed-case verbs; ending by QUIT (any state) or by " +
			"closing after any command; between commands the harness adds/removes messages in the same mailbox through the store. Oracle: M-pop3 " +
			"(snapshot taken by the harness immediately before the login command; marks tracked from observed replies) for every reply in TRANSACTION " +
			"state, one reply per command, and the store after the session = live contents minus exactly the marked ids after QUIT in TRANSACTION, " +
			"unchanged otherwise. A session is non-trivial when it logged in and >=1 model comparison was made; distinct by back end, mailbox size, " +
			"ending and the set of (command kind, argument class, outcome) triples. " +
			"Stream 'interfere' (added after seeded change C13-7): 1-6 messages, login, DELE of none/one/some/all, then one or two rounds of outside " +
			"interference between two commands - whole mailbox purged, every message removed one by one, all but one, exactly the marked, all but " +
			"the marked, nothing; through the store or the StoreManager - each followed by 0, 1 or 2-4 new deliveries and 0-4 further commands (judged by " +
			"M-pop3 against the login snapshot), ending by QUIT, drop or idle timeout, both back ends. Oracle for both streams: the store after the session, " +
			"with snapshot members identified by the delivery they stem from (not by id alone): after QUIT exactly the marked snapshot members that still " +
			"existed are gone, after every other ending nothing is, every message delivered after the login is still there (in 'interfere' every " +
			"remaining message also reads back the octets that were delivered). " +
			"Ending 'client gone' (added after seeded change C13-12, both streams): 'QUIT<CRLF>' - alone or followed by further bytes - queued and the client side " +
			"closed without reading, so the complete QUIT line is read and the write of its reply fails: judged by the QUIT oracle (in TRANSACTION state exactly the " +
			"marked snapshot members that still existed are gone); 'QUIT' without any line terminator, then closed: nothing is removed.",
		Assumptions: []string{
			"sessions are served through VerifServeConn (the real startSession) on an in-memory net.Conn",
			"the mailbox of a session is the single argument of the most recent acknowledged 'USER name' (or the first argument of 'APOP name digest'); logins through other shapes that are acknowledged are only checked for reply shape and for an unchanged store when nothing was marked",
			"arguments that are not a plain decimal number alone (sign, leading zero, extra arguments, doubled or trailing spaces) may be refused or be read as their first number; either is accepted",
			"RETR/TOP content is only required to be message n (unique marker line present), dot-terminated; RETR/TOP of a message marked deleted, or removed from the store by another party during the session, is not judged",
			"a number followed by the word 'messages' in the first line of a login/LIST/UIDL reply is taken to be a message count",
			"a session whose complete, CRLF-terminated QUIT line was queued before the client side closed has ended by QUIT, whether or not the reply could be written; a rest of input that ends without any line terminator is not a command",
			"all deliveries and outside removals are made by the harness while the session is blocked reading its next command, so the harness knows which delivery every stored message stems from; a message found after the session under the id the store returned for a delivery is taken to be that delivery (stream 'interfere' also compares its source)",
		},
		MinObs: func(tier string) map[string]int64 {
			return map[string]int64{
				"sessions:mem": 100, "sessions:file": 100,
				"logins_user_pass": 100, "logins_apop": 50, "logins_noncanonical": 5,
				"stat_compared": 200, "list_compared": 200, "uidl_compared": 200, "list_n_compared": 100, "uidl_n_compared": 100,
				"dele_marked": 200, "dele_refused_already_marked": 20, "rset_with_marks": 30,
				"retr_compared": 100, "top_compared": 50,
				"compared_after_external_add": 50, "compared_after_external_remove": 50, "external_change_between_user_and_pass": 30,
				"end:quit-transaction-with-marks": 50, "end:close-with-marks": 50, "end:quit-authorization": 10,
				"end:quit-transaction-no-marks": 10,
				"store_compared_after_session":  400,
				"kind:long-1m":                  3, "kind:empty": 20, "kind:unknown": 20,
				"arg:2^31": 5, "arg:2^64": 5, "arg:2^32+1": 5, "arg:zero": 20, "arg:negative": 20, "arg:over": 20, "arg:nonnumeric": 20,
				"arg:extra": 10, "arg:double-space": 10, "arg:marked": 30,
				// stream "interfere"
				"ix_sessions:mem": 300, "ix_sessions:file": 300, "ix_shape:purge": 100, "ix_shape:remove-all": 100,
				"ix_shape:remove-marked": 30, "ix_shape:remove-all-but-marked": 30, "ix_shape:remove-all-but-one": 30,
				"ix_mailbox_emptied_behind_session": 300,
				"ix_deliveries_after_emptying:0":    50, "ix_deliveries_after_emptying:1": 100, "ix_deliveries_after_emptying:several": 100,
				"ix_marks_emptied_redelivered_then_quit:mem": 50, "ix_marks_emptied_redelivered_then_quit:file": 50,
				"ix_marks_emptied_redelivered_then_drop:mem": 15, "ix_marks_emptied_redelivered_then_drop:file": 15,
				"ix_marks_emptied_redelivered_then_idle-timeout:mem": 15, "ix_marks_emptied_redelivered_then_idle-timeout:file": 15,
				"ix_later_deliveries_verified_present": 500, "ix_marked_members_removed_by_quit": 50,
				"later_deliveries_found_after_session": 1000, "marked_messages_removed_by_quit": 100,
				// ending "client gone" (gone.go)
				"gone_quit_reply_unwritable": 300, "gone_quit_with_marks_committed:mem": 50, "gone_quit_with_marks_committed:file": 50,
				"gone_quit_with_marks_committed_reply_unwritable": 100, "gone_quit_plus_bytes_with_marks_committed": 30,
				"gone_quit_marked_members_removed":                      40,
				"gone_unterminated_quit_with_marks_nothing_removed:mem": 20, "gone_unterminated_quit_with_marks_nothing_removed:file": 20,
				"ix_end:quit-gone": 100, "ix_end:unterminated-quit-gone": 40,
				"ix_marks_emptied_redelivered_then_quit-gone:mem": 20, "ix_marks_emptied_redelivered_then_quit-gone:file": 20,
			}
		},
		// Generous: file-store sessions stall for minutes when other runs saturate the disk.
		ChildTimeout: func(tier string) time.Duration {
			if tier == "thorough" {
				return 90 * time.Minute
			}
			return 20 * time.Minute
		},
		Run: run,
	})
}

func run(c *fw.Ctx) {
	c.Cases("session", c.N(6000, 60000), func(i int, r *fw.Rand) {
		runSession(c, i, r)
	})
	c.Cases("interfere", c.N(1600, 16000), func(i int, r *fw.Rand) {
		runInterfere(c, i, r)
	})
}

// snapMsg is one message of the snapshot S taken by the harness before the login command.
type snapMsg struct {
	id     string
	size   int64
	marker string // unique line contained in the source ("" if the message is too small to carry one)
	serial int    // harness serial of the delivery this message stems from (identity independent of the store id)
}

type psess struct {
	c       *fw.Ctx
	r       *fw.Rand
	idx     int
	backend string
	env     *sut.Env
	ps      *sut.POP3Session

	// observed session state
	state     string // AUTH | TRANS | LENIENT
	user      string
	userKnown bool
	box       string
	S         []snapMsg
	marked    []bool
	anyDele   bool

	// the store as the harness knows it: mailbox -> ordered ids
	live      map[string][]string
	removedBy map[string]bool // ids of S the harness removed during the session
	extAdd    bool            // harness added to box since login
	extRem    bool            // harness removed from box since login
	uniq      int

	// Identity of messages independent of the ids the store hands out (added after seeded change
	// C13-7, see interfere.go): every delivery of the harness has a serial; serialOf maps
	// mailbox+"\x00"+id to the serial of the latest delivery that was given this id, src keeps
	// what was delivered.  The store comparison after the session identifies "the messages of the
	// login snapshot" by serial, so a store that hands a later delivery the id of a snapshot
	// member cannot make the harness expect that delivery to go away with the marked one.
	serialOf    map[string]int
	src         map[int][]byte
	loginSerial int  // s.uniq when the login was acknowledged: larger serials were delivered after login
	content     bool // compare the full sources after the session (stream "interfere")
	ix          *ixInfo
	gone        *goneInfo // set when the session ended by the client vanishing behind (part of) a QUIT line, see gone.go

	events   map[string]bool
	compared int
	failed   bool
	over     bool
	ending   string
}

func (s *psess) fail(key, what string) {
	s.failed = true
	tr := s.ps.Trace
	if len(tr) > 40 {
		tr = tr[len(tr)-40:]
	}
	var snap []string
	for i, m := range s.S {
		snap = append(snap, fmt.Sprintf("%d:%s:%d:marked=%v", i+1, m.id, m.size, s.marked[i]))
	}
	s.c.Violation("C13:"+key, what, map[string]any{"backend": s.backend, "mailbox": s.box, "snapshot": snap,
		"live": s.live, "trace_tail": tr})
}

var markerRE = regexp.MustCompile(`X-Uniq: [0-9a-z-]+`)

// genSource builds a message source of a sampled size class.
func (s *psess) genSource() (src []byte, marker string) {
	r := s.r
	s.uniq++
	marker = fmt.Sprintf("X-Uniq: u%d-%d-%s", s.idx, s.uniq, r.Letters(5, "0123456789abcdef"))
	switch r.Weighted([]int{1, 1, 10, 3, 1}) {
	case 0:
		return nil, ""
	case 1:
		return []byte(r.Pick([]string{"a", "\r\n", ".", "x\r\n.\r\n", "no newline"})), ""
	}
	var b strings.Builder
	b.WriteString("From: a@hdr.test\r\nSubject: s" + strconv.Itoa(s.uniq) + "\r\n" + marker + "\r\n\r\n")
	lines := r.Range(0, 12)
	for i := 0; i < lines; i++ {
		switch r.Intn(8) {
		case 0:
			b.WriteString(".")
		case 1:
			b.WriteString(".." + r.Letters(3, "ab."))
		case 2:
			b.WriteString("")
		default:
			b.WriteString(r.Letters(r.Range(1, 78), "abcdefghijklmnopqrstuvwxyz ,."))
		}
		b.WriteString("\r\n")
	}
	switch r.Intn(14) {
	case 0:
		b.WriteString(strings.Repeat("k", 70*1024) + "\r\n") // one long line (> 64 KiB)
	case 1:
		for b.Len() < 100*1024 {
			b.WriteString(strings.Repeat("m", 76) + "\r\n")
		}
	case 2, 3:
		for n := r.Range(1000, 6000); b.Len() < n; {
			b.WriteString(r.Letters(60, "abcdefghij ") + "\r\n")
		}
	}
	if r.Chance(1, 6) {
		b.WriteString("last line without newline")
	}
	return []byte(b.String()), marker
}

func (s *psess) add(box string) {
	src, _ := s.genSource()
	s.deliver(box, src)
}

func (s *psess) deliver(box string, src []byte) {
	id, err := s.env.Store.AddMessage(sut.NewDelivery(box, &mail.Address{Address: "a@hdr.test"},
		[]*mail.Address{{Address: box + "@inbucket.test"}}, "s"+strconv.Itoa(s.uniq), time.Now(), src))
	if err != nil {
		panic(fmt.Sprintf("harness: AddMessage(%s): %v", box, err))
	}
	s.live[box] = append(s.live[box], id)
	s.serialOf[box+"\x00"+id] = s.uniq
	s.src[s.uniq] = src
}

func runSession(c *fw.Ctx, idx int, r *fw.Rand) {
	conf := sut.DefaultConf()
	backend := []string{"mem", "file"}[(idx/16+idx)%2] // both back ends in every batch (8 or 16 children)
	if backend == "file" {
		dir := c.TempDir("c13fs")
		defer os.RemoveAll(dir)
		conf.Storage.Type = "file"
		conf.Storage.Params = map[string]string{"path": dir}
	}
	env, err := sut.NewEnv(conf, backend)
	if err != nil {
		panic(err)
	}
	s := &psess{c: c, r: r, idx: idx, backend: backend, env: env, state: "AUTH", live: map[string][]string{},
		removedBy: map[string]bool{}, events: map[string]bool{}, serialOf: map[string]int{}, src: map[int][]byte{}}
	nmain := r.Weighted([]int{1, 2, 3, 3, 3, 2, 2, 1, 2})
	// Add more than wanted and remove the surplus again, so that store ids differ from positions.
	surplus := r.Intn(3)
	for i := 0; i < nmain+surplus; i++ {
		s.add("main")
	}
	for ; surplus > 0; surplus-- {
		ids := s.live["main"]
		k := r.Intn(len(ids))
		if err := env.Store.RemoveMessage("main", ids[k]); err != nil {
			panic(fmt.Sprintf("harness: RemoveMessage: %v", err))
		}
		s.live["main"] = append(append([]string{}, ids[:k]...), ids[k+1:]...)
	}
	for i := r.Range(1, 2); i > 0; i-- {
		s.add("other")
	}
	c.Count("sessions:"+backend, 1)
	s.ps = env.StartPOP3()
	defer func() {
		if !s.ps.Ended() {
			if !s.ps.Close() {
				c.Hang("pop3-session-end", "POP3 session did not end after the client closed", "")
			}
		}
	}()
	if _, ok := s.ps.Greeting(); !ok {
		s.fail("no-greeting", "no single +OK greeting")
		return
	}
	maxLines := r.Range(5, 40)
	for n := 0; n < maxLines && !s.over && !s.failed; n++ {
		if s.state == "TRANS" && r.Chance(1, 5) {
			s.external(s.box)
		} else if s.state == "AUTH" && s.userKnown && r.Chance(1, 6) {
			// between USER and the login proper: the snapshot is the mailbox at login
			s.external(s.user)
			c.Count("external_change_between_user_and_pass", 1)
		}
		if s.state == "TRANS" && r.Chance(1, 10) {
			s.externalRemoveMarked()
		}
		if n > 2 && r.Chance(1, 40) {
			// The server's idle timeout expires (injected logically): the session must end and,
			// whatever was marked, nothing may be removed.
			if !s.idleTimeout() {
				return
			}
			break
		}
		cm := s.next()
		if cm.kind == "close" {
			break
		}
		if cm.kind == "gone" {
			// QUIT (or an unterminated piece of it) queued and the client gone without reading (gone.go)
			if !s.vanish(cm.argClass) {
				return
			}
			break
		}
		s.play(cm)
	}
	if s.failed {
		return
	}
	s.finish()
	if s.failed {
		return
	}
	if s.compared > 0 {
		var ev []string
		for e := range s.events {
			ev = append(ev, e)
		}
		sort.Strings(ev)
		c.NonTrivial(fmt.Sprintf("%s|%d|%s|%s", backend, nmain, s.ending, strings.Join(ev, ",")))
	}
	c.Sample(map[string]any{"backend": backend, "messages": nmain, "ending": s.ending, "trace_head": head(s.ps.Trace, 16)})
}

// idleTimeout lets the server's read deadline expire (injected logically) and waits for the session to end.
func (s *psess) idleTimeout() bool {
	s.ps.Q.FireReadTimeout()
	if _, ok := s.ps.Q.WaitIdle(s.ps.Watchdog); !ok {
		s.c.Hang("pop3-session-idle", "POP3 session neither idle nor closed after its read deadline expired", "")
		s.failed = true
		return false
	}
	s.ps.Q.Take()
	s.over = true
	s.ending = "idle-timeout-" + strings.ToLower(s.state)
	s.c.Count("end:idle-timeout", 1)
	return true
}

func head(t []sut.Exchange, n int) []sut.Exchange {
	if len(t) > n {
		return t[:n]
	}
	return t
}

// external changes the logged-in mailbox behind the session's back.
func (s *psess) external(box string) {
	r := s.r
	if s.state != "TRANS" {
		if len(s.live[box]) > 0 && r.Bool() {
			ids := s.live[box]
			k := r.Intn(len(ids))
			if err := s.env.Store.RemoveMessage(box, ids[k]); err != nil {
				panic(fmt.Sprintf("harness: RemoveMessage(%s,%s): %v", box, ids[k], err))
			}
			s.live[box] = append(append([]string{}, ids[:k]...), ids[k+1:]...)
			return
		}
		s.add(box)
		return
	}
	if len(s.live[s.box]) > 0 && r.Bool() {
		ids := s.live[s.box]
		k := r.Intn(len(ids))
		id := ids[k]
		if err := s.env.Store.RemoveMessage(s.box, id); err != nil {
			panic(fmt.Sprintf("harness: RemoveMessage(%s,%s): %v", s.box, id, err))
		}
		s.live[s.box] = append(append([]string{}, ids[:k]...), ids[k+1:]...)
		for _, m := range s.S {
			if m.id == id {
				s.removedBy[id] = true
				s.c.Count("external_removes_of_snapshot_members", 1)
			}
		}
		s.extRem = true
		s.c.Count("external_removes", 1)
		return
	}
	s.add(s.box)
	s.extAdd = true
	s.c.Count("external_adds", 1)
}

// externalRemoveMarked removes, behind the session's back, the lowest-numbered message that the
// session has marked for deletion and that is still in the store: at QUIT the session's own
// removal of it then fails, which must not keep the other marked messages from being removed.
func (s *psess) externalRemoveMarked() {
	n := 0
	for _, m := range s.marked {
		if m {
			n++
		}
	}
	if n < 2 {
		return
	}
	for i, m := range s.marked {
		if !m || i >= len(s.S) {
			continue
		}
		id := s.S[i].id
		ids := s.live[s.box]
		for k := range ids {
			if ids[k] != id {
				continue
			}
			if err := s.env.Store.RemoveMessage(s.box, id); err != nil {
				panic(fmt.Sprintf("harness: RemoveMessage(%s,%s): %v", s.box, id, err))
			}
			s.live[s.box] = append(append([]string{}, ids[:k]...), ids[k+1:]...)
			s.removedBy[id] = true
			s.extRem = true
			s.c.Count("external_removes", 1)
			s.c.Count("external_removes_of_marked_members", 1)
			return
		}
	}
}

// takeSnapshot reads mailbox box the way any client of the store can, just before a login command.
func (s *psess) takeSnapshot(box string) []snapMsg {
	ms, err := s.env.Store.GetMessages(box)
	if err != nil {
		return nil
	}
	var out []snapMsg
	for _, m := range ms {
		sn := sut.SnapMsg(m, true)
		out = append(out, snapMsg{id: sn.ID, size: sn.Size, marker: markerRE.FindString(sn.Source), serial: s.serialOf[box+"\x00"+sn.ID]})
	}
	return out
}

// finish ends the session if necessary and compares the store with what the ending allows.
func (s *psess) finish() {
	commit := s.ending == "quit-transaction"
	markedStillLive := 0
	if !s.over {
		s.over = true
		s.ending = "close-" + strings.ToLower(s.state)
		if !s.ps.Close() {
			s.c.Hang("pop3-session-end", "POP3 session did not end after the client closed", "")
			s.failed = true
			return
		}
	} else if !s.ps.Ended() && !s.ps.WaitEnd() {
		s.c.Hang("pop3-session-end", "POP3 session did not end after QUIT", "")
		s.failed = true
		return
	}
	nmarked := 0
	for _, m := range s.marked {
		if m {
			nmarked++
		}
	}
	label := s.ending
	switch {
	case s.state == "TRANS" && commit && nmarked > 0:
		label = "quit-transaction-with-marks"
	case s.state == "TRANS" && commit:
		label = "quit-transaction-no-marks"
	case s.state == "TRANS" && nmarked > 0:
		label = "close-with-marks"
	case s.ending == "quit-auth":
		label = "quit-authorization"
	}
	lenientQuit := s.ending == "quit-refused"
	s.c.Count("end:"+label, 1)
	s.ending = label
	if s.gone != nil {
		s.ending = label + "/gone:" + s.gone.variant
		s.c.Count("end_gone:"+s.gone.variant+":"+label, 1)
	}
	if s.state == "LENIENT" && s.anyDele {
		s.c.Count("store_not_compared_noncanonical_login", 1)
		return
	}
	expect := map[string][]string{}
	for b, ids := range s.live {
		expect[b] = ids
	}
	if s.state == "TRANS" && commit {
		var keep []string
		for _, id := range s.live[s.box] {
			// "The messages marked at the time of QUIT" are messages of the login snapshot; they
			// are identified by the delivery they stem from, not by the id alone (see serialOf).
			ser := s.serialOf[s.box+"\x00"+id]
			del := false
			for i, m := range s.S {
				if m.serial == ser && s.marked[i] {
					del = true
				}
			}
			if !del {
				keep = append(keep, id)
			} else {
				markedStillLive++
			}
		}
		expect[s.box] = keep
	}
	extra := []string{"main", "other", "nobody", "Main"}
	if s.box != "" {
		extra = append(extra, s.box)
	}
	snap, err := sut.Snapshot(s.env.Store, extra, s.content)
	if err != nil {
		s.fail("store-unreadable", err.Error())
		return
	}
	names := map[string]bool{}
	for n := range snap {
		names[n] = true
	}
	for n := range expect {
		names[n] = true
	}
	var sorted []string
	for n := range names {
		sorted = append(sorted, n)
	}
	sort.Strings(sorted)
	for _, n := range sorted {
		var got []string
		for _, m := range snap[n] {
			got = append(got, m.ID)
		}
		want := expect[n]
		if strings.Join(got, ",") == strings.Join(want, ",") {
			continue
		}
		if lenientQuit && n == s.box && subseq(got, s.live[n]) {
			continue
		}
		key := "store-changed-by-session"
		switch {
		case !commit && len(got) < len(want):
			key = "deleted-without-quit"
		case commit && len(got) > len(want):
			key = "quit-kept-marked-message"
		case commit && len(got) < len(want):
			key = "quit-removed-unmarked-message"
			if s.laterMissing(n, got) {
				key = "quit-removed-later-delivery"
			}
		case commit:
			key = "quit-removed-wrong-message"
		}
		if s.gone != nil {
			key += s.gone.keySuffix()
		}
		s.fail(key, fmt.Sprintf("after ending %q mailbox %q holds ids %v, expected %v (live before the ending %v)", s.ending, n, got, want, s.live[n]))
		return
	}
	if s.content {
		// Everything in the store after the session still has the content that was delivered.
		for _, n := range sorted {
			for _, m := range snap[n] {
				want, known := s.src[s.serialOf[n+"\x00"+m.ID]]
				if m.SrcErr != "" || !known || m.Source != string(want) {
					s.fail("content-changed-by-session", fmt.Sprintf("after ending %q message %s of mailbox %q reads %d octets (error %q), %d octets were delivered under that id: %s... vs %s...",
						s.ending, m.ID, n, len(m.Source), m.SrcErr, len(want), fw.Q(cut(m.Source, 120)), fw.Q(cut(string(want), 120))))
					return
				}
			}
		}
	}
	s.c.Count("store_compared_after_session", 1)
	if s.state == "TRANS" {
		later := 0
		for _, id := range s.live[s.box] {
			if s.serialOf[s.box+"\x00"+id] > s.loginSerial {
				later++
			}
		}
		s.c.Count("later_deliveries_found_after_session", int64(later))
		if commit {
			s.c.Count("marked_messages_removed_by_quit", int64(markedStillLive))
		}
		if s.ix != nil {
			s.ix.later, s.ix.removedByQuit = later, markedStillLive
		}
		s.goneEvidence(commit, nmarked, markedStillLive)
	}
}

// laterMissing reports whether a message delivered to mailbox n after the login is absent from got.
func (s *psess) laterMissing(n string, got []string) bool {
	if n != s.box {
		return false
	}
	for _, id := range s.live[n] {
		if s.serialOf[n+"\x00"+id] <= s.loginSerial {
			continue
		}
		found := false
		for _, g := range got {
			if g == id {
				found = true
			}
		}
		if !found {
			return true
		}
	}
	return false
}

func cut(s string, n int) string {
	if len(s) > n {
		return s[:n]
	}
	return s
}

func subseq(a, b []string) bool {
	j := 0
	for _, x := range a {
		for j < len(b) && b[j] != x {
			j++
		}
		if j == len(b) {
			return false
		}
		j++
	}
	return true
}

// ---------------------------------------------------------------------------------------------
// commands
// ---------------------------------------------------------------------------------------------

type cmd struct {
	text     string
	kind     string // STAT, LIST, LIST-n, UIDL, UIDL-n, DELE, RETR, TOP, RSET, NOOP, CAPA, USER, PASS, APOP, QUIT, STLS, unknown, empty, long-1m
	verb     string
	argClass string // "", valid, marked, zero, negative, over, nonnumeric, 2^31.., extra, double-space, ...
	strict   bool   // the argument is a plain decimal number (or plainly not a number) on its own
	val      int64  // value of the first number, 0 if none / out of int64
	hasVal   bool
	canon    bool   // USER/APOP: canonical shape
	name     string // USER/APOP: mailbox named
	tolerant bool
	topOK    bool // TOP: second argument is a plain non-negative number
}

func (s *psess) numArg() (text, class string, strict bool, val int64, has bool) {
	r := s.r
	n := len(s.S)
	var unmarked, marked []int
	for i := range s.S {
		if s.marked[i] {
			marked = append(marked, i+1)
		} else {
			unmarked = append(unmarked, i+1)
		}
	}
	switch r.Weighted([]int{40, 12, 5, 5, 6, 5, 2, 2, 2, 2, 2, 2, 2, 3, 3, 3}) {
	case 0:
		if len(unmarked) > 0 {
			v := unmarked[r.Intn(len(unmarked))]
			return strconv.Itoa(v), "valid", true, int64(v), true
		}
		fallthrough
	case 1:
		if len(marked) > 0 {
			v := marked[r.Intn(len(marked))]
			return strconv.Itoa(v), "marked", true, int64(v), true
		}
		return strconv.Itoa(n + 1), "over", true, int64(n + 1), true
	case 2:
		return "0", "zero", true, 0, true
	case 3:
		v := -r.Range(1, 3)
		return strconv.Itoa(v), "negative", true, int64(v), true
	case 4:
		v := n + 1 + r.Intn(3)*r.Intn(50)
		return strconv.Itoa(v), "over", true, int64(v), true
	case 5:
		return r.Pick([]string{"abc", "1x", "x1", "1.0", "0x1", "one", "1e0", "1,2", "*", "#1"}), "nonnumeric", true, 0, false
	case 6:
		return "2147483647", "2^31-1", true, 2147483647, true
	case 7:
		return "2147483648", "2^31", true, 2147483648, true
	case 8:
		return "4294967297", "2^32+1", true, 4294967297, true
	case 9:
		return "9223372036854775808", "2^63", true, 0, false
	case 10:
		return r.Pick([]string{"18446744073709551616", "18446744073709551617"}), "2^64", true, 0, false
	case 11:
		v := 1 + r.Intn(n+1)
		return "+" + strconv.Itoa(v), "signed", false, int64(v), true
	case 12:
		v := 1 + r.Intn(n+1)
		return "0" + strconv.Itoa(v), "zero-padded", false, int64(v), true
	case 13:
		v := 1 + r.Intn(n+1)
		return strconv.Itoa(v) + " " + r.Pick([]string{"2", "x", "1", strconv.Itoa(v)}), "extra", false, int64(v), true
	case 14:
		v := 1 + r.Intn(n+1)
		return " " + strconv.Itoa(v), "double-space", false, int64(v), true
	}
	v := 1 + r.Intn(n+1)
	return strconv.Itoa(v) + " ", "trailing-space", false, int64(v), true
}

func caseVerb(r *fw.Rand, s string) string {
	if !r.Chance(1, 4) {
		return s
	}
	i := strings.IndexByte(s, ' ')
	if i < 0 {
		i = len(s)
	}
	return gen.RandCase(r, s[:i]) + s[i:]
}

func (s *psess) numCmd(verb string) cmd {
	t, class, strict, v, has := s.numArg()
	kind := verb
	if verb == "LIST" || verb == "UIDL" {
		kind = verb + "-n"
	}
	cm := cmd{text: verb + " " + t, kind: kind, verb: verb, argClass: class, strict: strict, val: v, hasVal: has}
	if verb == "TOP" {
		k := s.r.Weighted([]int{10, 1, 1, 1, 1})
		switch k {
		case 0:
			cm.text += " " + s.r.Pick([]string{"0", "1", "3", "1000"})
			cm.topOK = true
		case 1:
			cm.text += " -1"
		case 2:
			cm.text += " abc"
		case 3: // missing
		case 4:
			cm.text += " 1 2"
		}
		if class == "extra" || class == "trailing-space" {
			cm.topOK = false
		}
	}
	cm.text = caseVerb(s.r, cm.text)
	return cm
}

func (s *psess) plain(text, kind string) cmd {
	v := text
	if i := strings.IndexByte(v, ' '); i >= 0 {
		v = v[:i]
	}
	return cmd{text: caseVerb(s.r, text), kind: kind, verb: strings.ToUpper(v), strict: !strings.Contains(text, " ")}
}

func (s *psess) userCmd() cmd {
	r := s.r
	name := r.Pick([]string{"main", "main", "main", "main", "main", "other", "nobody", "Main"})
	switch r.Weighted([]int{12, 1, 1, 1, 1}) {
	case 0:
		return cmd{text: caseVerb(r, "USER "+name), kind: "USER", verb: "USER", canon: true, name: name}
	case 1:
		return cmd{text: "USER", kind: "USER-odd", verb: "USER"}
	case 2:
		return cmd{text: "USER " + name + " extra", kind: "USER-odd", verb: "USER"}
	case 3:
		return cmd{text: "USER  " + name, kind: "USER-odd", verb: "USER"}
	}
	return cmd{text: "USER " + name + " ", kind: "USER-odd", verb: "USER"}
}

func (s *psess) passCmd() cmd {
	t := s.r.Pick([]string{"PASS secret", "PASS secret", "PASS secret", "PASS x", "PASS", "PASS a b", "PASS  x", "PASS main"})
	return cmd{text: caseVerb(s.r, t), kind: "PASS", verb: "PASS"}
}

func (s *psess) apopCmd() cmd {
	r := s.r
	name := r.Pick([]string{"main", "main", "main", "main", "other", "nobody"})
	const digest = "c4c9334bac560ecc979e58001b3e22fb"
	switch r.Weighted([]int{10, 1, 1, 1, 1}) {
	case 0:
		return cmd{text: caseVerb(r, "APOP "+name+" "+digest), kind: "APOP", verb: "APOP", canon: true, name: name}
	case 1:
		return cmd{text: "APOP", kind: "APOP-odd", verb: "APOP"}
	case 2:
		return cmd{text: "APOP " + name, kind: "APOP-odd", verb: "APOP"}
	case 3:
		return cmd{text: "APOP " + name + " " + digest + " extra", kind: "APOP-odd", verb: "APOP"}
	}
	return cmd{text: "APOP  " + name + " " + digest, kind: "APOP-odd", verb: "APOP"}
}

func (s *psess) junk() cmd {
	r := s.r
	switch r.Weighted([]int{6, 4, 1, 2}) {
	case 0:
		t := r.Pick([]string{"FOO", "XYZZY 1", "AUTH PLAIN", "LISTT", "STA", "HELO x", "GET / HTTP/1.1", "+OK", "-ERR", ".", "DELE1", "\x00\x01\x02", "R\xffTR 1"})
		return cmd{text: t, kind: "unknown", verb: "?"}
	case 1:
		return cmd{text: r.Pick([]string{"", "", " ", "  "}), kind: "empty", verb: "?"}
	case 2:
		t := strings.Repeat(r.Letters(1, "Aa9"), 1<<20)
		if r.Bool() {
			t = "LIST " + t
		}
		return cmd{text: t, kind: "long-1m", verb: "?", tolerant: true}
	}
	return cmd{text: r.Pick([]string{"STLS", "CAPA", "CAPA x"}), kind: "CAPA-STLS", verb: "?"}
}

func (s *psess) next() cmd {
	r := s.r
	if s.state == "AUTH" {
		if r.Chance(60, 100) {
			// make progress towards a login
			if r.Chance(1, 3) {
				return s.apopCmd()
			}
			if s.userKnown {
				return s.passCmd()
			}
			return s.userCmd()
		}
		switch r.Weighted([]int{10, 8, 8, 10, 5, 4, 2, 1}) {
		case 7:
			return cmd{kind: "gone", argClass: s.goneVariant()}
		case 0:
			return s.userCmd()
		case 1:
			return s.passCmd()
		case 2:
			return s.apopCmd()
		case 3:
			return s.transCmd()
		case 4:
			return s.junk()
		case 5:
			return s.plain("QUIT", "QUIT")
		}
		return cmd{kind: "close"}
	}
	switch r.Weighted([]int{84, 4, 3, 4, 3, 3}) {
	case 5:
		return cmd{kind: "gone", argClass: s.goneVariant()}
	case 0:
		return s.transCmd()
	case 1:
		return s.junk()
	case 2:
		return []cmd{s.userCmd(), s.passCmd(), s.apopCmd()}[r.Intn(3)]
	case 3:
		return s.plain(r.Pick([]string{"QUIT", "QUIT", "QUIT", "QUIT now"}), "QUIT")
	}
	return cmd{kind: "close"}
}

func (s *psess) transCmd() cmd {
	r := s.r
	switch r.Weighted([]int{12, 9, 10, 7, 9, 16, 6, 8, 5, 3, 2}) {
	case 0:
		return s.plain(r.Pick([]string{"STAT", "STAT", "STAT", "STAT", "STAT 1", "STAT "}), "STAT")
	case 1:
		return s.plain("LIST", "LIST")
	case 2:
		return s.numCmd("LIST")
	case 3:
		return s.plain("UIDL", "UIDL")
	case 4:
		return s.numCmd("UIDL")
	case 5:
		return s.numCmd("DELE")
	case 6:
		return s.plain(r.Pick([]string{"RSET", "RSET", "RSET", "RSET 1"}), "RSET")
	case 7:
		return s.numCmd("RETR")
	case 8:
		return s.numCmd("TOP")
	case 9:
		return s.plain(r.Pick([]string{"NOOP", "NOOP", "NOOP x"}), "NOOP")
	}
	switch r.Intn(4) {
	case 0:
		return s.plain("DELE", "DELE-noarg")
	case 1:
		return s.plain("RETR", "RETR-noarg")
	case 2:
		return s.plain("TOP", "TOP-noarg")
	}
	return s.plain("CAPA", "CAPA")
}

// ---------------------------------------------------------------------------------------------
// playing one command and judging the reply
// ---------------------------------------------------------------------------------------------

var countRE = regexp.MustCompile(`(\d+) messages`)

func outcome(rep sut.POP3Reply) string {
	if rep.OK {
		return "ok"
	}
	return "err"
}

func (s *psess) play(cm cmd) {
	c := s.c
	var cand []snapMsg
	candBox := ""
	if s.state == "AUTH" {
		switch {
		case cm.verb == "PASS" && s.userKnown:
			candBox = s.user
		case cm.verb == "APOP" && cm.canon:
			candBox = cm.name
		}
		if candBox != "" {
			cand = s.takeSnapshot(candBox)
		}
	}
	rep, closed, ok := s.ps.Step([]byte(cm.text + "\r\n"))
	if !ok {
		c.Hang("pop3-no-quiescence", "session neither idle nor closed after command kind "+cm.kind, "")
		s.failed = true
		return
	}
	c.Count("commands_sent", 1)
	c.Count("kind:"+cm.kind, 1)
	if cm.argClass != "" {
		c.Count("arg:"+cm.argClass, 1)
	}
	if len(rep.Raw) == 0 {
		if closed && cm.tolerant {
			c.Count("tolerant_line_ended_session", 1)
			s.over = true
			s.ending = "closed-by-server"
			return
		}
		s.fail("no-reply:"+cm.kind, fmt.Sprintf("no reply to %s (closed=%v)", fw.Q(cm.text), closed))
		return
	}
	if rep.Malformed != "" {
		s.fail("malformed-reply:"+cm.kind, fmt.Sprintf("after %s: %s", fw.Q(cm.text), rep.Malformed))
		return
	}
	c.Count("replies_observed", 1)
	st := s.state
	s.events[st+"|"+cm.kind+"|"+cm.argClass+"|"+outcome(rep)] = true

	// ---- one reply per command ----
	verb := cm.verb
	up := strings.ToUpper(strings.TrimRight(cm.text, " "))
	multiAllowed := up == "LIST" || up == "UIDL" || verb == "RETR" || verb == "TOP" || strings.HasPrefix(up, "CAPA")
	n := int(cm.val)
	inRange := cm.hasVal && cm.val >= 1 && cm.val <= int64(len(s.S))
	extRemoved := st == "TRANS" && inRange && s.removedBy[s.S[n-1].id]
	if rep.Multi {
		switch {
		case (verb == "RETR" || verb == "TOP") && extRemoved && !rep.Terminated:
			// The message left the store behind the session's back; not covered by the statement.
			c.Count("retr_of_externally_removed_message_broken_reply", 1)
			return
		case !multiAllowed || rep.Err:
			s.fail("multiple-replies:"+cm.kind, fmt.Sprintf("more than one reply line to %s: %s", fw.Q(cm.text), fw.Q(string(rep.Raw))))
			return
		case !rep.Terminated:
			s.fail("unterminated-reply:"+cm.kind, fmt.Sprintf("multi-line reply to %s is not terminated by a dot line: %s", fw.Q(cm.text), fw.Q(string(rep.Raw))))
			return
		case len(rep.Extra) > 0:
			s.fail("multiple-replies:"+cm.kind, fmt.Sprintf("output after the terminating dot of the reply to %s: %s", fw.Q(cm.text), fw.Q(string(rep.Extra))))
			return
		}
	} else if rep.OK && st != "AUTH" && (up == "LIST" || up == "UIDL" || verb == "RETR" || verb == "TOP") {
		s.fail("unterminated-reply:"+cm.kind, fmt.Sprintf("+OK to %s without the multi-line body and terminator: %s", fw.Q(cm.text), fw.Q(string(rep.Raw))))
		return
	}

	// ---- QUIT ----
	if verb == "QUIT" {
		if rep.OK {
			if !closed {
				s.fail("session-continues-after-quit", "connection still open and session reading after +OK to QUIT")
				return
			}
			s.over = true
			switch st {
			case "TRANS":
				s.ending = "quit-transaction"
			case "AUTH":
				s.ending = "quit-auth"
			default:
				s.ending = "quit-lenient"
			}
			return
		}
		if closed {
			s.over = true
			s.ending = "quit-refused"
			if st == "TRANS" {
				// The statement makes no exception for a QUIT that is answered -ERR: the client
				// issued QUIT in TRANSACTION state and the session ended, so exactly the marked
				// messages must be gone (one that another party already removed counts as gone).
				// No fault is injected into the store here, so a correct server has no reason
				// to leave marked messages behind.
				s.ending = "quit-transaction"
				s.c.Count("quit_in_transaction_answered_err", 1)
			}
		}
		return
	}
	if closed {
		s.over = true
		s.ending = "closed-by-server"
		c.Count("server_closed_unexpectedly", 1)
		return
	}

	switch st {
	case "AUTH":
		switch verb {
		case "USER":
			if rep.OK {
				s.userKnown, s.user = cm.canon, cm.name
			}
		case "PASS", "APOP":
			if rep.OK {
				if candBox == "" {
					s.state = "LENIENT"
					c.Count("logins_noncanonical", 1)
					return
				}
				s.state, s.box, s.S = "TRANS", candBox, cand
				s.loginSerial = s.uniq
				s.marked = make([]bool, len(cand))
				if verb == "PASS" {
					c.Count("logins_user_pass", 1)
				} else {
					c.Count("logins_apop", 1)
				}
				if m := countRE.FindStringSubmatch(rep.First); m != nil && m[1] != strconv.Itoa(len(cand)) {
					s.fail("login-count", fmt.Sprintf("login reply %q but mailbox %q held %d messages immediately before the login", rep.First, candBox, len(cand)))
					return
				}
				s.compared++
			}
		}
		return
	case "LENIENT":
		if verb == "DELE" && rep.OK {
			s.anyDele = true
		}
		return
	}

	// ---- TRANSACTION: M-pop3 ----
	if verb == "PASS" || verb == "APOP" {
		if rep.OK {
			// A second login inside a session is not covered by the statement; stop judging.
			s.state = "LENIENT"
			s.anyDele = true
			c.Count("relogin_acknowledged", 1)
		}
		return
	}
	unmarkedOK := inRange && !s.marked[n-1]
	switch cm.kind {
	case "STAT":
		if rep.Err {
			if cm.strict {
				s.fail("stat-refused", "STAT refused in TRANSACTION state: "+rep.First)
			}
			return
		}
		var cnt int
		var size int64
		for i, m := range s.S {
			if !s.marked[i] {
				cnt++
				size += m.size
			}
		}
		want := fmt.Sprintf("+OK %d %d", cnt, size)
		if rep.First != want && !strings.HasPrefix(rep.First, want+" ") {
			s.fail("stat-mismatch", fmt.Sprintf("STAT answered %q, model says %q", rep.First, want))
			return
		}
		s.comparedOne("stat_compared")
	case "LIST", "UIDL":
		if rep.Err {
			s.fail(strings.ToLower(cm.kind)+"-refused", cm.kind+" refused in TRANSACTION state: "+rep.First)
			return
		}
		var want []string
		for i, m := range s.S {
			if !s.marked[i] {
				if cm.kind == "LIST" {
					want = append(want, fmt.Sprintf("%d %d", i+1, m.size))
				} else {
					want = append(want, fmt.Sprintf("%d %s", i+1, m.id))
				}
			}
		}
		var got []string
		for _, l := range rep.Body {
			got = append(got, string(l))
		}
		if strings.Join(got, "|") != strings.Join(want, "|") {
			s.fail(strings.ToLower(cm.kind)+"-mismatch", fmt.Sprintf("%s listed %v, model says %v", cm.kind, got, want))
			return
		}
		if m := countRE.FindStringSubmatch(rep.First); m != nil && m[1] != strconv.Itoa(len(want)) {
			s.fail(strings.ToLower(cm.kind)+"-header-count", fmt.Sprintf("%s reply starts %q but lists %d messages", cm.kind, rep.First, len(want)))
			return
		}
		s.comparedOne(strings.ToLower(cm.kind) + "_compared")
	case "LIST-n", "UIDL-n":
		exp := ""
		if unmarkedOK {
			if cm.kind == "LIST-n" {
				exp = fmt.Sprintf("+OK %d %d", n, s.S[n-1].size)
			} else {
				exp = fmt.Sprintf("+OK %d %s", n, s.S[n-1].id)
			}
		}
		if rep.OK {
			if exp == "" {
				s.fail(strings.ToLower(cm.kind)+"-accepted-invalid", fmt.Sprintf("%s answered %q but that is not an unmarked message of the snapshot (arg class %s)", fw.Q(cm.text), rep.First, cm.argClass))
				return
			}
			if rep.First != exp && !strings.HasPrefix(rep.First, exp+" ") {
				s.fail(strings.ToLower(cm.kind)+"-mismatch", fmt.Sprintf("%s answered %q, model says %q", fw.Q(cm.text), rep.First, exp))
				return
			}
		} else if exp != "" && cm.strict {
			s.fail(strings.ToLower(cm.kind)+"-refused-valid", fmt.Sprintf("%s refused (%s) although message %d is in the snapshot and unmarked", fw.Q(cm.text), rep.First, n))
			return
		}
		s.comparedOne(strings.ToLower(strings.Replace(cm.kind, "-", "_", 1)) + "_compared")
	case "DELE":
		if rep.OK {
			if !unmarkedOK {
				key := "dele-accepted-invalid"
				if inRange {
					key = "dele-accepted-twice"
				}
				s.fail(key, fmt.Sprintf("%s answered %q but that is not an unmarked message of the snapshot (arg class %s)", fw.Q(cm.text), rep.First, cm.argClass))
				return
			}
			s.marked[n-1] = true
			c.Count("dele_marked", 1)
		} else {
			if unmarkedOK && cm.strict {
				s.fail("dele-refused-valid", fmt.Sprintf("%s refused (%s) although message %d is in the snapshot and unmarked", fw.Q(cm.text), rep.First, n))
				return
			}
			if inRange && s.marked[n-1] {
				c.Count("dele_refused_already_marked", 1)
			}
		}
		s.comparedOne("dele_compared")
	case "DELE-noarg":
		if rep.OK {
			// which message was marked cannot be known: stop judging this session
			s.state, s.anyDele = "LENIENT", true
		}
	case "RSET":
		if rep.OK {
			for i := range s.marked {
				if s.marked[i] {
					c.Count("rset_with_marks", 1)
					break
				}
			}
			for i := range s.marked {
				s.marked[i] = false
			}
		}
	case "RETR", "TOP":
		if cm.kind == "TOP" && !cm.topOK {
			return // second argument odd: only the reply shape is judged
		}
		if extRemoved || (inRange && s.marked[n-1]) {
			c.Count(strings.ToLower(cm.kind)+"_not_judged", 1)
			return
		}
		if rep.OK {
			if !inRange {
				s.fail(strings.ToLower(cm.kind)+"-accepted-invalid", fmt.Sprintf("%s answered %q but the snapshot has %d messages (arg class %s)", fw.Q(cm.text), rep.First, len(s.S), cm.argClass))
				return
			}
			if mk := s.S[n-1].marker; mk != "" {
				found := false
				for _, l := range rep.Body {
					if string(l) == mk {
						found = true
					}
				}
				if !found {
					s.fail(strings.ToLower(cm.kind)+"-wrong-message", fmt.Sprintf("%s did not return message %d of the snapshot (marker %q absent); first lines %s", fw.Q(cm.text), n, mk, fw.Q(string(rep.Raw))))
					return
				}
			}
		} else if inRange && cm.strict {
			s.fail(strings.ToLower(cm.kind)+"-refused-valid", fmt.Sprintf("%s refused (%s) although message %d is in the snapshot", fw.Q(cm.text), rep.First, n))
			return
		}
		s.comparedOne(strings.ToLower(cm.kind) + "_compared")
	}
}

func (s *psess) comparedOne(counter string) {
	s.compared++
	s.c.Count(counter, 1)
	if s.extAdd {
		s.c.Count("compared_after_external_add", 1)
	}
	if s.extRem {
		s.c.Count("compared_after_external_remove", 1)
	}
}
