package c13

// Ending "QUIT line transmitted completely, client gone before the reply can be written" - added
// after seeded change C13-12.
//
// The statement says "Exactly the messages marked at the time of QUIT are removed from the store, a
// connection that ends any other way removes nothing".  It does not make the commit depend on
// whether the client is still there to read the "+OK": a session whose QUIT line reached the server
// completely has ended by QUIT, whatever becomes of the reply.  The endings the check drove were
// QUIT read to its reply, connection dropped without QUIT, and idle timeout; in all of them every
// write of the server succeeded, so a server that ties the commit to the fate of the reply (or
// that lets a write error on the way out skip the update) was never asked.  Added:
//
//	quit            "QUIT\r\n" (verb in any case) queued and the client side closed at once, without
//	                reading: the server still reads the complete line (queued input is delivered
//	                after CloseClient), its write of the reply fails with "broken pipe";
//	quit+bytes      the same with further bytes behind the QUIT line (complete commands - NOOP, RSET,
//	                DELE of an unmarked message, a second QUIT, a login - or an unterminated rest):
//	                what follows QUIT is not part of the session, the marks "at the time of QUIT" count;
//	unterminated    "QUIT" (also "quit", "QUIT ", "QUI") with no line terminator at all, then closed:
//	                that is not a transmitted QUIT line but a connection that ended another way.
//
// Oracle (finish): for quit and quit+bytes the QUIT oracle - in TRANSACTION state exactly the marked
// snapshot members that still existed are gone, everything else incl. later deliveries is there;
// in AUTHORIZATION state nothing is gone.  For unterminated: nothing is gone.  The unchanged tree
// reads lines with ReadString('\n'), which turns the unterminated rest into EOF, so it agrees.
// Not demanded: anything about what the server writes (nobody can read it); a line that ends in
// a bare CR or a bare LF is not generated, the statement does not fix how those are read.
//
// Send and CloseClient are two calls, so in principle the session goroutine can write its reply
// between them; the reply is then simply never read, the ending is a QUIT all the same and the
// oracle is identical.  Which of the two happened is read off the output buffer afterwards and
// counted (gone_quit_reply_unwritable / gone_quit_reply_written_before_close); MinObs demands the
// former, the point of this ending.

import (
	"strconv"
	"strings"

	"verifharness/internal/sut"
)

// goneInfo describes the client-gone ending a session took.
type goneInfo struct {
	variant      string // quit | quit+bytes | unterminated
	complete     bool   // a complete QUIT line was transmitted
	replyWritten bool   // the server got output into the connection after the bytes were queued
}

func (g *goneInfo) keySuffix() string {
	if g.complete {
		return ":client-gone-after-quit"
	}
	return ":unterminated-quit"
}

// goneBytes builds the bytes the client leaves behind for the given variant.
func (s *psess) goneBytes(variant string) []byte {
	r := s.r
	switch variant {
	case "quit":
		return []byte(caseVerb(r, "QUIT") + "\r\n")
	case "quit+bytes":
		k := 1
		for i := range s.S {
			if !s.marked[i] {
				k = i + 1
				break
			}
		}
		dele := "DELE " + strconv.Itoa(k) + "\r\n"
		tail := r.Pick([]string{"NOOP\r\n", "RSET\r\n", "RSET\r\nQUIT\r\n", "QUIT\r\n", dele, dele + "QUIT\r\n", "STAT", "RSE",
			"\x00\xff\xfe", "USER main\r\nPASS secret\r\n", "\r\n", strings.Repeat("x", 5000)})
		return []byte("QUIT\r\n" + tail)
	}
	return []byte(r.Pick([]string{"QUIT", "QUIT", "quit", "QUIT ", "QUI"}))
}

// goneVariant samples one of the variants.
func (s *psess) goneVariant() string {
	return []string{"quit", "quit+bytes", "unterminated"}[s.r.Weighted([]int{5, 2, 2})]
}

// vanish ends the session the client-gone way: queue the bytes, close the client side without
// reading, wait for the session goroutine to end.  It reports false if the case was abandoned.
func (s *psess) vanish(variant string) bool {
	c := s.c
	b := s.goneBytes(variant)
	g := &goneInfo{variant: variant, complete: variant != "unterminated"}
	s.ps.Q.Send(b)
	s.ps.Q.CloseClient()
	if !s.ps.WaitEnd() {
		c.Hang("pop3-session-end", "POP3 session did not end after the client sent "+variant+" and closed", "")
		s.failed = true
		return false
	}
	out := s.ps.Q.Take()
	g.replyWritten = len(out) > 0
	if len(s.ps.Trace) < 400 {
		s.ps.Trace = append(s.ps.Trace, sut.Exchange{Sent: cut(string(b), 200) + " <client closed without reading>",
			Replies: []string{cut(string(out), 300)}, Closed: true})
	}
	s.gone = g
	s.over = true
	st := strings.ToLower(s.state)
	switch {
	case !g.complete:
		s.ending = "unterminated-quit-" + st
	case s.state == "TRANS":
		s.ending = "quit-transaction"
	case s.state == "AUTH":
		s.ending = "quit-auth"
	default:
		s.ending = "quit-lenient"
	}
	s.events[s.state+"|gone|"+variant+"|"] = true
	c.Count("gone_sessions:"+variant, 1)
	if g.complete {
		if g.replyWritten {
			c.Count("gone_quit_reply_written_before_close", 1)
		} else {
			c.Count("gone_quit_reply_unwritable", 1)
		}
	}
	return true
}

// goneEvidence is called by finish after the store compared equal to what the ending allows.
func (s *psess) goneEvidence(commit bool, nmarked, removed int) {
	g, c := s.gone, s.c
	if g == nil || s.state != "TRANS" {
		return
	}
	c.Count("gone_store_compared_transaction:"+g.variant, 1)
	if nmarked == 0 {
		return
	}
	switch {
	case g.complete && commit:
		c.Count("gone_quit_with_marks_committed:"+s.backend, 1)
		c.Count("gone_quit_marked_members_removed", int64(removed))
		if !g.replyWritten {
			c.Count("gone_quit_with_marks_committed_reply_unwritable", 1)
		}
		if g.variant == "quit+bytes" {
			c.Count("gone_quit_plus_bytes_with_marks_committed", 1)
		}
	case !g.complete:
		c.Count("gone_unterminated_quit_with_marks_nothing_removed:"+s.backend, 1)
	}
}
