package c13

// Stream "interfere" - added after seeded change C13-7.
//
// The statement says "Exactly the messages marked at the time of QUIT are removed from the store, a
// connection that ends any other way removes nothing".  Marks exist only for messages of the login
// snapshot, so whatever another party does to the mailbox between two commands of the session,
// the ending may take away nothing but marked snapshot members.  Stream "session" changed the
// mailbox behind the session only one message at a time (external, externalRemoveMarked) and
// compared the store by id alone, so it never reached - and could not have judged - the
// histories in which the mailbox the session is logged in to stops existing and starts again:
//
//	login, DELE of none / one / some / all messages,
//	then one or two rounds of outside interference between two commands:
//	    the whole mailbox purged | every message removed one by one (any order) | all but one
//	    removed | exactly the marked ones removed | everything but the marked ones removed | nothing,
//	    each followed by zero, one or several new deliveries to the same mailbox,
//	    and by a few more commands (whose replies must still describe the login snapshot),
//	then QUIT | connection dropped | idle timeout,
//
// on both back ends, through the store or through the StoreManager the REST/web interfaces use.
// The verdict is the store afterwards (finish): mailbox by mailbox the ids in order, with the
// snapshot's messages identified by the delivery they stem from rather than by id (a store that
// starts the mailbox afresh may hand a later delivery an id the snapshot also holds), and in this
// stream also the full source of every message left: exactly the marked snapshot members that
// still existed are gone after QUIT, nothing is gone after the other endings, and everything
// delivered after the login is still there with the content that was delivered.
// Not demanded: anything about RETR/TOP of a message another party removed (as in "session").

import (
	"fmt"
	"os"
	"strconv"
	"strings"

	"verifharness/internal/fw"
	"verifharness/internal/sut"
)

// ixInfo is what a session of stream "interfere" did, for the evidence.
type ixInfo struct {
	rounds        []string // "<shape>+<deliveries>" per round
	emptiedThen   int      // deliveries made to the mailbox after another party had emptied it
	emptied       bool     // the mailbox was empty at some point after the login
	later         int      // set by finish: messages delivered after login found in the store
	removedByQuit int      // set by finish: marked snapshot members that still existed and QUIT removed
}

// addMarked delivers a message that is certain to carry its unique marker line.
func (s *psess) addMarked(box string) {
	for {
		src, mk := s.genSource()
		if mk != "" {
			s.deliver(box, src)
			return
		}
	}
}

// fixed builds "<verb> n" with a plain decimal argument.
func (s *psess) fixed(verb string, n int) cmd {
	kind := verb
	if verb == "LIST" || verb == "UIDL" {
		kind = verb + "-n"
	}
	class := "valid"
	switch {
	case n < 1 || n > len(s.S):
		class = "over"
	case s.marked[n-1]:
		class = "marked"
	}
	cm := cmd{text: verb + " " + strconv.Itoa(n), kind: kind, verb: verb, argClass: class, strict: true, val: int64(n), hasVal: true}
	if verb == "TOP" {
		cm.text += " 2"
		cm.topOK = true
	}
	return cm
}

// removeOutside removes message id of the logged-in mailbox the way another interface would.
func (s *psess) removeOutside(id string, viaManager bool) {
	var err error
	if viaManager {
		err = s.env.Manager.RemoveMessage(s.box, id)
	} else {
		err = s.env.Store.RemoveMessage(s.box, id)
	}
	if err != nil {
		panic(fmt.Sprintf("harness: RemoveMessage(%s,%s): %v", s.box, id, err))
	}
	ids := s.live[s.box]
	for k := range ids {
		if ids[k] == id {
			s.live[s.box] = append(append([]string{}, ids[:k]...), ids[k+1:]...)
			break
		}
	}
	s.noteGone(id)
}

func (s *psess) noteGone(id string) {
	ser := s.serialOf[s.box+"\x00"+id]
	for _, m := range s.S {
		if m.serial == ser {
			s.removedBy[m.id] = true
			s.c.Count("external_removes_of_snapshot_members", 1)
		}
	}
	s.extRem = true
	s.c.Count("external_removes", 1)
}

// isMarkedMember reports whether the live message id is a snapshot member the session has marked.
func (s *psess) isMarkedMember(id string) bool {
	ser := s.serialOf[s.box+"\x00"+id]
	for i, m := range s.S {
		if m.serial == ser && s.marked[i] {
			return true
		}
	}
	return false
}

// interfere performs one round of outside interference on the logged-in mailbox.
func (s *psess) interfere() {
	r, c := s.r, s.c
	viaManager := r.Bool()
	ids := append([]string{}, s.live[s.box]...)
	shape := []string{"purge", "remove-all", "remove-all-but-one", "remove-marked", "remove-all-but-marked", "none"}[r.Weighted([]int{6, 6, 2, 2, 2, 1})]
	switch shape {
	case "purge":
		var err error
		if viaManager {
			err = s.env.Manager.PurgeMessages(s.box)
		} else {
			err = s.env.Store.PurgeMessages(s.box)
		}
		if err != nil {
			panic(fmt.Sprintf("harness: PurgeMessages(%s): %v", s.box, err))
		}
		s.live[s.box] = nil
		for _, id := range ids {
			s.noteGone(id)
		}
	case "remove-all":
		for _, k := range r.Perm(len(ids)) {
			s.removeOutside(ids[k], viaManager)
		}
	case "remove-all-but-one":
		if len(ids) > 0 {
			keep := r.Intn(len(ids))
			for _, k := range r.Perm(len(ids)) {
				if k != keep {
					s.removeOutside(ids[k], viaManager)
				}
			}
		}
	case "remove-marked", "remove-all-but-marked":
		for _, k := range r.Perm(len(ids)) {
			if s.isMarkedMember(ids[k]) == (shape == "remove-marked") {
				s.removeOutside(ids[k], viaManager)
			}
		}
	}
	c.Count("ix_shape:"+shape, 1)
	emptiedNow := len(s.live[s.box]) == 0
	if emptiedNow {
		s.ix.emptied = true
		c.Count("ix_mailbox_emptied_behind_session", 1)
	}
	k := []int{0, 1, r.Range(2, 4)}[r.Weighted([]int{2, 3, 3})]
	for i := 0; i < k; i++ {
		s.addMarked(s.box)
		s.extAdd = true
		c.Count("external_adds", 1)
	}
	if emptiedNow {
		s.ix.emptiedThen += k
		c.Count("ix_deliveries_after_emptying:"+[]string{"0", "1", "several", "several", "several"}[k], 1)
	}
	s.ix.rounds = append(s.ix.rounds, shape+"+"+strconv.Itoa(k))
}

// snapshotCmd picks a command whose reply the model judges against the login snapshot.
func (s *psess) snapshotCmd() cmd {
	r := s.r
	n := len(s.S)
	var unmarked []int
	for i := range s.S {
		if !s.marked[i] {
			unmarked = append(unmarked, i+1)
		}
	}
	anyNum := 1 + r.Intn(n+1) // 1..n+1
	switch r.Weighted([]int{5, 4, 5, 3, 4, 4, 2, 1, 1, 1}) {
	case 0:
		return s.plain("STAT", "STAT")
	case 1:
		return s.plain("LIST", "LIST")
	case 2:
		return s.plain("UIDL", "UIDL")
	case 3:
		return s.fixed("LIST", anyNum)
	case 4:
		return s.fixed("UIDL", anyNum)
	case 5:
		if len(unmarked) > 0 {
			return s.fixed("DELE", unmarked[r.Intn(len(unmarked))])
		}
		return s.fixed("DELE", anyNum)
	case 6:
		return s.fixed("RETR", anyNum)
	case 7:
		return s.fixed("TOP", anyNum)
	case 8:
		return s.plain("NOOP", "NOOP")
	}
	return s.plain("RSET", "RSET")
}

func runInterfere(c *fw.Ctx, idx int, r *fw.Rand) {
	conf := sut.DefaultConf()
	backend := []string{"mem", "file"}[(idx/16+idx)%2]
	if backend == "file" {
		dir := c.TempDir("c13ix")
		defer os.RemoveAll(dir)
		conf.Storage.Type = "file"
		conf.Storage.Params = map[string]string{"path": dir}
	}
	env, err := sut.NewEnv(conf, backend)
	if err != nil {
		panic(err)
	}
	s := &psess{c: c, r: r, idx: idx, backend: backend, env: env, state: "AUTH", live: map[string][]string{},
		removedBy: map[string]bool{}, events: map[string]bool{}, serialOf: map[string]int{}, src: map[int][]byte{},
		content: true, ix: &ixInfo{}}
	nmain := r.Range(1, 6)
	// Mostly the mailbox's whole life is in the snapshot; sometimes earlier messages came and went.
	surplus := r.Weighted([]int{4, 1, 1})
	for i := 0; i < nmain+surplus; i++ {
		if r.Chance(1, 5) {
			s.add("main")
		} else {
			s.addMarked("main")
		}
	}
	for ; surplus > 0; surplus-- {
		ids := s.live["main"]
		k := r.Intn(len(ids))
		if err := env.Store.RemoveMessage("main", ids[k]); err != nil {
			panic(fmt.Sprintf("harness: RemoveMessage: %v", err))
		}
		s.live["main"] = append(append([]string{}, ids[:k]...), ids[k+1:]...)
	}
	s.addMarked("other")
	c.Count("ix_sessions:"+backend, 1)
	s.ps = env.StartPOP3()
	defer func() {
		if !s.ps.Ended() {
			if !s.ps.Close() {
				c.Hang("pop3-session-end", "POP3 session did not end after the client closed", "")
			}
		}
	}()
	if _, ok := s.ps.Greeting(); !ok {
		s.fail("no-greeting", "no single +OK greeting")
		return
	}
	// ---- login ----
	if r.Chance(1, 3) {
		s.play(cmd{text: "APOP main c4c9334bac560ecc979e58001b3e22fb", kind: "APOP", verb: "APOP", canon: true, name: "main"})
	} else {
		s.play(cmd{text: "USER main", kind: "USER", verb: "USER", canon: true, name: "main"})
		if !s.failed && !s.over {
			s.play(cmd{text: "PASS secret", kind: "PASS", verb: "PASS"})
		}
	}
	if s.failed {
		return
	}
	if s.state != "TRANS" || s.over {
		// Whether a canonical login must succeed is judged nowhere; without one nothing is observed here.
		c.Count("ix_no_login", 1)
		s.finish()
		return
	}
	// ---- marks ----
	markShape := []string{"all", "some", "one", "none"}[r.Weighted([]int{4, 3, 2, 1})]
	var toMark []int
	switch markShape {
	case "all":
		for i := range s.S {
			toMark = append(toMark, i+1)
		}
	case "some":
		for i := range s.S {
			if r.Bool() {
				toMark = append(toMark, i+1)
			}
		}
	case "one":
		toMark = []int{1 + r.Intn(len(s.S))}
	}
	if r.Chance(1, 3) { // any order
		p := r.Perm(len(toMark))
		shuffled := make([]int, len(toMark))
		for i, k := range p {
			shuffled[i] = toMark[k]
		}
		toMark = shuffled
	}
	alive := func() bool { return !s.failed && !s.over && s.state == "TRANS" }
	for _, n := range toMark {
		if !alive() {
			break
		}
		s.play(s.fixed("DELE", n))
		if alive() && r.Chance(1, 4) {
			v := r.Pick([]string{"STAT", "LIST", "UIDL"})
			s.play(s.plain(v, v))
		}
	}
	// ---- outside interference between two commands, then more commands ----
	rounds := 1 + r.Weighted([]int{3, 1})
	for i := 0; i < rounds && alive(); i++ {
		s.interfere()
		for k := r.Weighted([]int{3, 3, 2, 1, 1}); k > 0 && alive(); k-- {
			s.play(s.snapshotCmd())
		}
	}
	if s.failed {
		return
	}
	// ---- ending ----
	endKind := "server-closed"
	if alive() {
		// quit-gone / unterminated-quit-gone: added after seeded change C13-12, see gone.go
		endKind = []string{"quit", "drop", "idle-timeout", "quit-gone", "unterminated-quit-gone"}[r.Weighted([]int{5, 2, 2, 3, 1})]
		switch endKind {
		case "quit":
			s.play(s.plain("QUIT", "QUIT"))
		case "quit-gone":
			if !s.vanish([]string{"quit", "quit+bytes"}[r.Weighted([]int{2, 1})]) {
				return
			}
		case "unterminated-quit-gone":
			if !s.vanish("unterminated") {
				return
			}
		case "idle-timeout":
			if !s.idleTimeout() {
				return
			}
		}
	}
	if s.failed {
		return
	}
	nmarked := 0
	for _, m := range s.marked {
		if m {
			nmarked++
		}
	}
	s.finish()
	if s.failed {
		return
	}
	// ---- evidence ----
	c.Count("ix_end:"+endKind, 1)
	c.Count("ix_later_deliveries_verified_present", int64(s.ix.later))
	c.Count("ix_marked_members_removed_by_quit", int64(s.ix.removedByQuit))
	if s.ix.emptied && s.ix.emptiedThen > 0 && nmarked > 0 && s.state == "TRANS" {
		// the histories this stream exists for: marks held, mailbox emptied by another party,
		// delivered to again, then the session ends
		c.Count("ix_marks_emptied_redelivered_then_"+endKind+":"+backend, 1)
	}
	if s.compared > 0 {
		c.NonTrivial(fmt.Sprintf("ix|%s|%d|marks=%s|%s|%s|%s", backend, nmain, markShape, strings.Join(s.ix.rounds, ","), endKind, s.ending))
	}
	if idx%8 == 0 {
		c.Sample(map[string]any{"stream": "interfere", "backend": backend, "messages": nmain, "marks": markShape, "rounds": s.ix.rounds,
			"ending": endKind, "trace_head": head(s.ps.Trace, 12)})
	}
}
