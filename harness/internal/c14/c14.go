// Package c14 will hold the check for property C14.
package c14
