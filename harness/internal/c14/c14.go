// Package c14 decides C14: the REST API, the web UI JSON endpoints and the bundled Go client
// report and change exactly the store's state.
//
// Every case is one history against a fresh WebEnv (real REST + web UI routes on an httptest
// server, real StoreManager, real mem or file store, with or without Web.BasePath).  The history
// mixes deliveries (StoreManager.Deliver or a real SMTP session) with API calls issued as raw
// HTTP requests and through pkg/rest/client.  The oracle is M-mailbox (internal/model): every
// response is compared with the model, and after every call the complete store is read back
// through storage.Store and compared with the model.  Most steps are strictly sequential; the
// exception is the in-flight step (inflight.go): one mutating API call issued while a delivery to
// the same mailbox is blocked in the middle of its content.
package c14

import (
	"fmt"
	"net/http"
	"net/url"
	"sort"
	"strings"
	"time"

	"github.com/inbucket/inbucket/v3/pkg/config"
	"github.com/inbucket/inbucket/v3/pkg/rest/client"

	"verifharness/internal/fw"
	"verifharness/internal/model"
	"verifharness/internal/sut"
)

// SlashKey is the stable finding key of defect D13: a mailbox name that contains '/' cannot be
// addressed over HTTP because gorilla/mux matches the decoded path.
const SlashKey = "C14:name-contains-slash"

var (
	backends  = []string{"mem", "file"}
	basePaths = []string{"", "/prefix"}
	namings   = []string{"local", "full", "domain"}
)

func setupName(backend, base string) string {
	if base == "" {
		base = "-"
	}
	return backend + base
}

func init() {
	fw.Register(&fw.Prop{
		ID:    "C14",
		Level: "exploration",
		Rule: "one history per case against a fresh httptest server carrying the real REST and web UI routes: 4 setups (mem|file x " +
			"base path \"\"|/prefix) x naming {local,full,domain}, all 12 occur; 2-4 canonical mailbox names over the whole alphabet the " +
			"naming function emits (weighted to % ? # & = / . ~ ' ! $ *, whole-name specials such as %, %41, %2f, latest, source; one " +
			"name with '/' in about 1 history of 7), only names n with name(n)==n that RCPT accepts; 10-40 steps mixing deliveries " +
			"(StoreManager.Deliver or a real SMTP session, 1-2 recipients, single-part ASCII text/plain) with list/show/source/PATCH seen/" +
			"DELETE message/DELETE mailbox and web UI message/source/html, each as a raw HTTP request (url.PathEscape) or through every " +
			"exported method of pkg/rest/client incl. the MessageHeader/Message convenience methods; ids existing (any position), removed, " +
			"never-existed, 'latest', ids with URL-significant characters; 1 lookup in 6 uses a non-canonical spelling of the name " +
			"(letter case, +ext, @domain). Oracle: M-mailbox; response vs model, then full store read-back vs model after every call. " +
			"About 1 step in 25 is an API call while a delivery to the same mailbox is in flight (added after seeded change C14-10): " +
			"Store.AddMessage runs in a goroutine with a reader that blocks in the middle of the content until released, one mutating call " +
			"(REST or Go client: DELETE message, PATCH seen, DELETE mailbox) is issued meanwhile and is never waited for before the release; " +
			"afterwards the mailbox must be what some sequential order of the two gives (acknowledged effect present, new message present or, " +
			"for a purge ordered second, gone), read back through the store and through the API. " +
			"Long names (added after seeded change C14-12): about 1 history in 4 has one mailbox whose local part is exactly 63, 64, 65, " +
			"100, 127 or 128 characters (local, full naming) or whose domain is 63, 64, 65, 100, 200 or 253 characters (domain naming), " +
			"qualified by RCPT alone (Policy.NewRecipient names that mailbox; the read-side lookup is what is under test) and first " +
			"delivered to through a real SMTP session; every operation addresses it by the bare name and, 1 lookup in 3 under local " +
			"naming, by name@domain. " +
			"Odd content (added after seeded change C14-11): 1 delivery in 5 (SMTP, StoreManager.Deliver or Store.AddMessage) carries " +
			"well-formed From/To/Subject but a MIME structure a parser rejects or must guess about (multipart without / with empty / " +
			"with valueless boundary, boundary never seen or never closed, unknown or broken transfer encodings, garbage Content-Type / " +
			"Content-Disposition, header line without a name or without a colon, 8-bit header bytes, no body, NUL, 5000-character line); " +
			"list, source, PATCH seen, DELETE, purge and the client equivalents are judged for it as for any stored message, only the " +
			"routes rendering the parsed message (REST show, web UI message/html, client GetMessage) may answer 500 (counted) - never " +
			"404, and with the store's metadata when they answer 200. " +
			"A history is non-trivial when >=1 API call was judged against >=1 stored message; distinct by (setup, naming, set of " +
			"(interface, operation, id class, name class, outcome)).",
		Assumptions: []string{
			"the HTTP server is net/http's httptest server around web.Router built by the real SetupRoutes functions; TLS and the SPA/static routes are not part of the property",
			"message ids, dates and the generated Return-Path/Received lines are outputs of the implementation: the model takes them from the store right after each delivery (freshness of the id, position, from/to/subject/seen/size=len(source) and the transmitted content are checked there), afterwards every interface must agree with the model",
			"body text is compared modulo CRLF/LF and trailing newlines, only for single-part ASCII text/plain without URL-like or HTML-special characters",
			"PATCH/DELETE with the id 'latest' is not specified by the property: either 404 without effect or 200 with the effect on the newest message is accepted (counted)",
			"ids are outputs of the server and never contain '/', '%' or dot segments: never-existed ids with '/' are only sent in shapes that cannot alias another route; ids with '%' or '/' are not passed to the Go client (it does not escape ids); '.' and '..' are path syntax, not ids",
			"PATCH bodies are always {\"seen\":true}",
			"an in-flight delivery is a Store.AddMessage call whose content reader is blocked by the harness after half of the bytes; a store is free to serialise the API call behind it (the file store does) or to serve it at once (the mem store does): which of the two happened is counted, never judged, and the 10 ms the harness lets the call run before it releases the delivery only shape the schedule",
			"in-flight steps address only ids that exist or do not exist in every order of the two operations (no id borrowed from another mailbox, no 'latest'), and never a mailbox whose name contains '/'",
			"a message with odd content (see Rule) may make the routes that render the PARSED message answer 500: MIME decoding is not this property; which answer was given is counted (odd_parsed_read_500, odd_judged:*), every other route and every mutation is judged as for a well-formed message",
			"a long name is lower case, has no '+' and no '/', dots only single and inside, so that it is its own canonical name under the naming function; '+ext' spellings are only used where the local part stays within the 128 characters RCPT accepts",
			"every failure of a request whose mailbox name contains '/' is filed under the single key " + SlashKey + " (known defect D13)",
		},
		MinObs: func(tier string) map[string]int64 {
			m := map[string]int64{
				"store_checks": 2000, "deliveries_direct": 300, "deliveries_smtp": 100,
				"expect_404": 300, "expect_200": 1500, "client_calls": 500, "raw_calls": 800,
				"noncanonical_lookups": 100, "names_with_url_chars": 200, "slash_name_histories": 10,
				"id:existing-not-latest": 100, "id:removed": 50, "id:never": 50, "id:latest": 50, "id:urlchars": 50,
				"panic_log_checks": 2000,
				// in-flight steps (healthy quick run: about 1950 steps, 3200 follow-up reads, every mem-store call answered during the delivery)
				"inflight_steps": 500, "inflight_followup_reads": 800, "inflight_order:same": 300,
				"inflight_answered_during_delivery": 100,
			}
			for _, op := range inflightOps {
				m["inflight:"+op] = 50
			}
			// long names (healthy quick run: about 450 histories, 2400 calls, 780 by a bare name longer than 64)
			m["long_name_histories"] = 200
			m["long_name_smtp_deliveries"] = 200
			m["long_name_calls"] = 1000
			m["long_name_calls:bare"] = 400
			m["long_name_calls:address"] = 400
			m["long_name_calls_over64_bare"] = 250
			for _, n := range namings {
				lens := longLocalLens
				if n == "domain" {
					lens = longDomainLens
				}
				for _, l := range lens {
					m[fmt.Sprintf("long_name_len:%s/%d", n, l)] = 5
				}
			}
			for _, op := range allOps {
				m["long_name_op:"+op] = 15
			}
			// odd content (healthy quick run: about 3000 deliveries, each shape >= 40, 580 parsed reads answered 500)
			m["odd_deliveries"] = 1500
			m["deliveries_store"] = 200
			m["odd_listed"] = 500
			m["odd_parsed_read_500"] = 150
			for _, sh := range oddShapes {
				m["odd_shape:"+sh.name] = 15
			}
			for _, op := range []string{"rest-seen", "rest-delete", "rest-source", "rest-show", "client-seen", "client-delete", "client-source", "client-show",
				"client-list:MessageHeader.Delete", "client-list:MessageHeader.GetSource", "ui-source", "ui-message"} {
				m["odd_judged:"+op] = 20
			}
			for _, b := range backends {
				for _, p := range basePaths {
					m["inflight_setup:"+setupName(b, p)] = 100
				}
			}
			for _, b := range backends {
				for _, p := range basePaths {
					for _, n := range namings {
						m["setup:"+setupName(b, p)+"/"+n] = 5
					}
				}
			}
			for _, op := range allOps {
				m["op:"+op] = 20
			}
			for _, cm := range clientMethods {
				m["client:"+cm] = 10
			}
			return m
		},
		Run: run,
	})
}

var allOps = []string{"rest-list", "rest-show", "rest-source", "rest-seen", "rest-delete", "rest-purge",
	"ui-message", "ui-source", "ui-html",
	"client-list", "client-show", "client-source", "client-seen", "client-delete", "client-purge"}

var clientMethods = []string{"ListMailbox", "GetMessage", "MarkSeen", "GetMessageSource", "DeleteMessage", "PurgeMailbox",
	"MessageHeader.GetMessage", "MessageHeader.GetSource", "MessageHeader.Delete", "Message.GetSource", "Message.Delete"}

func run(c *fw.Ctx) {
	n := c.N(2000, 30000)
	c.Cases("hist", n, func(i int, r *fw.Rand) { runHistory(c, i, r) })
}

// step is one entry of the replay trace of a history.
type step struct {
	Op     string `json:"op"`
	Name   string `json:"name,omitempty"`
	ID     string `json:"id,omitempty"`
	Req    string `json:"req,omitempty"`
	Status int    `json:"status,omitempty"`
	Note   string `json:"note,omitempty"`
}

// extra is what the harness knows about a delivered message beyond model.Msg.
type extra struct {
	text    string // transmitted body
	rawFrom string // From header as transmitted ("" = none)
}

type hist struct {
	c          *fw.Ctx
	r          *fw.Rand
	we         *sut.WebEnv
	m          *model.Store
	setup      string
	naming     string
	names      []string
	removed    map[string][]string
	extras     map[string]*extra
	hc         *http.Client
	cl         *client.Client
	logLen     int
	trace      []step
	sig        map[string]bool
	judged     int  // API calls judged against a non-empty model
	failed     bool // the current step recorded a violation
	abort      bool
	clientBase string
	curName    string            // spelling of the mailbox name used by the current step
	long       map[string]bool   // the long names of the history (gen.go)
	longSMTP   map[string]bool   // long names that received mail through an SMTP session
	odd        map[string]string // mailbox\x00id -> odd content shape of the stored message
}

func runHistory(c *fw.Ctx, idx int, r *fw.Rand) {
	backend := backends[idx%2]
	base := basePaths[(idx/2)%2]
	naming := namings[(idx/4)%3]
	conf := sut.DefaultConf()
	conf.Web.BasePath = base
	switch naming {
	case "local":
		conf.MailboxNaming = config.LocalNaming
	case "full":
		conf.MailboxNaming = config.FullNaming
	case "domain":
		conf.MailboxNaming = config.DomainNaming
	}
	if backend == "file" {
		conf.Storage.Type = "file"
		conf.Storage.Params = map[string]string{"path": c.TempDir("c14fs")}
	}
	we, err := sut.NewWebEnv(conf, backend)
	if err != nil {
		panic(err)
	}
	tr1 := &http.Transport{MaxIdleConnsPerHost: 2}
	tr2 := &http.Transport{MaxIdleConnsPerHost: 2}
	defer func() {
		tr1.CloseIdleConnections()
		tr2.CloseIdleConnections()
		we.Close()
	}()
	// The base URL handed to the client is spelled with and without a trailing slash: both name
	// the same server, and every client operation must have the same effect either way.
	clientBase := we.Base + []string{"", "/", ""}[(idx/12)%3]
	cl, err := client.New(clientBase, client.WithTransport(tr2))
	if err != nil {
		panic(err)
	}
	h := &hist{c: c, r: r, we: we, m: model.New(0, 0), setup: setupName(backend, base), naming: naming,
		removed: map[string][]string{}, extras: map[string]*extra{}, long: map[string]bool{}, longSMTP: map[string]bool{}, odd: map[string]string{}, cl: cl, clientBase: clientBase, sig: map[string]bool{},
		hc: &http.Client{Transport: tr1, Timeout: time.Duration(c.Slow) * 60 * time.Second,
			CheckRedirect: func(*http.Request, []*http.Request) error { return http.ErrUseLastResponse }},
	}
	c.Count("setup:"+h.setup+"/"+naming, 1)
	h.names = genNames(h)
	hasSlash := false
	for _, n := range h.names {
		if strings.Contains(n, "/") {
			hasSlash = true
		}
		if nameClass(n) != "plain" {
			c.Count("names_with_url_chars", 1)
		}
	}
	if hasSlash {
		c.Count("slash_name_histories", 1)
	}

	steps := r.Range(10, 40)
	for s := 0; s < steps && !h.abort; s++ {
		h.step()
	}
	if h.judged > 0 {
		keys := make([]string, 0, len(h.sig))
		for k := range h.sig {
			keys = append(keys, k)
		}
		sort.Strings(keys)
		c.NonTrivial(h.setup + "|" + naming + "|" + strings.Join(keys, ","))
	}
	c.Sample(map[string]any{"setup": h.setup, "naming": naming, "names": h.names, "trace_head": headSteps(h.trace, 14)})
}

func headSteps(t []step, n int) []step {
	if len(t) > n {
		return t[:n]
	}
	return t
}

// violation files a refutation.  Any failure of a step whose mailbox spelling contains '/' goes
// under SlashKey.
func (h *hist) violation(key, what string) {
	h.failed = true
	if strings.Contains(h.curName, "/") {
		key = SlashKey
	}
	h.c.Violation(key, fmt.Sprintf("[%s naming=%s mailbox=%q] %s", h.setup, h.naming, h.curName, what),
		map[string]any{"setup": h.setup, "naming": h.naming, "base": h.we.Base, "client_base": h.clientBase, "names": h.names, "trace": tailSteps(h.trace, 60)})
}

func tailSteps(t []step, n int) []step {
	if len(t) > n {
		return t[len(t)-n:]
	}
	return t
}

func (h *hist) log(s step) {
	if len(h.trace) < 400 {
		h.trace = append(h.trace, s)
	}
}

// step performs one delivery or one API call, then checks the server's error log and the store.
func (h *hist) step() {
	h.failed = false
	h.curName = ""
	pre := cloneModel(h.m)
	empty := h.m.Count() == 0
	switch {
	case empty || h.r.Chance(22, 100):
		h.deliver()
	case h.r.Chance(8, 100):
		h.storeSideRemoval()
	case h.r.Chance(6, 100):
		h.inflight()
	default:
		h.apiCall()
	}
	h.checkErrLog()
	if h.abort {
		return
	}
	if !h.failed {
		if d := h.storeDiff(h.m); d != "" {
			h.violation("C14:"+h.lastOp()+":store-effect", "store differs from the model after the call: "+d)
		}
	}
	if h.failed {
		// Known defect D13 must not end every history that uses a '/' name: when the failed call
		// left the store exactly as it was, the model is rolled back and the history goes on.
		if strings.Contains(h.curName, "/") && h.storeDiff(pre) == "" {
			h.m = pre
			h.c.Count("slash_failures_rolled_back", 1)
			return
		}
		h.abort = true
	}
}

// storeSideRemoval removes a live message directly through the store, the way POP3 QUIT, the
// retention scanner and the limit enforcers do (none of them goes through the HTTP layer or the
// message manager).  The API must report the message as gone from then on.
func (h *hist) storeSideRemoval() {
	var live []*model.Msg
	for _, n := range h.names {
		live = append(live, h.m.List(n)...)
	}
	if len(live) == 0 {
		h.deliver()
		return
	}
	// Prefer the message fetched most recently, if it is still there.
	x := live[h.r.Intn(len(live))]
	if h.r.Bool() && !strings.Contains(x.Mailbox, "/") {
		// Read it through the API first, so that anything the HTTP layer or the manager might
		// remember about this message is warm when it disappears underneath them.
		h.request("rest-show", "GET", fmt.Sprintf("/api/v1/mailbox/%s/%s", url.PathEscape(x.Mailbox), url.PathEscape(x.ID)), nil)
	}
	if err := h.we.Store.RemoveMessage(x.Mailbox, x.ID); err != nil {
		h.violation("C14:store-side-removal:error", fmt.Sprintf("Store.RemoveMessage(%q,%q) of a live message: %v", x.Mailbox, x.ID, err))
		return
	}
	h.applyMutation("remove", x.Mailbox, x.ID)
	h.log(step{Op: "store-side-removal", Req: x.Mailbox + "/" + x.ID})
	h.c.Count("store_side_removals", 1)
	// Ask for it right away through one of the read routes.
	switch h.r.Intn(3) {
	case 0:
		h.restProbeGone(x.Mailbox, x.ID, "/api/v1/mailbox/%s/%s", "rest-show")
	case 1:
		h.restProbeGone(x.Mailbox, x.ID, "/serve/mailbox/%s/%s", "ui-message")
	default:
		h.restProbeGone(x.Mailbox, x.ID, "/api/v1/mailbox/%s/%s/source", "rest-source")
	}
}

func (h *hist) restProbeGone(n, id, pattern, op string) {
	if strings.Contains(n, "/") {
		return // D13: not addressable anyway
	}
	path := fmt.Sprintf(pattern, url.PathEscape(n), url.PathEscape(id))
	st, _, body, ok := h.request(op, "GET", path, nil)
	if !ok {
		return
	}
	if st != 404 {
		h.violation("C14:"+op+":removed-message-still-served", fmt.Sprintf("GET %s answered %d after the message was removed from the store (body %q)", path, st, firstLines(string(body), 2)))
	}
}

func (h *hist) lastOp() string {
	if len(h.trace) == 0 {
		return "none"
	}
	return h.trace[len(h.trace)-1].Op
}

// checkErrLog looks at what the HTTP server wrote to its ErrorLog during the step.
func (h *hist) checkErrLog() {
	h.c.Count("panic_log_checks", 1)
	s := h.we.ErrLog.String()
	if len(s) <= h.logLen {
		return
	}
	added := s[h.logLen:]
	h.logLen = len(s)
	if strings.Contains(added, "http: panic serving") {
		h.violation("C14:"+h.lastOp()+":handler-panic", "handler panicked: "+fw.Trunc(firstLines(added, 12), 900))
		return
	}
	h.c.Count("errlog_other_lines", 1)
	h.c.Note("server ErrorLog: " + fw.Trunc(added, 200))
}

func firstLines(s string, n int) string {
	l := strings.Split(s, "\n")
	if len(l) > n {
		l = l[:n]
	}
	return strings.Join(l, " | ")
}

// storeDiff reads the whole store back and compares it with m; "" means equal.
func (h *hist) storeDiff(m *model.Store) string {
	h.c.Count("store_checks", 1)
	snap, err := sut.Snapshot(h.we.Store, h.names, false)
	if err != nil {
		return "store unreadable: " + err.Error()
	}
	for n, l := range snap {
		if len(l) > 0 && len(m.List(n)) == 0 {
			return fmt.Sprintf("mailbox %q holds %d message(s), model has none", n, len(l))
		}
	}
	for _, n := range m.Names() {
		want, got := m.List(n), snap[n]
		if len(want) != len(got) {
			return fmt.Sprintf("mailbox %q holds %d message(s) %v, model %d %v", n, len(got), snapIDs(got), len(want), modelIDs(want))
		}
		for i, w := range want {
			g := got[i]
			if g.ID != w.ID {
				return fmt.Sprintf("mailbox %q position %d: id %q, model %q", n, i, g.ID, w.ID)
			}
			if g.Seen != w.Seen {
				return fmt.Sprintf("mailbox %q message %s: seen=%v, model %v", n, w.ID, g.Seen, w.Seen)
			}
			if g.Size != w.Size || g.Subject != w.Subject || !g.Date.Equal(w.Date) || g.Mailbox != n {
				return fmt.Sprintf("mailbox %q message %s: metadata changed (size %d/%d subject %q/%q date %v/%v mailbox %q)",
					n, w.ID, g.Size, w.Size, g.Subject, w.Subject, g.Date, w.Date, g.Mailbox)
			}
		}
	}
	return ""
}

func snapIDs(l []sut.MsgSnap) []string {
	out := make([]string, len(l))
	for i, m := range l {
		out[i] = m.ID
	}
	return out
}

func modelIDs(l []*model.Msg) []string {
	out := make([]string, len(l))
	for i, m := range l {
		out[i] = m.ID
	}
	return out
}

func cloneModel(s *model.Store) *model.Store {
	c := model.New(s.Cap, s.Limit)
	for n, l := range s.Boxes {
		cl := make([]*model.Msg, len(l))
		for i, m := range l {
			mm := *m
			cl[i] = &mm
		}
		c.Boxes[n] = cl
	}
	for n, u := range s.Used {
		cu := make(map[string]bool, len(u))
		for k, v := range u {
			cu[k] = v
		}
		c.Used[n] = cu
	}
	return c
}
