package c14

import (
	"fmt"
	"strings"

	"verifharness/internal/fw"
	"verifharness/internal/gen"
)

// Characters a canonical local-part name can contain besides letters and digits.
const nameSpecials = "!#$%&'*-=/?^_`.{|}~"

// URL-significant characters the generator favours ('/' is handled separately).
const urlChars = "%?#&=.~'!$*"

var words = []string{"user", "bob", "alice", "a", "x1", "team", "q", "ops42", "m", "inbox", "zz9"}

// Whole names that look like URL syntax or like route words.
var wholeSpecials = []string{"%", "?", "#", "&", "=", "~", "'", "!", "$", "*", "-", "_", "^", "`", "{", "|", "}",
	"%41", "%2f", "%2e", "%25", "%00", "%zz", "a%", "%%", "a%2fb", "a%41b", "x%20y", "??", "?a=b", "a?b=c&d=e", "#frag", "a#b",
	"latest", "source", "html", "v1", "mailbox", "a&b", "k=v", "a.b", "a.b.c", "~user", "o'neil", "wow!", "$1", "*star*",
	"{a|b}", "back`tick", "c^ret", "0", "1", "-1"}

var slashNames = []string{"a/b", "/", "/a", "a/", "a//b", "a/./b", "x/source", "x/html", "a/b/c", "1/2", "%2f/%2f", "a/latest", "?/#"}

var nameDomains = []string{"alpha.test", "beta.test", "x-y.z9.test", "a_b.test", "sub.alpha.test", "localhost", "alpha.test.",
	"[192.168.1.5]", "[IPv6:2001:db8::1]", "1.2.3.4", "xn--bcher-kva.test"}

// localName draws a canonical local-part name.
func localName(r *fw.Rand) string {
	switch r.Weighted([]int{20, 40, 25, 15}) {
	case 0:
		return r.Pick(words)
	case 1:
		// a word with 1-3 URL-significant characters inserted
		w := r.Pick(words)
		k := r.Range(1, 3)
		for i := 0; i < k; i++ {
			p := r.Intn(len(w) + 1)
			w = w[:p] + string(urlChars[r.Intn(len(urlChars))]) + w[p:]
		}
		return w
	case 2:
		return r.Pick(wholeSpecials)
	default:
		// any mixture of the specials alphabet (without '/')
		n := r.Range(1, 6)
		b := make([]byte, n)
		for i := range b {
			al := "abc019" + strings.ReplaceAll(nameSpecials, "/", "")
			b[i] = al[r.Intn(len(al))]
		}
		return string(b)
	}
}

// candidateName draws a name for the naming mode; it may still be rejected by receivable.
func candidateName(r *fw.Rand, naming string) string {
	switch naming {
	case "local":
		return localName(r)
	case "full":
		return localName(r) + "@" + r.Pick(nameDomains)
	default:
		return r.Pick(nameDomains)
	}
}

// deliveryAddress builds an address whose M-naming name is n.
func deliveryAddress(r *fw.Rand, naming, n string) string {
	switch naming {
	case "local":
		local := n
		if r.Chance(1, 4) {
			local = gen.RandCase(r, local)
		}
		if ext := "+" + r.Pick([]string{"tag", "x", "a+b"}); r.Chance(1, 4) && len(local)+len(ext) <= maxLocalPart {
			local += ext
		}
		return local + "@" + r.Pick([]string{"alpha.test", "Beta.Test", "[192.168.1.5]"})
	case "full":
		at := strings.LastIndexByte(n, '@')
		local, dom := n[:at], n[at+1:]
		if r.Chance(1, 4) {
			local = gen.RandCase(r, local)
		}
		if ext := "+" + r.Pick([]string{"tag", "x"}); r.Chance(1, 4) && len(local)+len(ext) <= maxLocalPart {
			local += ext
		}
		if r.Chance(1, 4) {
			dom = gen.RandCase(r, dom)
		}
		return local + "@" + dom
	default:
		dom := n
		if r.Chance(1, 4) {
			dom = gen.RandCase(r, dom)
		}
		return r.Pick([]string{"user", "bob+tag", "o'neil", "a.b"}) + "@" + dom
	}
}

// spelling returns the name as used in a lookup: mostly canonical, sometimes another spelling
// that M-naming maps to the same mailbox.
//
// A long name (more than 60 characters) is looked up by its full address far more often, so that
// both ways of naming such a mailbox - bare and with a domain - are used for every operation; and
// "+Ext" is only appended where the local part stays within what RCPT accepts (a longer spelling
// is not an address that can receive mail, so nothing is demanded of it).
func spelling(r *fw.Rand, naming, n string) (s string, canonical bool) {
	if naming == "local" && len(n) > 60 && r.Chance(1, 3) {
		s = n
		if r.Chance(1, 3) {
			s = gen.RandCase(r, n)
		}
		return s + "@" + r.Pick([]string{"Lookup.Test", "alpha.test", "[192.168.1.5]"}), false
	}
	if !r.Chance(1, 6) {
		return n, true
	}
	switch naming {
	case "local":
		s = gen.RandCase(r, n)
		if r.Chance(1, 3) && len(s)+4 <= maxLocalPart {
			s += "+Ext"
		}
		if r.Chance(1, 3) {
			s += "@Lookup.Test"
		}
	case "full":
		at := strings.LastIndexByte(n, '@')
		local, dom := gen.RandCase(r, n[:at]), gen.RandCase(r, n[at+1:])
		if r.Chance(1, 3) && len(local)+4 <= maxLocalPart {
			local += "+Ext"
		}
		s = local + "@" + dom
	default:
		s = gen.RandCase(r, n)
		if r.Chance(1, 2) {
			s = "Some.One+x@" + s
		}
	}
	return s, s == n
}

// nameClass names the most URL-significant character of a mailbox name (for keys and signatures).
func nameClass(n string) string {
	if len(n) > 64 && !strings.Contains(n, "/") {
		return "long"
	}
	for _, c := range "/%?#&=;+'!$*~.@[:" {
		if strings.ContainsRune(n, c) {
			return string(c)
		}
	}
	for _, c := range n {
		if !(c >= 'a' && c <= 'z' || c >= '0' && c <= '9' || c >= 'A' && c <= 'Z') {
			return "other"
		}
	}
	return "plain"
}

// ---- long names (added after seeded change C14-12) ----
//
// The property quantifies over "every mailbox name that can receive mail".  RCPT accepts local
// parts of up to 128 characters (pkg/policy/address.go) and domains of up to 255, so mailboxes
// with names far longer than the short words above exist, and every API operation has to work for
// them by the bare name and by the full address alike.  About one history in four gets one long
// name: a local part of exactly 63, 64, 65, 100, 127 or 128 characters (local and full naming) or
// a domain of 63, 64, 65, 100, 200 or 253 characters (domain naming).  Such a name is qualified by
// what RCPT does with it alone (Policy.NewRecipient accepts the address and names this mailbox),
// NOT by the read-side lookup the other candidates are filtered with - the read side is what is
// under test - and the first delivery to it always goes through a real SMTP session, so that
// "can receive mail" is an observed fact of the history.
const maxLocalPart = 128

var (
	longLocalLens  = []int{63, 64, 65, 100, 127, 128}
	longDomainLens = []int{63, 64, 65, 100, 200, 253}
)

const alnumLower = "abcdefghijklmnopqrstuvwxyz0123456789"

// longLocal draws a canonical local-part name of exactly l characters: lower case, no '+', no
// '/', dots only single and inside.
func longLocal(r *fw.Rand, l int) string {
	al := alnumLower
	switch r.Intn(3) {
	case 1:
		al += alnumLower + ".-_"
	case 2:
		al += alnumLower + ".-_" + "%?#&=~'!$*"
	}
	b := make([]byte, l)
	for i := range b {
		c := al[r.Intn(len(al))]
		if c == '.' && (i == 0 || i == l-1 || b[i-1] == '.') {
			c = 'x'
		}
		b[i] = c
	}
	return string(b)
}

// longDomain draws a lower-case domain of exactly l characters with labels of 1-63 characters.
func longDomain(r *fw.Rand, l int) string {
	b := make([]byte, l)
	label := 0
	next := r.Range(1, 63)
	for i := range b {
		if label >= next && i < l-1 {
			b[i] = '.'
			label, next = 0, r.Range(1, 63)
			continue
		}
		b[i] = alnumLower[r.Intn(len(alnumLower))]
		label++
	}
	return string(b)
}

// longName draws the long name of a history and its length class.
func longName(r *fw.Rand, naming string) (string, int) {
	switch naming {
	case "local":
		l := longLocalLens[r.Intn(len(longLocalLens))]
		return longLocal(r, l), l
	case "full":
		l := longLocalLens[r.Intn(len(longLocalLens))]
		return longLocal(r, l) + "@" + r.Pick(nameDomains), l
	default:
		l := longDomainLens[r.Intn(len(longDomainLens))]
		return longDomain(r, l), l
	}
}

// genNames picks the 2-4 distinct mailboxes of a history; at most one contains '/', at most one
// is a long name.
func genNames(h *hist) []string {
	r := h.r
	want := r.Range(2, 4)
	slash := h.naming != "domain" && r.Chance(1, 7)
	long := r.Chance(1, 4)
	var names []string
	seen := map[string]bool{}
	for tries := 0; long && len(names) == 0 && tries < 8; tries++ {
		n, l := longName(r, h.naming)
		if seen[n] {
			continue
		}
		seen[n] = true
		if !h.rcptNames(n) {
			// full naming only: the domain pool holds domains RCPT refuses (a double hyphen)
			h.c.Count("candidate_names_not_receivable", 1)
			continue
		}
		names = append(names, n)
		h.long[n] = true
		h.c.Count("long_name_histories", 1)
		h.c.Count(fmt.Sprintf("long_name_len:%s/%d", h.naming, l), 1)
	}
	first := len(names)
	for tries := 0; len(names) < want && tries < 200; tries++ {
		n := candidateName(r, h.naming)
		if slash && len(names) == first {
			// the known-defect class D13: exactly one name of the history contains '/'
			n = r.Pick(slashNames)
			if h.naming == "full" {
				n += "@" + r.Pick(nameDomains)
			}
		}
		if seen[n] {
			continue
		}
		seen[n] = true
		if !h.receivable(n) {
			h.c.Count("candidate_names_not_receivable", 1)
			continue
		}
		names = append(names, n)
	}
	if len(names) < 2 {
		// domain naming has a small pool; never happens for the other modes
		for _, n := range []string{"fallback.test", "fallback2.test", "user", "bob"} {
			if len(names) < 2 && !seen[n] && h.receivable(n) {
				names = append(names, n)
			}
		}
	}
	return names
}

// receivable reports whether n is a canonical name that can receive mail: RCPT for an address
// built from it is accepted with mailbox n, and looking n up yields n again.
func (h *hist) receivable(n string) bool {
	if !h.rcptNames(n) {
		return false
	}
	again, err := h.we.Manager.MailboxForAddress(n)
	return err == nil && again == n
}

// rcptNames reports whether RCPT for an address built from n is accepted with mailbox n.
func (h *hist) rcptNames(n string) bool {
	var addr string
	switch h.naming {
	case "local":
		addr = n + "@alpha.test"
	case "full":
		addr = n
	default:
		addr = "user@" + n
	}
	rc, err := h.we.Policy.NewRecipient(addr)
	return err == nil && rc.Mailbox == n
}

// ---- messages ----

type gmsg struct {
	odd                           *oddShape // nil: well-formed single-part text/plain
	rawFrom, rawTo, subject, text string
	expFrom                       string
	expTo                         []string
	raw                           []byte
}

type hdrAddr struct{ raw, exp string }

var fromPool = []hdrAddr{
	{"alice@origin.test", "<alice@origin.test>"},
	{"Alice Sender <alice@origin.test>", "Alice Sender <alice@origin.test>"},
	{`"Doe, John" <jd@origin.test>`, "Doe, John <jd@origin.test>"},
	{"<bare@origin.test>", "<bare@origin.test>"},
}

var toPool = []hdrAddr{
	{"bob@dest.test", "<bob@dest.test>"},
	{"Bob R <bob.r@dest.test>", "Bob R <bob.r@dest.test>"},
	{"<carol@dest.test>", "<carol@dest.test>"},
	{`"Team, Ops" <ops@dest.test>`, "Team, Ops <ops@dest.test>"},
}

const textAlphabet = "abcdefghijklmnopqrstuvwxyz 0123456789,;!?"

// ---- odd messages (added after seeded change C14-11) ----
//
// The property speaks of "exactly what the store holds", and a store holds whatever it was
// handed: the SMTP path and StoreManager.Deliver only look at the From/To/Subject headers, and
// Store.AddMessage looks at nothing.  So about one delivery in five carries content that a MIME
// parser rejects or has to guess about, while From/To/Subject stay well-formed (they are what the
// model checks the stored metadata against).  Which shapes the unchanged tree stores through which
// path was measured: all of them through Deliver and the store; through SMTP all but a header line
// without a colon (451).  enmime.ReadEnvelope rejects the multipart types without a usable
// boundary parameter and accepts the rest.
//
// What is demanded for such a message: list, source, PATCH seen, DELETE, purge and their client
// equivalents behave exactly as for any other stored message.  What is not: the routes that
// render the PARSED message (REST show, web UI message/html, client GetMessage) may answer 500 for
// it - MIME decoding is not this property - but when they answer 200 the metadata must be the
// store's, and never 404 while the store holds the message.
type oddShape struct {
	name   string
	hdr    string // header lines inserted after the generated ones
	body   string // everything after the header lines (including the blank line, if any)
	noSMTP bool   // the SMTP path of the unchanged tree refuses it (451): delivered directly only
}

var oddShapes = []oddShape{
	// rejected by enmime.ReadEnvelope
	{name: "mp-no-boundary", hdr: "Content-Type: multipart/mixed\r\n", body: "\r\nbody\r\n"},
	{name: "mp-empty-boundary", hdr: "Content-Type: multipart/mixed; boundary=\"\"\r\n", body: "\r\nbody\r\n"},
	{name: "mp-boundary-no-value", hdr: "MIME-Version: 1.0\r\nContent-Type: multipart/mixed; boundary\r\n", body: "\r\nbody\r\n"},
	{name: "mp-alternative-no-boundary", hdr: "Content-Type: multipart/alternative; charset=utf-8\r\n", body: "\r\n--x\r\n\r\nbody\r\n--x--\r\n"},
	{name: "mp-report-no-boundary", hdr: "Content-Type: multipart/report; report-type=delivery-status\r\n", body: "\r\nbody\r\n"},
	// accepted by enmime, but odd
	{name: "mp-never-closed", hdr: "Content-Type: multipart/mixed; boundary=xyz\r\n", body: "\r\n--xyz\r\nContent-Type: text/plain\r\n\r\nhello\r\n"},
	{name: "mp-boundary-never-seen", hdr: "Content-Type: multipart/mixed; boundary=xyz\r\n", body: "\r\nno boundary line here\r\n"},
	{name: "mp-nested-no-boundary", hdr: "Content-Type: multipart/mixed; boundary=xyz\r\n", body: "\r\n--xyz\r\nContent-Type: multipart/alternative\r\n\r\ninner\r\n--xyz--\r\n"},
	{name: "cte-unknown", hdr: "Content-Type: text/plain\r\nContent-Transfer-Encoding: x-rot13\r\n", body: "\r\nobql\r\n"},
	{name: "cte-base64-garbage", hdr: "Content-Type: text/plain\r\nContent-Transfer-Encoding: base64\r\n", body: "\r\n!!!! not base64 @@@\r\n"},
	{name: "cte-qp-broken", hdr: "Content-Type: text/plain\r\nContent-Transfer-Encoding: quoted-printable\r\n", body: "\r\na=ZZb=\r\n=\r\n"},
	{name: "ct-garbage", hdr: "Content-Type: ;;;===\r\n", body: "\r\nbody\r\n"},
	{name: "ct-no-subtype", hdr: "Content-Type: text\r\n", body: "\r\nbody\r\n"},
	{name: "ct-unknown-charset", hdr: "Content-Type: text/plain; charset=x-klingon\r\n", body: "\r\nbody\r\n"},
	{name: "ct-twice", hdr: "Content-Type: text/plain\r\nContent-Type: multipart/mixed\r\n", body: "\r\nbody\r\n"},
	{name: "cd-garbage", hdr: "Content-Type: text/plain\r\nContent-Disposition: ;;; =\r\n", body: "\r\nbody\r\n"},
	{name: "hdr-empty-name", hdr: ": novalue\r\nX-More: 2\r\n", body: "\r\nbody\r\n"},
	{name: "hdr-8bit", hdr: "X-Bin: \xff\xfe\x80\r\n", body: "\r\nbody\r\n"},
	{name: "hdr-broken-encoded-word", hdr: "X-A: =?utf-8?Q?broken\r\n", body: "\r\nbody\r\n"},
	{name: "hdr-no-colon", hdr: "X-Fine: 1\r\nthis line has no colon\r\nX-More: 2\r\n", body: "\r\nbody\r\n", noSMTP: true},
	{name: "hdr-only", hdr: "X-Only: 1\r\n", body: ""},
	{name: "empty-body", hdr: "", body: "\r\n"},
	{name: "body-nul", hdr: "", body: "\r\nbo\x00dy\r\n"},
	{name: "body-long-line", hdr: "", body: "\r\n" + strings.Repeat("x", 5000) + "\r\n"},
}

// oddUnparseable is the number of leading oddShapes that enmime rejects (evidence only, no
// verdict depends on it).
const oddUnparseable = 5

func genMessage(r *fw.Rand, sender string, rcpts []string, odd *oddShape) gmsg {
	var m gmsg
	m.odd = odd
	var b strings.Builder
	if r.Chance(9, 10) {
		f := fromPool[r.Intn(len(fromPool))]
		m.rawFrom, m.expFrom = f.raw, f.exp
		b.WriteString("From: " + f.raw + "\r\n")
	} else {
		m.expFrom = "<" + sender + ">"
	}
	if r.Chance(9, 10) {
		k := r.Range(1, 3)
		var raws []string
		for i := 0; i < k; i++ {
			t := toPool[r.Intn(len(toPool))]
			raws = append(raws, t.raw)
			m.expTo = append(m.expTo, t.exp)
		}
		m.rawTo = strings.Join(raws, ", ")
		b.WriteString("To: " + m.rawTo + "\r\n")
	} else {
		for _, a := range rcpts {
			m.expTo = append(m.expTo, "<"+a+">")
		}
	}
	nw := r.Range(1, 4)
	var ws []string
	for i := 0; i < nw; i++ {
		ws = append(ws, r.Letters(r.Range(1, 8), "abcdefghijXYZ0123456789%?#&<>\"'/"))
	}
	m.subject = strings.Join(ws, " ")
	b.WriteString("Subject: " + m.subject + "\r\n")
	b.WriteString("X-Case: " + r.Letters(8, "0123456789abcdef") + "\r\n")
	if odd != nil {
		b.WriteString(odd.hdr)
		b.WriteString(odd.body)
		m.raw = []byte(b.String())
		return m
	}
	b.WriteString("\r\n")
	var body strings.Builder
	lines := r.Range(0, 5)
	for i := 0; i < lines; i++ {
		l := strings.TrimSpace(r.Letters(r.Range(1, 50), textAlphabet))
		if l == "" {
			l = "x"
		}
		body.WriteString(l + "\r\n")
	}
	m.text = body.String()
	b.WriteString(m.text)
	m.raw = []byte(b.String())
	return m
}

// ---- ids ----

var neverIDs = []string{"0", "999999", "-1", "20200101T000000-0001", "abc", "Latest", "00001", "1e3"}

// ids with URL-significant characters; none ever exists.  rawOnly ones are not handed to the Go
// client, which does not escape ids.
var urlIDs = []struct {
	id      string
	rawOnly bool
}{
	{"x?y", false}, {"x#y", false}, {"a;b", false}, {"a&b=c", false}, {"a b", false}, {"~", false}, {"'", false}, {"!*$", false},
	{"?", false}, {"#", false}, {"a+b", false}, {"@", false}, {"a:b", false},
	{"a%41", true}, {"%", true}, {"%zz", true}, {"%2e%2e", true}, {"x%2Fy", true}, {"a/zzz", true}, {"1/2/3", true}, {"%00", true},
}

// pickID chooses the id of a message operation on mailbox n.  class is one of existing-latest,
// existing-not-latest, removed, never, latest, urlchars.
func (h *hist) pickID(n string, forClient bool) (id, class string) {
	r := h.r
	l := h.m.List(n)
	for tries := 0; tries < 8; tries++ {
		switch r.Weighted([]int{55, 12, 11, 11, 11}) {
		case 0:
			if len(l) == 0 {
				continue
			}
			i := r.Intn(len(l))
			if len(l) > 1 && r.Chance(1, 2) {
				i = r.Intn(len(l) - 1) // favour messages that are not the newest
			}
			if i == len(l)-1 {
				return l[i].ID, "existing-latest"
			}
			return l[i].ID, "existing-not-latest"
		case 1:
			rm := h.removed[n]
			if len(rm) == 0 {
				continue
			}
			id = rm[r.Intn(len(rm))]
			if h.m.Get(n, id) != nil {
				continue
			}
			return id, "removed"
		case 2:
			id = r.Pick(neverIDs)
			if r.Chance(1, 3) {
				// an id that exists in another mailbox of this history
				o := h.names[r.Intn(len(h.names))]
				if ol := h.m.List(o); o != n && len(ol) > 0 {
					id = ol[r.Intn(len(ol))].ID
				}
			}
			if h.m.Get(n, id) != nil || !h.m.FreshID(n, id) {
				continue
			}
			return id, "never"
		case 3:
			return "latest", "latest"
		default:
			u := urlIDs[r.Intn(len(urlIDs))]
			if forClient && u.rawOnly {
				continue
			}
			return u.id, "urlchars"
		}
	}
	return "latest", "latest"
}
